import PetgraphModel.Spec.Serde
/-
C17 — run-time checks of the hypotheses of the property theorems (core Lean only: linked into the driver).

The round-trip theorems of `Theorems/C17.lean` speak about a state that satisfies the structural invariant
(`StableInv` / `GraphInv`, for a `GraphMap` the well-formedness of its two maps) below the capacity of its index type,
loaded from a stream that carries all fields.  Every one of these hypotheses has an executable Boolean here; the driver
evaluates it on the mirror-model state of every `ser` line and on every round-trip `de` line, and `Theorems/C17.lean`
(section "run-time checks of the hypotheses") proves `…B … = true → <hypothesis>`.

Also here: the two judges the driver applies to a serialization and to a round trip, as named functions (their
soundness theorems are `C17_judgeSer_sound` / `C17_judgeRoundTrip_sound`).
-/
namespace PetgraphModel.SerdeCheck
open PetgraphModel.Serde PetgraphModel.SerdeSpec

/-! ### linked lists -/

/-- the list of indices visited from `h` along `next[k]` until `END` (`none`: leaves the array or does not end) -/
def chainB (edges : List EdgeSlot) (END k : Nat) : Nat → Nat → Option (List Nat)
  | 0, _ => none
  | f + 1, h =>
    if h = END then some []
    else match edges[h]? with
      | none => none
      | some s =>
        match chainB edges END k f (s.next k) with
        | some l => some (h :: l)
        | none => none

/-- the doubly linked free-node list from `h` (predecessor `prev`): vacant slots, exact back pointers -/
def dchainB (nodes : List NodeSlot) (END : Nat) : Nat → Nat → Nat → Option (List Nat)
  | 0, _, _ => none
  | f + 1, prev, h =>
    if h = END then some []
    else match nodes[h]? with
      | none => none
      | some s =>
        if s.w.isNone && s.n1 == prev then
          match dchainB nodes END f h s.n0 with
          | some l => some (h :: l)
          | none => none
        else none

def nodupB : List Nat → Bool
  | [] => true
  | x :: xs => !xs.contains x && nodupB xs

/-- `p i x` for every element `x` at index `i` (indices from `j`) -/
def allIdx {α} (p : Nat → α → Bool) : Nat → List α → Bool
  | _, [] => true
  | j, x :: xs => p j x && allIdx p (j + 1) xs

/-- is `l` a duplicate-free list of exactly the indices whose slot satisfies `P`? -/
def exactB {α} (slots : List α) (P : α → Bool) (l : List Nat) : Bool :=
  nodupB l &&
  l.all (fun e => match slots[e]? with | some s => P s | none => false) &&
  allIdx (fun e s => !P s || l.contains e) 0 slots

def liveAtB (nodes : List NodeSlot) (i : Nat) : Bool :=
  match nodes[i]? with
  | some a => a.w.isSome
  | none => false

/-- the part of the invariant shared by `Graph` and `StableGraph` -/
def rawInvB (g : Raw) : Bool :=
  decide (g.nodes.length ≤ g.END) && decide (g.edges.length ≤ g.END) &&
  g.edges.all (fun s => !s.w.isSome || (liveAtB g.nodes s.src && liveAtB g.nodes s.tgt)) &&
  allIdx (fun i nd => !nd.w.isSome ||
    ((match chainB g.edges g.END 0 (g.edges.length + 1) nd.n0 with
      | some l => exactB g.edges (fun s => s.w.isSome && s.src == i) l
      | none => false) &&
     (match chainB g.edges g.END 1 (g.edges.length + 1) nd.n1 with
      | some l => exactB g.edges (fun s => s.w.isSome && s.tgt == i) l
      | none => false))) 0 g.nodes

def graphInvB (g : Raw) : Bool :=
  rawInvB g && g.nodes.all (fun nd => nd.w.isSome) && g.edges.all (fun s => s.w.isSome)

def stableInvB (s : Stable) : Bool :=
  rawInvB s.g &&
  (match chainB s.g.edges s.g.END 0 (s.g.edges.length + 1) s.freeEdge with
    | some l => exactB s.g.edges (fun e => e.w.isNone) l
    | none => false) &&
  (match dchainB s.g.nodes s.g.END (s.g.nodes.length + 1) s.g.END s.freeNode with
    | some l => exactB s.g.nodes (fun n => n.w.isNone) l
    | none => false) &&
  s.nodeCount == (s.g.nodes.filter (fun (n : NodeSlot) => n.w.isSome)).length &&
  s.edgeCount == (s.g.edges.filter (fun (e : EdgeSlot) => e.w.isSome)).length

def nodupIntB : List Int → Bool
  | [] => true
  | x :: xs => !xs.contains x && nodupIntB xs

def nodupKeyB : List (Int × Int) → Bool
  | [] => true
  | x :: xs => !xs.contains x && nodupKeyB xs

/-- the well-formedness `C17_roundtrip_map` asks of a `GraphMap` (what C03 proves of every reachable one) -/
def mapWfB (m : GMap) : Bool :=
  m.edges.all (fun ((a, b), _) => (m.nodes.map (·.1)).contains a && (m.nodes.map (·.1)).contains b) &&
  nodupIntB (m.nodes.map (·.1)) && nodupKeyB (m.edges.map (·.1)) &&
  m.edges.all (fun ((a, b), _) => m.directed || decide (a ≤ b))

/-- below the capacity of `u32` (D20 reaches `GraphMap` through `Graph<_,_,_,u32>`) -/
def mapCapB (m : GMap) : Bool := decide (m.nodes.length < 4294967295) && decide (m.edges.length < 4294967295)

/-- `StableGraph` with no vacancy below the bounds (the cross-loading clause) -/
def noVacancyB (s : Stable) : Bool :=
  (s.g.nodes.take s.nodeBound).all (fun n => n.w.isSome) && (s.g.edges.take s.edgeBound).all (fun e => e.w.isSome)

/-- below the capacity of the index type (D20: at `bound = END` the round trip fails) -/
def stableCapB (s : Stable) : Bool := decide (s.nodeBound < s.g.END) && decide (s.edgeBound < s.g.END)
def graphCapB (g : Raw) : Bool := decide (g.nodes.length < g.END) && decide (g.edges.length < g.END)

/-- the stream is below the capacity of the target's index type (at `count = END` a valid stream is refused: D20) -/
def wireCapB (END : Nat) (order : List Field) (w : Wire) : Bool :=
  decide (w.nodes.length + (effWire order w).holes.length < END) && decide (w.edges.length < END)

/-- all four fields arrive (any order) -/
def fullOrderB (order : List Field) : Bool :=
  order.contains .n && order.contains .h && order.contains .p && order.contains .e

/-- the three fields a `Graph` needs -/
def graphOrderB (order : List Field) : Bool :=
  order.contains .n && order.contains .p && order.contains .e

/-! ### the judges of a serialization and of a round trip -/

/-- does the stream a serializer produced denote exactly the abstract graph `spec` (vacancies only below the bounds)? -/
def judgeSer (spec : AGraph) (w : Wire) : Option String :=
  let full := [Field.n, .h, .p, .e]
  let kind := if spec.kind == .map then Kind.graph else spec.kind
  if !wireValid kind spec.END spec.directed full w then some "serialization is not a well-formed stream of its own type"
  else
    let a := absWire spec.kind spec.END spec.directed full w
    match spec.kind with
    | .map => if sameMultiset a.mnodes spec.mnodes && sameMultiset a.medges spec.medges then none
              else some "serialized GraphMap denotes a different graph"
    | _ => if sameMultiset a.nodes spec.nodes && sameMultiset a.edges spec.edges then none
           else some "serialized stream denotes a different graph (indices, weights or endpoints)"

/-- round trip: the loaded graph `a'` is the graph that was serialized (same indices, weights, endpoints, direction) -/
def judgeRoundTrip (src a' : AGraph) (directed : Bool) : Bool :=
  sameMultiset src.nodes a'.nodes && sameMultiset src.edges a'.edges && src.directed == directed

/-- the spec-level judgement of an observation of a `Graph` / `StableGraph` against the abstract graph `a`; on
    success the abstract state the observation shows (edge ids are re-read where the documentation leaves them open) -/
def judgeObs (a : AGraph) (o : Obs) : Except String AGraph :=
  match obsConsistent a.kind a.END a.directed o with
  | some why => .error why
  | none =>
    match obsMatches a o with
    | some why => .error why
    | none => .ok { a with edges := o.edges, looseEdgeIds := false }

def judgeMapObs (a : AGraph) (o : MapObs) : Except String AGraph :=
  match mapObsConsistent a.directed o with
  | some why => .error why
  | none =>
    match mapObsMatches a o with
    | some why => .error why
    | none => .ok a

/-- the round-trip clause on top of `judgeObs`: `src` is the abstract graph that was serialized -/
def judgeRT (src : Option AGraph) (kind : Kind) (directed : Bool) (a' : AGraph) : Except String AGraph :=
  match src with
  | some ssl =>
    if ssl.kind != .map && kind != .map then
      if judgeRoundTrip ssl a' directed then .ok a'
      else .error "round trip changed the graph (indices, weights, endpoints or direction)"
    else .ok a'
  | none => .ok a'

/-- a stream that IS a serialization: all four fields, nothing else, no vacancy beyond the bounds -/
def canonicalStream (ordS : String) (order : List Field) (wire : Wire) : Bool :=
  (ordS.length == 4 && order.length == 4 && order.contains .n && order.contains .h && order.contains .p && order.contains .e) &&
  (wire.edges.getLast? != some none &&
    (wire.holes.isEmpty || wire.holes.getLast? != some (wire.nodes.length + wire.holes.length - 1)))

end PetgraphModel.SerdeCheck
