import PetgraphModel.Model.Csr
import PetgraphModel.Model.AdjList
import PetgraphModel.Spec.AppendOnly
/-
C05 — the executable run-time checks of the hypotheses of the C05 theorems (core Lean only: the driver evaluates
them on every case it judges).  `Theorems/C05.lean`, section "run-time checks of the hypotheses", proves for each
check `hB … = true → H …`, so every judged case is provably inside the theorems' scope.

* `csrScopeB s g`  ⇒ `∃ R, Good s R ∧ Abs s R g`   (the hypotheses `Inv`, `Good`, `Abs` of the Csr theorems),
* `listScopeB s g` ⇒ `LAbs s g`                    (the hypothesis of the adj::List theorems),
* `capB m n`       ⇒ `m = 0 ∨ n ≤ m`               (`hcap` / `hn`: within the capacity of the index type),
* `ascB xs`        ⇒ `Asc xs`                      (strictly ascending slice: `C05_find_pos*`, the binary-search tests),
* `representableB m es` ⇒ every endpoint of `es` is a value of the index type (`C05_from_sorted_within_capacity`),
* `bsContractB xs x p` ⇔ the answer `p` meets the documented contract of `slice::binary_search` for `xs`, `x`
  (the spec-level judge of the `bsearch` lines).
-/
namespace PetgraphModel.C05Scope
open PetgraphModel PetgraphModel.AppendSpec

/-- the `row` vector of a list of rows: start offset of every row, then the total -/
def offsetsOf : Nat → List (List (Nat × Int)) → List Nat
  | acc, [] => [acc]
  | acc, r :: rs => acc :: offsetsOf (acc + r.length) rs

/-- the rows the abstract graph prescribes: ascending successor lists of the nodes `0..n-1` -/
def rowsOfSG (g : SG) : List (List (Nat × Int)) := (List.range g.n).map g.succ

/-- the Csr model state `s` is, vector for vector, the layout of the abstract graph `g` (and `g`'s edges only
mention existing nodes) -/
def csrScopeB (s : CsrM.State) (g : SG) : Bool :=
  let R := rowsOfSG g
  s.column == R.flatten.map (·.1) && s.edges == R.flatten.map (·.2) && s.row == offsetsOf 0 R &&
  g.nodes == s.nodeWeights && g.directed == s.directed && s.edgeCountQ == g.edgeCount &&
  (!s.directed || s.edgeCount == 0) &&
  g.edges.all fun e => decide (e.1.1 < g.n) && decide (e.1.2 < g.n)

/-- the row of node `a` the insertion log prescribes -/
def rowOfML (g : ML) (a : Nat) : List (Nat × Int) := (g.outOf a).map fun e => (e.tgt, e.w)

/-- the List model state `s` holds exactly the per-source subsequences of the log `g`, whose `k`-th edge out of `a`
carries the index `(a, k)` and whose sources exist -/
def listScopeB (s : AdjM.State) (g : ML) : Bool :=
  s.suc == (List.range g.n).map (rowOfML g) &&
  ((List.range g.n).all fun a =>
    (g.outOf a).map (·.id) == (List.range (g.outOf a).length).map fun k => (a, k)) &&
  g.edges.all fun e => decide (e.src < g.n)

/-- within the capacity of an index type with `m` values (`m = 0`: `usize`) -/
def capB (m n : Nat) : Bool := m == 0 || decide (n ≤ m)

/-- strictly ascending -/
def ascB : List Nat → Bool
  | [] => true
  | [_] => true
  | x :: y :: rest => decide (x < y) && ascB (y :: rest)

/-- sorted (`≤`), the precondition of `slice::binary_search` -/
def sortedB : List Nat → Bool
  | [] => true
  | [_] => true
  | x :: y :: rest => decide (x ≤ y) && sortedB (y :: rest)

/-- every endpoint is a value of the index type (what `NodeIndex<Ix>` arguments guarantee) -/
def representableB (m : Nat) (es : List (Nat × Nat × Int)) : Bool :=
  m == 0 || es.all fun e => decide (e.1 < m) && decide (e.2.1 < m)

/-- the documented contract of `slice::binary_search` on a sorted slice: `Ok(i)` ⇒ `xs[i] = x`;
`Err(i)` ⇒ `x` does not occur, `i ≤ len`, everything before `i` is `< x` and everything from `i` on is `> x`
(inserting at `i` keeps the order) -/
def bsContractB (xs : List Nat) (x : Nat) : CsrM.Pos → Bool
  | .found i => xs[i]? == some x
  | .absent i => decide (i ≤ xs.length) && (xs.take i).all (fun y => decide (y < x)) &&
      (xs.drop i).all (fun y => decide (x < y))

/-! ### `law …` lines (wave 6) -/

/-- `law <name> => ok | VIOLATED <why>` — a law the harness checked against the implementation itself (iterator
contract, trait views, `VisitMap` / `reset_map`, `clone_from`, `Default`, `Debug`): the only acceptable answer is `ok`;
anything else (a violation text, a panic inside the law, an unreadable answer) is a failing input of the property -/
def lawVerdict (name : List String) (impl : String) : String :=
  if impl == "ok" then "ok"
  else "SPECFAIL law [" ++ String.intercalate " " name ++ "] does not hold: " ++ impl

end PetgraphModel.C05Scope
