import PetgraphModel.Spec.Graph
/-
C12 — what "minimum spanning forest" means.  Core Lean only.

Everything is stated for *edge lists* (`List Edge`, parallel edges and self-loops allowed) read as
undirected multigraphs:

* `Conn F a b`     : `a` and `b` are joined by a walk over edges of `F`, direction ignored
                     (= `Reach` of `Spec/Graph.lean` in the undirected graph spanned by `F`);
* `Acyclic F`      : `F` contains no cycle — every edge of `F` is a bridge of `F`: removing one
                     occurrence of an edge disconnects its endpoints.  (A self-loop, a pair of parallel
                     edges and any longer cycle all violate this; a multigraph has no cycle iff every
                     edge is a bridge.)
* `Spanning E F`   : `F` connects whatever `E` connects;
* `SubMulti F E`   : `F` is a sub-multiset of `E`: `F` plus some rest `R` is a rearrangement of `E`;
* `SpanningForest E F` : `F` is a sub-multiset of `E`, acyclic and spanning;
* `weight F`       : sum of the edge weights;
* `IsRepSystem E V reps` : `reps` picks exactly one node of `V` from every connected component, so
                     `reps.length` is the number `c` of connected components of `(V, E)`.
-/
namespace PetgraphModel.MST
open PetgraphModel MGraph

/-- the undirected graph spanned by an edge list (its node list plays no role in connectivity) -/
def ug (F : List Edge) : MGraph := { directed := false, nodes := [], edges := F }

/-- joined by a walk over edges of `F`, direction ignored -/
def Conn (F : List Edge) (a b : Nat) : Prop := Reach (ug F) a b

/-- no cycle: every edge occurrence is a bridge -/
def Acyclic (F : List Edge) : Prop :=
  ∀ (l1 : List Edge) (e : Edge) (l2 : List Edge), F = l1 ++ e :: l2 → ¬ Conn (l1 ++ l2) e.src e.tgt

/-- `F` connects everything `E` connects -/
def Spanning (E F : List Edge) : Prop := ∀ a b, Conn E a b → Conn F a b

def weight (F : List Edge) : Int := (F.map (·.w)).sum

/-- `F` is a sub-multiset of `E` (each edge occurrence of `E` used at most once) -/
def SubMulti (F E : List Edge) : Prop := ∃ R, (F ++ R).Perm E

structure SpanningForest (E F : List Edge) : Prop where
  sub : SubMulti F E
  acyclic : Acyclic F
  spanning : Spanning E F

/-- `F` is a spanning forest of `E` of minimum total weight -/
def MinSpanningForest (E F : List Edge) : Prop :=
  SpanningForest E F ∧ ∀ F', SpanningForest E F' → weight F ≤ weight F'

/-- one representative per connected component of `(V, E)` -/
structure IsRepSystem (E : List Edge) (V reps : List Nat) : Prop where
  sub : ∀ r ∈ reps, r ∈ V
  nodup : reps.Nodup
  cover : ∀ x ∈ V, ∃ r ∈ reps, Conn E x r
  apart : ∀ r ∈ reps, ∀ s ∈ reps, Conn E r s → r = s

/-- a stream edge `(a, b, w)` denotes the abstract edge `e` (either orientation) -/
def Denotes (s : Nat × Nat × Int) (e : Edge) : Prop :=
  ((e.src = s.1 ∧ e.tgt = s.2.1) ∨ (e.src = s.2.1 ∧ e.tgt = s.1)) ∧ e.w = s.2.2

/-- element-wise: the i-th stream edge denotes the i-th edge of `M` -/
inductive DenotesAll : List (Nat × Nat × Int) → List Edge → Prop
  | nil : DenotesAll [] []
  | cons {s : Nat × Nat × Int} {e : Edge} {S : List (Nat × Nat × Int)} {M : List Edge} :
      Denotes s e → DenotesAll S M → DenotesAll (s :: S) (e :: M)

end PetgraphModel.MST
