import PetgraphModel.Model.VisitTable
/-
C06 (wave 5) — executable forms of the hypotheses of the adaptor theorems that concern the concrete case, evaluated by
the driver on every line it judges (`C06_stackOk_check` in Theorems/C06.lean: what passes is inside the theorems' scope).
Core Lean only.
-/
namespace PetgraphModel.C06Checks
open PetgraphModel.Visit

/-- `StackOk` (Proofs/VisitTable.lean): every edge predicate that is applied to an undirected view is independent of the
orientation an edge is reported in; `d` = the direction flag of the view the rest of the stack is applied to -/
def stackOkB : Bool → List Op → Bool
  | _, [] => true
  | d, op :: ops =>
    (match op with
      | .ef p => d || predSymmetric p
      | _ => true) && stackOkB (if op = .und then false else d) ops

end PetgraphModel.C06Checks
