/-
The abstract specification `MatrixGraph` (C04) is measured against: a *simple graph* on a finite
set of live node ids — a finite map from (ordered | unordered) pairs of live ids to weights and a
finite map from live ids to node weights.  Nothing here knows about matrices, capacities or id
recycling: `addNode` takes the id as an argument (the property only demands that it is not live).

The structure is executable (association lists) because the per-run judge of `Driver/C04.lean` runs
it on the *implementation's* answers; `Theorems/C04.lean` relates the mirror model to it.
-/
namespace PetgraphModel.MatrixSpec

structure G where
  directed : Bool
  /-- live ids with their weights (ids pairwise distinct) -/
  nodes : List (Nat × Int) := []
  /-- edges: normalised key ↦ weight (keys pairwise distinct, both endpoints live) -/
  edges : List ((Nat × Nat) × Int) := []
  deriving Repr, DecidableEq

/-- the key of the edge `a → b`: the ordered pair, or (undirected) the pair `(max, min)` -/
def key (directed : Bool) (a b : Nat) : Nat × Nat :=
  if directed then (a, b) else (max a b, min a b)

namespace G

def empty (directed : Bool) : G := { directed }

def live (g : G) (a : Nat) : Bool := g.nodes.any fun p => p.1 == a

def ids (g : G) : List Nat := g.nodes.map (·.1)

def nodeWeight (g : G) (a : Nat) : Option Int := (g.nodes.find? fun p => p.1 == a).map (·.2)

/-- weight of the edge `a → b` (undirected: between `a` and `b`), if present -/
def weight (g : G) (a b : Nat) : Option Int :=
  (g.edges.find? fun e => e.1 == key g.directed a b).map (·.2)

def hasEdge (g : G) (a b : Nat) : Bool := (g.weight a b).isSome

def nodeCount (g : G) : Nat := g.nodes.length
def edgeCount (g : G) : Nat := g.edges.length

/-- `id` must not be live -/
def addNode (g : G) (id : Nat) (w : Int) : G := { g with nodes := g.nodes ++ [(id, w)] }

/-- removing a node removes its incident edges -/
def removeNode (g : G) (a : Nat) : G :=
  { g with nodes := g.nodes.filter (fun p => p.1 != a),
           edges := g.edges.filter (fun e => e.1.1 != a && e.1.2 != a) }

def setNodeWeight (g : G) (a : Nat) (w : Int) : G :=
  { g with nodes := g.nodes.map fun p => if p.1 == a then (a, w) else p }

/-- add the edge or replace its weight -/
def setEdge (g : G) (a b : Nat) (w : Int) : G :=
  let k := key g.directed a b
  { g with edges := (k, w) :: g.edges.filter (fun e => e.1 != k) }

def removeEdge (g : G) (a b : Nat) : G :=
  let k := key g.directed a b
  { g with edges := g.edges.filter (fun e => e.1 != k) }

def clear (g : G) : G := { g with nodes := [], edges := [] }

/-- successors of `a` with the edge weights (undirected: all neighbours, a loop once) -/
def succ (g : G) (a : Nat) : List (Nat × Int) :=
  g.edges.filterMap fun e =>
    if e.1.1 == a then some (e.1.2, e.2)
    else if !g.directed && e.1.2 == a then some (e.1.1, e.2)
    else none

/-- predecessors of `a` with the edge weights -/
def pred (g : G) (a : Nat) : List (Nat × Int) :=
  g.edges.filterMap fun e =>
    if e.1.2 == a then some (e.1.1, e.2)
    else if !g.directed && e.1.1 == a then some (e.1.2, e.2)
    else none

/-- well-formedness: distinct ids, distinct normalised keys, endpoints live -/
def WF (g : G) : Prop :=
  (g.nodes.map (·.1)).Nodup ∧ (g.edges.map (·.1)).Nodup ∧
  ∀ e ∈ g.edges, g.live e.1.1 = true ∧ g.live e.1.2 = true ∧ e.1 = key g.directed e.1.1 e.1.2

end G

end PetgraphModel.MatrixSpec
