import PetgraphModel.Model.VisitTable
/-
C06 — what the property statement MEANS for one table:

* `AGraph` is the plain mathematical multigraph a table denotes (`abs`), with `reverse`, `symmetrise`,
  `induce`, `restrict` — the graphs the adaptors are required to present;
* `TableConsistent qs t` is the conjunction of the clauses of the statement, over the traits the view
  implements (a clause about an absent trait is vacuous), order-insensitive (`List.Perm`) because the
  statement does not fix iteration orders;
* every clause is decidable; `checkTable` is the executable judge and `checkTable_sound` (Theorems/C06.lean)
  says that what it accepts satisfies the specification.

`qs` is the list of query nodes: the live nodes of the BASE graph (for `NodeFiltered` a superset of the
view's own nodes; a filtered-out node has no incident edge in the induced graph, so the same clauses apply).
Core Lean only.
-/
namespace PetgraphModel.Visit

structure AGraph where
  directed : Bool
  nodes : List Nat
  edges : List ERef
  deriving DecidableEq, Repr

namespace AGraph
def reverse (g : AGraph) : AGraph := { g with edges := g.edges.map ERef.swap }
def symmetrise (g : AGraph) : AGraph := { g with directed := false }
def induce (p : Nat → Bool) (g : AGraph) : AGraph :=
  { g with nodes := g.nodes.filter p, edges := g.edges.filter fun e => p e.src && p e.tgt }
def restrict (q : ERef → Bool) (g : AGraph) : AGraph := { g with edges := g.edges.filter q }
end AGraph

/-- the graph a table denotes: `node_identifiers`, `edge_references`, `is_directed` -/
def abs (t : Table) : AGraph :=
  { directed := t.directed, nodes := t.ids.getD [], edges := t.erefs.getD [] }

/-- orientation-free form of an edge of an undirected graph (smaller endpoint first) -/
def normEdge (dir : Bool) (e : ERef) : ERef := if dir || decide (e.src ≤ e.tgt) then e else e.swap

/-- two abstract graphs are the same graph: same kind, same nodes, same edges — as multisets, and for
undirected graphs regardless of the orientation an edge happens to be written in -/
def AGraph.Same (g h : AGraph) : Prop :=
  g.directed = h.directed ∧ g.nodes.Perm h.nodes ∧
    (g.edges.map (normEdge g.directed)).Perm (h.edges.map (normEdge h.directed))

instance (g h : AGraph) : Decidable (g.Same h) := by unfold AGraph.Same; infer_instance

/-! ### documented conventions of the per-node iterators -/

def incident (a : Nat) (e : ERef) : Bool := e.src == a || e.tgt == a
/-- the reference with `a` as source / as target -/
def orientOut (a : Nat) (e : ERef) : ERef := if e.src = a then e else e.swap
def orientIn (a : Nat) (e : ERef) : ERef := if e.tgt = a then e else e.swap

/-- what `edges(a)` / `edges_directed(a, Outgoing)` must yield (as a multiset): directed — the edges with
source `a`, true endpoints; undirected — every incident edge once (a self-loop once), `a` reported as source -/
def expOut (dir : Bool) (er : List ERef) (a : Nat) : List ERef :=
  if dir then er.filter (fun e => e.src == a) else (er.filter (incident a)).map (orientOut a)

/-- `edges_directed(a, Incoming)`: directed — target `a`; undirected — every incident edge once, `a` as target -/
def expIn (dir : Bool) (er : List ERef) (a : Nat) : List ERef :=
  if dir then er.filter (fun e => e.tgt == a) else (er.filter (incident a)).map (orientIn a)

/-- `is_adjacent(a, b)`: an edge `a → b` exists (either orientation if undirected) -/
def expAdj (dir : Bool) (er : List ERef) (a b : Nat) : Bool :=
  er.any fun e => (e.src == a && e.tgt == b) || (!dir && e.src == b && e.tgt == a)

/-! ### clauses -/

/-- `P x` for the value of a present field; vacuous for an absent one -/
def whenSome {α : Type} (o : Option α) (P : α → Prop) : Prop := ∀ x, o = some x → P x

instance {α : Type} (o : Option α) (P : α → Prop) [∀ x, Decidable (P x)] : Decidable (whenSome o P) :=
  match o with
  | none => isTrue (by intro x h; cases h)
  | some x => decidable_of_iff (P x) ⟨fun h y hy => by cases hy; exact h, fun h => h x rfl⟩

/-- rows are given for exactly the query nodes, and row `a` is, as a multiset, what `f a` prescribes -/
def rowsMatch {α : Type} (qs : List Nat) (r : Rows α) (f : Nat → List α) : Prop :=
  r.map (·.1) = qs ∧ ∀ a ∈ qs, (rowOf r a).Perm (f a)

instance {α : Type} [DecidableEq α] (qs : List Nat) (r : Rows α) (f : Nat → List α) : Decidable (rowsMatch qs r f) := by
  unfold rowsMatch; infer_instance

/-- node_identifiers: each live node once, `node_count` of them, all among the query nodes -/
def idsOk (qs : List Nat) (t : Table) : Prop :=
  whenSome t.ids fun ids => ids.Nodup ∧ (∀ a ∈ ids, a ∈ qs) ∧ whenSome t.nodeCount fun n => ids.length = n

/-- node_references: the same nodes -/
def refsOk (t : Table) : Prop :=
  whenSome t.ids fun ids => whenSome t.refs fun r => (r.map (·.1)).Perm ids

/-- a recorded index exists and is below the bound -/
def optBelow (o : Option Nat) (b : Nat) : Prop :=
  match o with
  | some i => i < b
  | none => False

instance (o : Option Nat) (b : Nat) : Decidable (optBelow o b) := by
  unfold optBelow; split <;> infer_instance

/-- a recorded (index, id returned by `from_index`) exists, the index is below the bound and the id is `k` -/
def optRound (o : Option (Nat × Nat)) (k b : Nat) : Prop :=
  match o with
  | some x => x.1 < b ∧ x.2 = k
  | none => False

instance (o : Option (Nat × Nat)) (k b : Nat) : Decidable (optRound o k b) := by
  unfold optRound; split <;> infer_instance

/-- `to_index` below `node_bound`, injective on the live nodes, `from_index` its inverse -/
def indexOk (t : Table) : Prop :=
  whenSome t.ids fun ids =>
    (∀ a ∈ ids, optBelow (t.toIx.lookup a) t.nodeBound) ∧
    (ids.map fun a => t.toIx.lookup a).Nodup ∧
    (∀ a ∈ ids, t.fromIx.lookup a = some a)

/-- compact-indexable: the indices are exactly `0..node_bound` -/
def compactOk (t : Table) : Prop :=
  t.compact = true → whenSome t.ids fun ids =>
    (ids.map fun a => (t.toIx.lookup a).getD t.nodeBound).Perm (List.range t.nodeBound)

/-- edge_references: each edge once, `edge_count` of them, endpoints live -/
def erefsOk (t : Table) : Prop :=
  whenSome t.erefs fun er =>
    (er.map (·.id)).Nodup ∧ (whenSome t.edgeCount fun n => er.length = n) ∧
    whenSome t.ids fun ids => ∀ e ∈ er, e.src ∈ ids ∧ e.tgt ∈ ids

/-- EdgeIndexable: `to_index` below `edge_bound`, `from_index` its inverse (on every listed edge) -/
def eixOk (t : Table) : Prop :=
  whenSome t.erefs fun er => whenSome t.eix fun l => whenSome t.edgeBound fun eb =>
    ∀ e ∈ er, optRound (l.lookup e.id) e.id eb

def nbrsOk (qs : List Nat) (t : Table) : Prop :=
  whenSome t.erefs fun er => whenSome t.nbrs fun r => rowsMatch qs r fun a => (expOut t.directed er a).map (·.tgt)
def nbrsOutOk (qs : List Nat) (t : Table) : Prop :=
  whenSome t.erefs fun er => whenSome t.nbrsOut fun r => rowsMatch qs r fun a => (expOut t.directed er a).map (·.tgt)
def nbrsInOk (qs : List Nat) (t : Table) : Prop :=
  whenSome t.erefs fun er => whenSome t.nbrsIn fun r => rowsMatch qs r fun a => (expIn t.directed er a).map (·.src)
def edgesOk (qs : List Nat) (t : Table) : Prop :=
  whenSome t.erefs fun er => whenSome t.edges fun r => rowsMatch qs r (expOut t.directed er)
def edgesOutOk (qs : List Nat) (t : Table) : Prop :=
  whenSome t.erefs fun er => whenSome t.edgesOut fun r => rowsMatch qs r (expOut t.directed er)
def edgesInOk (qs : List Nat) (t : Table) : Prop :=
  whenSome t.erefs fun er => whenSome t.edgesIn fun r => rowsMatch qs r (expIn t.directed er)

/-- `is_adjacent(&adjacency_matrix(), a, b)` for every ordered pair of query nodes -/
def adjOk (qs : List Nat) (t : Table) : Prop :=
  whenSome t.erefs fun er => whenSome t.adj fun r =>
    r.map (·.1) = qs ∧ ∀ a ∈ qs, ∀ b ∈ qs, (b ∈ rowOf r a ↔ expAdj t.directed er a b = true)

/-- the property statement for one view -/
structure TableConsistent (qs : List Nat) (t : Table) : Prop where
  ids : idsOk qs t
  refs : refsOk t
  index : indexOk t
  compact : compactOk t
  erefs : erefsOk t
  eix : eixOk t
  nbrs : nbrsOk qs t
  nbrsOut : nbrsOutOk qs t
  nbrsIn : nbrsInOk qs t
  edges : edgesOk qs t
  edgesOut : edgesOutOk qs t
  edgesIn : edgesInOk qs t
  adj : adjOk qs t

instance (qs : List Nat) (t : Table) : Decidable (idsOk qs t) := by unfold idsOk; infer_instance
instance (t : Table) : Decidable (refsOk t) := by unfold refsOk; infer_instance
instance (t : Table) : Decidable (indexOk t) := by unfold indexOk; infer_instance
instance (t : Table) : Decidable (compactOk t) := by unfold compactOk; infer_instance
instance (t : Table) : Decidable (erefsOk t) := by unfold erefsOk; infer_instance
instance (t : Table) : Decidable (eixOk t) := by unfold eixOk; infer_instance
instance (qs : List Nat) (t : Table) : Decidable (nbrsOk qs t) := by unfold nbrsOk; infer_instance
instance (qs : List Nat) (t : Table) : Decidable (nbrsOutOk qs t) := by unfold nbrsOutOk; infer_instance
instance (qs : List Nat) (t : Table) : Decidable (nbrsInOk qs t) := by unfold nbrsInOk; infer_instance
instance (qs : List Nat) (t : Table) : Decidable (edgesOk qs t) := by unfold edgesOk; infer_instance
instance (qs : List Nat) (t : Table) : Decidable (edgesOutOk qs t) := by unfold edgesOutOk; infer_instance
instance (qs : List Nat) (t : Table) : Decidable (edgesInOk qs t) := by unfold edgesInOk; infer_instance
instance (qs : List Nat) (t : Table) : Decidable (adjOk qs t) := by unfold adjOk; infer_instance

/-- the executable judge: names of the violated clauses (empty = consistent) -/
def checkTableWhy (qs : List Nat) (t : Table) : List String :=
  (if idsOk qs t then [] else ["node_identifiers: each live node once / node_count"]) ++
  (if refsOk t then [] else ["node_references differ from node_identifiers"]) ++
  (if indexOk t then [] else ["to_index/from_index: bound, injectivity or round trip"]) ++
  (if compactOk t then [] else ["compact: indices are not exactly 0..node_bound"]) ++
  (if erefsOk t then [] else ["edge_references: each edge once / edge_count / live endpoints"]) ++
  (if eixOk t then [] else ["EdgeIndexable: bound or round trip"]) ++
  (if nbrsOk qs t then [] else ["neighbors"]) ++
  (if nbrsOutOk qs t then [] else ["neighbors_directed(Outgoing)"]) ++
  (if nbrsInOk qs t then [] else ["neighbors_directed(Incoming)"]) ++
  (if edgesOk qs t then [] else ["edges"]) ++
  (if edgesOutOk qs t then [] else ["edges_directed(Outgoing)"]) ++
  (if edgesInOk qs t then [] else ["edges_directed(Incoming)"]) ++
  (if adjOk qs t then [] else ["is_adjacent"])

def checkTable (qs : List Nat) (t : Table) : Bool := (checkTableWhy qs t).isEmpty

/-! ### what each adaptor is required to present -/

def specOp (op : Op) (g : AGraph) : AGraph :=
  match op with
  | .ref | .frozen | .frozenOwned => g
  | .rev => g.reverse
  | .und => g.symmetrise
  | .nf m => g.induce (inMask m)
  | .ef p => g.restrict (evalPred p)

def specStack (ops : List Op) (g : AGraph) : AGraph := ops.foldl (fun g op => specOp op g) g

end PetgraphModel.Visit
