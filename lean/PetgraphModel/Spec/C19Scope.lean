import PetgraphModel.Model.UnionFind
/-
C19 — the executable side of the hypotheses of the property theorems (core Lean only: linked into
the driver).  The theorems of `Theorems/C19.lean` quantify over histories that stay within the
capacity of the index type (`Fits`, `n ≤ modulus`, `len < modulus` before a `new_set`); these are the
Booleans the driver evaluates on every line it judges, so that every judged case is provably inside
the theorems' scope (`C19_*_check`).  They restrict the generated INPUT only.
-/
namespace PetgraphModel.C19Scope
open PetgraphModel.UF

/-- `new(n)` stays within the capacity of the index type (`modulus = 0` is `usize`: no limit) -/
def newFitsB (modulus n : Nat) : Bool := modulus == 0 || decide (n ≤ modulus)

/-- a call stays within capacity: only `new_set` grows the structure, and it must find room -/
def stepFitsB (s : State) : Op → Bool
  | .newSet => s.modulus == 0 || decide (s.len < s.modulus)
  | _ => true

/-- `k` times `new_set` (the driver's `grow k`) stays within capacity -/
def growFitsB (s : State) (k : Nat) : Bool := s.modulus == 0 || decide (s.len + k ≤ s.modulus)

/-- the check the driver performs along a whole history: `stepFitsB` before every call -/
def runFitsB (s : State) : List Op → Bool
  | [] => true
  | op :: ops => stepFitsB s op && runFitsB (step s op).1 ops

/-- the element count up to which a `u8` rank provably cannot overflow (`C19_rank_u8`) -/
def rankWidthLimit : Nat := 2 ^ 256

def rankWidthB (s : State) : Bool := decide (s.len < rankWidthLimit)

/-- the driver's `grow k`: `k` times `new_set` -/
def grow (s : State) (k : Nat) : State :=
  (List.range k).foldl (fun u _ => (step u .newSet).1) s

/-- ranks of the model state (compared with the `rank` vector the implementation's `Debug` prints) -/
def ranks (s : State) : List Nat := s.rank

end PetgraphModel.C19Scope
