import PetgraphModel.Spec.StableGraphSpec
/-
C02, wave 4: the OBSERVATIONS of the reference multigraph.

`StableGraphSpec.lean` has the state (two partial maps) and the transitions of the reference machine.  This file adds the
query alphabet (`Query`), the answers (`QOut`), and — purely in terms of the two partial maps — which answer the reference
admits for which query: `SpecQuery sp q out` (a `Prop`; iterators are determined up to order, the endpoints of an undirected
edge up to swapping) and its executable twin `specQueryB` which the driver runs on every IMPLEMENTATION answer.
Also the vocabulary of the panicking call variants (`PCall`, `POut`), of the constructors (`Ctor`, `Elem`) and the
deterministic parts of their reference semantics.

Core Lean only (linked into the driver).
-/
namespace PetgraphModel.SGSpec

/-- an edge reference as a tuple `(id, source, target, weight)` -/
abbrev ERefT := Nat × Nat × Nat × Int

/-- which adjacency lists an iterator walks -/
inductive Mode where
  | out | inn | both
  deriving DecidableEq, Repr

/-- one incident edge as seen from node `a`: `(edge id, edge, seen from its target side)` -/
abbrev IncItem := Nat × SEdge × Bool

def incItem (a : Nat) (m : Mode) (id : Nat) (e : SEdge) : Option IncItem :=
  match m with
  | .out => if e.a = a then some (id, e, false) else none
  | .inn => if e.b = a then some (id, e, true) else none
  | .both => if e.a = a then some (id, e, false) else if e.b = a then some (id, e, true) else none

/-- the live edges incident to `a` in mode `m`, ascending edge id; a self-loop is listed once in mode `both` -/
def Spec.incRaw (sp : Spec) (a : Nat) (m : Mode) : List IncItem :=
  sp.edgeRefs.filterMap fun p => incItem a m p.1 p.2

/-- the mode of a direction-`k` iterator (`0` outgoing, `1` incoming, `≥ 2` both): an undirected graph always walks both
lists -/
def Spec.modeOf (sp : Spec) (k : Nat) : Mode :=
  if sp.directed then (if k = 0 then .out else if k = 1 then .inn else .both) else .both

/-- the endpoint of the item that is not the node the iteration started from -/
def IncItem.other (it : IncItem) : Nat := if it.2.2 then it.2.1.a else it.2.1.b

def dirK (dirIn : Bool) : Nat := if dirIn then 1 else 0

/-- `neighbors_directed(a, k)` / `neighbors_undirected(a)` (`k = 2`) in the reference -/
def Spec.neighborsOf (sp : Spec) (a k : Nat) : List Nat := (sp.incRaw a (sp.modeOf k)).map IncItem.other

/-- the detached walker: `(edge, other endpoint)` -/
def Spec.walkOf (sp : Spec) (a k : Nat) : List (Nat × Nat) :=
  (sp.incRaw a (sp.modeOf k)).map fun it => (it.1, it.other)

/-- `edges_directed(a, dir)`: in a directed graph the edge as stored; in an undirected graph the reference is oriented so
that `a` is the source (`Outgoing`) resp. the target (`Incoming`) -/
def Spec.edgesOf (sp : Spec) (a : Nat) (dirIn : Bool) : List ERefT :=
  (sp.incRaw a (sp.modeOf (dirK dirIn))).map fun it =>
    if sp.directed then (it.1, it.2.1.a, it.2.1.b, it.2.1.w)
    else if dirIn then (it.1, it.other, a, it.2.1.w) else (it.1, a, it.other, it.2.1.w)

/-- the live edges leading from `a` to `b` (connecting them, if undirected), reported as `(id, a, b, w)` -/
def Spec.connecting (sp : Spec) (a b : Nat) : List ERefT :=
  (sp.edgeRefs.filter fun p => sp.connects p.2 a b).map fun p => (p.1, a, b, p.2.w)

/-- `externals(dir)`: live nodes without an incident edge in that mode -/
def Spec.externalsOf (sp : Spec) (dirIn : Bool) : List Nat :=
  sp.nodeIds.filter fun i => (sp.incRaw i (sp.modeOf (dirK dirIn))).isEmpty

/-- canonical form of an endpoint pair: ordered if the graph is undirected -/
def Spec.canon (sp : Spec) (p : Nat × Nat) : Nat × Nat := if sp.directed || p.1 ≤ p.2 then p else (p.2, p.1)

def Spec.canonRef (sp : Spec) (r : ERefT) : ERefT :=
  let c := sp.canon (r.2.1, r.2.2.1)
  (r.1, c.1, c.2, r.2.2.2)

def Spec.allRefs (sp : Spec) : List ERefT := sp.edgeRefs.map fun p => (p.1, p.2.a, p.2.b, p.2.w)

/-- `find_edge_undirected(a, b)` answered edge `x` with direction flag `d` (`true`: found as an incoming edge of `a`): in a
directed graph the flag tells the orientation; in an undirected graph the stored orientation is not observable otherwise, so
only "`x` connects `a` and `b`" is determined -/
def Spec.between (sp : Spec) (x : SEdge) (a b : Nat) (d : Bool) : Bool :=
  if sp.directed then (if d then x.a == b && x.b == a else x.a == a && x.b == b)
  else (x.a == a && x.b == b) || (x.a == b && x.b == a)

/-! ### the query alphabet -/

inductive Query where
  | nodeCount | edgeCount | nodeBound | edgeBound
  | nodeIndices | edgeIndices | nodeReferences | edgeReferences
  | nodeWeight (a : Nat) | containsNode (a : Nat) | edgeWeight (e : Nat) | edgeEndpoints (e : Nat)
  | neighbors (a : Nat) | neighborsDirected (a : Nat) (dirIn : Bool) | neighborsUndirected (a : Nat)
  | edges (a : Nat) | edgesDirected (a : Nat) (dirIn : Bool)
  /-- `neighbors_directed(a, k).detach()` for `k < 2`, `neighbors_undirected(a).detach()` otherwise, run to exhaustion -/
  | walker (a k : Nat)
  | externals (dirIn : Bool)
  | findEdge (a b : Nat) | findEdgeUndirected (a b : Nat) | containsEdge (a b : Nat) | edgesConnecting (a b : Nat)
  deriving Repr, DecidableEq

inductive QOut where
  | nat (n : Nat)
  | nats (l : List Nat)
  | nodeRefs (l : List (Nat × Int))
  | erefs (l : List ERefT)
  | pairs (l : List (Nat × Nat))
  | optInt (o : Option Int)
  | bool (b : Bool)
  | optPair (o : Option (Nat × Nat))
  | optNat (o : Option Nat)
  /-- `find_edge_undirected`: the edge and `true` iff it was found as an INCOMING edge of `a` -/
  | optDir (o : Option (Nat × Bool))
  deriving Repr, DecidableEq

/-- **what the reference multigraph admits as the answer of a query.**  Counts and bounds are determined; every iterator is
determined up to the order of its items (`List.Perm`); the endpoint order of an undirected edge in `edge_references` /
`edge_endpoints` is not determined (`canon`); `find_edge*` may answer ANY live edge that connects, and `None` only if there
is none. -/
def SpecQuery (sp : Spec) : Query → QOut → Prop
  | .nodeCount, .nat n => n = sp.nodeCount
  | .edgeCount, .nat n => n = sp.edgeCount
  | .nodeBound, .nat n => n = sp.nodeBound
  | .edgeBound, .nat n => n = sp.edgeBound
  | .nodeIndices, .nats l => l.Perm sp.nodeIds
  | .edgeIndices, .nats l => l.Perm sp.edgeIds
  | .nodeReferences, .nodeRefs l => l.Perm sp.nodeRefs
  | .edgeReferences, .erefs l => (l.map sp.canonRef).Perm (sp.allRefs.map sp.canonRef)
  | .nodeWeight a, .optInt o => o = sp.node a
  | .containsNode a, .bool b => b = sp.nodeLive a
  | .edgeWeight e, .optInt o => o = (sp.edge e).map (·.w)
  | .edgeEndpoints e, .optPair o => o.map sp.canon = (sp.edge e).map fun x => sp.canon (x.a, x.b)
  | .neighbors a, .nats l => l.Perm (sp.neighborsOf a 0)
  | .neighborsDirected a d, .nats l => l.Perm (sp.neighborsOf a (dirK d))
  | .neighborsUndirected a, .nats l => l.Perm (sp.neighborsOf a 2)
  | .edges a, .erefs l => l.Perm (sp.edgesOf a false)
  | .edgesDirected a d, .erefs l => l.Perm (sp.edgesOf a d)
  | .walker a k, .pairs l => l.Perm (sp.walkOf a k)
  | .externals d, .nats l => l.Perm (sp.externalsOf d)
  | .findEdge a b, .optNat o =>
    match o with
    | some e => ∃ x, sp.edge e = some x ∧ sp.connects x a b = true
    | none => ∀ p ∈ sp.edgeRefs, sp.connects p.2 a b = false
  | .containsEdge a b, .bool r => r = sp.edgeRefs.any fun p => sp.connects p.2 a b
  | .findEdgeUndirected a b, .optDir o =>
    match o with
    | some (e, d) => ∃ x, sp.edge e = some x ∧ sp.between x a b d = true
    | none => ∀ p ∈ sp.edgeRefs, ¬ (p.2.a = a ∧ p.2.b = b) ∧ ¬ (p.2.a = b ∧ p.2.b = a)
  | .edgesConnecting a b, .erefs l => l.Perm (sp.connecting a b)
  | _, _ => False

/-- the executable twin of `SpecQuery` (`Theorems/C02.lean`: `C02_query_judge_iff`) — this is what the driver runs on the
implementation's answers -/
def specQueryB (sp : Spec) : Query → QOut → Bool
  | .nodeCount, .nat n => n == sp.nodeCount
  | .edgeCount, .nat n => n == sp.edgeCount
  | .nodeBound, .nat n => n == sp.nodeBound
  | .edgeBound, .nat n => n == sp.edgeBound
  | .nodeIndices, .nats l => l.isPerm sp.nodeIds
  | .edgeIndices, .nats l => l.isPerm sp.edgeIds
  | .nodeReferences, .nodeRefs l => l.isPerm sp.nodeRefs
  | .edgeReferences, .erefs l => (l.map sp.canonRef).isPerm (sp.allRefs.map sp.canonRef)
  | .nodeWeight a, .optInt o => o == sp.node a
  | .containsNode a, .bool b => b == sp.nodeLive a
  | .edgeWeight e, .optInt o => o == (sp.edge e).map (·.w)
  | .edgeEndpoints e, .optPair o => o.map sp.canon == (sp.edge e).map fun x => sp.canon (x.a, x.b)
  | .neighbors a, .nats l => l.isPerm (sp.neighborsOf a 0)
  | .neighborsDirected a d, .nats l => l.isPerm (sp.neighborsOf a (dirK d))
  | .neighborsUndirected a, .nats l => l.isPerm (sp.neighborsOf a 2)
  | .edges a, .erefs l => l.isPerm (sp.edgesOf a false)
  | .edgesDirected a d, .erefs l => l.isPerm (sp.edgesOf a d)
  | .walker a k, .pairs l => l.isPerm (sp.walkOf a k)
  | .externals d, .nats l => l.isPerm (sp.externalsOf d)
  | .findEdge a b, .optNat o =>
    match o with
    | some e => (match sp.edge e with | some x => sp.connects x a b | none => false)
    | none => sp.edgeRefs.all fun p => !sp.connects p.2 a b
  | .containsEdge a b, .bool r => r == sp.edgeRefs.any fun p => sp.connects p.2 a b
  | .findEdgeUndirected a b, .optDir o =>
    match o with
    | some (e, d) => (match sp.edge e with | some x => sp.between x a b d | none => false)
    | none => sp.edgeRefs.all fun p => !(p.2.a == a && p.2.b == b) && !(p.2.a == b && p.2.b == a)
  | .edgesConnecting a b, .erefs l => l.isPerm (sp.connecting a b)
  | _, _ => false

/-- the answer the reference would give if it listed everything in ascending edge / node index (used for messages and as a
canonical representative; `find_edge*` pick the smallest connecting edge) -/
def specAnswer (sp : Spec) : Query → QOut
  | .nodeCount => .nat sp.nodeCount
  | .edgeCount => .nat sp.edgeCount
  | .nodeBound => .nat sp.nodeBound
  | .edgeBound => .nat sp.edgeBound
  | .nodeIndices => .nats sp.nodeIds
  | .edgeIndices => .nats sp.edgeIds
  | .nodeReferences => .nodeRefs sp.nodeRefs
  | .edgeReferences => .erefs sp.allRefs
  | .nodeWeight a => .optInt (sp.node a)
  | .containsNode a => .bool (sp.nodeLive a)
  | .edgeWeight e => .optInt ((sp.edge e).map (·.w))
  | .edgeEndpoints e => .optPair ((sp.edge e).map fun x => (x.a, x.b))
  | .neighbors a => .nats (sp.neighborsOf a 0)
  | .neighborsDirected a d => .nats (sp.neighborsOf a (dirK d))
  | .neighborsUndirected a => .nats (sp.neighborsOf a 2)
  | .edges a => .erefs (sp.edgesOf a false)
  | .edgesDirected a d => .erefs (sp.edgesOf a d)
  | .walker a k => .pairs (sp.walkOf a k)
  | .externals d => .nats (sp.externalsOf d)
  | .findEdge a b => .optNat ((sp.edgeRefs.find? fun p => sp.connects p.2 a b).map (·.1))
  | .containsEdge a b => .bool (sp.edgeRefs.any fun p => sp.connects p.2 a b)
  | .findEdgeUndirected a b =>
    .optDir ((sp.edgeRefs.findSome? fun p =>
      if p.2.a = a ∧ p.2.b = b then some (p.1, false) else if p.2.a = b ∧ p.2.b = a then some (p.1, true) else none))
  | .edgesConnecting a b => .erefs (sp.connecting a b)

/-! ### the panicking call variants and the constructors (vocabulary) -/

/-- the public calls that are documented to PANIC instead of answering `Err`/`None` -/
inductive PCall where
  | addNode (w : Int)
  | addEdge (a b : Nat) (w : Int)
  | updateEdge (a b : Nat) (w : Int)
  /-- `g[NodeIndex]` -/
  | indexNode (a : Nat)
  | indexEdge (e : Nat)
  /-- `g[NodeIndex] = w` -/
  | indexMutNode (a : Nat) (w : Int)
  | indexMutEdge (e : Nat) (w : Int)
  /-- `index_twice_mut(i, j)` followed by the two assignments; `n1`/`n2`: the index is a node index -/
  | indexTwice (n1 n2 : Bool) (i j : Nat) (w1 w2 : Int)
  deriving Repr, DecidableEq

inductive POut where
  | idx (i : Nat)
  | weight (w : Int)
  | unit
  | panic
  deriving Repr, DecidableEq

/-- is element `i` of the kind (`true` node / `false` edge) live? -/
def Spec.has (sp : Spec) (isNode : Bool) (i : Nat) : Bool := if isNode then sp.nodeLive i else sp.edgeLive i

def Spec.setWeight (sp : Spec) (isNode : Bool) (i : Nat) (w : Int) : Spec :=
  if isNode then sp.setNodeWeight i w else sp.setEdgeWeight i w

/-- does some live edge lead from `a` to `b` (connect them, if undirected)? -/
def Spec.hasConn (sp : Spec) (a b : Nat) : Bool := sp.edgeRefs.any fun p => sp.connects p.2 a b

/-- **the documented panic condition** of a panicking call in reference state `sp` (`fin` = number of valid indices) -/
def Spec.panics (sp : Spec) (fin : Nat) : PCall → Bool
  | .addNode _ => sp.nodeCount == fin
  | .addEdge a b _ => !sp.nodeLive a || !sp.nodeLive b || sp.edgeCount == fin
  | .updateEdge a b _ => !sp.hasConn a b && (!sp.nodeLive a || !sp.nodeLive b || sp.edgeCount == fin)
  | .indexNode a => !sp.nodeLive a
  | .indexEdge e => !sp.edgeLive e
  | .indexMutNode a _ => !sp.nodeLive a
  | .indexMutEdge e _ => !sp.edgeLive e
  | .indexTwice n1 n2 i j _ _ => (n1 == n2 && i == j) || !sp.has n1 i || !sp.has n2 j

/-- an element of `FromElements::from_elements` -/
inductive Elem where
  | node (w : Int)
  | edge (a b : Nat) (w : Int)
  deriving Repr, DecidableEq

/-- `from_elements` in the reference: the `i`-th `Node` element becomes node `i`, the `j`-th `Edge` element edge `j`; `none` =
the documented panic (an edge names a node that has not been created, or the index type is exhausted) -/
def fromElementsSpec (directed : Bool) (fin : Nat) : List Elem → Spec → Option Spec
  | [], sp => some sp
  | .node w :: rest, sp =>
    if sp.nodes.length < fin then fromElementsSpec directed fin rest { sp with nodes := sp.nodes ++ [some w] } else none
  | .edge a b w :: rest, sp =>
    if a < sp.nodes.length && b < sp.nodes.length && sp.edges.length < fin then
      fromElementsSpec directed fin rest { sp with edges := sp.edges ++ [some ⟨a, b, w⟩] }
    else none

/-- every endpoint named by an `Edge` element is at most `Ix::max()` (then `from_index` does not wrap around) -/
def elemsInRangeB (fin : Nat) (els : List Elem) : Bool :=
  els.all fun el => match el with
    | .node _ => true
    | .edge a b _ => decide (a ≤ fin) && decide (b ≤ fin)

/-- does the whole request of `extend_with_edges` fit the index type? (`ec` = live edges so far) -/
def extendFits (fin : Nat) : Nat → List (Nat × Nat × Int) → Bool
  | _, [] => true
  | ec, (a, b, _) :: rest => a < fin && b < fin && ec < fin && extendFits fin (ec + 1) rest

end PetgraphModel.SGSpec
