import PetgraphModel.Model.UnionFind
import PetgraphModel.Spec.Partition
import PetgraphModel.Spec.C19Scope
/-
C19, wave 6 — the corners of the public surface of `UnionFind` that are not calls of the history
alphabet `UF.Op` (core Lean only: linked into the driver).

* `is_empty` (`self.parent.is_empty()`).
* `Clone` (derived: both vectors are copied), `Clone::clone_from` (the default method of the derive:
  `*self = source.clone()`) and two structures living side by side: the harness keeps a CURRENT
  structure `a` and a second one `b`, and every call of the alphabet goes to `a`.  `clone` is
  `b = a.clone()`, `cloneFrom` is `b.clone_from(&a)` for an arbitrary earlier `b`, `newB n` is
  `b = UnionFind::new(n)` (the arbitrary earlier value), `swap` is `mem::swap(&mut a, &mut b)`.
  So "clone, then mutate both" is a history `… clone, ops…, swap, ops…, swap, …`.
* the executable scope check of that machine (`sFitsB`): a `new_set` on the current structure must
  find room, a `new(n)` must be within the capacity of the index type.
-/
namespace PetgraphModel.C19Slots
open PetgraphModel.UF PetgraphModel.PartitionSpec PetgraphModel.C19Scope

/-- `is_empty` -/
def isEmptyM (s : State) : Bool := s.parent.isEmpty

inductive SOp where
  | on (op : Op)      -- a call of the alphabet on the current structure
  | isEmpty           -- `a.is_empty()`
  | newB (n : Nat)    -- `b = UnionFind::new(n)`
  | clone             -- `b = a.clone()`
  | cloneFrom         -- `b.clone_from(&a)`
  | swap              -- `mem::swap(&mut a, &mut b)`
  deriving Repr, DecidableEq

structure Slots where
  a : State
  b : State
  deriving Repr, DecidableEq

/-- the state every case starts from: `a = new(n)`, `b = new(0)` -/
def init (m n : Nat) : Slots := { a := UF.new m n, b := UF.new m 0 }

def sstep (m : Slots) : SOp → Slots × Out
  | .on op => let r := step m.a op; ({ m with a := r.1 }, r.2)
  | .isEmpty => (m, .bool (isEmptyM m.a))
  | .newB n => ({ m with b := UF.new m.a.modulus n }, .unit)
  | .clone => ({ m with b := m.a }, .unit)
  | .cloneFrom => ({ m with b := m.a }, .unit)
  | .swap => ({ a := m.b, b := m.a }, .unit)

def srun (m : Slots) : List SOp → Slots × List Out
  | [] => (m, [])
  | op :: ops =>
    let r := sstep m op
    let rs := srun r.1 ops
    (rs.1, r.2 :: rs.2)

/-- scope of one call (the capacity hypotheses of the theorems, as the Boolean the driver evaluates) -/
def sFitsB (m : Slots) : SOp → Bool
  | .on op => stepFitsB m.a op
  | .newB n => newFitsB m.a.modulus n
  | _ => true

def srunFitsB (m : Slots) : List SOp → Bool
  | [] => true
  | op :: ops => sFitsB m op && srunFitsB (sstep m op).1 ops

/-! the abstract side: one quick-find partition per structure -/

structure QSlots where
  a : QF
  b : QF
  deriving Repr, DecidableEq

def qinit (n : Nat) : QSlots := { a := QF.new n, b := QF.new 0 }

/-- the driver's abstract effect of a call on `a` (it skips `QF.union` for elements already in one
class; `C19_union_same_noop` shows that is the same state as the proof-side `specStep`) -/
def qstepOn (q : QF) : Op → QF
  | .newSet => q.newSet
  | .union x y | .tryUnion x y =>
    if x ≠ y ∧ x < q.len ∧ y < q.len then q.union x y else q
  | _ => q

def sspecStep (q : QSlots) : SOp → QSlots
  | .on op => { q with a := qstepOn q.a op }
  | .isEmpty => q
  | .newB n => { q with b := QF.new n }
  | .clone => { q with b := q.a }
  | .cloneFrom => { q with b := q.a }
  | .swap => { a := q.b, b := q.a }

def sspecRun (q : QSlots) : List SOp → QSlots
  | [] => q
  | op :: ops => sspecRun (sspecStep q op) ops

end PetgraphModel.C19Slots
