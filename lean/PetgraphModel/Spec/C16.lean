import PetgraphModel.Spec.Graph
/-
C16 — what "dominator" and "articulation point" mean, stated over the abstract `MGraph`
(core Lean only).

Dominators (`/repo/src/algo/dominators.rs`, module doc): in a directed graph with root `r`, `a`
dominates `b` iff every path from `r` to `b` contains `a`.  A path is rendered as a *walk* with its
vertex list (`Walk g r b p`); quantifying over walks or over simple paths is the same thing because
every walk contains a simple path using a subset of its vertices.

Articulation points: `x` is a cut vertex iff removing it (and its incident edges) increases the
number of connected components, an isolated `x` counting as one component of `g`.
-/
namespace PetgraphModel.C16S
open PetgraphModel MGraph

/-- `Walk g a b p`: `p` lists the vertices (most recent first) of a walk from `a` to `b` -/
inductive Walk (g : MGraph) (a : Nat) : Nat → List Nat → Prop
  | start : Walk g a a [a]
  | step {b c : Nat} {p : List Nat} : Walk g a b p → g.Adj b c → Walk g a c (c :: p)

/-- `a` dominates `b` w.r.t. the root `r`: every walk from `r` to `b` passes through `a`.
(Vacuously true for unreachable `b`; the clauses below always pair it with `Reach g r b`.) -/
def Dominates (g : MGraph) (r a b : Nat) : Prop := ∀ p, Walk g r b p → a ∈ p

/-- `a` strictly dominates `b` -/
def StrictlyDominates (g : MGraph) (r a b : Nat) : Prop := a ≠ b ∧ Dominates g r a b

/-- `a` is the immediate dominator of the reachable node `b`: the strict dominator closest to `b`,
i.e. the one every other strict dominator of `b` dominates. -/
def IsIdom (g : MGraph) (r a b : Nat) : Prop :=
  Reach g r b ∧ StrictlyDominates g r a b ∧ ∀ c, StrictlyDominates g r c b → Dominates g r c a

open Classical in
/-- number of `Reach`-classes met by the list `rest`, not counting those already met by `earlier`:
a node counts iff no earlier node reaches it (one representative per class; on an undirected graph
`Reach` is an equivalence, so this is the number of connected components) -/
noncomputable def countClasses (g : MGraph) : List Nat → List Nat → Nat
  | _, [] => 0
  | earlier, x :: rest =>
    (if ∃ y ∈ earlier, Reach g y x then 0 else 1) + countClasses g (x :: earlier) rest

/-- number of connected components of `g` (isolated nodes count) -/
noncomputable def numComponents (g : MGraph) : Nat := countClasses g [] g.nodes

/-- `x` is a cut vertex (articulation point): removing it increases the number of components -/
def CutVertex (g : MGraph) (x : Nat) : Prop :=
  x ∈ g.nodes ∧ numComponents (g.removeNode x) > numComponents g

end PetgraphModel.C16S
