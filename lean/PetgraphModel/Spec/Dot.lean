/-
What "a syntactically valid DOT graph with exactly these node and edge statements" means: a lexer for the
part of the DOT language `Dot` can produce (Graphviz `scan.l`), a statement parser, and label
un-escaping.  Written from the DOT language description, not from petgraph's code.  Core Lean only; it is
also the per-run judge of the implementation's text.

Lexical rules used (Graphviz `lib/cgraph/scan.l`):
* white space separates tokens; `{ } [ ] = ; ,` are tokens; `->` and `--` are the edge operators;
* an ID is a run of letters, digits, `_`, `.` and bytes ≥ 128 (names and numerals);
* a quoted string starts at `"` and ends at the next `"` that is not part of the two-character units `\"`
  and `\\` (rules `<qstring>[\\]["]`, `<qstring>[\\][\\]`; `<qstring>[\\][\n]` is a line continuation);
  every other character, a raw newline included, is content;
* anything else outside a quoted string (`<`, `#`, `/`, a lone `-`, a lone `\`, …) is rejected here.
-/
namespace PetgraphModel.Spec.Dot

/-- the quoted-string rule on its own: the input is what follows an opening `"`; result = (raw content
between the quotes, what follows the closing quote); `none` = unterminated -/
def lexQuoted : List Char → Option (List Char × List Char)
  | [] => none
  | '"' :: r => some ([], r)
  | '\\' :: '"' :: r => (lexQuoted r).map fun (a, b) => ('\\' :: '"' :: a, b)
  | '\\' :: '\\' :: r => (lexQuoted r).map fun (a, b) => ('\\' :: '\\' :: a, b)
  | '\\' :: '\n' :: r => (lexQuoted r).map fun (a, b) => ('\\' :: '\n' :: a, b)
  | c :: r => (lexQuoted r).map fun (a, b) => (c :: a, b)

inductive Tok where
  | id (s : List Char)
  | str (raw : List Char)
  | lbrace | rbrace | lbrack | rbrack | eq | semi | comma
  | edgeop (directed : Bool)
  deriving Repr, DecidableEq, Inhabited

inductive LexMode where
  | top
  | ident (acc : List Char)
  | str (acc : List Char)
  | strEsc (acc : List Char)      -- inside a string, right after a backslash
  | dash                          -- outside a string, right after `-`
  | bad
  deriving Repr, DecidableEq, Inhabited

structure LexSt where
  toks : List Tok := []
  mode : LexMode := .top
  deriving Repr, DecidableEq, Inhabited

def isSpace (c : Char) : Bool := c = ' ' || c = '\n' || c = '\t' || c = '\r'
def isIdChar (c : Char) : Bool := c.isAlphanum || c = '_' || c = '.' || c.toNat ≥ 128

def punct (c : Char) : Option Tok :=
  if c = '{' then some .lbrace else if c = '}' then some .rbrace
  else if c = '[' then some .lbrack else if c = ']' then some .rbrack
  else if c = '=' then some .eq else if c = ';' then some .semi
  else if c = ',' then some .comma else none

/-- a character read outside any token -/
def lexTop (toks : List Tok) (c : Char) : LexSt :=
  if isSpace c then ⟨toks, .top⟩
  else if c = '"' then ⟨toks, .str []⟩
  else if c = '-' then ⟨toks, .dash⟩
  else match punct c with
    | some t => ⟨toks ++ [t], .top⟩
    | none => if isIdChar c then ⟨toks, .ident [c]⟩ else ⟨toks, .bad⟩

def lexStep (s : LexSt) (c : Char) : LexSt :=
  match s.mode with
  | .bad => s
  | .top => lexTop s.toks c
  | .ident acc =>
    if isIdChar c then ⟨s.toks, .ident (acc ++ [c])⟩ else lexTop (s.toks ++ [.id acc]) c
  | .dash =>
    if c = '>' then ⟨s.toks ++ [.edgeop true], .top⟩
    else if c = '-' then ⟨s.toks ++ [.edgeop false], .top⟩
    else ⟨s.toks, .bad⟩
  | .str acc =>
    if c = '"' then ⟨s.toks ++ [.str acc], .top⟩
    else if c = '\\' then ⟨s.toks, .strEsc acc⟩
    else ⟨s.toks, .str (acc ++ [c])⟩
  | .strEsc acc =>
    -- `\"`, `\\`, `\<newline>` are units; after any other character the backslash was an ordinary
    -- character and so is that character (it is neither `"` nor `\`): the same continuation
    ⟨s.toks, .str (acc ++ ['\\', c])⟩

def lexRun (s : LexSt) (cs : List Char) : LexSt := cs.foldl lexStep s

def lexEnd (s : LexSt) : Option (List Tok) :=
  match s.mode with
  | .top => some s.toks
  | .ident acc => some (s.toks ++ [.id acc])
  | _ => none

/-- tokens of a text; `none` = not lexable (unterminated string, stray character) -/
def lex (cs : List Char) : Option (List Tok) := lexEnd (lexRun {} cs)

/-! ### statements -/

abbrev Attrs := List (List Char × Tok)

inductive Stmt where
  | attr (key : List Char) (val : Tok)                 -- `rankdir="TB"`
  | node (id : List Char) (attrs : Attrs)
  | edge (a : List Char) (directed : Bool) (b : List Char) (attrs : Attrs)
  deriving Repr, DecidableEq, Inhabited

/-- a statement whose attribute list is still open -/
inductive Subj where
  | node (id : List Char)
  | edge (a : List Char) (directed : Bool) (b : List Char)
  deriving Repr, DecidableEq, Inhabited

def Subj.close : Subj → Attrs → Stmt
  | .node a, as => .node a as
  | .edge a d b, as => .edge a d b as

inductive PMode where
  | start
  | id1 (a : List Char)                                 -- an ID
  | idEq (a : List Char)                                -- ID `=`
  | op (a : List Char) (d : Bool)                       -- ID edgeop
  | edge (a : List Char) (d : Bool) (b : List Char)     -- ID edgeop ID
  | attrs (s : Subj) (acc : Attrs)                      -- … `[` (key = value)*
  | attrKey (s : Subj) (acc : Attrs) (k : List Char)
  | attrEq (s : Subj) (acc : Attrs) (k : List Char)
  | bad
  deriving Repr, DecidableEq, Inhabited

structure PSt where
  /-- `some directed` once the header `graph {` / `digraph {` has been read -/
  kind : Option Bool := none
  closed : Bool := false
  stmts : List Stmt := []
  mode : PMode := .start
  deriving Repr, DecidableEq, Inhabited

def PSt.fail (s : PSt) : PSt := { s with mode := .bad }
def PSt.emit (s : PSt) (st : Stmt) (m : PMode) : PSt := { s with stmts := s.stmts ++ [st], mode := m }

def kwGraph : List Char := ['g', 'r', 'a', 'p', 'h']
def kwDigraph : List Char := ['d', 'i', 'g', 'r', 'a', 'p', 'h']

/-- a token read at the start of a statement -/
def pStart (s : PSt) (t : Tok) : PSt :=
  match t with
  | .id a => { s with mode := .id1 a }
  | .semi => { s with mode := .start }
  | .rbrace => if s.kind.isSome && !s.closed then { s with closed := true, mode := .start } else s.fail
  | _ => s.fail

def pStep (s : PSt) (t : Tok) : PSt :=
  if s.closed then s.fail else
  match s.mode with
  | .bad => s
  | .start => pStart s t
  | .id1 a =>
    match t with
    | .eq => { s with mode := .idEq a }
    | .edgeop d => { s with mode := .op a d }
    | .lbrack => { s with mode := .attrs (.node a) [] }
    | .lbrace =>
      if s.kind.isNone && s.stmts.isEmpty then
        if a = kwDigraph then { s with kind := some true, mode := .start }
        else if a = kwGraph then { s with kind := some false, mode := .start }
        else s.fail
      else s.fail
    | _ => pStart (s.emit (.node a []) .start) t
  | .idEq a =>
    match t with
    | .id _ | .str _ => s.emit (.attr a t) .start
    | _ => s.fail
  | .op a d =>
    match t with
    | .id b => { s with mode := .edge a d b }
    | _ => s.fail
  | .edge a d b =>
    match t with
    | .lbrack => { s with mode := .attrs (.edge a d b) [] }
    | _ => pStart (s.emit (.edge a d b []) .start) t
  | .attrs sj acc =>
    match t with
    | .rbrack => s.emit (sj.close acc) .start
    | .id k => { s with mode := .attrKey sj acc k }
    | .comma | .semi => s
    | _ => s.fail
  | .attrKey sj acc k =>
    match t with
    | .eq => { s with mode := .attrEq sj acc k }
    | _ => s.fail
  | .attrEq sj acc k =>
    match t with
    | .id _ | .str _ => { s with mode := .attrs sj (acc ++ [(k, t)]) }
    | _ => s.fail

def pRun (s : PSt) (ts : List Tok) : PSt := ts.foldl pStep s

structure Parsed where
  kind : Option Bool
  stmts : List Stmt
  deriving Repr, DecidableEq, Inhabited

def pEnd (s : PSt) : Option Parsed :=
  if s.kind.isSome && !s.closed then none else
  match s.mode with
  | .start => some ⟨s.kind, s.stmts⟩
  | .id1 a => if s.closed then none else some ⟨s.kind, s.stmts ++ [.node a []]⟩
  | .edge a d b => if s.closed then none else some ⟨s.kind, s.stmts ++ [.edge a d b []]⟩
  | _ => none

def parseToks (ts : List Tok) : Option Parsed := pEnd (pRun {} ts)

/-- the statements of a DOT text (a whole graph, or just a body) -/
def parse (text : List Char) : Option Parsed := (lex text).bind parseToks

/-! ### label text -/

/-- the text a label shows: `\"` → `"`, `\\` → `\`, `\n` `\l` `\r` → line break, `\x` → `x` -/
def unescape : List Char → List Char
  | [] => []
  | '\\' :: c :: r =>
    (if c = 'l' ∨ c = 'n' ∨ c = 'r' then '\n' else c) :: unescape r
  | c :: r => c :: unescape r

/-- value of a numeral ID (`none` unless all characters are decimal digits) -/
def numeral (s : List Char) : Option Nat :=
  if s.isEmpty || !(s.all Char.isDigit) then none
  else some (s.foldl (fun acc c => 10 * acc + (c.toNat - '0'.toNat)) 0)

def Attrs.find (a : Attrs) (k : List Char) : List Tok := (a.filter (·.1 = k)).map (·.2)

def kwLabel : List Char := ['l', 'a', 'b', 'e', 'l']
def kwRankdir : List Char := ['r', 'a', 'n', 'k', 'd', 'i', 'r']

/-- text of an attribute value: un-escaped for a quoted string, as written for an ID -/
def Tok.text : Tok → Option (List Char)
  | .str raw => some (unescape raw)
  | .id s => some s
  | _ => none

/-- trailing line breaks do not matter for a label (`{:#}` formatting appends one) -/
def dropLastNl (s : List Char) : List Char :=
  (s.reverse.dropWhile (· = '\n')).reverse

/-- what is expected of a label: absent, a number, or a given text -/
inductive LabelSpec where
  | absent
  | number (n : Option Nat)        -- `none`: any numeral
  | text (t : List Char)
  deriving Repr, DecidableEq, Inhabited

def labelOk (as : Attrs) (want : LabelSpec) : Bool :=
  match want, as.find kwLabel with
  | .absent, [] => true
  | .number none, [v] => ((Tok.text v).bind numeral).isSome
  | .number (some n), [v] => (Tok.text v).bind numeral = some n
  | .text t, [v] => (Tok.text v).map dropLastNl = some (dropLastNl t)
  | _, _ => false

end PetgraphModel.Spec.Dot
