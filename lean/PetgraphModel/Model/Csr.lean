/-
Mirror model of `/repo/src/csr.rs` (`Csr<N, E, Ty, Ix>`), core Lean only.

* the four vectors `column`, `edges`, `row`, `node_weights` are lists, `edge_count` a `Nat`;
  `Ty` is the field `directed`, the index type `Ix` is `modulus` (`2^w` for `u8/u16/u32`, `0` for
  `usize` = no wrap; `Ix::new(i)` = `mkIx modulus i`, the capacity check of `add_node` = `fitsIx modulus i`),
  `BINARY_SEARCH_CUTOFF` is the field `cutoff`
  (every theorem quantifies over it), `debug` says whether `debug_assert!` is compiled in.
* node weights are `i32`, edge weights `i32` in the harness: `Int` here.
* everything in `csr.rs` is safe Rust, so a failing index / slice / `Vec::insert` is a *panic*:
  a model function returns `none` exactly where the code would panic.  `Theorems/C05.lean` proves
  that under the representation invariant no call with in-range arguments panics.
-/
namespace PetgraphModel.CsrM

def mkIx (modulus n : Nat) : Nat := if modulus = 0 then n else n % modulus

structure State where
  directed : Bool
  modulus : Nat
  cutoff : Nat
  debug : Bool
  column : List Nat
  edges : List Int
  row : List Nat
  nodeWeights : List Int
  edgeCount : Nat
  deriving Repr, DecidableEq

/-- `Csr::new()` -/
def new (directed : Bool) (modulus cutoff : Nat) (debug : Bool) : State :=
  { directed, modulus, cutoff, debug, column := [], edges := [], row := [0], nodeWeights := [], edgeCount := 0 }

/-- `Csr::with_nodes(n)` (`N::default()` = 0) -/
def withNodes (directed : Bool) (modulus cutoff : Nat) (debug : Bool) (n : Nat) : State :=
  { directed, modulus, cutoff, debug, column := [], edges := [], row := List.replicate (n + 1) 0,
    nodeWeights := List.replicate n 0, edgeCount := 0 }

/-- `node_count()` = `row.len() - 1` -/
def State.nodeCount (s : State) : Nat := s.row.length - 1

/-- `edge_count()` -/
def State.edgeCountQ (s : State) : Nat := if s.directed then s.column.length else s.edgeCount

/-- `&v[start..end]`: panics unless `start ≤ end ≤ len` -/
def slice {α : Type} (l : List α) (r : Nat × Nat) : Option (List α) :=
  if r.1 ≤ r.2 ∧ r.2 ≤ l.length then some ((l.take r.2).drop r.1) else none

/-- `neighbors_range(a)` = `self.row[a] .. self.row[a + 1]`.  `row` has `node_count + 1` entries, so BOTH
indexings succeed exactly for an existing node `a < node_count`; for every `a ≥ node_count` the call is the
documented panic ("Panics if the node `a` does not exist").  (Up to /repo commit aadb875 — finding D32 — the end
was `row.get(a + 1).unwrap_or(column.len())`, which answered the empty range for `a = node_count`.) -/
def neighborsRange (s : State) (a : Nat) : Option (Nat × Nat) :=
  match s.row[a]? with
  | none => none
  | some start =>
    match s.row[a + 1]? with
    | none => none
    | some stop => some (start, stop)

/-- `neighbors_of(a)` = `(r.start, &self.column[r])` -/
def neighborsOf (s : State) (a : Nat) : Option (Nat × List Nat) :=
  match neighborsRange s a with
  | none => none
  | some r =>
    match slice s.column r with
    | none => none
    | some sl => some (r.1, sl)

/-- `Result<usize, usize>` of `find_edge_pos` -/
inductive Pos where
  | found (i : Nat)
  | absent (i : Nat)
  deriving Repr, DecidableEq

def Pos.shift (k : Nat) : Pos → Pos
  | .found i => .found (i + k)
  | .absent i => .absent (i + k)

def Pos.isFound : Pos → Bool
  | .found _ => true
  | .absent _ => false

/-- the linear branch of `find_edge_pos`: `for (i, elt) in neighbors.iter().enumerate()` -/
def linearPos (b : Nat) : List Nat → Nat → Pos
  | [], i => .absent i
  | x :: xs, i =>
    if x = b then .found i
    else if x > b then .absent i
    else linearPos b xs (i + 1)

/-- `slice::binary_search` (a textbook binary search over `lo..hi`; `Theorems/C05.lean` proves it
meets the documented contract of `binary_search` on every strictly ascending slice, and that the
fuel `len + 1` suffices). -/
def binaryPos (xs : List Nat) (b : Nat) : Nat → Nat → Nat → Pos
  | 0, lo, _ => .absent lo
  | f + 1, lo, hi =>
    if lo < hi then
      let mid := lo + (hi - lo) / 2
      match xs[mid]? with
      | none => .absent lo
      | some v =>
        if v = b then .found mid
        else if v < b then binaryPos xs b f (mid + 1) hi
        else binaryPos xs b f lo mid
    else .absent lo

/-- the search `find_edge_pos` runs on the neighbour slice -/
def searchPos (cutoff : Nat) (nb : List Nat) (b : Nat) : Pos :=
  if nb.length < cutoff then linearPos b nb 0
  else binaryPos nb b (nb.length + 1) 0 nb.length

/-- `find_edge_pos(a, b)` -/
def findEdgePos (s : State) (a b : Nat) : Option Pos :=
  match neighborsOf s a with
  | none => none
  | some (index, nb) => some ((searchPos s.cutoff nb b).shift index)

/-- `add_edge_` : `Ok(true)` inserted, `Ok(false)` already there, `Err(IndicesOutBounds(a, b))` -/
def addEdge_ (s : State) (a b : Nat) (w : Int) : Option (State × Except (Nat × Nat) Bool) :=
  if ¬ (a < s.nodeCount ∧ b < s.nodeCount) then some (s, .error (a, b))
  else match findEdgePos s a b with
    | none => none
    | some (.found _) => some (s, .ok false)
    | some (.absent pos) =>
      if pos ≤ s.column.length ∧ pos ≤ s.edges.length ∧ a + 1 ≤ s.row.length then
        some ({ s with column := s.column.insertIdx pos b,
                       edges := s.edges.insertIdx pos w,
                       row := s.row.take (a + 1) ++ (s.row.drop (a + 1)).map (· + 1) }, .ok true)
      else none

/-- `try_add_edge` -/
def tryAddEdge (s : State) (a b : Nat) (w : Int) : Option (State × Except (Nat × Nat) Bool) :=
  match addEdge_ s a b w with
  | none => none
  | some (s1, .error e) => some (s1, .error e)
  | some (s1, .ok ret) =>
    let s2 := if ret && !s1.directed then { s1 with edgeCount := s1.edgeCount + 1 } else s1
    if ret && !s2.directed && a != b then
      match addEdge_ s2 b a w with
      | none => none
      | some (s3, .error e) => some (s3, .error e)
      | some (s3, .ok ret2) =>
        -- `debug_assert_eq!(ret, _ret2)`
        if s.debug && ret2 != ret then none else some (s3, .ok ret)
    else some (s2, .ok ret)

/-- `add_edge` = `try_add_edge(..).unwrap()` : `none` is the documented panic -/
def addEdge (s : State) (a b : Nat) (w : Int) : Option (State × Bool) :=
  match tryAddEdge s a b w with
  | some (s', .ok r) => some (s', r)
  | _ => none

/-- `i <= <Ix as IndexType>::max().index()`: the index `i` fits the index type (`modulus = 0` is `usize`:
every index fits) -/
def fitsIx (modulus i : Nat) : Bool := modulus == 0 || decide (i < modulus)

/-- `add_node(weight)`.  Since commit 8cab180 (repair of finding D31) the code asserts
`i <= Ix::max().index()` BEFORE the first write: a `Csr` that already holds as many nodes as the index type
has values (256 for `u8`) panics and is left unchanged, instead of returning the wrapped index `Ix::new(i)`. -/
def addNode (s : State) (w : Int) : Option (State × Nat) :=
  if s.row.length = 0 then none
  else
    let i := s.row.length - 1
    if !fitsIx s.modulus i then none
    else if i ≤ s.nodeWeights.length then
      some ({ s with row := s.row.insertIdx i s.column.length,
                     nodeWeights := s.nodeWeights.insertIdx i w }, mkIx s.modulus i)
    else none

/-- `clear_edges()` -/
def clearEdges (s : State) : State :=
  { s with column := [], edges := [], row := s.row.map (fun _ => 0),
           edgeCount := if s.directed then s.edgeCount else 0 }

/-- `contains_edge(a, b)` -/
def containsEdge (s : State) (a b : Nat) : Option Bool :=
  (findEdgePos s a b).map Pos.isFound

/-- `out_degree(a)` = `r.end - r.start` -/
def outDegree (s : State) (a : Nat) : Option Nat :=
  match neighborsRange s a with
  | none => none
  | some r => if r.2 < r.1 then (if s.debug then none else some 0) else some (r.2 - r.1)

/-- `neighbors_slice(a)` (also `IntoNeighbors::neighbors`) -/
def neighborsSlice (s : State) (a : Nat) : Option (List Nat) :=
  (neighborsOf s a).map (·.2)

/-- `edges_slice(a)` -/
def edgesSlice (s : State) (a : Nat) : Option (List Int) :=
  match neighborsRange s a with
  | none => none
  | some r => slice s.edges r

/-- an `EdgeReference`: `(index, source, target, weight)` -/
abbrev ERef := Nat × Nat × Nat × Int

def zipRefs (src : Nat) : Nat → List Nat → List Int → List ERef
  | i, c :: cs, w :: ws => (i, src, c, w) :: zipRefs src (i + 1) cs ws
  | _, _, _ => []

/-- `edges(a)`: the `Edges` iterator run to completion -/
def edgesOf (s : State) (a : Nat) : Option (List ERef) :=
  match neighborsRange s a with
  | none => none
  | some r =>
    match slice s.column r, slice s.edges r with
    | some cs, some ws => some (zipRefs a r.1 cs ws)
    | _, _ => none

/-- the `EdgeReferences` iterator: `row.windows(2).enumerate()`, a running `index` -/
def edgeRefsLoop (s : State) : Nat → Nat → List Nat → Option (List ERef)
  | i, index, a :: b :: rest =>
    match slice s.column (a, b), slice s.edges (a, b) with
    | some cs, some ws =>
      let here := zipRefs (mkIx s.modulus i) index cs ws
      match edgeRefsLoop s (i + 1) (index + here.length) (b :: rest) with
      | none => none
      | some tl => some (here ++ tl)
    | _, _ => none
  | _, _, _ => some []

def edgeReferences (s : State) : Option (List ERef) := edgeRefsLoop s 0 0 s.row

/-- `node_references()` -/
def nodeReferences (s : State) : List (Nat × Int) :=
  (List.range s.nodeWeights.length).zipWith (fun i w => (mkIx s.modulus i, w)) s.nodeWeights

/-- `node_identifiers()` -/
def nodeIdentifiers (s : State) : List Nat := (List.range s.nodeCount).map (mkIx s.modulus)

/-- `Index<NodeIndex>` -/
def index (s : State) (a : Nat) : Option Int := s.nodeWeights[a]?

/-- `IndexMut<NodeIndex>` assignment -/
def setWeight (s : State) (a : Nat) (w : Int) : Option State :=
  if a < s.nodeWeights.length then some { s with nodeWeights := s.nodeWeights.set a w } else none

/-! ### `from_sorted_edges` (only `Csr<_, _, Directed, _>`) -/

abbrev Edge := Nat × Nat × Int

/-- `last_target.map_or(true, |x| m > x)` -/
def okAfter (last : Option Nat) (m : Nat) : Bool :=
  match last with
  | none => true
  | some x => decide (m > x)

/-- the `'inner` loop for the row slot `node`.  Result: `Err(first_error)` or
`(remaining edges, iterator exhausted?, column, edges, rstart)`. -/
def fseInner (node : Nat) : Option Nat → List Edge → List Nat → List Int → Nat →
    Except (Nat × Nat) (List Edge × Bool × List Nat × List Int × Nat)
  | _, [], col, ws, rs => .ok ([], true, col, ws, rs)
  | last, (n, m, w) :: rest, col, ws, rs =>
    if node > n then .error (n, m)
    else if n ≠ node then .ok ((n, m, w) :: rest, false, col, ws, rs)
    else if okAfter last m then
      fseInner node (some m) rest (col ++ [m]) (ws ++ [w]) (rs + 1)
    else .error (n, m)

/-- the `'outer` loop over the row slots (`k` slots left, current slot index `node`) followed by
`for r in rows { *r = rstart }` -/
def fseOuter : Nat → Nat → List Edge → List Nat → List Nat → List Int → Nat →
    Except (Nat × Nat) (List Nat × List Nat × List Int)
  | 0, _, _, rowAcc, col, ws, _ => .ok (rowAcc, col, ws)
  | k + 1, node, es, rowAcc, col, ws, rs =>
    match fseInner node none es col ws rs with
    | .error e => .error e
    | .ok (rest, exhausted, col', ws', rs') =>
      if exhausted then .ok (rowAcc ++ [rs] ++ List.replicate k rs', col', ws')
      else fseOuter k (node + 1) rest (rowAcc ++ [rs]) col' ws' rs'

def maxNodeId : List Edge → Option Nat
  | [] => none
  | (x, y, _) :: es =>
    match maxNodeId es with
    | none => some (max x y)
    | some m => some (max (max x y) m)

/-- `Csr::from_sorted_edges(edges)` -/
def fromSortedEdges (modulus cutoff : Nat) (debug : Bool) (es : List Edge) : Except (Nat × Nat) State :=
  match maxNodeId es with
  | none => .ok (withNodes true modulus cutoff debug 0)
  | some mx =>
    let s0 := withNodes true modulus cutoff debug (mx + 1)
    match fseOuter s0.row.length 0 es [] [] [] 0 with
    | .error e => .error e
    | .ok (row, col, ws) => .ok { s0 with row := row, column := col, edges := ws }

/-! ### the operation alphabet of the history-quantified statements -/

inductive Op where
  | addNode (w : Int)
  | addEdge (a b : Nat) (w : Int)
  | tryAddEdge (a b : Nat) (w : Int)
  | clearEdges
  | setWeight (a : Nat) (w : Int)
  deriving Repr, DecidableEq

inductive Out where
  | ix (n : Nat)
  | bool (b : Bool)
  | res (r : Except (Nat × Nat) Bool)
  | unit
  | panic
  deriving Repr

/-- one mutating public call; a panicking call leaves the state as it was (every panic of the
model is raised before the first write, see `addEdge_`) -/
def step (s : State) : Op → State × Out
  | .addNode w => match addNode s w with
    | some (s', i) => (s', .ix i) | none => (s, .panic)
  | .addEdge a b w => match addEdge s a b w with
    | some (s', r) => (s', .bool r) | none => (s, .panic)
  | .tryAddEdge a b w => match tryAddEdge s a b w with
    | some (s', r) => (s', .res r) | none => (s, .panic)
  | .clearEdges => (clearEdges s, .unit)
  | .setWeight a w => match setWeight s a w with
    | some s' => (s', .unit) | none => (s, .panic)

def run (s : State) : List Op → State × List Out
  | [] => (s, [])
  | op :: ops =>
    let (s1, o) := step s op
    let (s2, os) := run s1 ops
    (s2, o :: os)

end PetgraphModel.CsrM
