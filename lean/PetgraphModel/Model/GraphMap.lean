/-
Mirror model of `petgraph::graphmap::GraphMap<N, E, Ty, S>` (/repo/src/graphmap.rs, plus the
`Build` impl in /repo/src/data.rs).  Core Lean only.

    nodes : IndexMap<N, Vec<(N, CompactDirection)>, S>
    edges : IndexMap<(N, N), E, S>

An `IndexMap` is modelled as an insertion-ordered association list (`IMap`): `insert` appends a new
key / overwrites the value of an existing one in place, `swap_remove` moves the last entry into the
hole, `get_index_of` is the list position.  No function here takes a hasher: the order of an
`IndexMap` does not depend on it (the harness checks that on three hashers).
Node values `N` and edge weights `E` are `Nat`.

`unreachable!()`/`unwrap()`/`expect()` sites are explicit: the iterators carry the looked-up weight
as an `Option`, `Out.panic` is an answer like any other.
-/
namespace PetgraphModel.GM

/-! ### `Vec::swap_remove`, `Iterator::position` -/

/-- `Vec::swap_remove(i)` / `IndexMap::swap_remove_index(i)`: the last element takes the place of
element `i` (out of range: unchanged – the callers only pass positions they found) -/
def swapRemoveAt {α : Type} (l : List α) (i : Nat) : List α :=
  if i < l.length then
    match l.getLast? with
    | some x => (l.set i x).dropLast
    | none => l
  else l

/-- `iter().position(p)` -/
def position {α : Type} (p : α → Bool) : List α → Option Nat
  | [] => none
  | x :: t => if p x then some 0 else (position p t).map (· + 1)

/-! ### `IndexMap` as an insertion-ordered association list -/

abbrev IMap (κ ν : Type) := List (κ × ν)

namespace IMap
variable {κ ν : Type} [DecidableEq κ]

/-- `IndexMap::get` -/
def get? : IMap κ ν → κ → Option ν
  | [], _ => none
  | (k', v) :: m, k => if k' = k then some v else get? m k

/-- `IndexMap::get_index_of` -/
def indexOf? : IMap κ ν → κ → Option Nat
  | [], _ => none
  | (k', _) :: m, k => if k' = k then some 0 else (indexOf? m k).map (· + 1)

/-- `IndexMap::contains_key` -/
def contains (m : IMap κ ν) (k : κ) : Bool := (get? m k).isSome

/-- overwrite the value of an existing key in place (`*get_mut(k).unwrap() = v`); no-op if absent -/
def set : IMap κ ν → κ → ν → IMap κ ν
  | [], _, _ => []
  | (k', v') :: m, k, v => if k' = k then (k', v) :: m else (k', v') :: set m k v

/-- `IndexMap::insert`: returns the previous value; a new key is appended -/
def insert (m : IMap κ ν) (k : κ) (v : ν) : IMap κ ν × Option ν :=
  match get? m k with
  | some old => (set m k v, some old)
  | none => (m ++ [(k, v)], none)

/-- `IndexMap::swap_remove`: returns the removed value -/
def swapRemove (m : IMap κ ν) (k : κ) : IMap κ ν × Option ν :=
  match indexOf? m k with
  | some i => (swapRemoveAt m i, get? m k)
  | none => (m, none)

def keys (m : IMap κ ν) : List κ := m.map (·.1)

end IMap

/-! ### `GraphMap` -/

/-- `CompactDirection` -/
inductive Dir where
  | out
  | inc
  deriving DecidableEq, Repr, Inhabited

def Dir.opposite : Dir → Dir
  | .out => .inc
  | .inc => .out

abbrev Adj := List (Nat × Dir)
abbrev EKey := Nat × Nat

structure State where
  directed : Bool
  nodes : IMap Nat Adj
  edges : IMap EKey Nat
  deriving Repr, DecidableEq

/-- `GraphMap::new` / `with_capacity` / `default` (capacities are not observable) -/
def State.empty (directed : Bool) : State := ⟨directed, [], []⟩

/-- `edge_key`: canonical pair of an undirected edge -/
def edgeKey (directed : Bool) (a b : Nat) : EKey :=
  if directed || a ≤ b then (a, b) else (b, a)

/-- `add_node`: `self.nodes.entry(n).or_default()` -/
def addNode (s : State) (n : Nat) : State :=
  if IMap.contains s.nodes n then s else { s with nodes := s.nodes ++ [(n, [])] }

/-- `self.nodes.entry(a).or_insert_with(Vec::new).push(e)` -/
def pushAdj (nodes : IMap Nat Adj) (a : Nat) (e : Nat × Dir) : IMap Nat Adj :=
  match IMap.get? nodes a with
  | some l => IMap.set nodes a (l ++ [e])
  | none => nodes ++ [(a, [e])]

/-- `add_edge` -/
def addEdge (s : State) (a b w : Nat) : State × Option Nat :=
  match IMap.insert s.edges (edgeKey s.directed a b) w with
  | (edges', some old) => ({ s with edges := edges' }, some old)
  | (edges', none) =>
    let n1 := pushAdj s.nodes a (b, .out)
    let n2 := if a ≠ b then pushAdj n1 b (a, .inc) else n1
    ({ s with nodes := n2, edges := edges' }, none)

/-- `remove_single_edge(a, b, dir)` on the node map -/
def removeSingleEdge (directed : Bool) (nodes : IMap Nat Adj) (a b : Nat) (dir : Dir) :
    IMap Nat Adj × Bool :=
  match IMap.get? nodes a with
  | none => (nodes, false)
  | some sus =>
    let pos := if directed then position (fun e => decide (e = (b, dir))) sus
               else position (fun e => decide (e.1 = b)) sus
    match pos with
    | some i => (IMap.set nodes a (swapRemoveAt sus i), true)
    | none => (nodes, false)

/-- `remove_edge`; the second component is `none` when the `debug_assert!` fails (debug build) -/
def removeEdge (s : State) (a b : Nat) : State × Option (Option Nat) :=
  let r1 := removeSingleEdge s.directed s.nodes a b .out
  let r2 := if a ≠ b then removeSingleEdge s.directed r1.1 b a .inc else r1
  let r3 := IMap.swapRemove s.edges (edgeKey s.directed a b)
  let s' := { s with nodes := r2.1, edges := r3.1 }
  if r1.2 == r2.2 && r1.2 == r3.2.isSome then (s', some r3.2) else (s', none)

/-- the `for (succ, dir) in links` loop of `remove_node` -/
def removeLinks (directed : Bool) (n : Nat) :
    List (Nat × Dir) → IMap Nat Adj → IMap EKey Nat → IMap Nat Adj × IMap EKey Nat
  | [], nodes, edges => (nodes, edges)
  | (succ, dir) :: rest, nodes, edges =>
    let edge := if dir = .out then edgeKey directed n succ else edgeKey directed succ n
    let nodes' := (removeSingleEdge directed nodes succ n dir.opposite).1
    let edges' := (IMap.swapRemove edges edge).1
    removeLinks directed n rest nodes' edges'

/-- `remove_node` -/
def removeNode (s : State) (n : Nat) : State × Bool :=
  match IMap.swapRemove s.nodes n with
  | (_, none) => (s, false)
  | (nodes', some links) =>
    let r := removeLinks s.directed n links nodes' s.edges
    ({ s with nodes := r.1, edges := r.2 }, true)

/-- `clear` -/
def clear (s : State) : State := { s with nodes := [], edges := [] }

def containsNode (s : State) (n : Nat) : Bool := IMap.contains s.nodes n
def containsEdge (s : State) (a b : Nat) : Bool := IMap.contains s.edges (edgeKey s.directed a b)
def edgeWeight (s : State) (a b : Nat) : Option Nat := IMap.get? s.edges (edgeKey s.directed a b)

/-- `*edge_weight_mut(a, b)? = w`, answering the previous weight -/
def setWeight (s : State) (a b w : Nat) : State × Option Nat :=
  match edgeWeight s a b with
  | some old => ({ s with edges := IMap.set s.edges (edgeKey s.directed a b) w }, some old)
  | none => (s, none)

/-- `all_edges_mut()`: every weight `+= k`; answers what the iterator yielded (before the update) -/
def bumpAll (s : State) (k : Nat) : State × List (Nat × Nat × Nat) :=
  ({ s with edges := s.edges.map fun e => (e.1, e.2 + k) }, s.edges.map fun e => (e.1.1, e.1.2, e.2))

/-- the adjacency vector `neighbors`/`neighbors_directed` iterate (`[]` for an absent node) -/
def adjOf (s : State) (a : Nat) : Adj := (IMap.get? s.nodes a).getD []

/-- `Neighbors::next` -/
def neighbors (s : State) (a : Nat) : List Nat :=
  if s.directed then (adjOf s a).filterMap fun e => if e.2 = .out then some e.1 else none
  else (adjOf s a).map (·.1)

/-- `NeighborsDirected::next`, with its self-loop clause `n == start_node` -/
def neighborsDirected (s : State) (a : Nat) (d : Dir) : List Nat :=
  if s.directed then (adjOf s a).filterMap fun e => if e.2 = d ∨ e.1 = a then some e.1 else none
  else (adjOf s a).map (·.1)

/-- `Edges::next`; a `none` weight is the `unreachable!()` arm -/
def edgesOf (s : State) (a : Nat) : List (Nat × Nat × Option Nat) :=
  (neighbors s a).map fun b => (a, b, IMap.get? s.edges (edgeKey s.directed a b))

/-- `EdgesDirected::next`, swapping the endpoints for `Incoming` -/
def edgesDirected (s : State) (a : Nat) (d : Dir) : List (Nat × Nat × Option Nat) :=
  (neighborsDirected s a d).map fun b =>
    let (x, y) := if d = .inc then (b, a) else (a, b)
    (x, y, IMap.get? s.edges (edgeKey s.directed x y))

def nodesOf (s : State) : List Nat := IMap.keys s.nodes
def allEdges (s : State) : List (Nat × Nat × Nat) := s.edges.map fun e => (e.1.1, e.1.2, e.2)
def nodeCount (s : State) : Nat := s.nodes.length
def edgeCount (s : State) : Nat := s.edges.length

/-- `Extend::extend` / the body of `from_iter` -/
def extend (s : State) : List (Nat × Nat × Nat) → State
  | [] => s
  | (a, b, w) :: rest => extend (addEdge s a b w).1 rest

def addNodes (s : State) : List Nat → State
  | [] => s
  | n :: rest => addNodes (addNode s n) rest

/-- `into_graph`: node weights in map order; every edge with the positions of its endpoints
(`none` = the `unwrap()` of `get_index_of` fails) -/
def intoGraph (s : State) : List Nat × List (Option Nat × Option Nat × Nat) :=
  (nodesOf s, s.edges.map fun e => (IMap.indexOf? s.nodes e.1.1, IMap.indexOf? s.nodes e.1.2, e.2))

/-- `from_graph` of a `Graph` with node weights `ws` and edges `(source index, target index, weight)`
in edge-index order; `none` if an endpoint index is out of range (cannot be built as a `Graph`) -/
def fromGraphEdges (s : State) (ws : List Nat) : List (Nat × Nat × Nat) → Option State
  | [] => some s
  | (i, j, w) :: rest =>
    match ws[i]?, ws[j]? with
    | some a, some b => fromGraphEdges (addEdge s a b w).1 ws rest
    | _, _ => none

def fromGraph (directed : Bool) (ws : List Nat) (es : List (Nat × Nat × Nat)) : Option State :=
  fromGraphEdges (addNodes (State.empty directed) ws) ws es

/-- the edge list of an `into_graph` result once every `unwrap()` succeeded -/
def resolveEdges : List (Option Nat × Option Nat × Nat) → Option (List (Nat × Nat × Nat))
  | [] => some []
  | (some i, some j, w) :: t => (resolveEdges t).map ((i, j, w) :: ·)
  | _ :: _ => none

/-- `GraphMap::from_graph(g.clone().into_graph())` -/
def roundTrip (s : State) : Option State :=
  let g := intoGraph s
  match resolveEdges g.2 with
  | some es => fromGraph s.directed g.1 es
  | none => none

/-- `Build::add_edge` (data.rs) -/
def buildAddEdge (s : State) (a b w : Nat) : State × Option (Nat × Nat) :=
  if containsEdge s a b then (s, none) else ((addEdge s a b w).1, some (a, b))

/-! ### one public call -/

inductive Op where
  | addNode (n : Nat)
  | addEdge (a b w : Nat)
  | removeNode (n : Nat)
  | removeEdge (a b : Nat)
  | setWeight (a b w : Nat)      -- `edge_weight_mut`
  | indexSet (a b w : Nat)       -- `IndexMut`
  | bumpAll (k : Nat)            -- `all_edges_mut`
  | clear
  | extend (es : List (Nat × Nat × Nat))
  | buildAddEdge (a b w : Nat)
  | buildUpdateEdge (a b w : Nat)
  | roundTrip
  | fromGraph (ws : List Nat) (es : List (Nat × Nat × Nat))
  | fromEdges (es : List (Nat × Nat × Nat))
  | clone
  | containsNode (n : Nat)
  | containsEdge (a b : Nat)
  | edgeWeight (a b : Nat)
  | index (a b : Nat)
  | neighbors (a : Nat)
  | neighborsDirected (a : Nat) (d : Dir)
  | edges (a : Nat)
  | edgesDirected (a : Nat) (d : Dir)
  | nodes
  | allEdges
  | nodeCount
  | edgeCount
  | toIndex (n : Nat)
  | fromIndex (i : Nat)
  | edgeToIndex (a b : Nat)
  | edgeFromIndex (i : Nat)
  | intoGraph
  | isAdjacent (a b : Nat)
  deriving Repr, DecidableEq

inductive Out where
  | unit
  | bool (b : Bool)
  | nat (n : Nat)
  | optNat (o : Option Nat)
  | pair (a b : Nat)
  | optPair (o : Option (Nat × Nat))
  | natList (l : List Nat)
  | triples (l : List (Nat × Nat × Nat))
  /-- edges with looked-up weights; a `none` weight is a reached `unreachable!()` -/
  | wtriples (l : List (Nat × Nat × Option Nat))
  | graph (ws : List Nat) (es : List (Option Nat × Option Nat × Nat))
  | panic
  deriving Repr, DecidableEq

def step (s : State) : Op → State × Out
  | .addNode n => (addNode s n, .nat n)
  | .addEdge a b w => let r := addEdge s a b w; (r.1, .optNat r.2)
  | .removeNode n => let r := removeNode s n; (r.1, .bool r.2)
  | .removeEdge a b =>
    let r := removeEdge s a b
    (r.1, match r.2 with | some o => .optNat o | none => .panic)
  | .setWeight a b w => let r := setWeight s a b w; (r.1, .optNat r.2)
  | .indexSet a b w =>
    let r := setWeight s a b w
    (r.1, match r.2 with | some o => .nat o | none => .panic)
  | .bumpAll k => let r := bumpAll s k; (r.1, .triples r.2)
  | .clear => (clear s, .unit)
  | .extend es => (extend s es, .unit)
  | .buildAddEdge a b w => let r := buildAddEdge s a b w; (r.1, .optPair r.2)
  | .buildUpdateEdge a b w => ((addEdge s a b w).1, .pair a b)
  | .roundTrip =>
    match roundTrip s with
    | some s' => (s', .unit)
    | none => (s, .panic)
  | .fromGraph ws es =>
    match fromGraph s.directed ws es with
    | some s' => (s', .unit)
    | none => (s, .panic)
  | .fromEdges es => (extend (State.empty s.directed) es, .unit)
  | .clone => (s, .unit)
  | .containsNode n => (s, .bool (containsNode s n))
  | .containsEdge a b => (s, .bool (containsEdge s a b))
  | .edgeWeight a b => (s, .optNat (edgeWeight s a b))
  | .index a b => (s, match edgeWeight s a b with | some w => .nat w | none => .panic)
  | .neighbors a => (s, .natList (neighbors s a))
  | .neighborsDirected a d => (s, .natList (neighborsDirected s a d))
  | .edges a => (s, .wtriples (edgesOf s a))
  | .edgesDirected a d => (s, .wtriples (edgesDirected s a d))
  | .nodes => (s, .natList (nodesOf s))
  | .allEdges => (s, .triples (allEdges s))
  | .nodeCount => (s, .nat (nodeCount s))
  | .edgeCount => (s, .nat (edgeCount s))
  | .toIndex n => (s, match IMap.indexOf? s.nodes n with | some i => .nat i | none => .panic)
  | .fromIndex i => (s, match s.nodes[i]? with | some e => .nat e.1 | none => .panic)
  -- `EdgeIndexable::to_index((a, b))`: `get_index_of(&Self::edge_key(a, b)).expect("edge not found")`
  | .edgeToIndex a b =>
    (s, match IMap.indexOf? s.edges (edgeKey s.directed a b) with | some i => .nat i | none => .panic)
  | .edgeFromIndex i => (s, match s.edges[i]? with | some e => .pair e.1.1 e.1.2 | none => .panic)
  | .intoGraph => let g := intoGraph s; (s, .graph g.1 g.2)
  | .isAdjacent a b => (s, .bool (containsEdge s a b))

def run (s : State) : List Op → State × List Out
  | [] => (s, [])
  | op :: ops =>
    let r := step s op
    let rr := run r.1 ops
    (rr.1, r.2 :: rr.2)

end PetgraphModel.GM
