/-
Mirror model of `/repo/src/matrix_graph.rs` (`MatrixGraph<N, E, S, Ty, Null, Ix>`), core Lean only.

* `node_adjacencies : Vec<Null>` is `adj : Array Cell` with `Cell = Option Int`: `none` is the null
  element.  For `Null = Option<E>` that is literal; for `Null = NotZero<i32>` the bijection
  `NotZero(0) ↦ none`, `NotZero(v) ↦ some v` (`v ≠ 0`) is used, and `Nullable::new` is `mkCell`, which
  reproduces the `assert!(!value.is_zero())` of `NotZero::new` as the answer `panic`.
* `IdStorage` = `elements`, `upper_bound`, `removed_ids`.  The `IndexSet` only ever sees `insert`,
  `pop`, `contains`, `len`, `clear`, so it is a list in *reverse insertion order* (head = last
  inserted = what `pop` returns).
* `extend_flat_square_matrix` is the real in-place relocation: rows `old-1 … 1`, a block swap
  (`swap_nonoverlapping`) when `pos + old <= new_pos`, descending element swaps otherwise.
* Index type `Ix` = `ixMax` (`<Ix as IndexType>::max().index()`: 255 / 65535); `usize` is `Nat`.
* unchecked / must-not-fail accesses are *checked* accesses whose failure is a `Fault`
  (`Theorems/C04.lean`: no fault is reachable under the invariant); documented panics are the answer
  `panic` and leave the state exactly as the real code leaves it when it unwinds.
-/
namespace PetgraphModel.Matrix

inductive Fault where
  | oob          -- a must-not-fail index is out of bounds / a SAFETY precondition is violated
  | debugAssert  -- one of the two `debug_assert!`s of `extend_flat_square_matrix` fails
  | underflow    -- `usize` subtraction below zero (`nb_edges -= 1`, `upper_bound - id`)
  deriving Repr, DecidableEq

abbrev Cell := Option Int

/-! ### position formulas and growth rule (the `Extracted` candidates) -/

/-- `to_flat_square_matrix_position` -/
def flatPos (row column width : Nat) : Nat := row * width + column

/-- `to_lower_triangular_matrix_position` -/
def triPos (row column : Nat) : Nat :=
  let rc : Nat × Nat := if row > column then (row, column) else (column, row)
  (rc.1 * (rc.1 + 1)) / 2 + rc.2

/-- `const MIN_CAPACITY: usize = 4;` -/
def minCapacity : Nat := 4

def nextPow2Aux (n : Nat) : Nat → Nat → Nat
  | 0, p => p
  | f + 1, p => if n ≤ p then p else nextPow2Aux n f (2 * p)

/-- `usize::next_power_of_two` (smallest power of two `>= n`; `1` for `0`) -/
def nextPow2 (n : Nat) : Nat := nextPow2Aux n n 1

/-- `cmp::max(new_node_capacity.next_power_of_two(), MIN_CAPACITY)` -/
def growCap (want : Nat) : Nat := max (nextPow2 want) minCapacity

/-- `to_linearized_matrix_position::<Ty>` -/
def linPos (dir : Bool) (row column width : Nat) : Nat :=
  if dir then flatPos row column width else triPos row column

/-! ### growing the matrix -/

/-- `Vec::resize_with(n, default)` (it truncates when `n` is smaller) -/
def resizeWith {α : Type} (a : Array α) (n : Nat) (d : α) : Array α :=
  if a.size ≤ n then a ++ Array.replicate (n - a.size) d else a.extract 0 n

/-- `slice.swap(i, j)` -/
def swapAt {α : Type} (a : Array α) (i j : Nat) : Except Fault (Array α) :=
  match a[i]?, a[j]? with
  | some x, some y => .ok ((a.setIfInBounds i y).setIfInBounds j x)
  | _, _ => .error .oob

/-- `for i in (0..t).rev() { swap(pos + i, new_pos + i) }` -/
def swapDesc {α : Type} (pos newPos : Nat) : Nat → Array α → Except Fault (Array α)
  | 0, a => .ok a
  | t + 1, a =>
    match swapAt a (pos + t) (newPos + t) with
    | .ok a' => swapDesc pos newPos t a'
    | .error e => .error e

/-- the element loop of `ptr::swap_nonoverlapping(old, new, k)` starting at offset `i` -/
def swapAsc {α : Type} (pos newPos : Nat) : Nat → Nat → Array α → Except Fault (Array α)
  | 0, _, a => .ok a
  | k + 1, i, a =>
    match swapAt a (pos + i) (newPos + i) with
    | .ok a' => swapAsc pos newPos k (i + 1) a'
    | .error e => .error e

/-- `ptr::swap_nonoverlapping(ptr.add(pos), ptr.add(new_pos), count)`; its SAFETY precondition
(both ranges inside the allocation, disjoint) is checked and its failure is the fault `oob` -/
def swapBlock {α : Type} (pos newPos count : Nat) (a : Array α) : Except Fault (Array α) :=
  if pos + count ≤ newPos ∧ newPos + count ≤ a.size then swapAsc pos newPos count 0 a
  else .error .oob

/-- body of the row loop of `extend_flat_square_matrix` for row `c` -/
def moveRow {α : Type} (old new c : Nat) (a : Array α) : Except Fault (Array α) :=
  let pos := c * old
  let newPos := c * new
  if pos + old ≤ newPos then
    if pos + old < a.size ∧ newPos + old < a.size then swapBlock pos newPos old a
    else .error .debugAssert
  else swapDesc pos newPos old a

/-- `for c in (1..k).rev()` (called with `k = old`) -/
def relocRows {α : Type} (old new : Nat) : Nat → Array α → Except Fault (Array α)
  | 0, a => .ok a
  | k + 1, a =>
    if k = 0 then .ok a
    else match moveRow old new k a with
      | .ok a' => relocRows old new k a'
      | .error e => .error e

/-- `extend_flat_square_matrix`; returns the new matrix and the new capacity -/
def extendFlat {α : Type} (d : α) (a : Array α) (old want : Nat) (exact : Bool) :
    Except Fault (Array α × Nat) :=
  let new := if exact then want else growCap want
  match relocRows old new old (resizeWith a (new * new) d) with
  | .ok a' => .ok (a', new)
  | .error e => .error e

/-- `extend_lower_triangular_matrix` (`new_capacity >= 1`) -/
def extendTri {α : Type} (d : α) (a : Array α) (newCap : Nat) : Array α × Nat :=
  (resizeWith a (triPos (newCap - 1) (newCap - 1) + 1) d, newCap)

/-- `extend_linearized_matrix::<Ty, _>` -/
def extendLin {α : Type} (dir : Bool) (d : α) (a : Array α) (old newCap : Nat) (exact : Bool) :
    Except Fault (Array α × Nat) :=
  if old ≥ newCap then .ok (a, old)
  else if dir then extendFlat d a old newCap exact
  else .ok (extendTri d a newCap)

/-! ### `IdStorage` -/

structure IdStorage where
  elements : Array (Option Int) := #[]
  upperBound : Nat := 0
  /-- `removed_ids`, most recently inserted first -/
  removed : List Nat := []
  deriving Repr, DecidableEq

namespace IdStorage

/-- `IdStorage::add`; `none` = a must-not-fail index failed -/
def add (s : IdStorage) (w : Int) : Except Fault (IdStorage × Nat) :=
  match s.removed with
  | id :: rest =>
    if id < s.elements.size then
      .ok ({ s with elements := s.elements.setIfInBounds id (some w), removed := rest }, id)
    else .error .oob
  | [] =>
    let id := s.upperBound
    let els := resizeWith s.elements (id + 1) none
    .ok ({ s with elements := els.setIfInBounds id (some w), upperBound := id + 1 }, id)

/-- `IdStorage::remove`: `.ok none` = the documented panic of `remove_node` on a missing node
(`elements[id]` out of range, or `take().unwrap()` on `None`) -/
def remove (s : IdStorage) (id : Nat) : Except Fault (Option (IdStorage × Int)) :=
  match s.elements[id]? with
  | none => .ok none
  | some none => .ok none
  | some (some w) =>
    let els := s.elements.setIfInBounds id none
    if s.upperBound < id then .error .underflow
    else if s.upperBound - id = 1 then
      .ok (some ({ s with elements := els, upperBound := s.upperBound - 1 }, w))
    else
      .ok (some ({ s with elements := els,
                          removed := if s.removed.contains id then s.removed else id :: s.removed }, w))

def clear (_ : IdStorage) : IdStorage := {}

/-- `IdStorage::len` (`usize` subtraction) -/
def len (s : IdStorage) : Nat := s.upperBound - s.removed.length

/-- `iter_ids().collect()` -/
def ids (s : IdStorage) : List Nat :=
  (List.range s.upperBound).filter fun i => !s.removed.contains i

/-- `elements.get(i)?.as_ref()` -/
def get (s : IdStorage) (i : Nat) : Option Int :=
  match s.elements[i]? with
  | some (some w) => some w
  | _ => none

end IdStorage

/-! ### the graph -/

structure State where
  dir : Bool
  nz : Bool
  ixMax : Nat
  adj : Array Cell := #[]
  cap : Nat := 0
  nodes : IdStorage := {}
  nbEdges : Nat := 0
  deriving Repr, DecidableEq

/-- `Nullable::new`: `none` = the assertion of `NotZero::new` fails -/
def mkCell (nz : Bool) (w : Int) : Option Cell :=
  if nz && w == 0 then none else some (some w)

/-- `with_capacity(k)` (also `default()`/`new()`/`new_undirected()` with `k = 0`) -/
def withCapacity (dir nz : Bool) (ixMax k : Nat) : Except Fault State :=
  let s : State := { dir, nz, ixMax }
  if k > 0 then
    match extendLin dir (none : Cell) s.adj s.cap (k - 1 + 1) true with
    | .ok (a, c) => .ok { s with adj := a, cap := c }
    | .error e => .error e
  else .ok s

/-- `to_edge_position` -/
def edgePos (s : State) (a b : Nat) : Option Nat :=
  if max a b ≥ s.cap then none else some (linPos s.dir a b s.cap)

/-- `extend_capacity_for_edge` -/
def extendForEdge (s : State) (a b : Nat) : Except Fault State :=
  let m := max a b
  if m ≥ s.cap then
    match extendLin s.dir (none : Cell) s.adj s.cap (m + 1) false with
    | .ok (adj, c) => .ok { s with adj := adj, cap := c }
    | .error e => .error e
  else .ok s

inductive Err where
  | nodeIxLimit
  | nodeMissed (i : Nat)
  deriving Repr, DecidableEq

inductive Out where
  | unit
  | id (n : Nat)
  | w (x : Int)
  | optW (o : Option Int)
  | bool (b : Bool)
  | resOk (o : Option Int)      -- `Ok(old weight)`
  | resIdOk (n : Nat)           -- `Ok(node id)`
  | resErr (e : Err)            -- `Err(e)`
  | panic
  | fault (f : Fault)
  deriving Repr, DecidableEq

/-- `try_add_node` -/
def tryAddNode (s : State) (w : Int) : State × Out :=
  if s.nodes.len % (s.ixMax + 1) = s.ixMax then (s, .resErr .nodeIxLimit)
  else match s.nodes.add w with
    | .ok (n, id) => ({ s with nodes := n }, .resIdOk (id % (s.ixMax + 1)))
    | .error e => (s, .fault e)

/-- `add_node` = `try_add_node(..).unwrap()` -/
def addNode (s : State) (w : Int) : State × Out :=
  match tryAddNode s w with
  | (s', .resIdOk id) => (s', .id id)
  | (s', .resErr _) => (s', .panic)
  | r => r

/-- clear the cell at `pos` as `remove_node` does: count it if it is not null -/
def clearCounted (adj : Array Cell) (nb : Nat) (pos : Nat) : Except Fault (Array Cell × Nat) :=
  match adj[pos]? with
  | none => .error .oob
  | some none => .ok (adj.setIfInBounds pos none, nb)
  | some (some _) => if nb = 0 then .error .underflow else .ok (adj.setIfInBounds pos none, nb - 1)

/-- the `for id in self.nodes.iter_ids()` loop of `remove_node` -/
def removeNodeLoop (dir : Bool) (cap a : Nat) : List Nat → Array Cell → Nat → Except Fault (Array Cell × Nat)
  | [], adj, nb => .ok (adj, nb)
  | id :: rest, adj, nb =>
    let r1 : Except Fault (Array Cell × Nat) :=
      if max a id ≥ cap then .ok (adj, nb) else clearCounted adj nb (linPos dir a id cap)
    match r1 with
    | .error e => .error e
    | .ok (adj1, nb1) =>
      let r2 : Except Fault (Array Cell × Nat) :=
        if dir then
          if max id a ≥ cap then .ok (adj1, nb1) else clearCounted adj1 nb1 (linPos dir id a cap)
        else .ok (adj1, nb1)
      match r2 with
      | .error e => .error e
      | .ok (adj2, nb2) => removeNodeLoop dir cap a rest adj2 nb2

/-- `remove_node` -/
def removeNode (s : State) (a : Nat) : State × Out :=
  match removeNodeLoop s.dir s.cap a s.nodes.ids s.adj s.nbEdges with
  | .error e => (s, .fault e)
  | .ok (adj, nb) =>
    let s1 := { s with adj := adj, nbEdges := nb }
    match s1.nodes.remove a with
    | .error e => (s1, .fault e)
    | .ok none => (s1, .panic)
    | .ok (some (n, w)) => ({ s1 with nodes := n }, .w w)

/-- `update_edge`; the answer `panic` is the assertion of `NotZero::new` -/
def updateEdge (s : State) (a b : Nat) (w : Int) : State × Out :=
  match extendForEdge s a b with
  | .error e => (s, .fault e)
  | .ok s1 =>
    let p := linPos s1.dir a b s1.cap
    match s1.adj[p]? with
    | none => (s1, .fault .oob)
    | some old =>
      match mkCell s1.nz w with
      | none => (s1, .panic)
      | some c =>
        ({ s1 with adj := s1.adj.setIfInBounds p c,
                   nbEdges := if old.isNone then s1.nbEdges + 1 else s1.nbEdges }, .optW old)

/-- the closure `missing` of `assert_node_bounds`: beyond the matrix *and* not an existing node -/
def nodeMissing (s : State) (n : Nat) : Bool :=
  n ≥ s.cap && (s.nodes.get n).isNone

/-- `assert_node_bounds` -/
def assertNodeBounds (s : State) (a b : Nat) : Option Err :=
  if nodeMissing s a then some (.nodeMissed a)
  else if nodeMissing s b then some (.nodeMissed b)
  else none

/-- `try_update_edge` -/
def tryUpdateEdge (s : State) (a b : Nat) (w : Int) : State × Out :=
  match assertNodeBounds s a b with
  | some e => (s, .resErr e)
  | none =>
    match updateEdge s a b w with
    | (s', .optW o) => (s', .resOk o)
    | r => r

/-- `add_edge`: `update_edge`, then `assert!(old.is_none())` -/
def addEdge (s : State) (a b : Nat) (w : Int) : State × Out :=
  match updateEdge s a b w with
  | (s', .optW none) => (s', .unit)
  | (s', .optW (some _)) => (s', .panic)
  | r => r

/-- `add_or_update_edge` -/
def addOrUpdateEdge (s : State) (a b : Nat) (w : Int) : State × Out :=
  match extendForEdge s a b with
  | .error e => (s, .fault e)
  | .ok s1 => tryUpdateEdge s1 a b w

/-- `remove_edge` -/
def removeEdge (s : State) (a b : Nat) : State × Out :=
  match edgePos s a b with
  | none => (s, .panic)
  | some p =>
    match s.adj[p]? with
    | none => (s, .fault .oob)
    | some none => (s, .panic)
    | some (some w) =>
      if s.nbEdges = 0 then (s, .fault .underflow)
      else ({ s with adj := s.adj.setIfInBounds p none, nbEdges := s.nbEdges - 1 }, .w w)

/-- `try_remove_edge` -/
def tryRemoveEdge (s : State) (a b : Nat) : State × Out :=
  match edgePos s a b with
  | none => (s, .optW none)
  | some p =>
    match s.adj[p]? with
    | none => (s, .optW none)
    | some none => (s, .optW none)
    | some (some w) =>
      if s.nbEdges = 0 then (s, .fault .underflow)
      else ({ s with adj := s.adj.setIfInBounds p none, nbEdges := s.nbEdges - 1 }, .optW (some w))

/-- `get_edge_weight` -/
def getEdgeWeight (s : State) (a b : Nat) : Option Int :=
  match edgePos s a b with
  | none => none
  | some p => match s.adj[p]? with
    | some c => c
    | none => none

/-- `has_edge` (and `GetAdjacencyMatrix::is_adjacent`) -/
def hasEdge (s : State) (a b : Nat) : Bool :=
  match edgePos s a b with
  | none => false
  | some p => match s.adj[p]? with
    | some c => c.isSome
    | none => false

/-- `edge_weight`: `.ok none` = the documented panic -/
def edgeWeight (s : State) (a b : Nat) : Except Fault (Option Int) :=
  match edgePos s a b with
  | none => .ok none
  | some p => match s.adj[p]? with
    | some c => .ok c
    | none => .error .oob

/-- the cell a raw write of `w` through `&mut E` leaves behind: `NotZero(0)` *is* the null element
(`is_null` = `is_zero`), so in a `NotZero` matrix a written zero is an empty cell -/
def rawCell (nz : Bool) (w : Int) : Cell :=
  if nz && w == 0 then none else some w

/-- `*edge_weight_mut(a, b) = w`: a raw write into the cell, `nb_edges` is not touched.  (Writing the
sentinel of a `NotZero` graph this way is outside the documented use; the model follows the code:
the cell becomes null and `nb_edges` stays — `Theorems/C04.lean`, `C04_zero_through_mut`.) -/
def setEdgeWeight (s : State) (a b : Nat) (w : Int) : State × Out :=
  match edgeWeight s a b with
  | .error e => (s, .fault e)
  | .ok none => (s, .panic)
  | .ok (some _) =>
    match edgePos s a b with
    | some p => ({ s with adj := s.adj.setIfInBounds p (rawCell s.nz w) }, .unit)
    | none => (s, .fault .oob)

/-- `*node_weight_mut(a) = w` -/
def setNodeWeight (s : State) (a : Nat) (w : Int) : State × Out :=
  match s.nodes.get a with
  | none => (s, .panic)
  | some _ => ({ s with nodes := { s.nodes with elements := s.nodes.elements.setIfInBounds a (some w) } }, .unit)

/-- `clear` -/
def clear (s : State) : State :=
  { s with adj := Array.replicate s.adj.size none, nodes := s.nodes.clear, nbEdges := 0 }

/-- `Build::add_edge` -/
def buildAddEdge (s : State) (a b : Nat) (w : Int) : State × Out :=
  if hasEdge s a b then (s, .bool false)
  else match updateEdge s a b w with
    | (s', .optW _) => (s', .bool true)
    | r => r

/-- `Build::update_edge` -/
def buildUpdateEdge (s : State) (a b : Nat) (w : Int) : State × Out :=
  match updateEdge s a b w with
  | (s', .optW _) => (s', .unit)
  | r => r

/-- the loop `while nx >= self.node_count() { self.add_node(N::default()) }` of `extend_with_edges`
(`N::default()` = 0); the fuel is the number of rounds (`Theorems/C04.lean`,
`C04_extend_fuel_suffices`: with `nx + 1 - node_count` rounds the loop condition is false at the end) -/
def addNodesUpTo (nx : Nat) : Nat → State → State × Out
  | 0, s => (s, .unit)
  | f + 1, s =>
    if nx ≥ s.nodes.len then
      match addNode s 0 with
      | (s', .id _) => addNodesUpTo nx f s'
      | r => r
    else (s, .unit)

/-- `extend_with_edges`: per element, `while nx >= node_count { add_node(default) }`, `add_edge` -/
def extendWithEdges (s : State) : List (Nat × Nat × Int) → State × Out
  | [] => (s, .unit)
  | (a, b, w) :: rest =>
    match addNodesUpTo (max a b) (max a b + 1 - s.nodes.len) s with
    | (s1, .unit) =>
      (match addEdge s1 a b w with
        | (s2, .unit) => extendWithEdges s2 rest
        | r => r)
    | r => r

/-- `from_edges` = `Self::default()` then `extend_with_edges` -/
def fromEdges (dir nz : Bool) (ixMax : Nat) (es : List (Nat × Nat × Int)) : State × Out :=
  match withCapacity dir nz ixMax 0 with
  | .ok s => extendWithEdges s es
  | .error e => ({ dir, nz, ixMax }, .fault e)

/-! ### iterators -/

/-- one step of `Edges::next`: the cell at `(row, column)`, `none` when out of range (must not
happen below `cap` under the invariant; the real code would panic on the index) -/
def cellAt (s : State) (row column : Nat) : Cell :=
  match s.adj[linPos s.dir row column s.cap]? with
  | some c => c
  | none => none

/-- `edges(a)` = `Edges::on_columns(a)`: `(a, column, w)` for `column` in `0..cap` -/
def edgesOut (s : State) (a : Nat) : List (Nat × Nat × Int) :=
  if a ≥ s.cap then []
  else (List.range s.cap).filterMap fun c => (cellAt s a c).map fun w => (a, c, w)

/-- `edges_directed(a, Incoming)` = `Edges::on_rows(a)`: yields `(column, row, w)` = `(a, row, w)` -/
def edgesIn (s : State) (a : Nat) : List (Nat × Nat × Int) :=
  if a ≥ s.cap then []
  else (List.range s.cap).filterMap fun r => (cellAt s r a).map fun w => (a, r, w)

def neighborsOut (s : State) (a : Nat) : List Nat := (edgesOut s a).map (·.2.1)
def neighborsIn (s : State) (a : Nat) : List Nat := (edgesIn s a).map (·.2.1)

/-- `edge_references()`: row-major, `column <= row` only when undirected -/
def edgeRefs (s : State) : List (Nat × Nat × Int) :=
  (List.range s.cap).flatMap fun r =>
    (List.range (if s.dir then s.cap else r + 1)).filterMap fun c =>
      (cellAt s r c).map fun w => (r, c, w)

def nodeRefs (s : State) : List (Nat × Int) :=
  s.nodes.ids.filterMap fun i => (s.nodes.get i).map fun w => (i, w)

/-! ### the operation alphabet of the history-quantified statements -/

inductive Op where
  | addNode (w : Int) | tryAddNode (w : Int) | removeNode (a : Nat)
  | addEdge (a b : Nat) (w : Int) | updateEdge (a b : Nat) (w : Int)
  | tryUpdateEdge (a b : Nat) (w : Int) | addOrUpdateEdge (a b : Nat) (w : Int)
  | removeEdge (a b : Nat) | tryRemoveEdge (a b : Nat)
  | setNodeWeight (a : Nat) (w : Int) | setEdgeWeight (a b : Nat) (w : Int)
  | buildAddEdge (a b : Nat) (w : Int) | buildUpdateEdge (a b : Nat) (w : Int)
  | clear
  deriving Repr, DecidableEq

def step (s : State) : Op → State × Out
  | .addNode w => addNode s w
  | .tryAddNode w => tryAddNode s w
  | .removeNode a => removeNode s a
  | .addEdge a b w => addEdge s a b w
  | .updateEdge a b w => updateEdge s a b w
  | .tryUpdateEdge a b w => tryUpdateEdge s a b w
  | .addOrUpdateEdge a b w => addOrUpdateEdge s a b w
  | .removeEdge a b => removeEdge s a b
  | .tryRemoveEdge a b => tryRemoveEdge s a b
  | .setNodeWeight a w => setNodeWeight s a w
  | .setEdgeWeight a b w => setEdgeWeight s a b w
  | .buildAddEdge a b w => buildAddEdge s a b w
  | .buildUpdateEdge a b w => buildUpdateEdge s a b w
  | .clear => (clear s, .unit)

def run (s : State) : List Op → State × List Out
  | [] => (s, [])
  | op :: ops =>
    let (s1, o) := step s op
    let (s2, os) := run s1 ops
    (s2, o :: os)

end PetgraphModel.Matrix
