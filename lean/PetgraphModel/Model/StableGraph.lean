/-
Mirror model of `/repo/src/graph_impl/stable_graph/mod.rs` (`StableGraph<N, E, Ty, Ix>`) together with
the pieces of `/repo/src/graph_impl/mod.rs` it is built on (`Graph`'s node/edge arrays, `index_twice`,
`change_edge_links`, `find_edge_*_from_node`, `WalkNeighbors`).  Core Lean only.

* `nodes`/`edges` are the two vectors of the inner `Graph<Option<N>, Option<E>>`; a slot is
  `(weight, next[0], next[1])` resp. `(weight, next[0], next[1], node[0], node[1])`.
* an index value is modelled by its `index()`; `fin` is `Ix::max().index()` (= `NodeIndex::end()` =
  `EdgeIndex::end()`), `noLimit` is `Ix::max().index() == !0` (true only for `usize`).
* `vec[i]` (bounds-checked, panics) is modelled by a checked access whose failure is the fault `oob`;
  loops take fuel whose exhaustion is the fault `fuel` (the real loop would not terminate);
  `debug_assert!` is the fault `debugAssert` when `debug` is set; `x -= 1` on `0` is the fault
  `overflow`.  `Theorems/C02.lean` shows no fault is reachable under the invariant.
* documented panics (`add_node`/`add_edge`/`update_edge` = `try_*().unwrap()`, `Index` on an absent
  element, `index_twice_mut`, the `add_node`/`add_edge` inside `extend_with_edges`) are *answers*
  (`Out.panic`), not faults; the state they leave behind is the state the real code leaves behind.
* weights are `Int` (the harness uses `i64`), closures (`retain_*`, `map`, `filter_map`) are given as
  finite tables.
-/
namespace PetgraphModel.SG

inductive Fault where
  | oob          -- bounds-checked indexing would panic
  | fuel         -- a loop did not terminate within its fuel
  | debugAssert  -- a `debug_assert!` failed (debug builds only)
  | overflow     -- counter underflow
  deriving Repr, DecidableEq

inductive GErr where
  | nodeIxLimit
  | edgeIxLimit
  | nodeMissed (i : Nat)
  deriving Repr, DecidableEq

structure Node where
  w : Option Int
  n0 : Nat
  n1 : Nat
  deriving Repr, DecidableEq

structure Edge where
  w : Option Int
  n0 : Nat
  n1 : Nat
  a : Nat
  b : Nat
  deriving Repr, DecidableEq

structure State where
  directed : Bool
  fin : Nat
  noLimit : Bool
  debug : Bool
  nodes : List Node
  edges : List Edge
  nodeCount : Nat
  edgeCount : Nat
  freeNode : Nat
  freeEdge : Nat
  deriving Repr, DecidableEq

def Node.next (n : Node) (k : Nat) : Nat := if k = 0 then n.n0 else n.n1
def Node.setNext (n : Node) (k v : Nat) : Node := if k = 0 then { n with n0 := v } else { n with n1 := v }
def Edge.next (e : Edge) (k : Nat) : Nat := if k = 0 then e.n0 else e.n1
def Edge.setNext (e : Edge) (k v : Nat) : Edge := if k = 0 then { e with n0 := v } else { e with n1 := v }
def Edge.node (e : Edge) (k : Nat) : Nat := if k = 0 then e.a else e.b

/-- `StableGraph::with_capacity(_, _)` (= `new`, `default`) -/
def empty (directed : Bool) (fin : Nat) (noLimit debug : Bool) : State :=
  { directed, fin, noLimit, debug, nodes := [], edges := [], nodeCount := 0, edgeCount := 0,
    freeNode := fin, freeEdge := fin }

/-- `IndexType::new(n)`: `n as u8/u16/u32`, identity for `usize` -/
def mkIx (s : State) (n : Nat) : Nat := if s.noLimit then n else n % (s.fin + 1)

def modifyNode (nodes : List Node) (i : Nat) (f : Node → Node) : Except Fault (List Node) :=
  match nodes[i]? with
  | none => .error .oob
  | some n => .ok (nodes.set i (f n))

def modifyEdge (edges : List Edge) (i : Nat) (f : Edge → Edge) : Except Fault (List Edge) :=
  match edges[i]? with
  | none => .error .oob
  | some e => .ok (edges.set i (f e))

def decr (c : Nat) : Except Fault Nat := if c = 0 then .error .overflow else .ok (c - 1)

/-! ### queries -/

/-- `get_node`: the slot if it is not vacant -/
def getNode (s : State) (a : Nat) : Option Node :=
  match s.nodes[a]? with
  | some n => if n.w.isSome then some n else none
  | none => none

def containsNode (s : State) (a : Nat) : Bool := (getNode s a).isSome

def nodeWeight (s : State) (a : Nat) : Option Int :=
  match s.nodes[a]? with
  | some n => n.w
  | none => none

def edgeWeight (s : State) (e : Nat) : Option Int :=
  match s.edges[e]? with
  | some ed => ed.w
  | none => none

def edgeEndpoints (s : State) (e : Nat) : Option (Nat × Nat) :=
  match s.edges[e]? with
  | some ed => if ed.w.isSome then some (ed.a, ed.b) else none
  | none => none

/-- index of the last `Some` + 1 (`next_back().map_or(0, |i| i + 1)`) -/
def boundOf {α : Type} : List (Option α) → Nat
  | [] => 0
  | x :: xs =>
    let r := boundOf xs
    if r > 0 then r + 1 else if x.isSome then 1 else 0

def nodeBound (s : State) : Nat := boundOf (s.nodes.map (·.w))
def edgeBound (s : State) : Nat := boundOf (s.edges.map (·.w))

/-- indices of the `Some` slots, ascending (`node_indices`, `edge_indices`) -/
def liveIdx {α : Type} : List (Option α) → Nat → List Nat
  | [], _ => []
  | x :: xs, i => if x.isSome then i :: liveIdx xs (i + 1) else liveIdx xs (i + 1)

def nodeIndices (s : State) : List Nat := liveIdx (s.nodes.map (·.w)) 0
def edgeIndices (s : State) : List Nat := liveIdx (s.edges.map (·.w)) 0

def nodeRefsFrom : List Node → Nat → List (Nat × Int)
  | [], _ => []
  | n :: ns, i => match n.w with
    | some w => (i, w) :: nodeRefsFrom ns (i + 1)
    | none => nodeRefsFrom ns (i + 1)

def nodeReferences (s : State) : List (Nat × Int) := nodeRefsFrom s.nodes 0

structure ERef where
  id : Nat
  a : Nat
  b : Nat
  w : Int
  deriving Repr, DecidableEq

def edgeRefsFrom : List Edge → Nat → List ERef
  | [], _ => []
  | e :: es, i => match e.w with
    | some w => ⟨i, e.a, e.b, w⟩ :: edgeRefsFrom es (i + 1)
    | none => edgeRefsFrom es (i + 1)

def edgeReferences (s : State) : List ERef := edgeRefsFrom s.edges 0

/-- the `Neighbors` iterator run to exhaustion from cursor `(n0, n1)` -/
def neighborsLoop (edges : List Edge) (skip : Nat) (debug : Bool) : Nat → Nat → Nat → Except Fault (List Nat)
  | 0, _, _ => .error .fuel
  | f+1, n0, n1 =>
    match edges[n0]? with
    | some e =>
      if debug && e.w.isNone then .error .debugAssert
      else match neighborsLoop edges skip debug f e.n0 n1 with
        | .ok rest => .ok (e.b :: rest)
        | .error x => .error x
    | none =>
      match edges[n1]? with
      | some e =>
        if debug && e.w.isNone then .error .debugAssert
        else match neighborsLoop edges skip debug f n0 e.n1 with
          | .ok rest => .ok (if e.a != skip then e.a :: rest else rest)
          | .error x => .error x
      | none => .ok []

def iterFuel (s : State) : Nat := 2 * s.edges.length + 2

/-- `neighbors_undirected(a)` -/
def neighborsUndirected (s : State) (a : Nat) : Except Fault (List Nat) :=
  match getNode s a with
  | none => neighborsLoop s.edges a s.debug (iterFuel s) s.fin s.fin
  | some n => neighborsLoop s.edges a s.debug (iterFuel s) n.n0 n.n1

/-- `neighbors_directed(a, dir)`; `k = dir.index()` -/
def neighborsDirected (s : State) (a k : Nat) : Except Fault (List Nat) :=
  if s.directed then
    let (n0, n1) := match getNode s a with
      | none => (s.fin, s.fin)
      | some n => (n.n0, n.n1)
    -- iter.next[1 - k] = end; skip_start = end
    if k = 0 then neighborsLoop s.edges s.fin s.debug (iterFuel s) n0 s.fin
    else neighborsLoop s.edges s.fin s.debug (iterFuel s) s.fin n1
  else neighborsUndirected s a

def neighbors (s : State) (a : Nat) : Except Fault (List Nat) := neighborsDirected s a 0

/-- the detached `WalkNeighbors` (of the inner `Graph`) run to exhaustion -/
def walkLoop (edges : List Edge) (skip : Nat) : Nat → Nat → Nat → Except Fault (List (Nat × Nat))
  | 0, _, _ => .error .fuel
  | f+1, n0, n1 =>
    match edges[n0]? with
    | some e =>
      match walkLoop edges skip f e.n0 n1 with
      | .ok rest => .ok ((n0, e.b) :: rest)
      | .error x => .error x
    | none =>
      match edges[n1]? with
      | some e =>
        match walkLoop edges skip f n0 e.n1 with
        | .ok rest => .ok (if e.a != skip then (n1, e.a) :: rest else rest)
        | .error x => .error x
      | none => .ok []

/-- cursor of `neighbors_directed(a, k).detach()` (`k = 2`: `neighbors_undirected(a).detach()`) -/
def walker (s : State) (a k : Nat) : Except Fault (List (Nat × Nat)) :=
  let (n0, n1) := match getNode s a with
    | none => (s.fin, s.fin)
    | some n => (n.n0, n.n1)
  if s.directed && k < 2 then
    if k = 0 then walkLoop s.edges s.fin (iterFuel s) n0 s.fin
    else walkLoop s.edges s.fin (iterFuel s) s.fin n1
  else walkLoop s.edges a (iterFuel s) n0 n1

/-- first half of `Edges::next`: `iterate_over.unwrap_or(Outgoing) == Outgoing` and the slot under the outgoing
cursor is a live edge -/
def edgesOutHit (edges : List Edge) (directed dirIn : Bool) (n0 : Nat) : Option (Edge × Int) :=
  if !directed || !dirIn then
    match edges[n0]? with
    | some e => (match e.w with | some w => some (e, w) | none => none)
    | none => none
  else none

/-- the `Edges` iterator run to exhaustion; `dirIn`: `direction == Incoming` -/
def edgesLoop (edges : List Edge) (directed dirIn : Bool) (skip : Nat) (debug : Bool) :
    Nat → Nat → Nat → Except Fault (List ERef)
  | 0, _, _ => .error .fuel
  | f+1, n0, n1 =>
    match edgesOutHit edges directed dirIn n0 with
    | some (e, w) =>
      match edgesLoop edges directed dirIn skip debug f e.n0 n1 with
      | .ok rest =>
        -- reverse == Some(Outgoing)  ⇔  undirected ∧ direction = Incoming
        .ok ((if !directed && dirIn then ⟨n0, e.b, e.a, w⟩ else ⟨n0, e.a, e.b, w⟩) :: rest)
      | .error x => .error x
    | none =>
      -- iterate_over.unwrap_or(Incoming) == Incoming
      if !directed || dirIn then
        match edges[n1]? with
        | some e =>
          if debug && e.w.isNone then .error .debugAssert
          else match edgesLoop edges directed dirIn skip debug f n0 e.n1 with
            | .error x => .error x
            | .ok rest =>
              if !directed && e.a == skip then .ok rest
              else match e.w with
                | none => .error .oob   -- `weight.as_ref().unwrap()` on a vacant slot
                | some w =>
                  -- reverse == Some(Incoming)  ⇔  undirected ∧ direction = Outgoing
                  .ok ((if !directed && !dirIn then ⟨n1, e.b, e.a, w⟩ else ⟨n1, e.a, e.b, w⟩) :: rest)
        | none => .ok []
      else .ok []

/-- `edges_directed(a, dir)` -/
def edgesDirected (s : State) (a : Nat) (dirIn : Bool) : Except Fault (List ERef) :=
  let (n0, n1) := match getNode s a with
    | none => (s.fin, s.fin)
    | some n => (n.n0, n.n1)
  edgesLoop s.edges s.directed dirIn a s.debug (iterFuel s) n0 n1

/-- `edges_connecting(a, b)` -/
def edgesConnecting (s : State) (a b : Nat) : Except Fault (List ERef) :=
  match edgesDirected s a false with
  | .ok l => .ok (l.filter (fun r => r.b == b))
  | .error x => .error x

/-- `find_edge_directed_from_node` / one direction of `find_edge_undirected_from_node` -/
def findLoop (edges : List Edge) (k b : Nat) : Nat → Nat → Except Fault (Option Nat)
  | 0, _ => .error .fuel
  | f+1, edix =>
    match edges[edix]? with
    | none => .ok none
    | some e => if e.node (1 - k) = b then .ok (some edix) else findLoop edges k b f (e.next k)

/-- `find_edge_undirected(a, b)`: the edge and `dir.index()` -/
def findEdgeUndirected (s : State) (a b : Nat) : Except Fault (Option (Nat × Nat)) :=
  match getNode s a with
  | none => .ok none
  | some n =>
    match findLoop s.edges 0 b (s.edges.length + 1) n.n0 with
    | .error x => .error x
    | .ok (some e) => .ok (some (e, 0))
    | .ok none =>
      match findLoop s.edges 1 b (s.edges.length + 1) n.n1 with
      | .error x => .error x
      | .ok (some e) => .ok (some (e, 1))
      | .ok none => .ok none

/-- `find_edge(a, b)` -/
def findEdge (s : State) (a b : Nat) : Except Fault (Option Nat) :=
  if !s.directed then
    match findEdgeUndirected s a b with
    | .ok (some (e, _)) => .ok (some e)
    | .ok none => .ok none
    | .error x => .error x
  else match getNode s a with
    | none => .ok none
    | some n => findLoop s.edges 0 b (s.edges.length + 1) n.n0

def externalsFrom (directed : Bool) (fin k : Nat) : List Node → Nat → List Nat
  | [], _ => []
  | n :: ns, i =>
    if n.w.isSome && n.next k == fin && (directed || n.next (1 - k) == fin)
    then i :: externalsFrom directed fin k ns (i + 1)
    else externalsFrom directed fin k ns (i + 1)

/-- `externals(dir)` -/
def externals (s : State) (k : Nat) : List Nat := externalsFrom s.directed s.fin k s.nodes 0

/-! ### the debug-only self check -/

def checkFreeNodes (nodes : List Node) (fin : Nat) : Nat → Nat → Nat → Nat → Except Fault Nat
  | 0, _, _, _ => .error .fuel
  | f+1, free, prev, len =>
    if free = fin then .ok len
    else match nodes[free]? with
      | none => .error .debugAssert           -- "Corrupt free list: missing"
      | some n =>
        if n.w.isSome then .error .debugAssert   -- "pointing to existing"
        else if n.n1 ≠ prev then .error .debugAssert
        else checkFreeNodes nodes fin f n.n0 free (len + 1)

def checkFreeEdges (edges : List Edge) (fin : Nat) : Nat → Nat → Nat → Except Fault Nat
  | 0, _, _ => .error .fuel
  | f+1, free, len =>
    if free = fin then .ok len
    else match edges[free]? with
      | none => .error .debugAssert
      | some e =>
        if e.w.isSome then .error .debugAssert
        else checkFreeEdges edges fin f e.n0 (len + 1)

/-- `check_free_lists` (a no-op in release builds) -/
def checkFreeLists (s : State) : Except Fault Unit :=
  if !s.debug then .ok ()
  else match checkFreeNodes s.nodes s.fin (s.nodes.length + 1) s.freeNode s.fin 0 with
    | .error x => .error x
    | .ok nlen =>
      if nlen > s.nodes.length || s.nodeCount ≠ s.nodes.length - nlen then .error .debugAssert
      else match checkFreeEdges s.edges s.fin (s.edges.length + 1) s.freeEdge 0 with
        | .error x => .error x
        | .ok elen =>
          if elen > s.edges.length || s.edgeCount ≠ s.edges.length - elen then .error .debugAssert
          else .ok ()

/-! ### nodes -/

/-- `occupy_vacant_node` -/
def occupyVacantNode (s : State) (idx : Nat) (w : Int) : Except Fault State :=
  match s.nodes[idx]? with
  | none => .error .oob
  | some slot =>
    if s.debug && slot.w.isSome then .error .debugAssert
    else
      let prev := slot.n1
      let next := slot.n0
      let nodes1 := s.nodes.set idx { w := some w, n0 := s.fin, n1 := s.fin }
      match (if prev ≠ s.fin then modifyNode nodes1 prev (fun n => { n with n0 := next }) else .ok nodes1) with
      | .error x => .error x
      | .ok nodes2 =>
        match (if next ≠ s.fin then modifyNode nodes2 next (fun n => { n with n1 := prev }) else .ok nodes2) with
        | .error x => .error x
        | .ok nodes3 =>
          .ok { s with nodes := nodes3,
                       freeNode := if s.freeNode = idx then next else s.freeNode,
                       nodeCount := s.nodeCount + 1 }

/-- the capacity test `<Ix as IndexType>::max().index() == !0 || end() != idx` for a vector of length `len`.
For `usize` the real test is vacuous; the model reports the limit at `2^64 - 1` slots instead, a length no
`Vec` can reach (`Vec::push` panics with "capacity overflow" long before). -/
def canPush (s : State) (len : Nat) : Bool :=
  if s.noLimit then len < s.fin else s.fin ≠ mkIx s len

/-- `Graph::try_add_node(weight)` on the inner graph: `none` = `Err(NodeIxLimit)` -/
def pushNode (s : State) (w : Option Int) : Option (State × Nat) :=
  let idx := mkIx s s.nodes.length
  if canPush s s.nodes.length then
    some ({ s with nodes := s.nodes ++ [{ w := w, n0 := s.fin, n1 := s.fin }] }, idx)
  else none

/-- `try_add_node` -/
def tryAddNode (s : State) (w : Int) : Except Fault (State × Except GErr Nat) :=
  if s.freeNode ≠ s.fin then
    match occupyVacantNode s s.freeNode w with
    | .ok s' => .ok (s', .ok s.freeNode)
    | .error x => .error x
  else match pushNode s (some w) with
    | some (s', idx) => .ok ({ s' with nodeCount := s'.nodeCount + 1 }, .ok idx)
    | none => .ok (s, .error .nodeIxLimit)

/-- `add_vacant_node(&mut free)`: `none` = the inner `add_node` panicked (index limit) -/
def addVacantNode (s : State) (free : Nat) : Except Fault (Option (State × Nat)) :=
  match pushNode s none with
  | none => .ok none
  | some (s1, idx) =>
    match modifyNode s1.nodes idx (fun n => { n with n0 := free, n1 := s.fin }) with
    | .error x => .error x
    | .ok nodes1 =>
      match (if free ≠ s.fin then modifyNode nodes1 free (fun n => { n with n1 := idx }) else .ok nodes1) with
      | .error x => .error x
      | .ok nodes2 => .ok (some ({ s1 with nodes := nodes2 }, idx))

/-! ### edges -/

/-- the `while let Some(curedge) = edges.next_edge()` loop of `change_edge_links` -/
def relinkWalk (edges : List Edge) (k e repl : Nat) : Nat → Nat → Except Fault (List Edge)
  | 0, _ => .error .fuel
  | f+1, cur =>
    match edges[cur]? with
    | none => .ok edges
    | some ce =>
      if ce.next k = e then .ok (edges.set cur (ce.setNext k repl))
      else relinkWalk edges k e repl f (ce.next k)

/-- one direction of `change_edge_links`; `none` = the early `return` of a release build when the
endpoint does not exist -/
def changeEdgeLinksDir (s : State) (k nd e repl : Nat) : Except Fault (Option State) :=
  match s.nodes[nd]? with
  | none => if s.debug then .error .debugAssert else .ok none
  | some node =>
    if node.next k = e then .ok (some { s with nodes := s.nodes.set nd (node.setNext k repl) })
    else match relinkWalk s.edges k e repl (s.edges.length + 1) (node.next k) with
      | .ok es => .ok (some { s with edges := es })
      | .error x => .error x

/-- `change_edge_links(edge_node, e, edge_next)` -/
def changeEdgeLinks (s : State) (ea eb e r0 r1 : Nat) : Except Fault State :=
  match changeEdgeLinksDir s 0 ea e r0 with
  | .error x => .error x
  | .ok none => .ok s
  | .ok (some s1) =>
    match changeEdgeLinksDir s1 1 eb e r1 with
    | .error x => .error x
    | .ok none => .ok s1
    | .ok (some s2) => .ok s2

/-- `remove_edge` -/
def removeEdge (s : State) (e : Nat) : Except Fault (State × Option Int) :=
  match s.edges[e]? with
  | none => .ok (s, none)
  | some x =>
    match x.w with
    | none => .ok (s, none)
    | some w =>
      match changeEdgeLinks s x.a x.b e x.n0 x.n1 with
      | .error f => .error f
      | .ok s1 =>
        match modifyEdge s1.edges e (fun _ => { w := none, n0 := s1.freeEdge, n1 := s1.fin, a := s1.fin, b := s1.fin }) with
        | .error f => .error f
        | .ok es =>
          match decr s1.edgeCount with
          | .error f => .error f
          | .ok c => .ok ({ s1 with edges := es, freeEdge := e, edgeCount := c }, some w)

/-- the `loop { … remove_edge(next) … }` of `remove_node` for direction `k` -/
def removeNodeEdges (a k : Nat) : Nat → State → Except Fault State
  | 0, _ => .error .fuel
  | f+1, s =>
    match s.nodes[a]? with
    | none => .error .oob
    | some n =>
      if n.next k = s.fin then .ok s
      else match removeEdge s (n.next k) with
        | .error x => .error x
        | .ok (s1, ret) =>
          if s.debug && ret.isNone then .error .debugAssert
          else removeNodeEdges a k f s1

/-- `remove_node` -/
def removeNode (s : State) (a : Nat) : Except Fault (State × Option Int) :=
  match s.nodes[a]? with
  | none => .ok (s, none)
  | some n =>
    match n.w with
    | none => .ok (s, none)
    | some w =>
      let s0 := { s with nodes := s.nodes.set a { n with w := none } }
      match removeNodeEdges a 0 (s0.edges.length + 1) s0 with
      | .error x => .error x
      | .ok s1 =>
        match removeNodeEdges a 1 (s1.edges.length + 1) s1 with
        | .error x => .error x
        | .ok s2 =>
          match modifyNode s2.nodes a (fun nd => { nd with n0 := s2.freeNode, n1 := s2.fin }) with
          | .error x => .error x
          | .ok nodes1 =>
            match (if s2.freeNode ≠ s2.fin then modifyNode nodes1 s2.freeNode (fun nd => { nd with n1 := a })
                   else .ok nodes1) with
            | .error x => .error x
            | .ok nodes2 =>
              match decr s2.nodeCount with
              | .error x => .error x
              | .ok c => .ok ({ s2 with nodes := nodes2, freeNode := a, nodeCount := c }, some w)

/-- the linking `match index_twice(&mut self.g.nodes, a, b)` of `try_add_edge`: the new `next` pair of
the edge and the updated node array, or the `wrong_index` -/
def linkNodes (nodes : List Node) (a b idx : Nat) : Except Nat (List Node × Nat × Nat) :=
  if max a b ≥ nodes.length then .error (max a b)
  else if a = b then
    match nodes[a]? with
    | none => .error a
    | some an =>
      if an.w.isNone then .error a
      else .ok (nodes.set a { an with n0 := idx, n1 := idx }, an.n0, an.n1)
  else
    match nodes[a]?, nodes[b]? with
    | some an, some bn =>
      if an.w.isNone then .error a
      else if bn.w.isNone then .error b
      else .ok ((nodes.set a { an with n0 := idx }).set b { bn with n1 := idx }, an.n0, bn.n1)
    | _, _ => .error (max a b)

/-- `try_add_edge` -/
def tryAddEdge (s : State) (a b : Nat) (w : Int) : Except Fault (State × Except GErr Nat) :=
  if s.freeEdge ≠ s.fin then
    -- reuse the head of the free list
    let idx := s.freeEdge
    match s.edges[idx]? with
    | none => .error .oob
    | some slot =>
      if s.debug && slot.w.isSome then .error .debugAssert
      else
        let s1 := { s with edges := s.edges.set idx { slot with w := some w, a := a, b := b },
                           freeEdge := slot.n0 }
        match linkNodes s1.nodes a b idx with
        | .error i =>
          -- undo the occupation of the vacant edge
          match modifyEdge s1.edges idx (fun ed => { ed with w := none, a := s.fin, b := s.fin }) with
          | .error x => .error x
          | .ok es => .ok ({ s1 with edges := es, freeEdge := idx }, .error (.nodeMissed i))
        | .ok (nodes', x0, x1) =>
          match modifyEdge s1.edges idx (fun ed => { ed with n0 := x0, n1 := x1 }) with
          | .error x => .error x
          | .ok es => .ok ({ s1 with nodes := nodes', edges := es, edgeCount := s1.edgeCount + 1 }, .ok idx)
  else
    let idx := mkIx s s.edges.length
    if !canPush s s.edges.length then .ok (s, .error .edgeIxLimit)
    else match linkNodes s.nodes a b idx with
      | .error i => .ok (s, .error (.nodeMissed i))
      | .ok (nodes', x0, x1) =>
        .ok ({ s with nodes := nodes', edges := s.edges ++ [{ w := some w, n0 := x0, n1 := x1, a := a, b := b }],
                      edgeCount := s.edgeCount + 1 }, .ok idx)

/-- `add_vacant_edge(&mut free)` -/
def addVacantEdge (s : State) (free : Nat) : Except Fault (State × Nat) :=
  let idx := mkIx s s.edges.length
  if s.debug && idx = s.fin then .error .debugAssert
  else .ok ({ s with edges := s.edges ++ [{ w := none, n0 := free, n1 := s.fin, a := s.fin, b := s.fin }] }, idx)

/-- `try_update_edge` -/
def tryUpdateEdge (s : State) (a b : Nat) (w : Int) : Except Fault (State × Except GErr Nat) :=
  match findEdge s a b with
  | .error x => .error x
  | .ok (some ix) =>
    -- `self[ix] = weight`
    match s.edges[ix]? with
    | none => .error .oob
    | some ed =>
      if ed.w.isNone then .error .oob
      else .ok ({ s with edges := s.edges.set ix { ed with w := some w } }, .ok ix)
  | .ok none => tryAddEdge s a b w

/-- `node_weight_mut(a).map(|x| *x = w)` -/
def setNodeWeight (s : State) (a : Nat) (w : Int) : State × Bool :=
  match s.nodes[a]? with
  | some n => if n.w.isSome then ({ s with nodes := s.nodes.set a { n with w := some w } }, true) else (s, false)
  | none => (s, false)

def setEdgeWeight (s : State) (e : Nat) (w : Int) : State × Bool :=
  match s.edges[e]? with
  | some ed => if ed.w.isSome then ({ s with edges := s.edges.set e { ed with w := some w } }, true) else (s, false)
  | none => (s, false)

/-! ### whole-graph operations -/

/-- `reverse` -/
def reverse (s : State) : State :=
  { s with
    edges := s.edges.map (fun e => if e.w.isSome then { e with a := e.b, b := e.a, n0 := e.n1, n1 := e.n0 } else e),
    nodes := s.nodes.map (fun n => if n.w.isSome then { n with n0 := n.n1, n1 := n.n0 } else n) }

/-- `clear` -/
def clear (s : State) : State :=
  { s with nodes := [], edges := [], nodeCount := 0, edgeCount := 0, freeNode := s.fin, freeEdge := s.fin }

/-- `clear_edges` -/
def clearEdges (s : State) : State :=
  { s with edgeCount := 0, freeEdge := s.fin, edges := [],
           nodes := s.nodes.map (fun n => if n.w.isSome then { n with n0 := s.fin, n1 := s.fin } else n) }

/-- the `for i in 0..self.node_bound()` loop of `retain_nodes`; the closure is
`|_, ix| !rm.contains(ix)`; returns the indices the closure was called with -/
def retainNodesLoop (rm : List Nat) : List Nat → State → Except Fault (State × List Nat)
  | [], s => .ok (s, [])
  | i :: is, s =>
    let ix := mkIx s i
    if containsNode s ix then
      if rm.contains ix then
        match removeNode s ix with
        | .error x => .error x
        | .ok (s1, _) =>
          match retainNodesLoop rm is s1 with
          | .ok (s2, vis) => .ok (s2, ix :: vis)
          | .error x => .error x
      else match retainNodesLoop rm is s with
        | .ok (s2, vis) => .ok (s2, ix :: vis)
        | .error x => .error x
    else retainNodesLoop rm is s

/-- `retain_nodes` -/
def retainNodes (s : State) (rm : List Nat) : Except Fault (State × List Nat) :=
  match retainNodesLoop rm (List.range (nodeBound s)) s with
  | .error x => .error x
  | .ok (s1, vis) =>
    match checkFreeLists s1 with
    | .error x => .error x
    | .ok () => .ok (s1, vis)

def retainEdgesLoop (rm : List Nat) : List Nat → State → Except Fault (State × List Nat)
  | [], s => .ok (s, [])
  | i :: is, s =>
    let ix := mkIx s i
    if (edgeWeight s ix).isSome then
      if rm.contains ix then
        match removeEdge s ix with
        | .error x => .error x
        | .ok (s1, _) =>
          match retainEdgesLoop rm is s1 with
          | .ok (s2, vis) => .ok (s2, ix :: vis)
          | .error x => .error x
      else match retainEdgesLoop rm is s with
        | .ok (s2, vis) => .ok (s2, ix :: vis)
        | .error x => .error x
    else retainEdgesLoop rm is s

/-- `retain_edges` -/
def retainEdges (s : State) (rm : List Nat) : Except Fault (State × List Nat) :=
  match retainEdgesLoop rm (List.range (edgeBound s)) s with
  | .error x => .error x
  | .ok (s1, vis) =>
    match checkFreeLists s1 with
    | .error x => .error x
    | .ok () => .ok (s1, vis)

/-- `map(|_, w| w + cn, |_, w| w + ce)`; also the indices the closures were called with -/
def mapGraph (s : State) (cn ce : Int) : State × List Nat × List Nat :=
  ({ s with nodes := s.nodes.map (fun n => { n with w := n.w.map (· + cn) }),
            edges := s.edges.map (fun e => { e with w := e.w.map (· + ce) }) },
   nodeIndices s, edgeIndices s)

/-- the closure `|i, w| if dropN.contains(i) { None } else { Some(w + cn) }` applied to slot `i`
(`none` also for a vacant slot, for which the closure is not called) -/
def fmKeepNode (dropN : List Nat) (cn : Int) (i : Nat) (n : Node) : Option Int :=
  match n.w with
  | some w => if dropN.contains i then none else some (w + cn)
  | none => none

/-- `edge_map` is called for live edges both of whose endpoints survived -/
def fmEdgeCalled (r : State) (e : Edge) : Bool := e.w.isSome && containsNode r e.a && containsNode r e.b

def fmKeepEdge (dropE : List Nat) (ce : Int) (r : State) (i : Nat) (e : Edge) : Option Int :=
  match e.w with
  | some w => if fmEdgeCalled r e && !dropE.contains i then some (w + ce) else none
  | none => none

/-- node loop of `filter_map`; the list is the source slice `raw_nodes()[i..node_bound]` -/
def filterMapNodes (dropN : List Nat) (cn : Int) : List Node → Nat → State → Nat → Except Fault (State × Nat × List Nat)
  | [], _, r, free => .ok (r, free, [])
  | n :: ns, i, r, free =>
    let next : Except Fault (State × Nat) := match fmKeepNode dropN cn i n with
      | some w' =>
        match tryAddNode r w' with
        | .error x => .error x
        | .ok (_, .error _) => .error .oob   -- `add_node` of the result cannot reach the limit
        | .ok (r1, .ok _) => .ok (r1, free)
      | none =>
        match addVacantNode r free with
        | .error x => .error x
        | .ok none => .error .oob
        | .ok (some (r1, free1)) => .ok (r1, free1)
    match next with
    | .error x => .error x
    | .ok (r1, free1) =>
      match filterMapNodes dropN cn ns (i + 1) r1 free1 with
      | .error x => .error x
      | .ok (r2, f2, vis) => .ok (r2, f2, if n.w.isSome then i :: vis else vis)

def filterMapEdges (dropE : List Nat) (ce : Int) : List Edge → Nat → State → Nat → Except Fault (State × Nat × List Nat)
  | [], _, r, free => .ok (r, free, [])
  | e :: es, i, r, free =>
    let next : Except Fault (State × Nat) := match fmKeepEdge dropE ce r i e with
      | some w' =>
        match tryAddEdge r e.a e.b w' with
        | .error x => .error x
        | .ok (_, .error _) => .error .oob
        | .ok (r1, .ok _) => .ok (r1, free)
      | none => addVacantEdge r free
    match next with
    | .error x => .error x
    | .ok (r1, free1) =>
      match filterMapEdges dropE ce es (i + 1) r1 free1 with
      | .error x => .error x
      | .ok (r2, f2, vis) => .ok (r2, f2, if fmEdgeCalled r e then i :: vis else vis)

/-- `filter_map`: closures `|i, w| if dropN.contains(i) { None } else { Some(w + cn) }` (edges alike);
returns the new graph and the indices the two closures were called with -/
def filterMap (s : State) (dropN dropE : List Nat) (cn ce : Int) : Except Fault (State × List Nat × List Nat) :=
  let r0 := empty s.directed s.fin s.noLimit s.debug
  match filterMapNodes dropN cn (s.nodes.take (nodeBound s)) 0 r0 s.fin with
  | .error x => .error x
  | .ok (r1, freeN, visN) =>
    match filterMapEdges dropE ce (s.edges.take (edgeBound s)) 0 r1 s.fin with
    | .error x => .error x
    | .ok (r2, freeE, visE) =>
      let r3 := { r2 with freeNode := freeN, freeEdge := freeE }
      match checkFreeLists r3 with
      | .error x => .error x
      | .ok () => .ok (r3, visN, visE)

/-- the `while node_ix.index() >= self.g.node_count()` loop of `ensure_node_exists`;
`(state, panicked)` -/
def padNodes (ix : Nat) : Nat → State → Except Fault (State × Bool)
  | 0, _ => .error .fuel
  | f+1, s =>
    if ix ≥ s.nodes.length then
      match addVacantNode s s.freeNode with
      | .error x => .error x
      | .ok none => .ok (s, true)
      | .ok (some (s1, free1)) => padNodes ix f { s1 with freeNode := free1 }
    else .ok (s, false)

/-- `ensure_node_exists`; `(state, panicked)` -/
def ensureNodeExists (s : State) (ix : Nat) : Except Fault (State × Bool) :=
  if (nodeWeight s ix).isSome then .ok (s, false)
  else match padNodes ix (ix + 2) s with
    | .error x => .error x
    | .ok (s1, true) => .ok (s1, true)
    | .ok (s1, false) =>
      match occupyVacantNode s1 ix 0 with
      | .error x => .error x
      | .ok s2 => .ok (s2, false)

/-- `extend_with_edges`; `(state, panicked)` — a panic (index limit reached inside `add_node`/`add_edge`)
leaves the elements processed so far in place -/
def extendWithEdges : State → List (Nat × Nat × Int) → Except Fault (State × Bool)
  | s, [] => .ok (s, false)
  | s, (a, b, w) :: rest =>
    match ensureNodeExists s a with
    | .error x => .error x
    | .ok (s1, true) => .ok (s1, true)
    | .ok (s1, false) =>
      match ensureNodeExists s1 b with
      | .error x => .error x
      | .ok (s2, true) => .ok (s2, true)
      | .ok (s2, false) =>
        match tryAddEdge s2 a b w with
        | .error x => .error x
        | .ok (s3, .error _) => .ok (s3, true)
        | .ok (s3, .ok _) => extendWithEdges s3 rest

/-! ### conversions

A plain `Graph<N, E, Ty, Ix>` is represented as a `State` without vacancies (every weight `some`,
both free lists empty): `Graph::add_node` / `Graph::add_edge` are then literally the push branches of
`try_add_node` / `try_add_edge` (same `index_twice` linking; the vacancy tests of the latter cannot fire). -/

/-- node loop of `Graph::from(stable_graph)`: the new graph and `node_index_map` -/
def toGraphNodes : List Node → State → List Nat → Except Fault (State × List Nat)
  | [], g, m => .ok (g, m)
  | n :: ns, g, m =>
    match n.w with
    | some w =>
      match tryAddNode g w with
      | .error x => .error x
      | .ok (_, .error _) => .error .oob        -- `add_node` of the result cannot reach the limit
      | .ok (g1, .ok i) => toGraphNodes ns g1 (m ++ [i])
    | none => toGraphNodes ns g (m ++ [g.fin])

def toGraphEdges (m : List Nat) : List Edge → State → Except Fault State
  | [], g => .ok g
  | e :: es, g =>
    match e.w with
    | none => toGraphEdges m es g
    | some w =>
      match m[e.a]?, m[e.b]? with
      | some sa, some sb =>
        if g.debug && (sa = g.fin || sb = g.fin) then .error .debugAssert
        else match tryAddEdge g sa sb w with
          | .error x => .error x
          | .ok (_, .error _) => .error .oob    -- `Graph::add_edge` panics (out of bounds / limit)
          | .ok (g1, .ok _) => toGraphEdges m es g1
      | _, _ => .error .oob

/-- `Graph::from(stable_graph)` -/
def toGraph (s : State) : Except Fault State :=
  match toGraphNodes s.nodes (empty s.directed s.fin s.noLimit s.debug) [] with
  | .error x => .error x
  | .ok (g0, m) => toGraphEdges (m.take (nodeBound s)) s.edges g0

/-- `StableGraph::from(Graph::from(self))`; `StableGraph::from(graph)` wraps every weight in `Some`, keeps
the `next` pointers, sets the counts to the lengths and both free lists to `end()` — on the representation
of a plain graph chosen above this is the identity -/
def compact (s : State) : Except Fault State := toGraph s

/-! ### the operation alphabet of the history-quantified statements -/

inductive Op where
  | addNode (w : Int)                       -- try_add_node (add_node = unwrap)
  | addEdge (a b : Nat) (w : Int)           -- try_add_edge (add_edge = unwrap)
  | updateEdge (a b : Nat) (w : Int)        -- try_update_edge (update_edge = unwrap)
  | removeNode (a : Nat)
  | removeEdge (e : Nat)
  | setNodeWeight (a : Nat) (w : Int)       -- node_weight_mut / IndexMut
  | setEdgeWeight (e : Nat) (w : Int)
  | reverse
  | clear
  | clearEdges
  | retainNodes (rm : List Nat)
  | retainEdges (rm : List Nat)
  | map (cn ce : Int)
  | filterMap (dropN dropE : List Nat) (cn ce : Int)
  | extendWithEdges (l : List (Nat × Nat × Int))
  | compact                                 -- StableGraph::from(Graph::from(g))
  | clone
  deriving Repr, DecidableEq

inductive Out where
  | unit
  | idx (r : Except GErr Nat)
  | weight (o : Option Int)
  | flag (b : Bool)
  | visited (ns es : List Nat)
  | panic
  deriving Repr

/-- one public call -/
def step (s : State) : Op → Except Fault (State × Out)
  | .addNode w => match tryAddNode s w with
    | .ok (s', r) => .ok (s', .idx r) | .error x => .error x
  | .addEdge a b w => match tryAddEdge s a b w with
    | .ok (s', r) => .ok (s', .idx r) | .error x => .error x
  | .updateEdge a b w => match tryUpdateEdge s a b w with
    | .ok (s', r) => .ok (s', .idx r) | .error x => .error x
  | .removeNode a => match removeNode s a with
    | .ok (s', r) => .ok (s', .weight r) | .error x => .error x
  | .removeEdge e => match removeEdge s e with
    | .ok (s', r) => .ok (s', .weight r) | .error x => .error x
  | .setNodeWeight a w => let (s', b) := setNodeWeight s a w; .ok (s', .flag b)
  | .setEdgeWeight e w => let (s', b) := setEdgeWeight s e w; .ok (s', .flag b)
  | .reverse => .ok (reverse s, .unit)
  | .clear => .ok (clear s, .unit)
  | .clearEdges => .ok (clearEdges s, .unit)
  | .retainNodes rm => match retainNodes s rm with
    | .ok (s', vis) => .ok (s', .visited vis []) | .error x => .error x
  | .retainEdges rm => match retainEdges s rm with
    | .ok (s', vis) => .ok (s', .visited [] vis) | .error x => .error x
  | .map cn ce => let (s', vn, ve) := mapGraph s cn ce; .ok (s', .visited vn ve)
  | .filterMap dn de cn ce => match filterMap s dn de cn ce with
    | .ok (s', vn, ve) => .ok (s', .visited vn ve) | .error x => .error x
  | .extendWithEdges l => match extendWithEdges s l with
    | .ok (s', false) => .ok (s', .unit)
    | .ok (s', true) => .ok (s', .panic)
    | .error x => .error x
  | .compact => match compact s with
    | .ok s' => .ok (s', .unit) | .error x => .error x
  | .clone => .ok (s, .unit)

/-- a whole history; stops at the first fault -/
def run (s : State) : List Op → Except Fault (State × List Out)
  | [] => .ok (s, [])
  | op :: ops =>
    match step s op with
    | .error x => .error x
    | .ok (s1, o) =>
      match run s1 ops with
      | .error x => .error x
      | .ok (s2, os) => .ok (s2, o :: os)

end PetgraphModel.SG
