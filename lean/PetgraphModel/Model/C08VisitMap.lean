/-
Mirror model and specification of `VisitMap` (`/repo/src/visit/mod.rs`: `visit`, `is_visited`, `unvisit`
for `FixedBitSet`, hashbrown / std `HashSet`) together with `Visitable::reset_map` as the walkers of C08 use
them (core Lean only).

* model (`VMap.step`): the map is the list of visited ids — what `Model/Traversal.lean` uses for
  `discovered` / `finished` / `ordered`;
* specification (`VMap.specStep`): the map is a SET, i.e. a predicate `Nat → Bool`; the documented answers:
  `visit` — "Return true if this is the first visit, false otherwise", `is_visited` — "whether `a` has been
  visited before", `unvisit` — "Return true if this vertex was marked as visited at the time of unsetting it",
  `reset_map` — "Reset the visitor map (and resize to new size of graph if needed)": afterwards nothing is
  visited and every node of the graph can be visited.

`Proofs/C08W6VisitMap.lean` proves that the model refines the specification for every op sequence.
-/
namespace PetgraphModel.VMap

inductive Op where
  | visit (a : Nat) | isVisited (a : Nat) | unvisit (a : Nat) | reset
  deriving Repr, DecidableEq, Inhabited

/-- one op on the list model; `some b` = the Boolean the op returns, `none` = `reset_map` returns nothing -/
def step (m : List Nat) : Op → List Nat × Option Bool
  | .visit a => if m.contains a then (m, some false) else (a :: m, some true)
  | .isVisited a => (m, some (m.contains a))
  | .unvisit a => if m.contains a then (m.filter (· != a), some true) else (m, some false)
  | .reset => ([], none)

def run : List Nat → List Op → List (Option Bool)
  | _, [] => []
  | m, op :: ops => (step m op).2 :: run (step m op).1 ops

/-- the specification: a set of node ids -/
def specStep (s : Nat → Bool) : Op → (Nat → Bool) × Option Bool
  | .visit a => (fun x => x == a || s x, some (!s a))
  | .isVisited a => (s, some (s a))
  | .unvisit a => (fun x => x != a && s x, some (s a))
  | .reset => (fun _ => false, none)

def specRun : (Nat → Bool) → List Op → List (Option Bool)
  | _, [] => []
  | s, op :: ops => (specStep s op).2 :: specRun (specStep s op).1 ops

/-! protocol: `v<a>` visit, `i<a>` is_visited, `u<a>` unvisit, `r` reset_map; answers `1` / `0` / `r` -/

def parseOp (t : String) : Option Op :=
  if t == "r" then some .reset
  else if t.startsWith "v" then (t.drop 1).toString.toNat?.map .visit
  else if t.startsWith "i" then (t.drop 1).toString.toNat?.map .isVisited
  else if t.startsWith "u" then (t.drop 1).toString.toNat?.map .unvisit
  else none

def parseOps (s : String) : Option (List Op) :=
  if s == "-" then some [] else (s.splitOn ",").mapM parseOp

def showAns : Option Bool → String
  | some true => "1"
  | some false => "0"
  | none => "r"

def opIds : List Op → List Nat
  | [] => []
  | .visit a :: r => a :: opIds r
  | .isVisited a :: r => a :: opIds r
  | .unvisit a :: r => a :: opIds r
  | .reset :: r => opIds r

end PetgraphModel.VMap
