import PetgraphModel.Model.C09Algo
/-
C09 (wave 4): `has_path_connecting` and `toposort` with an explicit WORKSPACE parameter (core Lean only).

`DfsSpace<N, VM>` wraps a `Dfs { stack: Vec<N>, discovered: VM }`.  A caller may hand in ANY value of
that type: a stack with leftovers of an earlier call (`toposort` returns early with a non-empty stack),
a visit map with arbitrary bits set, and — for the `FixedBitSet` maps of `Graph`, `StableGraph`,
`MatrixGraph`, `Csr`, `adj::List` — a map of ANY length (made by `DfsSpace::default()` = length 0, or
made for a smaller / larger graph of the same type).  Both functions begin with `dfs.reset(g)`:

    graph.reset_map(&mut self.discovered);    // FixedBitSet: clear(); grow(node_bound)   HashSet: clear()
    self.stack.clear();

`FixedBitSet::grow` never shrinks, `put` (= `visit`) panics beyond the length, `contains`
(= `is_visited`) answers `false` beyond the length.  All of that is modelled here; the list-based
models of `Model/C09Algo.lean` (`hasPath`, `toposort`) have no workspace.  `Proofs/C09W4Space.lean`
proves that the answers of the functions below do not depend on the workspace and equal those models.
-/
namespace PetgraphModel.C09M
open PetgraphModel PetgraphModel.Trav

/-- a visit map: `FixedBitSet` (bit `to_index(x)`) or `HashSet<N>` (`GraphMap`) -/
inductive VMap where
  | bits (b : List Bool)
  | set (s : List Nat)
  deriving Repr, Inhabited

/-- `is_visited`: `FixedBitSet::contains` is `false` beyond the length -/
def VMap.isVisited (v : View) : VMap → Nat → Bool
  | .bits b, x => b.getD (v.toIndex x) false
  | .set s, x => s.contains x

/-- `visit` = "was it new?"; `none` = `FixedBitSet::put` panicked (index beyond the length) -/
def VMap.visit (v : View) : VMap → Nat → Option (Bool × VMap)
  | .bits b, x =>
    if v.toIndex x < b.length then some (!b.getD (v.toIndex x) false, .bits (b.set (v.toIndex x) true))
    else none
  | .set s, x => some (!s.contains x, .set (if s.contains x then s else x :: s))

/-- `reset_map`: `clear(); grow(node_bound())` (never shrinks) resp. `clear()` -/
def VMap.reset (v : View) : VMap → VMap
  | .bits b => .bits (List.replicate (max b.length v.nb) false)
  | .set _ => .set []

/-- `g.visit_map()` -/
def VMap.fresh (v : View) (hashed : Bool) : VMap :=
  if hashed then .set [] else .bits (List.replicate v.nb false)

/-- the `Dfs` inside a `DfsSpace`; stack top at the head -/
structure Space where
  stack : List Nat := []
  map : VMap
  deriving Repr, Inhabited

/-- `Dfs::empty(g)`: what `with_dfs` creates when no workspace is passed -/
def Space.fresh (v : View) (hashed : Bool) : Space := { stack := [], map := VMap.fresh v hashed }

/-- `dfs.reset(g)` followed by pushing `stack` -/
def Space.resetTo (v : View) (ws : Space) (stack : List Nat) : Space :=
  { stack := stack, map := ws.map.reset v }

/-- result of a run on a workspace -/
inductive WR (α : Type) where
  | fuel | panic | ret (a : α)
  deriving Repr, DecidableEq, Inhabited

def WR.ofOption {α : Type} : Option α → WR α
  | none => .fuel
  | some a => .ret a

def WR.map {α β : Type} (f : α → β) : WR α → WR β
  | .fuel => .fuel
  | .panic => .panic
  | .ret a => .ret (f a)

/-- `Dfs::next` on the workspace -/
def dfsNextS (v : View) : Nat → Space → WR (Option Nat × Space)
  | 0, _ => .fuel
  | f+1, s =>
    match s.stack with
    | [] => .ret (none, s)
    | x :: st =>
      match s.map.visit v x with
      | none => .panic
      | some (false, m) => dfsNextS v f { stack := st, map := m }
      | some (true, m) =>
        .ret (some x, { stack := ((v.succ x).filter fun y => !m.isVisited v y).reverse ++ st, map := m })

/-! ### has_path_connecting(g, from, to, Some(space)) -/

def hasPathLoopS (v : View) (f : Nat) (to : Nat) : Nat → Space → WR (Bool × Space)
  | 0, _ => .fuel
  | k+1, s =>
    match dfsNextS v f s with
    | .fuel => .fuel
    | .panic => .panic
    | .ret (none, s') => .ret (false, s')
    | .ret (some x, s') => if x = to then .ret (true, s') else hasPathLoopS v f to k s'

/-- answer and the workspace as the call leaves it -/
def hasPathS (v : View) (ws : Space) (a b : Nat) : WR (Bool × Space) :=
  hasPathLoopS v (fuel v) b (fuel v + 4) (ws.resetTo v [a])

/-! ### toposort(g, Some(space)): `dfs.discovered` / `dfs.stack` live in the workspace, `finished`
and `finish_stack` are local -/

structure TSS where
  sp : Space
  fin : List Nat := []
  out : List Nat := []
  deriving Repr, Inhabited

/-- the `while let Some(&nx) = dfs.stack.last()` loop; `.error (x, sp)` = `return Err(Cycle(x))` with the
workspace as it is at that moment (the neighbours pushed before the self-loop was met stay on the stack) -/
def topoWhileS (v : View) : Nat → TSS → WR (Except (Nat × Space) TSS)
  | 0, _ => .fuel
  | f+1, s =>
    match s.sp.stack with
    | [] => .ret (.ok s)
    | nx :: st =>
      match s.sp.map.visit v nx with
      | none => .panic
      | some (true, m) =>
        if (v.succ nx).contains nx then
          .ret (.error (nx, { stack := (((v.succ nx).takeWhile (· != nx)).filter fun y => !m.isVisited v y).reverse
                                        ++ (nx :: st), map := m }))
        else
          topoWhileS v f { s with sp := { stack := ((v.succ nx).filter fun y => !m.isVisited v y).reverse
                                                    ++ (nx :: st), map := m } }
      | some (false, m) =>
        if !s.fin.contains nx then
          topoWhileS v f { sp := { stack := st, map := m }, fin := nx :: s.fin, out := s.out ++ [nx] }
        else topoWhileS v f { s with sp := { stack := st, map := m } }

def topoFirstS (v : View) (f : Nat) : List Nat → TSS → WR (Except (Nat × Space) TSS)
  | [], s => .ret (.ok s)
  | i :: rest, s =>
    if s.sp.map.isVisited v i then topoFirstS v f rest s
    else match topoWhileS v f { s with sp := { s.sp with stack := i :: s.sp.stack } } with
      | .fuel => .fuel
      | .panic => .panic
      | .ret (.error x) => .ret (.error x)
      | .ret (.ok s') => topoFirstS v f rest s'

def topoSecondS (v : View) (f : Nat) : List Nat → Space → WR (Option Nat × Space)
  | [], d => .ret (none, d)
  | i :: rest, d =>
    match dfsNextS (rev v) f { d with stack := [i] } with
    | .fuel => .fuel
    | .panic => .panic
    | .ret (none, d1) => topoSecondS v f rest d1
    | .ret (some _, d1) =>
      match dfsNextS (rev v) f d1 with
      | .fuel => .fuel
      | .panic => .panic
      | .ret (none, d2) => topoSecondS v f rest d2
      | .ret (some j, d2) => .ret (some j, d2)

/-- answer and the workspace as the call leaves it -/
def toposortS (v : View) (ws : Space) : WR (TopoRes × Space) :=
  let f := 2 * fuel v
  match topoFirstS v f v.g.nodes { sp := ws.resetTo v [] } with
  | .fuel => .fuel
  | .panic => .panic
  | .ret (.error (x, sp)) => .ret (.cycle x, sp)
  | .ret (.ok s) =>
    let order := s.out.reverse
    match topoSecondS v f order (s.sp.resetTo v []) with
    | .fuel => .fuel
    | .panic => .panic
    | .ret (some j, sp) => .ret (.cycle j, sp)
    | .ret (none, sp) => .ret (.ok order, sp)

/-! ### a sequence of calls through ONE workspace -/

inductive SpaceOp where
  | hasPath (a b : Nat)
  | toposort
  deriving Repr, Inhabited

inductive SpaceAns where
  | bool (b : Bool)
  | topo (r : TopoRes)
  | fuel
  | panic
  deriving Repr, DecidableEq, Inhabited

/-- the answer of one call without a workspace (`None`): the list models -/
def freshAns (v : View) : SpaceOp → SpaceAns
  | .hasPath a b => match hasPath v a b with | some r => .bool r | none => .fuel
  | .toposort => match toposort v with | some r => .topo r | none => .fuel

/-- run the calls one after the other through the workspace (a caught panic leaves it as it was) -/
def runSpace (v : View) : Space → List SpaceOp → List SpaceAns × Space
  | ws, [] => ([], ws)
  | ws, op :: ops =>
    let (ans, ws') : SpaceAns × Space := match op with
      | .hasPath a b => match hasPathS v ws a b with
        | .ret (r, ws') => (.bool r, ws')
        | .fuel => (.fuel, ws)
        | .panic => (.panic, ws)
      | .toposort => match toposortS v ws with
        | .ret (r, ws') => (.topo r, ws')
        | .fuel => (.fuel, ws)
        | .panic => (.panic, ws)
    let (rest, wsEnd) := runSpace v ws' ops
    (ans :: rest, wsEnd)

end PetgraphModel.C09M
