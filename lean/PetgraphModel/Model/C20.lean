import PetgraphModel.Spec.Graph
/-
C20 — mirror models (core Lean only) of the algorithms whose output is determined by the view's
iteration orders:

* `Fas`   — `greedy_feedback_arc_set` / `good_node_sequence` (feedback_arc_set.rs): the intrusive
            linked lists are lists (`push_front` = cons, `remove` = erase, `pop` = head), the
            `HashMap` lookups are association lists; input = the edges in `edge_references()` order.
* `Tred`  — `dag_to_toposorted_adjacency_list` + `dag_transitive_reduction_closure` (tred.rs).
* `Paths` — the explicit-stack iterator of `all_simple_paths` (simple_paths.rs).
* `PR`    — `page_rank` (page_rank.rs) over exact rationals (`Rat`); IEEE rounding is what the model
            does not carry, the correspondence compares within 1e-9.
-/
namespace PetgraphModel.C20

/-! ### greedy_feedback_arc_set -/
namespace Fas

structure FNode where
  gix : Nat
  outE : List Nat := []
  inE : List Nat := []
  outDeg : Nat := 0
  inDeg : Nat := 0
  inList : Bool := false
  deriving Inhabited, Repr

structure FState where
  nodes : List FNode := []
  sinks : List Nat := []
  sources : List Nat := []
  pve : List (List Nat) := []       -- index = delta degree ≥ 0
  nve : List (List Nat) := []       -- index = -delta - 1
  deriving Inhabited, Repr

inductive Bucket where
  | sink | source | pve (i : Nat) | nve (i : Nat)
  deriving Repr, DecidableEq

def node (s : FState) (ix : Nat) : FNode := s.nodes.getD ix default

def modNode (s : FState) (ix : Nat) (f : FNode → FNode) : FState :=
  { s with nodes := s.nodes.set ix (f (node s ix)) }

/-- `Buckets::suitable_bucket` -/
def bucketOf (n : FNode) : Bucket :=
  if n.outDeg = 0 then .sink
  else if n.inDeg = 0 then .source
  else if n.inDeg ≤ n.outDeg then .pve (n.outDeg - n.inDeg)
  else .nve (n.inDeg - n.outDeg - 1)

def getB (s : FState) : Bucket → List Nat
  | .sink => s.sinks
  | .source => s.sources
  | .pve i => s.pve.getD i []
  | .nve i => s.nve.getD i []

/-- write slot `i`, growing the vector with empty lists (`resize_with`) -/
def setAt (v : List (List Nat)) (i : Nat) (l : List Nat) : List (List Nat) :=
  (v ++ List.replicate (i + 1 - v.length) []).set i l

def setB (s : FState) (b : Bucket) (l : List Nat) : FState :=
  match b with
  | .sink => { s with sinks := l }
  | .source => { s with sources := l }
  | .pve i => { s with pve := setAt s.pve i l }
  | .nve i => { s with nve := setAt s.nve i l }

def pushFront (s : FState) (ix : Nat) : FState :=
  let b := bucketOf (node s ix)
  modNode (setB s b (ix :: getB s b)) ix fun n => { n with inList := true }

def remove (s : FState) (ix : Nat) : FState :=
  let b := bucketOf (node s ix)
  modNode (setB s b ((getB s b).erase ix)) ix fun n => { n with inList := false }

/-- node entry for graph node `g`: existing index or a new entry -/
def entry (s : FState) (g : Nat) : FState × Nat :=
  match s.nodes.findIdx? (·.gix == g) with
  | some i => (s, i)
  | none => ({ s with nodes := s.nodes ++ [{ gix := g }] }, s.nodes.length)

def build (edges : List (Nat × Nat)) : FState :=
  let s := edges.foldl (fun (s : FState) (e : Nat × Nat) =>
    let (s, f) := entry s e.1
    let (s, t) := entry s e.2
    let s := modNode s f fun n => { n with outE := n.outE ++ [t] }
    modNode s t fun n => { n with inE := n.inE ++ [f] }) {}
  let s := { s with nodes := s.nodes.map fun n => { n with outDeg := n.outE.length, inDeg := n.inE.length } }
  (List.range s.nodes.length).foldl pushFront s

/-- `Buckets::update_neighbour_node_buckets` -/
def update (s : FState) (ix : Nat) : FState :=
  let s := (node s ix).outE.foldl (fun (s : FState) o =>
    if o == ix then s else if !(node s o).inList then s
    else pushFront (modNode (remove s o) o fun n => { n with inDeg := n.inDeg - 1 }) o) s
  (node s ix).inE.foldl (fun (s : FState) i =>
    if i == ix then s else if !(node s i).inList then s
    else pushFront (modNode (remove s i) i fun n => { n with outDeg := n.outDeg - 1 }) i) s

def drainSinks : Nat → FState → List Nat → Bool → FState × List Nat × Bool
  | 0, s, s2, m => (s, s2, m)
  | f+1, s, s2, m =>
    match s.sinks with
    | [] => (s, s2, m)
    | ix :: _ =>
      let s := update (remove s ix) ix
      drainSinks f s ((node s ix).gix :: s2) true

def drainSources : Nat → FState → List Nat → Bool → FState × List Nat × Bool
  | 0, s, s1, m => (s, s1, m)
  | f+1, s, s1, m =>
    match s.sources with
    | [] => (s, s1, m)
    | ix :: _ =>
      let s := update (remove s ix) ix
      drainSources f s (s1 ++ [(node s ix).gix]) true

/-- highest delta degree first: positive buckets from the top, then the negative ones from −1 down -/
def pickBidirectional (s : FState) : Option Nat :=
  match (s.pve.reverse ++ s.nve).find? (fun l => !l.isEmpty) with
  | some (ix :: _) => some ix
  | _ => none

def mainLoop : Nat → FState → List Nat → List Nat → List Nat
  | 0, _, s1, s2 => s1 ++ s2
  | f+1, s, s1, s2 =>
    let n := s.nodes.length + 1
    let (s, s2, m1) := drainSinks n s s2 false
    let (s, s1, m2) := drainSources n s s1 false
    match pickBidirectional s with
    | some ix =>
      let s := update (remove s ix) ix
      mainLoop f s (s1 ++ [(node s ix).gix]) s2
    | none => if m1 || m2 then mainLoop f s s1 s2 else s1 ++ s2

/-- `good_node_sequence`: the node sequence (position = index in the list) -/
def goodSequence (edges : List (Nat × Nat)) : List Nat :=
  let s := build edges
  mainLoop (s.nodes.length + 2) s [] []

/-- `greedy_feedback_arc_set` on the edges `(id, src, tgt)` in `edge_references()` order -/
def feedbackArcSet (edges : List (Nat × Nat × Nat)) : List Nat :=
  let seq := goodSequence (edges.map fun e => (e.2.1, e.2.2))
  (edges.filter fun e => seq.idxOf e.2.2 ≤ seq.idxOf e.2.1).map (·.1)

end Fas

/-! ### dsatur_coloring, abstracted over the heap's pop order

The real code colours every node exactly once, in the order the saturation heap pops them (ties are
decided by `BinaryHeap` internals and are not modelled); the colour is the least one not in the node's
`adj_color_map` entry, i.e. not used by an already coloured neighbour.  `greedy g order` is that
computation for an arbitrary pop order. -/
namespace Dsatur

def maxOf (l : List Nat) : Nat := l.foldl max 0

/-- `let mut color = 0; while adj_color.contains(&color) { color += 1 }` -/
def leastFree (used : List Nat) : Nat :=
  ((List.range (maxOf used + 2)).find? fun c => !used.contains c).getD 0

/-- colours of the already coloured neighbours of `v` (the `adj_color_map[v]` set) -/
def adjColours (g : MGraph) (col : List (Nat × Nat)) (v : Nat) : List Nat :=
  (g.succ v).filterMap fun u => col.lookup u

def colourNode (g : MGraph) (col : List (Nat × Nat)) (v : Nat) : List (Nat × Nat) :=
  (v, leastFree (adjColours g col v)) :: col

def greedy (g : MGraph) (order : List Nat) : List (Nat × Nat) := order.foldl (colourNode g) []

/-- `max_color + 1` -/
def count (col : List (Nat × Nat)) : Nat := maxOf (col.map (·.2)) + 1

end Dsatur

/-! ### tred -/
namespace Tred

def pushRow (rows : List (List Nat)) (i x : Nat) : List (List Nat) :=
  rows.set i (rows.getD i [] ++ [x])

/-- `dag_to_toposorted_adjacency_list`: `pred a` = `neighbors_directed(a, Incoming)` in iteration order;
`revmap` starts as all zeros (`Ix::default()`), `bound` = `node_bound()` -/
def toposorted (pred : Nat → List Nat) (ixOf : Nat → Nat) (bound : Nat) (topo : List Nat) : List (List Nat) × List Nat :=
  let init : List (List Nat) × List Nat × Nat := ([], List.replicate bound 0, 0)
  let r := topo.foldl (fun (st : List (List Nat) × List Nat × Nat) old =>
    let (res, revmap, ix) := st
    let revmap := revmap.set (ixOf old) ix
    let res := res ++ [[]]
    let res := (pred old).foldl (fun res p => pushRow res (revmap.getD (ixOf p) 0) ix) res
    (res, revmap, ix + 1)) init
  (r.1, r.2.1)

/-- the inner loop `for e in tclos.edge_indices_from(x)`: closure row of `x` merged into the row being
built (`tc`), skipping marked nodes and marking the new ones -/
def mergeRow (l : List Nat) (tc mark : List Nat) : List Nat × List Nat :=
  l.foldl (fun (s : List Nat × List Nat) y => if s.2.contains y then s else (s.1 ++ [y], y :: s.2)) (tc, mark)

/-- one neighbour `x` of the node being processed; state = (reduction row, closure row, marks);
`clos x` = the (final) closure row of the larger node `x` -/
def rowStep (clos : Nat → List Nat) (st : List Nat × List Nat × List Nat) (x : Nat) : List Nat × List Nat × List Nat :=
  if st.2.2.contains x then st
  else
    let r := mergeRow (clos x) (st.2.1 ++ [x]) st.2.2
    (st.1 ++ [x], r.1, r.2)

/-- the marking loop for one node over its (toposorted) neighbours: (reduction row, closure row).
The marks are cleared afterwards (`mark.set(y, false)` for every `y` of the closure row), i.e. every
node starts with an empty mark set. -/
def rowFor (clos : Nat → List Nat) (nbrs : List Nat) : List Nat × List Nat :=
  let r := nbrs.foldl (rowStep clos) ([], [], [])
  (r.1, r.2.1)

/-- rows `i, i+1, …` of the input (processed from the last one backwards, `node_indices().rev()`):
reduction and closure rows for the same indices.  Closure rows of smaller-or-equal nodes are still
empty when they are read (only possible on an input that is not toposorted). -/
def rcFrom : Nat → List (List Nat) → List (List Nat) × List (List Nat)
  | _, [] => ([], [])
  | i, row :: rest =>
    let r := rcFrom (i + 1) rest
    let ab := rowFor (fun x => if i < x then r.2.getD (x - (i + 1)) [] else []) row
    (ab.1 :: r.1, ab.2 :: r.2)

/-- `dag_transitive_reduction_closure` on adjacency rows -/
def reductionClosure (g : List (List Nat)) : List (List Nat) × List (List Nat) := rcFrom 0 g

end Tred

/-! ### all_simple_paths -/
namespace Paths

/-- `rvis` = the `visited` IndexSet, most recent first; `stack` = the remaining children per level, top first -/
structure St where
  rvis : List Nat
  stack : List (List Nat)
  deriving Inhabited

/-- one call of the iterator's `next`: `some (some p, st)` = yielded `p`, `some (none, st)` = exhausted,
`none` = fuel ran out -/
def next (succ : Nat → List Nat) (to minLen maxLen : Nat) : Nat → St → Option (Option (List Nat) × St)
  | 0, _ => none
  | f+1, st =>
    match st.stack with
    | [] => some (none, st)
    | [] :: rest => next succ to minLen maxLen f { rvis := st.rvis.tail, stack := rest }
    | (child :: cs) :: rest =>
      if st.rvis.length < maxLen then
        if child == to then
          if minLen ≤ st.rvis.length then some (some (to :: st.rvis).reverse, { st with stack := cs :: rest })
          else next succ to minLen maxLen f { st with stack := cs :: rest }
        else if !st.rvis.contains child then
          next succ to minLen maxLen f { rvis := child :: st.rvis, stack := succ child :: cs :: rest }
        else next succ to minLen maxLen f { st with stack := cs :: rest }
      else
        -- `child == to || children.any(|v| v == to)`: `any` consumes up to and including the first hit
        let found := child == to || cs.contains to
        let cs' := if child == to then cs else (cs.dropWhile (· != to)).tail
        if found && minLen ≤ st.rvis.length then
          some (some (to :: st.rvis).reverse, { st with stack := cs' :: rest })
        else next succ to minLen maxLen f { rvis := st.rvis.tail, stack := rest }

def collect (succ : Nat → List Nat) (to minLen maxLen fuel : Nat) : Nat → St → List (List Nat) → Option (List (List Nat))
  | 0, _, _ => none
  | k+1, st, acc =>
    match next succ to minLen maxLen fuel st with
    | none => none
    | some (none, _) => some acc.reverse
    | some (some p, st') => collect succ to minLen maxLen fuel k st' (p :: acc)

/-- `max_length` of the real code -/
def maxLenOf (count : Nat) (hi : Option Nat) : Nat := match hi with | some l => l + 1 | none => count - 1

/-- `all_simple_paths(g, from, to, min, max)` run to exhaustion; `count` = `node_count()` -/
def allSimplePaths (succ : Nat → List Nat) (count a b lo : Nat) (hi : Option Nat) (fuel : Nat) : Option (List (List Nat)) :=
  collect succ b (lo + 1) (maxLenOf count hi) fuel fuel { rvis := [a], stack := [succ a] } []

end Paths

/-! ### page_rank over exact rationals -/
namespace PR

/-- rank of node `w` in an association list aligned with the node list -/
def rk (r : List (Nat × Rat)) (w : Nat) : Rat := (r.lookup w).getD 0

/-- `w_out_edges.any(|e| e.target() == v)` -/
def hasEdge (g : MGraph) (w v : Nat) : Bool := g.edges.any fun e => e.src == w && e.tgt == v

def outDeg (g : MGraph) (w : Nat) : Nat := (g.edges.filter fun e => e.src == w).length

/-- the summand for column `w` of row `v` -/
def contrib (g : MGraph) (d : Rat) (r : List (Nat × Rat)) (v w : Nat) : Rat :=
  if hasEdge g w v then d * rk r w / (outDeg g w : Rat)
  else if outDeg g w = 0 then d * rk r w / (g.nodes.length : Rat)
  else (1 - d) * rk r w / (g.nodes.length : Rat)

def pi (g : MGraph) (d : Rat) (r : List (Nat × Rat)) (v : Nat) : Rat :=
  (g.nodes.map fun w => contrib g d r v w).sum

/-- one iteration; `none` = the normalising sum is zero (the implementation then divides 0 by 0) -/
def step (g : MGraph) (d : Rat) (r : List (Nat × Rat)) : Option (List (Nat × Rat)) :=
  let s := (g.nodes.map (pi g d r)).sum
  if s = 0 then none else some (g.nodes.map fun v => (v, pi g d r v / s))

def iter (g : MGraph) (d : Rat) : Nat → List (Nat × Rat) → Option (List (Nat × Rat))
  | 0, r => some r
  | k+1, r => match step g d r with
    | none => none
    | some r' => iter g d k r'

def init (g : MGraph) : List (Nat × Rat) := g.nodes.map fun v => (v, 1 / (g.nodes.length : Rat))

/-- `page_rank(g, d, nb_iter)` -/
def pageRank (g : MGraph) (d : Rat) (nbIter : Nat) : Option (List (Nat × Rat)) := iter g d nbIter (init g)

end PR

end PetgraphModel.C20
