import PetgraphModel.Spec.Graph
/-
Mirror model of `/repo/src/algo/matching.rs` over a `View` (core Lean only).

`mate: Vec<Option<NodeId>>` is a list indexed by the concrete `to_index`; node ids are abstract ids.
`graph.neighbors(x)` is `v.succ x`, `graph.edges(x)` is `v.outOf x` (other endpoint, edge id),
`node_identifiers()` is `v.g.nodes`.  Unchecked `Vec` indexing is a checked access: a write outside
the vector sets `fault` (the Rust code would panic).
-/
namespace PetgraphModel.C15M
open PetgraphModel

/-- `from_index` (the inverse of the view's `to_index`; an index without a node gives a marker) -/
def fromIndex (v : View) (i : Nat) : Nat :=
  match v.ix.find? (fun p => p.2 == i) with
  | some p => p.1
  | none => 1000000 + i

structure Matching where
  mate : List (Option Nat) := []
  nEdges : Nat := 0
  fault : Bool := false
  deriving Repr, Inhabited

/-- `mate[i] = x` -/
def setMate (m : List (Option Nat)) (i : Nat) (x : Option Nat) : List (Option Nat) × Bool :=
  if i < m.length then (m.set i x, false) else (m, true)

/-! ### executable hypotheses on a view (checked by the driver on every `graph` line) -/

/-- `to_index` is below `node_bound`, injective on the live nodes, and inverted by `from_index` -/
def ixOkB (v : View) : Bool :=
  v.g.nodes.all fun a =>
    decide (v.toIndex a < v.nb) && fromIndex v (v.toIndex a) == a &&
    v.g.nodes.all fun b => v.toIndex a != v.toIndex b || a == b

/-- every listed neighbour is a neighbour in the abstract graph -/
def viewSoundB (v : View) : Bool :=
  v.out.all fun (a, row) => row.all fun (b, _) => decide (v.g.Adj a b)

/-- distinct node ids, edge endpoints are nodes -/
def wfB (g : MGraph) : Bool :=
  (g.nodes.all fun a => g.nodes.count a == 1) &&
  g.edges.all fun e => g.nodes.contains e.src && g.nodes.contains e.tgt

/-! ### accessors -/

/-- `Matching::mate` -/
def Matching.mateOf (v : View) (m : Matching) (a : Nat) : Option Nat :=
  match m.mate[v.toIndex a]? with
  | some x => x
  | none => none

def Matching.containsEdge (v : View) (m : Matching) (a b : Nat) : Bool :=
  match m.mateOf v a with
  | some x => x == b
  | none => false

def Matching.containsNode (v : View) (m : Matching) (a : Nat) : Bool := (m.mateOf v a).isSome

def Matching.len (m : Matching) : Nat := m.nEdges

def Matching.isEmpty (m : Matching) : Bool := m.len == 0

/-- `MatchedEdges`: positions in index order whose mate has a larger index -/
def Matching.edges (v : View) (m : Matching) : List (Nat × Nat) :=
  (List.range m.mate.length).filterMap fun cur =>
    match m.mate[cur]? with
    | some (some mt) => if v.toIndex mt > cur then some (fromIndex v cur, mt) else none
    | _ => none

/-- `MatchedNodes` -/
def Matching.nodes (v : View) (m : Matching) : List Nat :=
  (List.range m.mate.length).filterMap fun cur =>
    match m.mate[cur]? with
    | some (some _) => some (fromIndex v cur)
    | _ => none

/-- `is_perfect` (`node_count` = number of live nodes) -/
def Matching.isPerfect (v : View) (m : Matching) : Bool :=
  let n := v.g.nodes.length
  n % 2 == 0 && m.nEdges == n / 2

/-! ### greedy_matching -/

/-- `non_backtracking_dfs`: returns the visit map and the nodes handed to the visitor, in order -/
def nbDfs (v : View) : Nat → Nat → List Nat → List Nat → List Nat × List Nat
  | 0, _, vis, acc => (vis, acc)
  | f+1, source, vis, acc =>
    if vis.contains source then (vis, acc)
    else
      let vis := source :: vis
      match (v.succ source).find? (fun t => !vis.contains t) with
      | none => (vis, acc)
      | some t => nbDfs v f t vis (acc ++ [t])

/-- the visitor closure of `greedy_matching_inner`: alternate matched / unmatched edges -/
def pairUp (v : View) : Option Nat → List Nat → Matching → Matching
  | _, [], m => m
  | some pred, next :: rest, m =>
    let (m1, f1) := setMate m.mate (v.toIndex pred) (some next)
    let (m2, f2) := setMate m1 (v.toIndex next) (some pred)
    pairUp v none rest { mate := m2, nEdges := m.nEdges + 1, fault := m.fault || f1 || f2 }
  | none, next :: rest, m => pairUp v (some next) rest m

def greedyLoop (v : View) (fuel : Nat) : List Nat → List Nat → Matching → List Nat × Matching
  | [], vis, m => (vis, m)
  | start :: rest, vis, m =>
    let (vis', calls) := nbDfs v fuel start vis []
    greedyLoop v fuel rest vis' (pairUp v (some start) calls m)

def greedyFuel (v : View) : Nat := v.g.nodes.length + 2

/-- `greedy_matching_inner` -/
def greedyInner (v : View) : Matching :=
  (greedyLoop v (greedyFuel v) v.g.nodes [] { mate := List.replicate v.nb none }).2

/-! ### maximum_matching (Gabow) — mirrored executably; no theorems about it (judged per run) -/

/-- edge ids as the storage type compares them: mode 0 = one index per edge (Graph, StableGraph),
mode 1 = the pair `(source, target)` as iterated (GraphMap, MatrixGraph), mode 2 = one id per edge
and side (Csr, adj::List) -/
abbrev Key := Nat × Nat × Nat

def edgeKey (mode eid src tgt : Nat) : Key :=
  if mode == 0 then (eid, 0, 0) else if mode == 1 then (0, src, tgt) else (eid, src, tgt)

inductive Label where
  | none | start | vertex (v : Nat) | edge (k : Key) (s t : Nat) | flag (k : Key)
  deriving Repr, Inhabited, BEq

def Label.isOuter : Label → Bool
  | .none => false
  | .flag _ => false
  | _ => true

def Label.isFlagged (l : Label) (k : Key) : Bool :=
  match l with
  | .flag k' => k' == k
  | _ => false

def usizeMax : Nat := 18446744073709551615

structure GS where
  mate : List (Option Nat)
  label : List Label
  fi : List Nat
  fault : Bool := false
  deriving Inhabited

def GS.getLabel (s : GS) (i : Nat) : Label × Bool :=
  match s.label[i]? with | some l => (l, false) | none => (.none, true)
def GS.getFi (s : GS) (i : Nat) : Nat × Bool :=
  match s.fi[i]? with | some l => (l, false) | none => (usizeMax, true)
def GS.getMate (s : GS) (i : Nat) : Option Nat × Bool :=
  match s.mate[i]? with | some l => (l, false) | none => (none, true)
def GS.setLabel (s : GS) (i : Nat) (l : Label) : GS :=
  if i < s.label.length then { s with label := s.label.set i l } else { s with fault := true }
def GS.setFi (s : GS) (i : Nat) (x : Nat) : GS :=
  if i < s.fi.length then { s with fi := s.fi.set i x } else { s with fault := true }
def GS.setMate (s : GS) (i : Nat) (x : Option Nat) : GS :=
  if i < s.mate.length then { s with mate := s.mate.set i x } else { s with fault := true }
def GS.flt (s : GS) (b : Bool) : GS := if b then { s with fault := true } else s

/-- `find_join`; returns the new state and the nodes handed to the visitor, in order -/
def findJoin (v : View) (k : Key) (esrc etgt : Nat) (s0 : GS) : GS × List Nat := Id.run do
  let dummy := v.nb
  let mut s := s0
  let source := v.toIndex esrc
  let target := v.toIndex etgt
  let (l0, b0) := s.getFi source
  let (r0, b1) := s.getFi target
  s := s.flt (b0 || b1)
  let mut left := l0
  let mut right := r0
  if left == right then return (s, [])
  s := s.setLabel left (.flag k)
  s := s.setLabel right (.flag k)
  let mut join := dummy
  let fuel := 4 * (v.nb + 2)
  let mut found := false
  for _ in [0:fuel] do
    if s.fault then break
    if right != dummy then
      let t := left; left := right; right := t
    let (lm, b) := s.getMate left
    match lm with
    | Option.none => s := { s with fault := true }; break
    | some lmv =>
      let leftMate := v.toIndex lmv
      let (ll, b') := s.getLabel leftMate
      s := s.flt (b || b')
      match ll with
      | .vertex nextInner =>
        let (nl, b'') := s.getFi (v.toIndex nextInner)
        s := s.flt b''
        left := nl
        let (lab, b3) := s.getLabel left
        s := s.flt b3
        if !lab.isFlagged k then s := s.setLabel left (.flag k)
        else
          join := left; found := true; break
      | _ => s := { s with fault := true }; break
  if !found then return ({ s with fault := true }, [])
  let mut calls : List Nat := []
  for endpoint in [source, target] do
    let (i0, b) := s.getFi endpoint
    s := s.flt b
    let mut inner := i0
    for _ in [0:fuel] do
      if s.fault then break
      if inner == join then break
      if inner != dummy then calls := calls ++ [fromIndex v inner]
      s := s.setLabel inner (.edge k esrc etgt)
      s := s.setFi inner join
      let (im, b) := s.getMate inner
      match im with
      | Option.none => s := { s with fault := true }; break
      | some imv =>
        let (ll, b') := s.getLabel (v.toIndex imv)
        s := s.flt (b || b')
        match ll with
        | .vertex nextInner =>
          let (ni, b'') := s.getFi (v.toIndex nextInner)
          s := s.flt b''
          inner := ni
        | _ => s := { s with fault := true }; break
  -- all outer vertices whose first inner vertex became outer now have the join as first inner
  let lab := s.label
  for idx in [0:lab.length] do
    if idx != dummy then
      let l := lab.getD idx .none
      if l.isOuter then
        let (f, b) := s.getFi idx
        s := s.flt b
        match lab[f]? with
        | some lf => if lf.isOuter then s := s.setFi idx join
        | Option.none => s := { s with fault := true }
  return (s, calls)

/-- `augment_path` -/
def augmentPath (v : View) : Nat → Nat → Nat → GS → GS
  | 0, _, _, s => { s with fault := true }
  | f+1, outer, other, s =>
    let dummy := v.nb
    let outerIdx := v.toIndex outer
    let (temp, b) := s.getMate outerIdx
    let tempIdx := match temp with | some t => v.toIndex t | Option.none => dummy
    let s := (s.flt b).setMate outerIdx (some other)
    let (mt, b) := s.getMate tempIdx
    let s := s.flt b
    if mt != some outer then s
    else
      match (s.getLabel outerIdx).1 with
      | .vertex vertex =>
        let s := s.setMate tempIdx (some vertex)
        match temp with
        | some t => augmentPath v f vertex t s
        | Option.none => s
      | .edge _ src tgt =>
        let s := augmentPath v f src tgt s
        augmentPath v f tgt src s
      | _ => { s with fault := true }

/-- one search from `start` (an index) -/
def gabowSearch (v : View) (mode : Nat) (startIdx : Nat) (s0 : GS) (nEdges0 : Nat) : GS × Nat := Id.run do
  let dummy := v.nb
  let mut s := s0
  let mut nEdges := nEdges0
  s := s.setLabel startIdx .start
  s := s.setFi startIdx dummy
  let start := fromIndex v startIdx
  let mut queue : List Nat := [start]
  let mut visited : List Nat := [start]
  let mut done := false
  for _ in [0:v.nb + 2] do
    if done || s.fault then break
    match queue with
    | [] => break
    | outerVertex :: q =>
      queue := q
      for (otherVertex, eid) in v.outOf outerVertex do
        if s.fault then break
        if outerVertex == otherVertex then continue
        let otherIdx := v.toIndex otherVertex
        let (mo, b) := s.getMate otherIdx
        let (lo, b') := s.getLabel otherIdx
        s := s.flt (b || b')
        if mo.isNone && otherVertex != start then
          s := s.setMate otherIdx (some outerVertex)
          s := augmentPath v (4 * (v.nb + 2)) outerVertex otherVertex s
          nEdges := nEdges + 1
          done := true
          break
        else if lo.isOuter then
          let (s', calls) := findJoin v (edgeKey mode eid outerVertex otherVertex) outerVertex otherVertex s
          s := s'
          for c in calls do
            if !visited.contains c then
              visited := c :: visited
              queue := queue ++ [c]
        else
          let mateIdx := match mo with | some m => v.toIndex m | Option.none => dummy
          let (lm, b) := s.getLabel mateIdx
          s := s.flt b
          if !lm.isOuter then
            s := s.setLabel mateIdx (.vertex outerVertex)
            s := s.setFi mateIdx otherIdx
          match mo with
          | some m =>
            if !visited.contains m then
              visited := m :: visited
              queue := queue ++ [m]
          | Option.none => pure ()
  s := { s with label := s.label.map fun _ => Label.none }
  return (s, nEdges)

/-- `maximum_matching` -/
def maximumMatching (v : View) (mode : Nat) : Matching := Id.run do
  let g := greedyInner v
  let len := v.nb + 1
  let mut s : GS := { mate := g.mate ++ [none], label := List.replicate len .none,
                      fi := List.replicate len usizeMax, fault := g.fault }
  let mut nEdges := g.nEdges
  for start in [0:v.nb] do
    if s.fault then break
    if ((s.getMate start).1).isSome then continue
    let (s', n') := gabowSearch v mode start s nEdges
    s := s'
    nEdges := n'
  return { mate := s.mate.take v.nb, nEdges := nEdges, fault := s.fault }

end PetgraphModel.C15M
