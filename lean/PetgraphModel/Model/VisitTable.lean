/-
C06 — the TABLE of what the `visit` traits answer for one graph view, and every adaptor of
`petgraph::visit` as a pure function `Table → Table`, written after the Rust source:

  Reversed            src/visit/reversed.rs
  UndirectedAdaptor   src/visit/undirected_adaptor.rs
  NodeFiltered        src/visit/filter.rs:73-343
  EdgeFiltered        src/visit/filter.rs:362-585
  Frozen, &G          src/graph_impl/frozen.rs, `delegate_impl!` (src/visit/macros.rs)

A field is `none` exactly when the (type or adaptor) does not implement the trait; the where-clauses of the
Rust impls become the dependence of a field on the presence of the inner view's fields.

Two recorded defects of the adaptors are present in the code and therefore in the model, behind switches
(`Cfg`; `true` = the code as it stands): D23 (`UndirectedAdaptor` chains `Incoming` and `Outgoing` unchanged)
and D24 (`GetAdjacencyMatrix for Reversed` is macro-delegated to the inner graph).  The theorems of
Theorems/C06.lean are about `Cfg.ideal`.  Core Lean only.
-/
namespace PetgraphModel.Visit

/-- an edge reference as printed by the harness: edge id code, `source()`, `target()`, `weight()` -/
structure ERef where
  id : Nat
  src : Nat
  tgt : Nat
  w : Int
  deriving DecidableEq, Repr, Inhabited

def ERef.swap (e : ERef) : ERef := { e with src := e.tgt, tgt := e.src }

/-- per query node: what an iterator started at that node yields, in iteration order -/
abbrev Rows (α : Type) := List (Nat × List α)

def rowOf {α : Type} (r : Rows α) (a : Nat) : List α := (r.lookup a).getD []

def mapRows {α β : Type} (f : Nat → List α → List β) (r : Rows α) : Rows β :=
  r.map fun x => (x.1, f x.1 x.2)

structure Table where
  /-- `GraphProp::is_directed` -/
  directed : Bool
  /-- `IntoNodeIdentifiers::node_identifiers` -/
  ids : Option (List Nat)
  /-- `IntoNodeReferences::node_references` (id, weight) -/
  refs : Option (List (Nat × Int))
  /-- `NodeCount::node_count` -/
  nodeCount : Option Nat
  /-- `NodeIndexable::node_bound`, `to_index a`, `from_index (to_index a)` for every query node -/
  nodeBound : Nat
  toIx : List (Nat × Nat)
  fromIx : List (Nat × Nat)
  /-- `NodeCompactIndexable` is implemented -/
  compact : Bool
  /-- `IntoEdgeReferences::edge_references` -/
  erefs : Option (List ERef)
  /-- `EdgeCount::edge_count` -/
  edgeCount : Option Nat
  /-- `EdgeIndexable::edge_bound`; (id, `to_index id`, `from_index (to_index id)`) for every base edge id -/
  edgeBound : Option Nat
  eix : Option (List (Nat × Nat × Nat))
  /-- `IntoNeighbors`, `IntoNeighborsDirected` (Outgoing, Incoming) -/
  nbrs : Option (Rows Nat)
  nbrsOut : Option (Rows Nat)
  nbrsIn : Option (Rows Nat)
  /-- `IntoEdges`, `IntoEdgesDirected` (Outgoing, Incoming) -/
  edges : Option (Rows ERef)
  edgesOut : Option (Rows ERef)
  edgesIn : Option (Rows ERef)
  /-- `GetAdjacencyMatrix`: per query node `a` the query nodes `b` with `is_adjacent(&adjacency_matrix(), a, b)` -/
  adj : Option (Rows Nat)
  deriving DecidableEq, Repr, Inhabited

/-- which recorded adaptor defects are switched on (`true` = as in the code) -/
structure Cfg where
  d23 : Bool := true
  d24 : Bool := true
  deriving DecidableEq, Repr

def Cfg.asIs : Cfg := { d24 := false }   -- D24 is repaired in /repo (Reversed::is_adjacent looks the reversed edge up); D23 is still present
def Cfg.ideal : Cfg := { d23 := false, d24 := false }

/-- node filter: bit `a` of the mask (harness: closure, `FixedBitSet` or `HashSet` with the same members) -/
def inMask (m a : Nat) : Bool := m.testBit a

/-- the edge predicates of the harness (`pred` in harness/src/c06.rs), by code -/
def evalPred (p : Nat) (e : ERef) : Bool :=
  match p with
  | 0 => true
  | 1 => false
  | 2 => e.w % 2 == 0
  | 3 => decide (e.w ≥ 2)
  | 4 => e.src != e.tgt
  | 5 => ((e.src : Int) + (e.tgt : Int) + e.w) % 3 != 0
  | 6 => decide (e.src ≤ e.tgt)
  | 7 => e.id % 2 == 0
  | 8 => decide (e.src < e.tgt) || e.w % 2 == 0
  | _ => true

/-- is the predicate independent of the orientation an undirected edge is reported in? -/
def predSymmetric (p : Nat) : Bool := !(p == 6 || p == 8)

/-! ### the adaptors -/

/-- `Reversed<G>` -/
def reversed (cfg : Cfg) (t : Table) : Table :=
  { t with
    erefs := t.erefs.map (·.map ERef.swap)
    nbrs := t.nbrsIn
    nbrsOut := t.nbrsIn
    nbrsIn := t.nbrsOut
    edges := t.edgesIn.map (mapRows fun _ l => l.map ERef.swap)
    edgesOut := t.edgesIn.map (mapRows fun _ l => l.map ERef.swap)
    edgesIn := t.edgesOut.map (mapRows fun _ l => l.map ERef.swap)
    adj := if cfg.d24 then t.adj
           else t.adj.map fun r =>
             let ks := r.map (·.1)
             ks.map fun a => (a, ks.filter fun b => (rowOf r b).contains a) }

/-- `UndirectedAdaptor<G>`: `neighbors`/`edges` chain `Incoming` then `Outgoing`.
Ideal (`d23 = false`): over a directed view the incoming non-loop edges are reported with the query node as
source; over an undirected view the outgoing iterator already lists every incident edge. -/
def undirected (cfg : Cfg) (t : Table) : Table :=
  { t with
    directed := false
    edgeCount := none
    edgeBound := none
    eix := none
    nbrs := match t.nbrsIn, t.nbrsOut with
      | some i, some o => some (i.map fun x =>
          (x.1, (if cfg.d23 then x.2 else if t.directed then x.2.filter (· != x.1) else []) ++ rowOf o x.1))
      | _, _ => none
    nbrsOut := none
    nbrsIn := none
    edges := match t.edgesIn, t.edgesOut with
      | some i, some o => some (i.map fun x =>
          (x.1, (if cfg.d23 then x.2
                 else if t.directed then (x.2.filter fun e => e.src != e.tgt).map ERef.swap else []) ++ rowOf o x.1))
      | _, _ => none
    edgesOut := none
    edgesIn := none
    adj := none }

/-- `&NodeFiltered<G, F>` -/
def nodeFiltered (m : Nat) (t : Table) : Table :=
  let p := inMask m
  { t with
    ids := t.ids.map (·.filter p)
    refs := t.refs.map (·.filter fun r => p r.1)
    nodeCount := none
    compact := false
    erefs := t.erefs.map (·.filter fun e => p e.src && p e.tgt)
    edgeCount := none
    nbrs := t.nbrs.map (mapRows fun a l => if p a then l.filter p else [])
    nbrsOut := t.nbrsOut.map (mapRows fun a l => if p a then l.filter p else [])
    nbrsIn := t.nbrsIn.map (mapRows fun a l => if p a then l.filter p else [])
    edges := t.edges.map (mapRows fun a l => if p a then l.filter (fun e => p e.tgt) else [])
    edgesOut := t.edgesOut.map (mapRows fun a l => if p a then l.filter (fun e => p e.tgt) else [])
    edgesIn := t.edgesIn.map (mapRows fun a l => if p a then l.filter (fun e => p e.src) else [])
    adj := none }

/-- `&EdgeFiltered<G, F>` -/
def edgeFiltered (q : ERef → Bool) (t : Table) : Table :=
  let other (a : Nat) (e : ERef) : Nat := if e.src != a then e.src else e.tgt
  { t with
    erefs := t.erefs.map (·.filter q)
    edgeCount := none
    nbrs := t.edges.map (mapRows fun _ l => (l.filter q).map (·.tgt))
    nbrsOut := t.edgesOut.map (mapRows fun a l => (l.filter q).map (other a))
    nbrsIn := t.edgesIn.map (mapRows fun a l => (l.filter q).map (other a))
    edges := t.edges.map (mapRows fun _ l => l.filter q)
    edgesOut := t.edgesOut.map (mapRows fun _ l => l.filter q)
    edgesIn := t.edgesIn.map (mapRows fun _ l => l.filter q)
    adj := none }

/-- `&Frozen<'_, Graph>` where the graph type itself (not `&Graph`) is the parameter: only the `&self` traits -/
def frozenOwned (t : Table) : Table :=
  { t with ids := none, refs := none, erefs := none, nbrs := none, nbrsOut := none, nbrsIn := none,
           edges := none, edgesOut := none, edgesIn := none }

inductive Op where
  | ref | frozen | frozenOwned | rev | und
  | nf (mask : Nat)
  | ef (pred : Nat)
  deriving DecidableEq, Repr

def applyOp (cfg : Cfg) (op : Op) (t : Table) : Table :=
  match op with
  | .ref => t
  | .frozen => t
  | .frozenOwned => frozenOwned t
  | .rev => reversed cfg t
  | .und => undirected cfg t
  | .nf m => nodeFiltered m t
  | .ef p => edgeFiltered (evalPred p) t

/-- a stack, innermost adaptor first -/
def applyStack (cfg : Cfg) (ops : List Op) (t : Table) : Table :=
  ops.foldl (fun t op => applyOp cfg op t) t

/-- the code of a pair-typed edge id `(a, b)` in the tables (`pcode` in harness/src/c06.rs): the square-shell pairing
function (Mathlib's `Nat.pair`), injective on ALL pairs of naturals (`Visit.pcode_inj`, Proofs/C06W2Base.lean) — so no
bound on node ids is needed for an id code to name one edge -/
def pcode (a b : Nat) : Nat := if a < b then b * b + a else a * a + a + b

/-! ### repairs of the two recorded base-type defects (what the table would be without them) -/

/-- D6: `MatrixGraph<Directed>::edges_directed(b, Incoming)` yields `(b, a)` for an edge `a → b`
(pair edge ids: the id is the endpoint pair, so it is swapped with them) -/
def repairD6 (t : Table) : Table :=
  { t with edgesIn := t.edgesIn.map (mapRows fun _ l =>
      l.map fun e => { e with id := pcode e.tgt e.src, src := e.tgt, tgt := e.src }) }

/-- D7: `Csr<Undirected>` stores each non-loop edge in both rows; `edge_references` walks all rows.
Repaired view: one reference per edge, and the edge identified by its endpoint pair (a `Csr` has no
parallel edges) instead of by the two positions in the column array. -/
def repairD7 (t : Table) : Table :=
  let fix (e : ERef) : ERef := { e with id := pcode (min e.src e.tgt) (max e.src e.tgt) }
  { t with
    erefs := t.erefs.map fun l => (l.filter fun e => decide (e.src ≤ e.tgt)).map fix
    edges := t.edges.map (mapRows fun _ l => l.map fix) }

end PetgraphModel.Visit
