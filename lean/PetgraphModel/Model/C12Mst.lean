import PetgraphModel.Spec.Graph
import PetgraphModel.Model.UnionFind
/-
Mirror models of `/repo/src/algo/min_spanning_tree.rs` (core Lean only).

* `Heap` mirrors `alloc::collections::BinaryHeap<MinScored<W, (NodeId, NodeId)>>` *exactly* (the
  sift-up of `push`, the sift-down-to-bottom-then-up of `pop`), because the order in which equal
  scores are popped decides which of several minimum spanning forests is emitted.  `MinScored`
  compares by score only, reversed (`src/scored.rs`), so Rust's `x <= y` is `y.w ≤ x.w` here.
* `kruskal` mirrors `MinSpanningTree::next`: node elements in `node_references` order filling
  `node_map` (index ↦ position), then pop / `UnionFind::union` on `to_index` / emit with positions.
  The union–find is the C19 model `UF` (so its theorems apply).
* `prim` mirrors `MinSpanningTreePrim::next`: start at the first node reference, `nodes_taken`,
  skip edges whose *target* is taken, clear the queue once every node is taken.
Nodes are abstract ids; `v.toIndex` is `NodeIndexable::to_index`; `v.outOf a` is `g.edges(a)` in
iteration order as (other endpoint, edge id) — the real `edges(a)` reports `a` as the source.
-/
namespace PetgraphModel.MstModel
open PetgraphModel

structure Item where
  w : Int
  a : Nat
  b : Nat
  deriving Repr, DecidableEq, Inhabited

/-- Rust `x <= y` on `MinScored` (reversed score order; payload ignored) -/
def rle (x y : Item) : Bool := decide (y.w ≤ x.w)

abbrev Heap := List Item

/-- `sift_up(0, pos)` with the element `elt` held in the hole -/
def siftUp (elt : Item) : Nat → Heap → Nat → Heap
  | 0, d, pos => d.set pos elt
  | f+1, d, pos =>
    if pos = 0 then d.set pos elt
    else
      let parent := (pos - 1) / 2
      let p := d.getD parent default
      if rle elt p then d.set pos elt
      else siftUp elt f (d.set pos p) parent

/-- `BinaryHeap::push` -/
def push (d : Heap) (x : Item) : Heap := siftUp x (d.length + 1) (d ++ [x]) d.length

/-- the loop of `sift_down_to_bottom`: returns the data and the final hole position -/
def siftDown : Nat → Heap → Nat → Heap × Nat
  | 0, d, pos => (d, pos)
  | f+1, d, pos =>
    let child := 2 * pos + 1
    if child + 2 ≤ d.length then
      let c := if rle (d.getD child default) (d.getD (child + 1) default) then child + 1 else child
      siftDown f (d.set pos (d.getD c default)) c
    else if child + 1 = d.length then (d.set pos (d.getD child default), child)
    else (d, pos)

/-- `BinaryHeap::pop` -/
def pop (d : Heap) : Option (Item × Heap) :=
  match d.getLast? with
  | none => none
  | some last =>
    let d' := d.dropLast
    match d' with
    | [] => some (last, [])
    | top :: _ =>
      let (d2, pos) := siftDown (d'.length + 1) d' 0
      some (top, siftUp last (d'.length + 1) d2 pos)

/-- pop until empty -/
def popAll : Nat → Heap → List Item
  | 0, _ => []
  | f+1, d => match pop d with
    | none => []
    | some (x, d') => x :: popAll f d'

/-- an emitted edge element: positions in the node part of the stream, and the weight -/
structure EdgeEl where
  s : Nat
  t : Nat
  w : Int
  deriving Repr, DecidableEq

inductive Res where
  | ok (nodes : List Nat) (edges : List EdgeEl)
  | panic
  | fault
  deriving Repr, DecidableEq

/-- position in the node part of the stream (`node_map[to_index]`) -/
def posOf (nodes : List Nat) (a : Nat) : Option Nat :=
  if nodes.contains a then some (nodes.idxOf a) else none

/-- Kruskal's scan of the popped edges: `union` decides, `node_map` translates -/
def kruskalScan (v : View) : UF.State → List Item → List EdgeEl → Res
  | _, [], acc => .ok v.g.nodes acc.reverse
  | uf, it :: rest, acc =>
    match UF.step uf (.union (v.toIndex it.a) (v.toIndex it.b)) with
    | (uf', .bool true) =>
      match posOf v.g.nodes it.a, posOf v.g.nodes it.b with
      | some pa, some pb => kruskalScan v uf' rest (⟨pa, pb, it.w⟩ :: acc)
      | _, _ => .panic
    | (uf', .bool false) => kruskalScan v uf' rest acc
    | (_, .panic) => .panic
    | (_, _) => .fault

/-- the heap `min_spanning_tree` builds: one push per edge reference, in `edge_references` order.
`er` = (source, target, edge id) in abstract ids. -/
def buildHeap (v : View) (er : List (Nat × Nat × Nat)) : Heap :=
  er.foldl (fun h e => push h ⟨v.weight e.2.2, e.1, e.2.1⟩) []

/-- `min_spanning_tree(g)` collected -/
def kruskal (v : View) (er : List (Nat × Nat × Nat)) : Res :=
  let h := buildHeap v er
  kruskalScan v (UF.new 0 v.nb) (popAll (h.length + 1) h) []

/-- push all `g.edges(a)` -/
def pushEdges (v : View) (h : Heap) (a : Nat) : Heap :=
  (v.outOf a).foldl (fun h oe => push h ⟨v.weight oe.2, a, oe.1⟩) h

/-- the `while let Some(..) = sort_edges.pop()` loop over successive `next()` calls -/
def primLoop (v : View) : Nat → Heap → List Nat → List EdgeEl → Res
  | 0, _, _, _ => .fault
  | f+1, h, taken, acc =>
    -- every `next()` call first clears the queue when all nodes are taken
    if taken.length = v.g.nodes.length then .ok v.g.nodes acc.reverse else
    match pop h with
    | none => .ok v.g.nodes acc.reverse
    | some (it, h') =>
      let ti := v.toIndex it.b
      if taken.contains ti then primLoop v f h' taken acc
      else
        let h2 := pushEdges v h' it.b
        match posOf v.g.nodes it.a, posOf v.g.nodes it.b with
        | some pa, some pb => primLoop v f h2 (ti :: taken) (⟨pa, pb, it.w⟩ :: acc)
        | _, _ => .panic

/-- every queue item is popped once and every node pushes its `g.edges(·)` once -/
def primFuel (v : View) : Nat := (v.g.nodes.map fun x => (v.outOf x).length).sum + v.g.nodes.length + 2

/-- `min_spanning_tree_prim(g)` collected -/
def prim (v : View) : Res :=
  match v.g.nodes with
  | [] => .ok [] []
  | s :: _ => primLoop v (primFuel v) (pushEdges v [] s) [v.toIndex s] []

end PetgraphModel.MstModel
