/-
Mirror model of `/repo/src/adj.rs` (`adj::List<E, Ix>`), core Lean only.

`suc : Vec<Vec<WSuc>>` is a list of rows of `(successor, weight)`; an `EdgeIndex { from, successor_index }`
is the pair `(from, successor_index)`.  `Ix::new(i)` = `mkIx modulus i`.  `none` = the call panics
(`self.suc[a.index()]` out of bounds, the explicit `panic!` for a target beyond the list, or the capacity
`assert!` of `add_node*`: `fitsIx`, `nextNodeIndex`).
-/
namespace PetgraphModel.AdjM

def mkIx (modulus n : Nat) : Nat := if modulus = 0 then n else n % modulus

abbrev EIx := Nat × Nat            -- (from, successor_index)
abbrev Row := List (Nat × Int)     -- (suc, weight)

structure State where
  modulus : Nat
  suc : List Row
  deriving Repr, DecidableEq

/-- `List::new()` / `with_capacity(_)` / `default()` -/
def new (modulus : Nat) : State := { modulus, suc := [] }

def State.nodeCount (s : State) : Nat := s.suc.length

/-- `edge_count()` = sum of the row lengths -/
def State.edgeCount (s : State) : Nat := (s.suc.map List.length).sum

/-- `clear()` -/
def clear (s : State) : State := { s with suc := [] }

/-- `i <= <Ix as IndexType>::max().index()`: the index `i` fits the index type (`modulus = 0` is `usize`:
every index fits) -/
def fitsIx (modulus i : Nat) : Bool := modulus == 0 || decide (i < modulus)

/-- `next_node_index()` (commit 8cab180, repair of finding D31): the index the next node gets; `none` = the
`assert!` fails because the list already holds as many nodes as the index type has values (256 for `u8`).
Every `add_node*` calls it BEFORE the first write, so a panicking call leaves the list unchanged. -/
def nextNodeIndex (s : State) : Option Nat :=
  if fitsIx s.modulus s.suc.length then some s.suc.length else none

/-- `add_node()` / `add_node_with_capacity(_)` / `Build::add_node(())`; `none` = the capacity panic -/
def addNode (s : State) : Option (State × Nat) :=
  match nextNodeIndex s with
  | none => none
  | some i => some ({ s with suc := s.suc ++ [[]] }, mkIx s.modulus i)

/-- `add_node_from_edges(iter)`; `none` = the capacity panic (raised before the iterator is consumed) -/
def addNodeFromEdges (s : State) (es : Row) : Option (State × Nat) :=
  match nextNodeIndex s with
  | none => none
  | some i => some ({ s with suc := s.suc ++ [es] }, mkIx s.modulus i)

/-- `add_edge(a, b, w)`: explicit panic for `b` beyond the list, index panic for `a` -/
def addEdge (s : State) (a b : Nat) (w : Int) : Option (State × EIx) :=
  if b ≥ s.suc.length then none
  else match s.suc[a]? with
    | none => none
    | some row => some ({ s with suc := s.suc.set a (row ++ [(b, w)]) }, (a, row.length))

/-- position of the first successor entry equal to `b` -/
def findIn (b : Nat) : Row → Nat → Option Nat
  | [], _ => none
  | x :: xs, i => if x.1 = b then some i else findIn b xs (i + 1)

/-- `Build::update_edge(a, b, w)` (with the target check of commit 5cb1059) -/
def updateEdge (s : State) (a b : Nat) (w : Int) : Option (State × EIx) :=
  if b ≥ s.suc.length then none
  else match s.suc[a]? with
    | none => none
    | some row =>
      match findIn b row 0 with
      | some i => some ({ s with suc := s.suc.set a (row.set i (b, w)) }, (a, i))
      | none => some ({ s with suc := s.suc.set a (row ++ [(b, w)]) }, (a, row.length))

/-- `get_edge(e)` -/
def getEdge (s : State) (e : EIx) : Option (Nat × Int) :=
  match s.suc[e.1]? with
  | none => none
  | some row => row[e.2]?

/-- `edge_endpoints(e)` -/
def edgeEndpoints (s : State) (e : EIx) : Option (Nat × Nat) :=
  (getEdge s e).map (fun x => (e.1, x.1))

/-- `DataMap::edge_weight(e)` -/
def edgeWeight (s : State) (e : EIx) : Option Int := (getEdge s e).map (·.2)

/-- `*edge_weight_mut(e)? = w`; `none` = the accessor returned `None` (nothing written) -/
def setEdgeWeight (s : State) (e : EIx) (w : Int) : Option State :=
  match s.suc[e.1]? with
  | none => none
  | some row =>
    match row[e.2]? with
    | none => none
    | some x => some { s with suc := s.suc.set e.1 (row.set e.2 (x.1, w)) }

/-- `edge_indices_from(a)` (panics for `a` beyond the list) -/
def edgeIndicesFrom (s : State) (a : Nat) : Option (List EIx) :=
  (s.suc[a]?).map (fun row => (List.range row.length).map (fun i => (a, i)))

/-- `contains_edge(a, b)` -/
def containsEdge (s : State) (a b : Nat) : Bool :=
  match s.suc[a]? with
  | none => false
  | some row => row.any (fun x => x.1 == b)

/-- `find_edge(a, b)` -/
def findEdge (s : State) (a b : Nat) : Option EIx :=
  match s.suc[a]? with
  | none => none
  | some row => (findIn b row 0).map (fun i => (a, i))

/-- `node_indices()` / `node_identifiers()` / `node_references()` -/
def nodeIndices (s : State) : List Nat := (List.range s.suc.length).map (mkIx s.modulus)

def rowIndices (from_ : Nat) (row : Row) : List EIx := (List.range row.length).map (fun i => (from_, i))

def edgeIndicesLoop (m : Nat) : Nat → List Row → List EIx
  | _, [] => []
  | i, row :: rows => rowIndices (mkIx m i) row ++ edgeIndicesLoop m (i + 1) rows

/-- `edge_indices()` run to completion -/
def edgeIndices (s : State) : List EIx := edgeIndicesLoop s.modulus 0 s.suc

/-- an `EdgeReference`: `(from, successor_index, target, weight)` -/
abbrev ERef := Nat × Nat × Nat × Int

def rowRefs (from_ : Nat) : Nat → Row → List ERef
  | _, [] => []
  | i, x :: xs => (from_, i, x.1, x.2) :: rowRefs from_ (i + 1) xs

def edgeRefsLoop (m : Nat) : Nat → List Row → List ERef
  | _, [] => []
  | i, row :: rows => rowRefs (mkIx m i) 0 row ++ edgeRefsLoop m (i + 1) rows

/-- `edge_references()` run to completion -/
def edgeReferences (s : State) : List ERef := edgeRefsLoop s.modulus 0 s.suc

/-- `IntoNeighbors::neighbors(a)` (panics for `a` beyond the list) -/
def neighbors (s : State) (a : Nat) : Option (List Nat) := (s.suc[a]?).map (fun row => row.map (·.1))

/-- `IntoEdges::edges(a)` (panics for `a` beyond the list) -/
def edgesOf (s : State) (a : Nat) : Option (List ERef) := (s.suc[a]?).map (rowRefs a 0)

/-- `DataMap::node_weight(a)` is `Some(&())` exactly for existing nodes -/
def nodeWeight (s : State) (a : Nat) : Bool := a < s.suc.length

/-! ### the operation alphabet of the history-quantified statements -/

inductive Op where
  | addNode
  | addNodeFromEdges (es : Row)
  | addEdge (a b : Nat) (w : Int)
  | updateEdge (a b : Nat) (w : Int)
  | setEdgeWeight (e : EIx) (w : Int)
  | clear
  deriving Repr, DecidableEq

inductive Out where
  | ix (n : Nat)
  | eix (e : EIx)
  | found (b : Bool)     -- `edge_weight_mut` returned `Some` / `None`
  | unit
  | panic
  deriving Repr, DecidableEq

def step (s : State) : Op → State × Out
  | .addNode => match addNode s with
    | some (s', i) => (s', .ix i) | none => (s, .panic)
  | .addNodeFromEdges es => match addNodeFromEdges s es with
    | some (s', i) => (s', .ix i) | none => (s, .panic)
  | .addEdge a b w => match addEdge s a b w with
    | some (s', e) => (s', .eix e) | none => (s, .panic)
  | .updateEdge a b w => match updateEdge s a b w with
    | some (s', e) => (s', .eix e) | none => (s, .panic)
  | .setEdgeWeight e w => match setEdgeWeight s e w with
    | some s' => (s', .found true) | none => (s, .found false)
  | .clear => (clear s, .unit)

def run (s : State) : List Op → State × List Out
  | [] => (s, [])
  | op :: ops =>
    let (s1, o) := step s op
    let (s2, os) := run s1 ops
    (s2, o :: os)

end PetgraphModel.AdjM
