import PetgraphModel.Model.Graph
import PetgraphModel.Model.Acyclic
/-
`Acyclic<DiGraph<N, E, Ix>>` as ONE machine: the C01 mirror model of the inner `Graph`
(`Model/Graph.lean`) + the C14 bookkeeping (`Model/Acyclic.lean`), glued in the order `acyclic.rs`
calls them.  Core Lean only: the C14 driver replays this machine beside the real crate, and
`Proofs/C14W4Graph.lean` proves the C14 theorems for it without any hypothesis on the inner graph.

`gView s` is what the generic code of `Acyclic<G>` sees of a `Graph`: `node_identifiers()` =
`0 .. node_count`, `node_bound()` = `node_count`, `neighbors_directed(a, dir)` = `G.neighborsDirected`.
-/
namespace PetgraphModel.AcyG
open PetgraphModel PetgraphModel.Acy

/-- `neighbors_directed(a, k)` as `(neighbour, edge id)` in iteration order (`[]` on a model fault,
which the C01 invariant excludes) -/
def nbRow (s : G.State) (k : Bool) (a : Nat) : List (Nat × Nat) :=
  match G.neighborsDirected s a k with
  | .ok l => l.map fun p => (p.2, p.1)
  | .error _ => []

def gEdges (s : G.State) : List PetgraphModel.Edge :=
  (G.allERefs s).map fun r => ⟨r.ix, r.src, r.tgt, (r.weight : Int)⟩

/-- what `Acyclic<G>` sees of a `Graph<_, _, Directed, Ix>` -/
def gView (s : G.State) : View :=
  { g := { directed := true, nodes := List.range s.nodes.length, edges := gEdges s },
    nb := s.nodes.length, ix := [],
    out := (List.range s.nodes.length).map fun a => (a, nbRow s false a),
    inn := (List.range s.nodes.length).map fun a => (a, nbRow s true a) }

/-- the state of `Acyclic<DiGraph<N, E, Ix>>` -/
structure AG where
  g : G.State
  a : AState

/-- the public mutating calls (`Build::add_edge` / `Build::update_edge` make the same transition as
`try_add_edge` / `try_update_edge`; they differ in how a rejection is answered) and `is_valid_edge` -/
inductive AOp where
  | addNode (w : Nat)
  | tryAddEdge (a b w : Nat)
  | tryUpdateEdge (a b w : Nat)
  | removeEdge (e : Nat)
  | removeNode (n : Nat)
  | isValidEdge (a b : Nat)
  deriving Repr

/-- one call of `acyclic.rs` over the C01 model; `.error` = the call panics (a mirrored assertion, the
index limit of the inner graph, an absent endpoint) or the C01 model faults (excluded by `C01`) -/
def AG.step (x : AG) : AOp → Except String AG
  | .addNode w =>
    match G.tryAddNode x.g w with
    | (g', some i) =>
      match Acy.addNode (gView g') x.a i with
      | .ok a' => .ok ⟨g', a'⟩
      | .error e => .error e
    | (_, none) => .error "Graph::add_node: index limit"
  | .tryAddEdge a b w =>
    match Acy.tryAddEdge (gView x.g) x.a a b with
    | .error e => .error e
    | .ok (a', .accepted) =>
      match G.tryAddEdge x.g a b w with
      | (g', .ok _) => .ok ⟨g', a'⟩
      | (_, .error _) => .error "Graph::add_edge: index limit"
    | .ok (a', _) => .ok ⟨x.g, a'⟩                 -- rejected: the inner graph is not touched
  | .tryUpdateEdge a b w =>
    match Acy.tryAddEdge (gView x.g) x.a a b with
    | .error e => .error e
    | .ok (a', .accepted) =>
      match G.tryUpdateEdge x.g a b w with
      | .ok (g', .ok _) => .ok ⟨g', a'⟩
      | .ok (_, .error _) => .error "Graph::update_edge: index limit"
      | .error _ => .error "C01 model fault"
    | .ok (a', _) => .ok ⟨x.g, a'⟩
  | .removeEdge e =>
    match G.removeEdge x.g e with
    | .ok (g', _) => .ok ⟨g', x.a⟩
    | .error _ => .error "C01 model fault"
  | .removeNode n =>
    match G.removeNode x.g n with
    | .ok (g', _) =>
      match Acy.removeNode (gView x.g) (gView g') x.a n with
      | .ok (a', _) => .ok ⟨g', a'⟩
      | .error e => .error e
    | .error _ => .error "C01 model fault"
  | .isValidEdge a b =>
    match Acy.isValidEdge (gView x.g) x.a a b with
    | .ok (a', _) => .ok ⟨x.g, a'⟩
    | .error e => .error e

def AG.run : AG → List AOp → Except String AG
  | x, [] => .ok x
  | x, op :: ops =>
    match x.step op with
    | .ok x' => AG.run x' ops
    | .error e => .error e

/-- `Acyclic::new()` / `with_capacity` over `DiGraph` with index limit `endv` -/
def AG.new (endv cap : Nat) : AG := ⟨G.empty endv true, { cap := cap }⟩

/-- `Acyclic::try_from_graph(g)` over the C01 model: `Sum.inl x` = `Err(Cycle(x))` -/
def AG.tryFromGraph (g : G.State) : Except String (Sum Nat AG) :=
  match Acy.tryFromGraph (gView g) with
  | .ok (.inl x) => .ok (.inl x)
  | .ok (.inr a) => .ok (.inr ⟨g, a⟩)
  | .error e => .error e


/-! ### rebuilding the storage state from a reported view (the driver's `from` line)

A `Graph` built by `add_node` / `add_edge` only is determined by what the harness reports: node
weights, the edge list, and the iteration order of every adjacency row (= the `next` links). -/

def nextAfter (row : List (Nat × Nat)) (e endv : Nat) : Nat :=
  match row.dropWhile (fun p => p.2 != e) with
  | _ :: q :: _ => q.2
  | _ => endv

def headOf (row : List (Nat × Nat)) (endv : Nat) : Nat :=
  match row with
  | p :: _ => p.2
  | [] => endv

/-- the `Graph` whose view is `v` (concrete indices `0 .. nb`, edge ids `0 .. |E|`), node weights `lab` -/
def ofView (v : View) (lab : Nat → Nat) (endv : Nat) : G.State :=
  { endv := endv, directed := true,
    nodes := (List.range v.nb).map fun i => ⟨lab i, headOf (v.outOf i) endv, headOf (v.innOf i) endv⟩,
    edges := (List.range v.g.edges.length).map fun e =>
      match v.g.edges.find? (fun ed => ed.id == e) with
      | some ed => ⟨ed.w.toNat, nextAfter (v.outOf ed.src) e endv, nextAfter (v.innOf ed.tgt) e endv, ed.src, ed.tgt⟩
      | none => ⟨0, endv, endv, endv, endv⟩ }

/-- do the view of the storage model and a reported view agree (nodes, bound, edges, both adjacency tables)? -/
def sameView (a b : View) : Bool :=
  a.g.nodes == b.g.nodes && a.nb == b.nb && a.g.edges == b.g.edges &&
  (a.g.nodes.all fun x => a.outOf x == b.outOf x && a.innOf x == b.innOf x)

end PetgraphModel.AcyG
