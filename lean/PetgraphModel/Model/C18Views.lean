import PetgraphModel.Model.Graph6
import PetgraphModel.Model.C06Views
import PetgraphModel.Spec.VisitSpec
/-
C18 (wave 5) — `ToGraph6` / `FromGraph6` of every storage type, composed from the mirror models that exist:

* `graph6_string()` is `get_graph6_representation(self)` (src/graph6/graph6_encoder.rs:130-172, the same line for
  all five impls): the encoder `G6.encode` run on what the type's `IntoNodeIdentifiers` and `GetAdjacencyMatrix`
  impls answer.  Those answers are the fields `ids` and `adj` of the C06 table of the storage model
  (`Model/C06Views.lean`: `graphTable`, `stableTable`, `graphMapTable`, `matrixTable`, `csrTable`; the bit positions
  and widths of the bitmaps are the extracted ones of `Extracted/AdjWidth.lean`).  `adj::List` has a table too but
  implements neither `ToGraph6` nor `FromGraph6` (it is always directed).
* `from_graph6_string(s)` (src/graph6/graph6_decoder.rs:130-221) is `from_graph6_representation` (= `G6.decode`)
  followed by the type's own construction calls, replayed on the storage model:
    Graph        `with_capacity(order, m)`; `add_node(())` × order; `extend_with_edges(edges)`
    StableGraph  the same calls on `StableGraph`
    GraphMap     `with_capacity`; `add_node(Ix::new(i))` for `i in 0..order`; `add_edge(a, b, ())` per edge
    MatrixGraph  `with_capacity(order)`; `add_node(())` × order; `extend_with_edges(edges.iter())`
    Csr          `new()`; `add_node(())` × order; `add_edge(a, b, ())` per edge
  The weight `()` is `0`.  `none` = the call panics (the decoder's panics, an index type too small for the order).

Core Lean only.
-/
namespace PetgraphModel.G6V
open PetgraphModel PetgraphModel.Visit

/-- `is_adjacent(&adj_matrix, node_ids_vec[p], node_ids_vec[q])` as recorded in the table: row `ids[p]` lists the
query nodes adjacent to it -/
def tableAdj (ids : List Nat) (r : Rows Nat) (p q : Nat) : Bool :=
  (rowOf r (ids.getD p 0)).contains (ids.getD q 0)

/-- `get_graph6_representation(g)` for a view `g` whose trait answers are the table `t`; `none` = panic (also when
the view lacks one of the two traits: such a type has no `ToGraph6` impl) -/
def graph6OfTable (t : Table) : Option (List Char) :=
  match t.ids, t.adj with
  | some ids, some r => G6.encode ids.length (tableAdj ids r)
  | _, _ => none

/-! ### `ToGraph6` (the impls exist for the `Undirected` edge type only) -/

def graph6Graph (s : G.State) : Option (List Char) := graph6OfTable (graphTable s)
def graph6Stable (s : SG.State) : Option (List Char) := graph6OfTable (stableTable s)
def graph6GraphMap (s : GM.State) : Option (List Char) := graph6OfTable (graphMapTable s)
def graph6Matrix (s : Matrix.State) : Option (List Char) := graph6OfTable (matrixTable s)
/-- `Csr`: `adjacency_matrix()` can panic in the model (`put` beyond the bitmap); the table hides that behind a
default, the encoder call does not -/
def graph6Csr (s : CsrM.State) : Option (List Char) :=
  if (CsrView.adjacencyMatrix s).isSome then graph6OfTable (csrTable s) else none

/-! ### `FromGraph6` -/

/-- the edge list with the weight `()` -/
def unitEdgesN (es : List (Nat × Nat)) : List (Nat × Nat × Nat) := es.map fun e => (e.1, e.2, 0)
def unitEdgesZ (es : List (Nat × Nat)) : List (Nat × Nat × Int) := es.map fun e => (e.1, e.2, 0)

def gPanicked : G.Out → Bool
  | .panic => true
  | .fault _ => true
  | _ => false

/-- `Graph::<(), (), Undirected, Ix>`: the calls after `from_graph6_representation` -/
def graphOps (n : Nat) (es : List (Nat × Nat)) : List G.Op :=
  List.replicate n (.addNode 0) ++ [.extendWithEdges (unitEdgesN es)]

/-- `Graph::from_graph6_string`; `endv = Ix::max()` -/
def fromGraph6Graph (endv : Nat) (str : List Char) : Option G.State :=
  match G6.decode str with
  | none => none
  | some (n, es) =>
    let r := G.run (G.empty endv false) (graphOps n es)
    if r.2.any gPanicked then none else some r.1

def sgPanicked : SG.Out → Bool
  | .panic => true
  | .idx (.error _) => true      -- `add_node` = `try_add_node(..).unwrap()`
  | _ => false

def stableOps (n : Nat) (es : List (Nat × Nat)) : List SG.Op :=
  List.replicate n (.addNode 0) ++ [.extendWithEdges (unitEdgesZ es)]

/-- `StableGraph::from_graph6_string`; `fin = Ix::max()`, `noLimit` = the index type is `usize`, `debug` = debug build.
A fault of the model (unreachable, `C02_all_histories`) is rendered as `none` too. -/
def fromGraph6Stable (fin : Nat) (noLimit debug : Bool) (str : List Char) : Option SG.State :=
  match G6.decode str with
  | none => none
  | some (n, es) =>
    match SG.run (SG.empty false fin noLimit debug) (stableOps n es) with
    | .error _ => none
    | .ok (s, outs) => if outs.any sgPanicked then none else some s

def graphMapOps (n : Nat) (es : List (Nat × Nat)) : List GM.Op :=
  (List.range n).map GM.Op.addNode ++ es.map fun e => GM.Op.addEdge e.1 e.2 0

/-- `GraphMap::from_graph6_string` (no call of it can panic) -/
def fromGraph6GraphMap (str : List Char) : Option GM.State :=
  match G6.decode str with
  | none => none
  | some (n, es) => some (GM.run (GM.State.empty false) (graphMapOps n es)).1

def mxPanicked : Matrix.Out → Bool
  | .panic => true
  | .fault _ => true
  | _ => false

/-- `MatrixGraph::<(), (), S, Undirected, Option<()>, Ix>::from_graph6_string`; `ixMax = Ix::max()` -/
def fromGraph6Matrix (ixMax : Nat) (str : List Char) : Option Matrix.State :=
  match G6.decode str with
  | none => none
  | some (n, es) =>
    match Matrix.withCapacity false false ixMax n with
    | .error _ => none
    | .ok s0 =>
      let r1 := Matrix.run s0 (List.replicate n (.addNode 0))
      if r1.2.any mxPanicked then none
      else
        let r2 := Matrix.extendWithEdges r1.1 (unitEdgesZ es)
        if mxPanicked r2.2 then none else some r2.1

def csrPanicked : CsrM.Out → Bool
  | .panic => true
  | _ => false

def csrOps (n : Nat) (es : List (Nat × Nat)) : List CsrM.Op :=
  List.replicate n (.addNode 0) ++ es.map fun e => CsrM.Op.addEdge e.1 e.2 0

/-- `Csr::<(), (), Undirected, Ix>::from_graph6_string`; `modulus = Ix::max() + 1` (`0` for `usize`) -/
def fromGraph6Csr (modulus cutoff : Nat) (debug : Bool) (str : List Char) : Option CsrM.State :=
  match G6.decode str with
  | none => none
  | some (n, es) =>
    let r := CsrM.run (CsrM.new false modulus cutoff debug) (csrOps n es)
    if r.2.any csrPanicked then none else some r.1

/-! ### the abstract graph of a table, as the encoder sees it -/

/-- "some edge joins the `p`-th and the `q`-th node of the iteration" in the abstract graph `abs t` -/
def absAdj (t : Table) (p q : Nat) : Bool :=
  let ids := t.ids.getD []
  expAdj t.directed (t.erefs.getD []) (ids.getD p 0) (ids.getD q 0)

end PetgraphModel.G6V
