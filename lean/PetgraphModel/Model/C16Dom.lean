import PetgraphModel.Model.Traversal
/-
Mirror model of `/repo/src/algo/dominators.rs` over a `View` (core Lean only).

* `Doms` models `struct Dominators { root, dominators : HashMap<N, N> }` as an association list
  (keys unique); the accessors `root`, `immediate_dominator`, `strict_dominators`, `dominators`
  (`DominatorsIter` collected) and `immediately_dominated_by` (`DominatedByIter` collected, in the
  list's order — the real order is the hash map's, the harness sorts it).
* `simpleFast` mirrors `simple_fast` (Cooper–Harvey–Kennedy): `simple_fast_post_order`
  (`DfsPostOrder` = `Trav.postNext`, predecessor sets), `predecessor_sets_to_idx_vecs`, the
  `while changed` loop over reverse post-order and `intersect`.  `UNDEFINED` (`usize::MAX`) is
  `none`.  `HashSet` iteration order of a predecessor set is modelled as insertion order (the result
  does not depend on it: `intersect` computes a nearest common ancestor).
  Reading `dominators[UNDEFINED]` would be an out-of-bounds panic in Rust: `panic "index"`; the
  `.expect(..)` is `panic "expect"`; exhausted fuel is reported as such (never observed).
-/
namespace PetgraphModel.C16M
open PetgraphModel PetgraphModel.Trav

/-! ### the `Dominators` value and its accessors -/
structure Doms where
  root : Nat
  map : List (Nat × Nat)        -- node ↦ immediate dominator (the root maps to itself)
  deriving Repr, Inhabited, DecidableEq

namespace Doms

def immediateDominator (d : Doms) (n : Nat) : Option Nat :=
  if n = d.root then none else d.map.lookup n

/-- `DominatorsIter { node }` collected; the fuel bounds a (never observed) cyclic map -/
def chain (d : Doms) : Nat → Option Nat → List Nat
  | 0, _ => []
  | _+1, none => []
  | f+1, some n => n :: chain d f (d.immediateDominator n)

def chainFuel (d : Doms) : Nat := d.map.length + 1

def strictDominators (d : Doms) (n : Nat) : Option (List Nat) :=
  if (d.map.lookup n).isSome then some (d.chain d.chainFuel (d.immediateDominator n)) else none

def dominators (d : Doms) (n : Nat) : Option (List Nat) :=
  if (d.map.lookup n).isSome then some (d.chain (d.chainFuel + 1) (some n)) else none

/-- `for (dominator, dominated) in iter { if dominated == node && dominated != dominator … }`
(the key is the dominated node, the value its immediate dominator; the names in the source are
swapped) -/
def immediatelyDominatedBy (d : Doms) (n : Nat) : List Nat :=
  d.map.filterMap fun (k, v) => if v = n ∧ v ≠ k then some k else none

end Doms

/-! ### `simple_fast` -/

inductive SF where
  | ok (d : Doms)
  | panic (why : String)
  | fuel
  deriving Repr, Inhabited

/-- `DfsPostOrder::new(graph, root).iter(graph)` collected (`none` = fuel) -/
def postOrderFrom (v : View) (inner : Nat) : Nat → Post → List Nat → Option (List Nat)
  | 0, _, _ => none
  | k+1, d, acc =>
    match postNext v inner d with
    | none => none
    | some (none, _) => some acc
    | some (some x, d') => postOrderFrom v inner k d' (acc ++ [x])

def insertSet (x : Nat) (s : List Nat) : List Nat := if s.contains x then s else s ++ [x]

/-- `predecessor_sets.entry(successor).or_insert_with(HashSet::new).insert(node)` -/
def addPred (ps : List (Nat × List Nat)) (succ node : Nat) : List (Nat × List Nat) :=
  match ps.lookup succ with
  | some _ => ps.map fun (k, s) => if k == succ then (k, insertSet node s) else (k, s)
  | none => ps ++ [(succ, [node])]

def predSets (v : View) (post : List Nat) : List (Nat × List Nat) :=
  post.foldl (fun ps node => (v.succ node).foldl (fun ps s => addPred ps s node) ps) []

/-- `predecessor_sets_to_idx_vecs`; `none` = the `unwrap()` on a predecessor without index -/
def predVecs (post : List Nat) (ps : List (Nat × List Nat)) : Option (List (List Nat)) :=
  let rows := post.map fun node => ((ps.lookup node).getD []).map fun p => post.idxOf p
  if rows.all (fun r => r.all fun i => i < post.length) then some rows else none

/-- `intersect`: walk the two fingers up until they meet (`none` = `dominators[finger]` undefined /
fuel) -/
def intersect (doms : List (Option Nat)) : Nat → Nat → Nat → Option Nat
  | 0, _, _ => none
  | f+1, f1, f2 =>
    if f1 < f2 then
      match doms.getD f1 none with
      | some d => intersect doms f d f2
      | none => none
    else if f2 < f1 then
      match doms.getD f2 none with
      | some d => intersect doms f f1 d
      | none => none
    else some f1

def foldIntersect (doms : List (Option Nat)) (fuel : Nat) : Nat → List Nat → Option Nat
  | acc, [] => some acc
  | acc, q :: qs => match intersect doms fuel acc q with
    | some a => foldIntersect doms fuel a qs
    | none => none

inductive NewIdom where | val (i : Nat) | expect | index
  deriving Repr, DecidableEq

/-- the block computing `new_idom_idx` for one node -/
def newIdom (doms : List (Option Nat)) (fuel : Nat) (preds : List Nat) : NewIdom :=
  match preds.filter fun p => (doms.getD p none).isSome with
  | [] => .expect
  | p :: rest => match foldIntersect doms fuel p rest with
    | some i => .val i
    | none => .index

/-- one sweep `for idx in (0..length-1).rev()`; `idxs` is that range, already reversed;
`debug_assert!(new_idom_idx < length)` is mirrored (the harness runs the debug profile) -/
def sweep (pv : List (List Nat)) (fuel len : Nat) : List Nat → List (Option Nat) → Bool →
    Except String (List (Option Nat) × Bool)
  | [], doms, ch => .ok (doms, ch)
  | idx :: rest, doms, ch =>
    match newIdom doms fuel (pv.getD idx []) with
    | .expect => .error "expect"
    | .index => .error "index"
    | .val i =>
      if ¬ i < len then .error "assert"
      else if some i != doms.getD idx none then sweep pv fuel len rest (doms.set idx (some i)) true
      else sweep pv fuel len rest doms ch

/-- `while changed { … }` -/
def fixLoop (pv : List (List Nat)) (fuel len : Nat) (idxs : List Nat) : Nat → List (Option Nat) →
    Except String (Option (List (Option Nat)))
  | 0, _ => .ok none
  | k+1, doms =>
    match sweep pv fuel len idxs doms false with
    | .error e => .error e
    | .ok (doms', true) => fixLoop pv fuel len idxs k doms'
    | .ok (doms', false) => .ok (some doms')

def postFuel (v : View) : Nat := 2 * (4 * v.g.edges.length + 2 * v.g.nodes.length + 16)

def simpleFast (v : View) (root : Nat) : SF :=
  let f := postFuel v
  match postOrderFrom v f (f + 4) { stack := [root] } [] with
  | none => .fuel
  | some post =>
    let len := post.length
    -- debug_assert!(length > 0); debug_assert!(post_order.last() == Some(&root))
    if len = 0 ∨ post.getLast? ≠ some root then .panic "assert" else
    match predVecs post (predSets v post) with
    | none => .panic "unwrap"
    | some pv =>
      let doms0 : List (Option Nat) := (List.replicate len none).set (len - 1) (some (len - 1))
      let idxs := (List.range (len - 1)).reverse
      match fixLoop pv (len + 2) len idxs (len * len + 4) doms0 with
      | .error e => .panic e
      | .ok none => .fuel
      | .ok (some doms) =>
        if doms.any (·.isNone) then .panic "assert" else
        .ok { root := root,
              map := (post.zip doms).map fun (n, d) => (n, post.getD (d.getD 0) 0) }

end PetgraphModel.C16M
