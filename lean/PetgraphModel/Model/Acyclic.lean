import PetgraphModel.Spec.Graph
import PetgraphModel.Model.Traversal
/-
Mirror model of `/repo/src/acyclic.rs` + `/repo/src/acyclic/order_map.rs` (+ `algo::toposort`,
`visit::dfs_visitor` as instantiated by `acyclic::dfs`).  Core Lean only.

The inner graph is NOT modelled here: every function takes the inner graph as a `View` in CONCRETE
node indices (`v.g.nodes` = `node_identifiers()`, `v.succ` / `v.pred` = `neighbors` /
`neighbors_directed(Incoming)`, `v.nb` = `node_bound()`), exactly what the generic code of
`Acyclic<G>` sees of `G`.  Mutating calls whose order-map update depends on the inner graph AFTER
the inner call (`add_node`, `remove_node`) take that graph as a second argument.

* `OrderMap.p2n` — `pos_to_node : BTreeMap<TopologicalPosition, N>` as an association list sorted
  strictly by position;  `OrderMap.n2p` — `node_to_pos : Vec<TopologicalPosition>` indexed by
  `to_index`, INCLUDING the stale entries the code leaves behind (a removed slot is reset to 0, the
  old slot of a node that `Graph::remove_node` moved keeps its position).
* `AState.disc` / `fin` — the set bits of the two scratch `FixedBitSet`s, `cap` their common length.
* Every panic of the real code is an `Except.error` here: the asserts of `get_position`,
  `set_position`, `remove_node`; `FixedBitSet::put` out of bounds; the `debug_assert!`s and
  `unreachable!` of the cone searches (the harness is built with debug assertions); the panics of
  `Graph::add_edge` / `StableGraph::add_edge` on an absent endpoint.  `"FUEL"` is not a panic of
  the code but the model running out of fuel (the theorems show it cannot under the invariant).
-/
namespace PetgraphModel.Acy
open PetgraphModel

/-! ### `BTreeMap<TopologicalPosition, N>` -/

abbrev PMap := List (Nat × Nat)

/-- `BTreeMap::insert` (replaces the value of an existing key) -/
def pmInsert : PMap → Nat → Nat → PMap
  | [], k, x => [(k, x)]
  | (k', x') :: r, k, x =>
    if k < k' then (k, x) :: (k', x') :: r
    else if k = k' then (k, x) :: r
    else (k', x') :: pmInsert r k x

/-- `BTreeMap::remove` -/
def pmErase (m : PMap) (k : Nat) : PMap := m.filter fun e => e.1 != k

def pmGet (m : PMap) (k : Nat) : Option Nat := m.lookup k
def pmKeys (m : PMap) : List Nat := m.map (·.1)
def pmVals (m : PMap) : List Nat := m.map (·.2)
/-- `iter().next_back()` -/
def pmLastKey (m : PMap) : Option Nat := m.getLast?.map (·.1)

/-- `Vec::resize(n, 0)` -/
def resize0 (l : List Nat) (n : Nat) : List Nat := (l ++ List.replicate (n - l.length) 0).take n

structure OrderMap where
  p2n : PMap := []
  n2p : List Nat := []
  deriving Repr, Inhabited, DecidableEq

namespace OrderMap

/-- `OrderMap::get_position` (`assert!(idx < len)`) -/
def getPos (om : OrderMap) (i : Nat) : Except String Nat :=
  match om.n2p[i]? with
  | some p => .ok p
  | none => .error "get_position: index out of bounds"

def atPos (om : OrderMap) (p : Nat) : Option Nat := pmGet om.p2n p
def nodesIter (om : OrderMap) : List Nat := pmVals om.p2n

/-- `OrderMap::add_node(id, graph)`; `nb` = `graph.node_bound()` (graph after the inner `add_node`) -/
def addNode (om : OrderMap) (i nb : Nat) : Except String OrderMap :=
  let newPos := match pmLastKey om.p2n with
    | some k => k + 1
    | none => 0
  let n2p := if i ≥ om.n2p.length then resize0 om.n2p nb else om.n2p
  if i < n2p.length then .ok { p2n := pmInsert om.p2n newPos i, n2p := n2p.set i newPos }
  else .error "add_node: index out of bounds"

/-- `OrderMap::remove_node` -/
def removeNode (om : OrderMap) (i : Nat) : Except String OrderMap :=
  match om.n2p[i]? with
  | some p => .ok { p2n := pmErase om.p2n p, n2p := om.n2p.set i 0 }
  | none => .error "remove_node: index out of bounds"

/-- `OrderMap::set_position` -/
def setPos (om : OrderMap) (i p : Nat) : Except String OrderMap :=
  if i < om.n2p.length then .ok { p2n := pmInsert om.p2n p i, n2p := om.n2p.set i p }
  else .error "set_position: index out of bounds"

end OrderMap

/-! ### `RangeBounds<TopologicalPosition>` -/
inductive Bnd where | inc (k : Nat) | exc (k : Nat) | unb
  deriving Repr, DecidableEq, Inhabited

def Bnd.loOk : Bnd → Nat → Bool
  | .inc k, x => k ≤ x | .exc k, x => k < x | .unb, _ => true
def Bnd.hiOk : Bnd → Nat → Bool
  | .inc k, x => x ≤ k | .exc k, x => x < k | .unb, _ => true

/-- the panics of `BTreeMap::range` (checked only when the map has a root) -/
def rangePanics (lo hi : Bnd) : Bool :=
  match lo, hi with
  | .exc s, .exc e => s ≥ e
  | .inc s, .inc e | .inc s, .exc e | .exc s, .inc e => s > e
  | _, _ => false

/-- `OrderMap::range`; `none` = panic -/
def OrderMap.range (om : OrderMap) (lo hi : Bnd) : Option (List Nat) :=
  if rangePanics lo hi && !om.p2n.isEmpty then none
  else some ((om.p2n.filter fun e => lo.loOk e.1 && hi.hiOk e.1).map (·.2))

/-! ### the state of `Acyclic<G>` minus the inner graph -/
structure AState where
  om : OrderMap := {}
  disc : List Nat := []
  fin : List Nat := []
  cap : Nat := 0
  deriving Repr, Inhabited, DecidableEq

def live (v : View) (a : Nat) : Bool := v.g.nodes.contains a

/-! ### `acyclic::dfs` = `dfs_visitor` with the cone visitor -/
inductive Dir where | fut | past
  deriving Repr, DecidableEq, Inhabited

inductive Chk where | go | prune | cycle | panic (why : String)
  deriving Repr, DecidableEq, Inhabited

/-- the `valid_order` closures of `future_cone` / `past_cone` -/
def validOrder (dir : Dir) (minP maxP order : Nat) : Chk :=
  match dir with
  | .fut =>
    if order < minP then .panic "invalid topological order"
    else if order < maxP then .go
    else if order = maxP then .cycle
    else .prune
  | .past =>
    if order > maxP then .panic "invalid topological order"
    else if order < minP then .prune
    else if order = minP then .panic "unreachable: checked by future_cone"
    else .go

def nbrs (dir : Dir) (v : View) (u : Nat) : List Nat :=
  match dir with
  | .fut => v.succ u
  | .past => v.pred u

structure DS where
  disc : List Nat := []
  fin : List Nat := []
  res : PMap := []
  deriving Repr, Inhabited, DecidableEq

inductive DRes where | ok | cycle | panic (why : String)
  deriving Repr, DecidableEq, Inhabited

mutual
/-- `dfs_visitor(graph, u, …)` with the visitor of `acyclic::dfs` -/
def dfsV (v : View) (om : OrderMap) (cap : Nat) (dir : Dir) (minP maxP : Nat) : Nat → Nat → DS → DS × DRes
  | 0, _, s => (s, .panic "FUEL")
  | f+1, u, s =>
    if u ≥ cap then (s, .panic "fixedbitset put out of bounds")       -- `discovered.visit(u)`
    else if s.disc.contains u then (s, .ok)
    else
      match om.getPos u with                                            -- Discover(u): `res.insert(order, u)`
      | .error e => ({ s with disc := u :: s.disc }, .panic e)
      | .ok p =>
        let s := { s with disc := u :: s.disc, res := pmInsert s.res p u }
        match dfsN v om cap dir minP maxP f u (nbrs dir v u) s with
        | (s, .ok) => ({ s with fin := u :: s.fin }, .ok)               -- `finished.visit(u)`, Finish(u)
        | r => r
/-- the `for v in graph.neighbors(u)` loop -/
def dfsN (v : View) (om : OrderMap) (cap : Nat) (dir : Dir) (minP maxP : Nat) : Nat → Nat → List Nat → DS → DS × DRes
  | 0, _, _, s => (s, .panic "FUEL")
  | _+1, _, [], s => (s, .ok)
  | f+1, u, w :: ws, s =>
    if s.disc.contains w then dfsN v om cap dir minP maxP f u ws s      -- Back / CrossForward edge: Continue
    else
      match om.getPos w with                                            -- TreeEdge(u, w)
      | .error e => (s, .panic e)
      | .ok p =>
        match validOrder dir minP maxP p with
        | .go =>
          match dfsV v om cap dir minP maxP f w s with
          | (s, .ok) => dfsN v om cap dir minP maxP f u ws s
          | r => r
        | .prune => dfsN v om cap dir minP maxP f u ws s
        | .cycle => (s, .cycle)
        | .panic e => (s, .panic e)
end

def dfsFuel (v : View) : Nat := 2 * v.g.edges.length + 2 * v.g.nodes.length + v.nb + 8

/-- result of `causal_cones`: `none` = `Err(Cycle(min_node))` -/
abbrev Cones := Option (PMap × PMap)

/-- reset the scratch bits of every node recorded in the two cones -/
def cleanup (l : List Nat) (fwd bwd : PMap) : List Nat :=
  l.filter fun x => !(pmVals fwd).contains x && !(pmVals bwd).contains x

/-- `Acyclic::causal_cones(min_node, max_node)` -/
def causalCones (v : View) (s : AState) (minN maxN : Nat) : Except String (AState × Cones) :=
  if !(s.disc.isEmpty && s.fin.isEmpty) then .error "debug_assert: scratch sets not clear" else
  match s.om.getPos minN with
  | .error e => .error e
  | .ok minP =>
  match s.om.getPos maxN with
  | .error e => .error e
  | .ok maxP =>
    let cap := if s.cap < v.nb then v.nb else s.cap
    let f := dfsFuel v
    match dfsV v s.om cap .fut minP maxP f minN {} with
    | (_, .panic e) => .error e
    | (d1, .cycle) =>
      let disc := cleanup d1.disc d1.res []
      let fin := cleanup d1.fin d1.res []
      if !(disc.isEmpty && fin.isEmpty) then .error "debug_assert: scratch sets not clear after cleanup"
      else .ok ({ s with cap := cap, disc := disc, fin := fin }, none)
    | (d1, .ok) =>
      match dfsV v s.om cap .past minP maxP f maxN { disc := d1.disc, fin := d1.fin, res := [] } with
      | (_, .panic e) => .error e
      | (_, .cycle) => .error "expect: cycles already checked in future_cone"
      | (d2, .ok) =>
        let disc := cleanup d2.disc d1.res d2.res
        let fin := cleanup d2.fin d1.res d2.res
        if !(disc.isEmpty && fin.isEmpty) then .error "debug_assert: scratch sets not clear after cleanup"
        else .ok ({ s with cap := cap, disc := disc, fin := fin }, some (d1.res, d2.res))

/-- `BTreeSet` of the keys of both cones -/
def allPositions (bfut apast : PMap) : List Nat :=
  pmKeys ((pmKeys bfut ++ pmKeys apast).foldl (fun m k => pmInsert m k 0) [])

/-- the `for (pos, node) in all_positions.zip(all_nodes) { set_position }` loop -/
def assign (om : OrderMap) : List (Nat × Nat) → Except String OrderMap
  | [] => .ok om
  | (p, n) :: r =>
    match om.setPos n p with
    | .error e => .error e
    | .ok om' => assign om' r

/-- `Acyclic::update_ordering(a, b)`; the `Bool` is `true` for `Ok(())`, `false` for `Err(Cycle(b))` -/
def updateOrdering (v : View) (s : AState) (a b : Nat) : Except String (AState × Bool) :=
  match s.om.getPos b with
  | .error e => .error e
  | .ok minP =>
  match s.om.getPos a with
  | .error e => .error e
  | .ok maxP =>
    if minP ≥ maxP then .ok (s, true) else
    match causalCones v s b a with
    | .error e => .error e
    | .ok (s, none) => .ok (s, false)
    | .ok (s, some (bfut, apast)) =>
      let allPos := allPositions bfut apast
      let allNodes := pmVals apast ++ pmVals bfut
      if allPos.length ≠ bfut.length + apast.length then .error "debug_assert_eq: cones overlap"
      else match assign s.om (allPos.zip allNodes) with
        | .error e => .error e
        | .ok om => .ok ({ s with om := om }, true)

inductive EdgeRes where | accepted | selfLoop | cycle (n : Nat)
  deriving Repr, DecidableEq, Inhabited

/-- `try_add_edge(a, b, _)` / `try_update_edge(a, b, _)` up to and including the panic of the inner
`add_edge` / `update_edge` on an absent endpoint; the inner edge insertion itself is the graph's. -/
def tryAddEdge (v : View) (s : AState) (a b : Nat) : Except String (AState × EdgeRes) :=
  if a = b then .ok (s, .selfLoop) else
  match updateOrdering v s a b with
  | .error e => .error e
  | .ok (s', false) => .ok (s', .cycle b)
  | .ok (s', true) =>
    if live v a && live v b then .ok (s', .accepted)
    else .error "inner add_edge: node index out of bounds / NodeMissed"

/-- `is_valid_edge(a, b)` (`&self`, but the scratch sets may grow) -/
def isValidEdge (v : View) (s : AState) (a b : Nat) : Except String (AState × Bool) :=
  if a = b then .ok (s, false) else
  match s.om.getPos a with
  | .error e => .error e
  | .ok pa =>
  match s.om.getPos b with
  | .error e => .error e
  | .ok pb =>
    if pa < pb then .ok (s, true) else
    match causalCones v s b a with
    | .error e => .error e
    | .ok (s, c) => .ok (s, c.isSome)

/-- `Build::add_node`: `v'` = inner graph after its `add_node` returned index `i` -/
def addNode (v' : View) (s : AState) (i : Nat) : Except String AState :=
  match s.om.addNode i v'.nb with
  | .error e => .error e
  | .ok om => .ok { s with om := om }

/-- `remove_node(n)`: `v` / `v'` = inner graph before / after; `true` = `Some(weight)` -/
def removeNode (v v' : View) (s : AState) (n : Nat) : Except String (AState × Bool) :=
  if !live v n then .ok (s, false) else
  let last := v.nb - 1
  match s.om.removeNode n with
  | .error e => .error e
  | .ok om1 =>
    if live v' n then
      match om1.getPos last with
      | .error e => .error e
      | .ok p =>
        match om1.setPos n p with
        | .error e => .error e
        | .ok om2 => .ok ({ s with om := om2 }, true)
    else .ok ({ s with om := om1 }, true)

/-! ### `algo::toposort(g, None)` and `OrderMap::try_from_graph` -/

structure TS where
  stack : List Nat := []       -- top at the head
  disc : List Nat := []
  fin : List Nat := []
  finStack : List Nat := []    -- `finish_stack`, last pushed at the head
  deriving Repr, Inhabited

/-- push the undiscovered successors in iteration order; `some x` = self-loop found at `x` -/
def tsPush (nx : Nat) (disc : List Nat) : List Nat → List Nat → Option Nat × List Nat
  | [], st => (none, st)
  | y :: ys, st =>
    if y = nx then (some nx, st)
    else if disc.contains y then tsPush nx disc ys st
    else tsPush nx disc ys (y :: st)

/-- the `while let Some(&nx) = dfs.stack.last()` loop of the first phase; `Sum.inl x` = `Err(Cycle(x))` -/
def tsLoop (v : View) : Nat → TS → Option (Sum Nat TS)
  | 0, _ => none
  | f+1, t =>
    match t.stack with
    | [] => some (.inr t)
    | nx :: rest =>
      if !t.disc.contains nx then
        let disc := nx :: t.disc
        match tsPush nx disc (v.succ nx) t.stack with
        | (some x, _) => some (.inl x)
        | (none, st) => tsLoop v f { t with disc := disc, stack := st }
      else if !t.fin.contains nx then
        tsLoop v f { t with stack := rest, fin := nx :: t.fin, finStack := nx :: t.finStack }
      else tsLoop v f { t with stack := rest }

def tsPhase1 (v : View) (fuel : Nat) : List Nat → TS → Option (Sum Nat TS)
  | [], t => some (.inr t)
  | i :: is, t =>
    if t.disc.contains i then tsPhase1 v fuel is t
    else match tsLoop v fuel { t with stack := i :: t.stack } with
      | some (.inr t') => tsPhase1 v fuel is t'
      | r => r

def reversedView (v : View) : View := { v with out := v.inn, inn := v.out }

/-- second phase: a `Dfs` over `Reversed(g)`, `move_to` each node of the order; a second node
emitted from one start is a cycle -/
def tsPhase2 (rv : View) (fuel : Nat) : List Nat → Trav.Dfs → Option (Option Nat)
  | [], _ => some none
  | i :: is, d =>
    match Trav.dfsNext rv fuel (d.moveTo i) with
    | none => none
    | some (none, d1) => tsPhase2 rv fuel is d1
    | some (some _, d1) =>
      match Trav.dfsNext rv fuel d1 with
      | none => none
      | some (none, d2) => tsPhase2 rv fuel is d2
      | some (some j, _) => some (some j)

def tsFuel (v : View) : Nat := 4 * v.g.edges.length + 4 * v.g.nodes.length + 16

/-- `toposort(g, None)`: `Sum.inl x` = `Err(Cycle(x))`; `none` = model fuel exhausted -/
def toposort (v : View) : Option (Sum Nat (List Nat)) :=
  match tsPhase1 v (tsFuel v) v.g.nodes {} with
  | none => none
  | some (.inl x) => some (.inl x)
  | some (.inr t) =>
    let order := t.finStack      -- `finish_stack.reverse()`: `finStack` already has the last finished first
    match tsPhase2 (reversedView v) (tsFuel v) order {} with
    | none => none
    | some (some j) => some (.inl j)
    | some none => some (.inr order)

def enumFrom (k : Nat) : List Nat → List (Nat × Nat)
  | [] => []
  | x :: xs => (k, x) :: enumFrom (k + 1) xs

def setAll (n2p : List Nat) : List (Nat × Nat) → Option (List Nat)
  | [] => some n2p
  | (p, i) :: r => if i < n2p.length then setAll (n2p.set i p) r else none

/-- `Acyclic::try_from_graph` / `TryFrom`: `Sum.inl x` = `Err(Cycle(x))` -/
def tryFromGraph (v : View) : Except String (Sum Nat AState) :=
  match toposort v with
  | none => .error "FUEL"
  | some (.inl x) => .ok (.inl x)
  | some (.inr order) =>
    let pn := enumFrom 0 order
    match setAll (List.replicate v.nb 0) pn with
    | none => .error "try_from_graph: index out of bounds"
    | some n2p => .ok (.inr { om := { p2n := pn, n2p := n2p }, cap := v.nb })

/-- `Create::with_capacity(nodes, _)` -/
def withCapacity (nodes : Nat) : AState := { cap := nodes }

end PetgraphModel.Acy
