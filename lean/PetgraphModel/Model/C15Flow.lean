import PetgraphModel.Spec.Graph
import PetgraphModel.Oracle.C15Matching
/-
Mirror model of `/repo/src/algo/ford_fulkerson.rs` (Edmonds–Karp) over a `View` (core Lean only).

`flows: Vec<W>` (indexed by `EdgeIndexable::to_index`) is a table `edge id ↦ flow`; `edge_to:
Vec<Option<EdgeRef>>` (indexed by node) is an association list `node ↦ edge id`, newest entry first;
`edges_directed(x, Outgoing).chain(edges_directed(x, Incoming))` is `v.outOf x ++ v.innOf x`.
Capacities are the (integer) edge weights; `W::max()` is `none`.
-/
namespace PetgraphModel.C15F
open PetgraphModel

abbrev Flows := List (Nat × Int)

def getFlow (fl : Flows) (eid : Nat) : Int := (fl.lookup eid).getD 0

def setFlow : Flows → Nat → Int → Flows
  | [], _, _ => []
  | (k, x) :: r, eid, y => if k = eid then (k, y) :: r else (k, x) :: setFlow r eid y

/-- `other_endpoint` (`none`: the documented "Illegal endpoint" panic) -/
def otherEndpoint (e : Edge) (vertex : Nat) : Option Nat :=
  if vertex = e.src then some e.tgt else if vertex = e.tgt then some e.src else none

/-- `residual_capacity(network, edge, vertex, flow)` -/
def residualCap (e : Edge) (vertex : Nat) (flow : Int) : Option Int :=
  if vertex = e.src then some flow else if vertex = e.tgt then some (e.w - flow) else none

/-- `adjust_residual_flow` -/
def adjustFlow (e : Edge) (vertex : Nat) (flow delta : Int) : Option Int :=
  if vertex = e.src then some (flow - delta) else if vertex = e.tgt then some (flow + delta) else none

structure Bfs where
  queue : List Nat
  visited : List Nat
  edgeTo : List (Nat × Nat)
  found : Bool := false
  fault : Bool := false
  deriving Repr, Inhabited

/-- the `for edge in out_edges.chain(in_edges)` loop of `has_augmented_path` for one `vertex` -/
def scanEdges (v : View) (fl : Flows) (dst vertex : Nat) : List (Nat × Nat) → Bfs → Bfs
  | [], b => b
  | (_, eid) :: rest, b =>
    match v.edge? eid with
    | none => { b with fault := true }
    | some e =>
      match otherEndpoint e vertex with
      | none => { b with fault := true }
      | some next =>
        match residualCap e next (getFlow fl eid) with
        | none => { b with fault := true }
        | some rc =>
          if !b.visited.contains next && decide (rc > 0) then
            let b := { b with visited := next :: b.visited, edgeTo := (next, eid) :: b.edgeTo }
            if dst = next then { b with found := true }
            else scanEdges v fl dst vertex rest { b with queue := b.queue ++ [next] }
          else scanEdges v fl dst vertex rest b

/-- `has_augmented_path`: the `while let Some(vertex) = queue.pop_front()` loop -/
def bfsLoop (v : View) (fl : Flows) (dst : Nat) : Nat → Bfs → Bfs
  | 0, b => { b with fault := true }
  | f+1, b =>
    match b.queue with
    | [] => b
    | vertex :: q =>
      let b := scanEdges v fl dst vertex (v.outOf vertex ++ v.innOf vertex) { b with queue := q }
      if b.found || b.fault then b else bfsLoop v fl dst f b

def minOpt (a : Option Int) (b : Int) : Option Int :=
  match a with
  | none => some b
  | some x => if x > b then some b else some x

/-- walk `edge_to` back from `vertex`: the bottleneck of the path -/
def bottleneck (v : View) (fl : Flows) (edgeTo : List (Nat × Nat)) : Nat → Nat → Option Int → Option (Option Int)
  | 0, _, _ => none
  | f+1, vertex, acc =>
    match edgeTo.lookup vertex with
    | none => some acc
    | some eid =>
      match v.edge? eid with
      | none => none
      | some e =>
        match residualCap e vertex (getFlow fl eid), otherEndpoint e vertex with
        | some rc, some prev => bottleneck v fl edgeTo f prev (minOpt acc rc)
        | _, _ => none

/-- walk `edge_to` back from `vertex`, pushing `delta` along the path -/
def pushPath (v : View) (edgeTo : List (Nat × Nat)) (delta : Int) : Nat → Nat → Flows → Option Flows
  | 0, _, _ => none
  | f+1, vertex, fl =>
    match edgeTo.lookup vertex with
    | none => some fl
    | some eid =>
      match v.edge? eid with
      | none => none
      | some e =>
        match adjustFlow e vertex (getFlow fl eid) delta, otherEndpoint e vertex with
        | some nf, some prev => pushPath v edgeTo delta f prev (setFlow fl eid nf)
        | _, _ => none

structure FF where
  flows : Flows
  edgeTo : List (Nat × Nat) := []
  maxFlow : Int := 0
  fault : Bool := false
  deriving Repr, Inhabited

/-- the `while has_augmented_path(..)` loop of `ford_fulkerson` -/
def ffLoop (v : View) (src dst : Nat) : Nat → FF → FF
  | 0, s => { s with fault := true }
  | f+1, s =>
    let n := v.g.nodes.length + 2
    let b := bfsLoop v s.flows dst n { queue := [src], visited := [src], edgeTo := s.edgeTo }
    if b.fault then { s with fault := true }
    else if !b.found then { s with edgeTo := b.edgeTo }
    else
      match bottleneck v s.flows b.edgeTo n dst none with
      | some (some delta) =>
        match pushPath v b.edgeTo delta n dst s.flows with
        | some fl => ffLoop v src dst f { flows := fl, edgeTo := b.edgeTo, maxFlow := s.maxFlow + delta, fault := false }
        | none => { s with fault := true }
      | _ => { s with fault := true }

/-- an upper bound on the number of augmentations (integer capacities): total capacity + 1 -/
def ffFuel (v : View) : Nat := (v.g.edges.foldl (fun acc e => acc + e.w.toNat) 0) + 2

/-- `ford_fulkerson(network, source, destination)` -/
def fordFulkerson (v : View) (src dst : Nat) : FF :=
  ffLoop v src dst (ffFuel v) { flows := v.g.edges.map fun e => (e.id, 0) }

/-- executable hypotheses of the flow model theorems (checked by the driver on every flow case):
distinct edge ids, every row entry names an edge incident to its node, every edge is listed at both
endpoints -/
def flowViewB (v : View) : Bool :=
  C15.nodupB (v.g.edges.map (·.id)) &&
  (v.out ++ v.inn).all (fun (a, row) => row.all fun (_, eid) =>
    v.g.edges.any fun e => e.id == eid && (e.src == a || e.tgt == a)) &&
  v.g.edges.all fun e =>
    ((v.outOf e.src ++ v.innOf e.src).any fun p => p.2 == e.id) &&
    ((v.outOf e.tgt ++ v.innOf e.tgt).any fun p => p.2 == e.id)

def capsNonnegB (g : MGraph) : Bool := g.edges.all fun e => decide (0 ≤ e.w)

end PetgraphModel.C15F
