import PetgraphModel.Spec.Graph
/-
Mirror model of `/repo/src/algo/articulation_points.rs` over a `View` (core Lean only): the
iterative Tarjan low-link search with its explicit `RecursionStep` stack.

All tables are indexed by `to_index` (concrete index) and have `node_bound()` slots, exactly as the
code does after the D11 repair; `usize::MAX` is `none`.  Out-of-bounds accesses are the explicit
result `panic` (`FixedBitSet::contains` out of range is `false`, `insert` panics, `Vec` indexing
panics).  `children_count` (a `HashMap`) is an association list; the result `HashSet` is a list
without duplicates in insertion order (the harness sorts).
-/
namespace PetgraphModel.C16M
open PetgraphModel

inductive RStep where
  | base (n : Nat)
  | child (cur ch : Nat)
  | noBack (cur ch : Nat)
  | rootCheck (n : Nat)
  deriving Repr, DecidableEq, Inhabited

structure AP where
  nb : Nat
  visited : List Nat := []
  low : List (Option Nat)
  disc : List (Option Nat)
  parent : List (Option Nat)
  time : Nat := 0
  aps : List Nat := []
  deriving Repr, Inhabited

def AP.new (nb : Nat) : AP :=
  { nb := nb, low := List.replicate nb none, disc := List.replicate nb none, parent := List.replicate nb none }

/-- `min` on `usize` with `none` = `usize::MAX` -/
def minU : Option Nat → Option Nat → Option Nat
  | none, b => b
  | a, none => a
  | some a, some b => some (min a b)

/-- `a >= b` on `usize` with `none` = `usize::MAX` -/
def geU : Option Nat → Option Nat → Bool
  | none, _ => true
  | some _, none => false
  | some a, some b => a ≥ b

/-- `v[i]` with bounds check -/
def rd (l : List (Option Nat)) (i : Nat) : Except String (Option Nat) :=
  if i < l.length then .ok (l.getD i none) else .error "index"

def wr (l : List (Option Nat)) (i : Nat) (x : Option Nat) : Except String (List (Option Nat)) :=
  if i < l.length then .ok (l.set i x) else .error "index"

def insertAp (x : Nat) (s : List Nat) : List Nat := if s.contains x then s else s ++ [x]

/-- `g.from_index(i)` in abstract ids -/
def fromIndex (v : View) (i : Nat) : Except String Nat :=
  match v.ix.find? (fun p => p.2 == i) with
  | some p => .ok p.1
  | none => .error "from_index"

def bump (cc : List (Nat × Nat)) (k : Nat) : List (Nat × Nat) :=
  match cc.lookup k with
  | some _ => cc.map fun (a, c) => if a == k then (a, c + 1) else (a, c)
  | none => cc ++ [(k, 1)]

/-- one iteration of the `while let Some(step) = stack.pop()` loop of `_dfs`: the popped step `s`,
the remaining stack (top = list head), `children_count`, the tracker -/
def apStep (v : View) (s : RStep) (stack : List RStep) (cc : List (Nat × Nat)) (st : AP) :
    Except String (List RStep × List (Nat × Nat) × AP) :=
  match s with
  | .base cur =>
    if ¬ cur < st.nb then .error "bitset" else
    match wr st.disc cur (some st.time), wr st.low cur (some st.time), fromIndex v cur with
    | .ok disc, .ok low, .ok a =>
      let st := { st with visited := cur :: st.visited, disc := disc, low := low, time := st.time + 1 }
      let pushes := (v.succ a).map fun t => RStep.child cur (v.toIndex t)
      .ok (pushes.reverse ++ (.rootCheck cur :: stack), cc, st)
    | .error e, _, _ => .error e
    | _, .error e, _ => .error e
    | _, _, .error e => .error e
  | .child cur ch =>
    if !st.visited.contains ch then
      match wr st.parent ch (some cur) with
      | .ok parent => .ok (.base ch :: .noBack cur ch :: stack, bump cc cur, { st with parent := parent })
      | .error e => .error e
    else
      match rd st.parent cur with
      | .error e => .error e
      | .ok p =>
        if some ch != p then
          match rd st.low cur, rd st.disc ch with
          | .ok lc, .ok dc =>
            match wr st.low cur (minU lc dc) with
            | .ok low => .ok (stack, cc, { st with low := low })
            | .error e => .error e
          | .error e, _ => .error e
          | _, .error e => .error e
        else .ok (stack, cc, st)
  | .noBack cur ch =>
    match rd st.low cur, rd st.low ch with
    | .ok lc, .ok lch =>
      match wr st.low cur (minU lc lch) with
      | .error e => .error e
      | .ok low =>
        let st := { st with low := low }
        match rd st.parent cur, rd st.low ch, rd st.disc cur with
        | .ok p, .ok lch, .ok dcur =>
          if p.isSome && geU lch dcur then .ok (stack, cc, { st with aps := insertAp cur st.aps })
          else .ok (stack, cc, st)
        | .error e, _, _ => .error e
        | _, .error e, _ => .error e
        | _, _, .error e => .error e
    | .error e, _ => .error e
    | _, .error e => .error e
  | .rootCheck cur =>
    match rd st.parent cur with
    | .error e => .error e
    | .ok p =>
      let c := (cc.lookup cur).getD 0
      if p.isNone && c > 1 then .ok (stack, cc, { st with aps := insertAp cur st.aps })
      else .ok (stack, cc, st)

def dfsLoop (v : View) : Nat → List RStep → List (Nat × Nat) → AP → Except String AP
  | 0, _, _, _ => .error "FUEL"
  | _+1, [], _, st => .ok st
  | f+1, s :: stack, cc, st =>
    match apStep v s stack cc st with
    | .ok (stack', cc', st') => dfsLoop v f stack' cc' st'
    | .error e => .error e

def apFuel (v : View) : Nat := 6 * v.g.edges.length + 3 * v.g.nodes.length + 16

/-- the `for node in g.node_references()` loop -/
def outer (v : View) : List Nat → AP → Except String AP
  | [], st => .ok st
  | a :: rest, st =>
    let i := v.toIndex a
    if !st.visited.contains i then
      match dfsLoop v (apFuel v) [.base i] [] st with
      | .ok st' => outer v rest st'
      | .error e => .error e
    else outer v rest st

/-- `.map(|id| g.from_index(id))` over the result set -/
def mapFromIndex (v : View) : List Nat → Except String (List Nat)
  | [] => .ok []
  | i :: is =>
    match fromIndex v i, mapFromIndex v is with
    | .ok a, .ok as => .ok (a :: as)
    | .error e, _ => .error e
    | _, .error e => .error e

/-- `articulation_points(g)`: the result set in abstract ids (insertion order), or the panic -/
def articulationPoints (v : View) : Except String (List Nat) :=
  match outer v v.g.nodes (AP.new v.nb) with
  | .error e => .error e
  | .ok st => mapFromIndex v st.aps

end PetgraphModel.C16M
