import PetgraphModel.Spec.Graph
import PetgraphModel.Oracle.Dist
/-
Mirror models of `/repo/src/scored.rs` (`MinScored`), `/repo/src/algo/dijkstra.rs`,
`/repo/src/algo/astar.rs` and `/repo/src/algo/k_shortest_path.rs` over a `View` (core Lean only).

* `graph.edges(a)` is `v.outOf a` (the encoding's iteration order), `edge.target()` the first
  component, `edge_cost(edge)` the weight of the abstract edge `eid` (`v.weight eid`); costs are
  `Int` (the theorems assume them non-negative; float rounding is not modelled).
* `HashMap`s are association lists (only `get` / `entry` / `insert` are used by the code, never an
  iteration order).
* `BinaryHeap<MinScored<K, N>>` is a list of `(score, node)` in insertion order with an abstract
  `pop` that returns *some* entry of minimal score (Rust leaves the order of equal keys
  unspecified): the algorithms are parameterised by `pop`; the theorems quantify over every `pop`
  satisfying `IsMinPop`; the executable instance `popMin` takes the oldest minimal entry.
* loops take fuel; `none` = fuel exhausted (the driver's fuel is generous; the theorems show how much
  suffices).  Unchecked indexing (`scores[&node]`, `counter[to_index(node)]`) is a checked access
  whose failure is the explicit result `panic`.
-/
namespace PetgraphModel.SP
open PetgraphModel

/-! ### `MinScored` -/

/-- scores of a float-like type: a total order with infinities and a NaN -/
inductive Score where
  | ninf
  | fin (x : Int)
  | pinf
  | nan
  deriving Repr, DecidableEq, Inhabited

/-- IEEE `<` -/
def Score.lt : Score → Score → Bool
  | .nan, _ => false
  | _, .nan => false
  | .ninf, .ninf => false
  | .ninf, _ => true
  | .fin _, .ninf => false
  | .fin x, .fin y => decide (x < y)
  | .fin _, .pinf => true
  | .pinf, _ => false

/-- IEEE `==` (`nan ≠ nan`) -/
def Score.eq : Score → Score → Bool
  | .nan, _ => false
  | _, .nan => false
  | .ninf, .ninf => true
  | .fin x, .fin y => decide (x = y)
  | .pinf, .pinf => true
  | _, _ => false

inductive Ord3 where
  | less
  | equal
  | greater
  deriving Repr, DecidableEq, Inhabited

/-- `impl Ord for MinScored`: `cmp` transcribed branch by branch over any `PartialEq`/`PartialOrd`
pair `eq`/`lt` (`a > b` is `lt b a`, `a.ne(a)` is `!eq a a`) -/
def minScoredCmp {α : Type} (eq lt : α → α → Bool) (a b : α) : Ord3 :=
  if eq a b then .equal
  else if lt a b then .greater
  else if lt b a then .less
  else if !(eq a a) && !(eq b b) then .equal
  else if !(eq a a) then .less
  else .greater

/-- `PartialEq::eq` of `MinScored` -/
def minScoredEq {α : Type} (eq lt : α → α → Bool) (a b : α) : Bool := minScoredCmp eq lt a b == .equal

def scoreCmp (a b : Score) : Ord3 := minScoredCmp Score.eq Score.lt a b

/-! ### the heap -/

abbrev Heap := List (Int × Nat)
abbrev Pop := Heap → Option ((Int × Nat) × Heap)

/-- the least score of `m` and the entries -/
def minKey : Int → Heap → Int
  | m, [] => m
  | m, y :: ys => minKey (if y.1 < m then y.1 else m) ys

/-- remove the first (oldest) entry whose score is `m` -/
def takeFirst (m : Int) : Heap → Option ((Int × Nat) × Heap)
  | [] => none
  | y :: ys => if y.1 = m then some (y, ys) else (takeFirst m ys).map fun er => (er.1, y :: er.2)

/-- executable `pop`: the oldest entry of minimal score and the remaining entries (insertion order kept) -/
def popMin : Pop
  | [] => none
  | x :: rest => takeFirst (minKey x.1 rest) (x :: rest)

/-! ### association lists -/
def amGet {β : Type} (m : List (Nat × β)) (k : Nat) : Option β := m.lookup k

/-- `insert`: overwrite in place or append -/
def amSet {β : Type} : List (Nat × β) → Nat → β → List (Nat × β)
  | [], k, x => [(k, x)]
  | (k', y) :: r, k, x => if k' = k then (k', x) :: r else (k', y) :: amSet r k x

/-! ### dijkstra -/
structure DState where
  visited : List Nat := []
  scores : List (Nat × Int) := []
  heap : Heap := []
  deriving Repr, Inhabited

/-- the `for edge in graph.edges(node)` loop -/
def dijRelax (v : View) (nodeScore : Int) : List (Nat × Nat) → DState → DState
  | [], st => st
  | (next, eid) :: rest, st =>
    if st.visited.contains next then dijRelax v nodeScore rest st
    else
      let ns := nodeScore + v.weight eid
      match amGet st.scores next with
      | some old =>
        if ns < old then
          dijRelax v nodeScore rest { st with scores := amSet st.scores next ns, heap := st.heap ++ [(ns, next)] }
        else dijRelax v nodeScore rest st
      | none =>
        dijRelax v nodeScore rest { st with scores := amSet st.scores next ns, heap := st.heap ++ [(ns, next)] }

def dijLoop (pop : Pop) (v : View) (goal : Option Nat) : Nat → DState → Option DState
  | 0, _ => none
  | f+1, st =>
    match pop st.heap with
    | none => some st
    | some ((nodeScore, node), h') =>
      let st := { st with heap := h' }
      if st.visited.contains node then dijLoop pop v goal f st
      else if goal == some node then some st
      else
        let st := dijRelax v nodeScore (v.outOf node) st
        dijLoop pop v goal f { st with visited := node :: st.visited }

def dijInit (s : Nat) : DState := { visited := [], scores := [(s, 0)], heap := [(0, s)] }

/-- total number of `edges(a)` entries of the view (bounds the pushes) -/
def outTotal (v : View) : Nat := (v.out.map fun r => r.2.length).sum

def dijFuel (v : View) : Nat := outTotal v + 2

/-- `dijkstra(graph, s, goal, w)`: the returned score map (`none` = fuel exhausted) -/
def dijkstra (pop : Pop) (v : View) (s : Nat) (goal : Option Nat) : Option (List (Nat × Int)) :=
  (dijLoop pop v goal (dijFuel v) (dijInit s)).map (·.scores)

/-! ### astar -/
structure AState where
  scores : List (Nat × Int) := []       -- g-values
  est : List (Nat × Int) := []          -- f-values of expanded nodes
  came : List (Nat × Nat) := []         -- PathTracker.came_from
  heap : Heap := []
  deriving Repr, Inhabited

inductive AResult where
  | notFound
  | found (cost : Int) (path : List Nat)
  | panic                                -- `scores[&node]` on a missing key
  | fuel
  deriving Repr, DecidableEq, Inhabited

/-- `PathTracker::reconstruct_path_to` (path built backwards, then reversed) -/
def reconstruct (came : List (Nat × Nat)) : Nat → Nat → List Nat → Option (List Nat)
  | 0, _, _ => none
  | f+1, cur, acc =>
    match amGet came cur with
    | some prev => reconstruct came f prev (prev :: acc)
    | none => some acc

def astarRelax (v : View) (h : Nat → Int) (node : Nat) (nodeScore : Int) : List (Nat × Nat) → AState → AState
  | [], st => st
  | (next, eid) :: rest, st =>
    let ns := nodeScore + v.weight eid
    let skip := match amGet st.scores next with
      | some old => decide (old ≤ ns)
      | none => false
    if skip then astarRelax v h node nodeScore rest st
    else
      astarRelax v h node nodeScore rest
        { st with scores := amSet st.scores next ns, came := amSet st.came next node,
                  heap := st.heap ++ [(ns + h next, next)] }

def astarLoop (pop : Pop) (v : View) (isGoal : Nat → Bool) (h : Nat → Int) : Nat → AState → AResult
  | 0, _ => .fuel
  | f+1, st =>
    match pop st.heap with
    | none => .notFound
    | some ((estimate, node), h') =>
      let st := { st with heap := h' }
      if isGoal node then
        match amGet st.scores node with
        | none => .panic
        | some cost =>
          match reconstruct st.came (st.came.length + 1) node [node] with
          | some p => .found cost p
          | none => .fuel
      else
        match amGet st.scores node with
        | none => .panic
        | some nodeScore =>
          let go := fun (st : AState) => astarLoop pop v isGoal h f (astarRelax v h node nodeScore (v.outOf node) st)
          match amGet st.est node with
          | some e => if e ≤ estimate then astarLoop pop v isGoal h f st
                      else go { st with est := amSet st.est node estimate }
          | none => go { st with est := amSet st.est node estimate }

def astar (pop : Pop) (v : View) (s : Nat) (isGoal : Nat → Bool) (h : Nat → Int) (fuel : Nat) : AResult :=
  astarLoop pop v isGoal h fuel { scores := [(s, 0)], heap := [(h s, s)] }

/-- sum of the arc weights: an upper bound of every single weight -/
def totalW (g : MGraph) : Int := (g.arcs.map (·.2.2)).sum

/-- nodes that can ever be scored: the source and the arc targets -/
def adom (g : MGraph) (s : Nat) : List Nat := s :: g.arcs.map (·.2.1)

/-- no score ever exceeds `#adom * totalW` -/
def scoreBound (g : MGraph) (s : Nat) : Nat := ((adom g s).length * totalW g).toNat

/-- a fuel that always suffices for `astar` (theorem `C10_astar_terminates`): every push strictly
lowers a score that is a non-negative integer below `scoreBound` -/
def astarBound (g : MGraph) (s : Nat) : Nat := 2 + (adom g s).length * (scoreBound g s + 1)

/-! ### k_shortest_path -/
structure KState where
  counter : List Nat := []              -- `vec![0; graph.node_bound()]`
  scores : List (Nat × Int) := []
  heap : Heap := []
  deriving Repr, Inhabited

inductive KResult where
  | done (scores : List (Nat × Int))
  | panic                               -- `counter[graph.to_index(node)]` out of bounds
  | fuel
  deriving Repr, DecidableEq, Inhabited

def kspLoop (pop : Pop) (v : View) (goal : Option Nat) (k : Nat) : Nat → KState → KResult
  | 0, _ => .fuel
  | f+1, st =>
    match pop st.heap with
    | none => .done st.scores
    | some ((nodeScore, node), h') =>
      let i := v.toIndex node
      match st.counter[i]? with
      | none => .panic
      | some c =>
        let cur := c + 1
        let st := { st with heap := h', counter := st.counter.set i cur }
        if cur > k then kspLoop pop v goal k f st
        else
          let st := if cur = k then { st with scores := amSet st.scores node nodeScore } else st
          if goal == some node && cur == k then .done st.scores
          else
            kspLoop pop v goal k f
              { st with heap := st.heap ++ (v.outOf node).map fun (next, eid) => (nodeScore + v.weight eid, next) }

def kspFuel (v : View) (k : Nat) : Nat := k * outTotal v + 2

def kShortestPath (pop : Pop) (v : View) (s : Nat) (goal : Option Nat) (k : Nat) : KResult :=
  kspLoop pop v goal k (kspFuel v k) { counter := List.replicate v.nb 0, heap := [(0, s)] }

end PetgraphModel.SP
