import PetgraphModel.Model.C13Vf2
/-
C13 — the EXECUTABLE SIDE CONDITIONS of the completeness theorems and the FUEL-REPORTING wrappers of the
mirror model.  Core Lean only: the driver (`Driver/C13.lean`) evaluates everything in this file on every
round / every call it judges, and `Theorems/C13.lean` (section "run-time checks of the hypotheses") proves
that a passed check yields the hypothesis of the theorems.

* `ECountOk`, `inNodupB`, `absPermB`, bundled with `cgOkB` and the edge-type comparison as `sideFail` /
  `instOkB` (moved here from `Proofs/C13W2Count.lean`, `Proofs/C13W2Top.lean`: unchanged definitions);
* `fuelOk` / `iterFuelOk`, `outerCost` / `explicitBound`, and the fuel-generic wrappers `tryMatchF` …
  `iterModelF` (moved here from `Proofs/C13W2Top.lean`, `Proofs/C13W3Term.lean`, `Proofs/C13W3Fuel.lean`);
* NEW: `tryMatchR`, `isoModelR`, `subModelR`, `iterLoopR`, `iterModelR` — the wrappers of `Model/C13Vf2.lean`
  that REPORT a `next()` call that ran out of fuel (outer `none`) instead of mapping it to `false` / "the
  iterator ended".  The driver runs these; `none` becomes the verdict `SPECFAIL generator left the proved
  range: FUEL …`, so an exhausted call is never reported as an answer of the model.
-/
namespace PetgraphModel.C13.Vf2
open PetgraphModel

/-! ### side conditions on one concrete graph -/

/-- number of arcs stored: Σ_i |outN i| -/
def CG.arcs (g : CG) : Nat := ((List.range g.n).map fun i => (g.outN i).length).sum
/-- number of self-loops -/
def CG.loops (g : CG) : Nat := ((List.range g.n).filter fun i => g.adj i i).length
/-- the `edge_count()` field is the number of edges the neighbour lists describe: every arc once (directed);
every non-loop edge is listed from both ends and every loop once (undirected) -/
def ECountOk (g : CG) : Prop :=
  if g.directed then g.ecount = g.arcs else 2 * g.ecount = g.arcs + g.loops
instance (g : CG) : Decidable (ECountOk g) := by unfold ECountOk; exact inferInstance

/-- `ECountOk` as a Boolean -/
def eCountOkB (g : CG) : Bool := decide (ECountOk g)

/-- executable side condition: the `Incoming` lists of a directed graph have no repeated entry (`is_feasible`
compares their lengths) -/
def inNodupB (g : CG) : Bool := !g.directed || (List.range g.n).all fun i => decide (g.inNb i).Nodup

/-- the reporting vector `abs` (concrete index ↦ abstract id) is a permutation of `0..n-1` -/
def absPermB (g : CG) : Bool := decide (g.abs.Perm (List.range g.n))

/-! ### the fuel -/

/-- loop iterations needed to work off an `Outer` frame when `k` nodes of g0 are still unmapped -/
def outerCost (n0 n1 : Nat) : Nat → Nat
  | 0 => 1
  | k + 1 => 1 + (n1 - (n0 - (k + 1))) * (2 + outerCost n0 n1 k)

/-- a fuel that suffices for every `next()` call on the instance -/
def explicitBound (I : Inst) : Nat := outerCost I.g0.n I.g1.n I.g0.n + 1

/-- no call of `next()` made by `iterLoop` runs out of fuel (`bigFuel` loop iterations per call) -/
def fuelOk (I : Inst) : Nat → M → Bool
  | 0, m => (isomorphisms I true bigFuel m).isSome
  | k + 1, m =>
    match isomorphisms I true bigFuel m with
    | none => false
    | some (m', some _) => fuelOk I k m'
    | some (_, none) => true

/-- the fuel side condition of the completeness theorem, for `iterModel` -/
def iterFuelOk (I : Inst) : Bool := fuelOk I (fallingFact I.g1.n I.g0.n + 2) (M.init I)

/-! ### the wrappers over an arbitrary fuel (an exhausted call is NOT reported, as in `Model/C13Vf2.lean`) -/

/-- `tryMatch` with the loop fuel as a parameter -/
def tryMatchF (I : Inst) (sub : Bool) (fuel : Nat) : Bool :=
  match isomorphisms I sub fuel (M.init I) with
  | some (_, some _) => true
  | _ => false

/-- `isoModel` with the loop fuel as a parameter -/
def isoModelF (I : Inst) (fuel : Nat) : Bool :=
  if I.g0.n != I.g1.n || I.g0.ecount != I.g1.ecount then false else tryMatchF I false fuel

/-- `subModel` with the loop fuel as a parameter -/
def subModelF (I : Inst) (fuel : Nat) : Bool :=
  if I.g0.n > I.g1.n || I.g0.ecount > I.g1.ecount then false else tryMatchF I true fuel

/-- `iterLoop` with the loop fuel (per `next()` call) as a parameter -/
def iterLoopF (I : Inst) (fuel : Nat) : Nat → M → List (List Nat) → List (List Nat) × Bool
  | 0, m, acc =>
    match isomorphisms I true fuel m with
    | some (_, some _) => (acc.reverse, false)
    | _ => (acc.reverse, true)
  | k + 1, m, acc =>
    match isomorphisms I true fuel m with
    | some (m', some mp) => iterLoopF I fuel k m' (toAbstract I mp :: acc)
    | _ => (acc.reverse, true)

/-- `iterModel` with the loop fuel (per `next()` call) as a parameter -/
def iterModelF (I : Inst) (fuel : Nat) : Option (List (List Nat) × Bool) :=
  if I.g0.n > I.g1.n || I.g0.ecount > I.g1.ecount then none
  else some (iterLoopF I fuel (fallingFact I.g1.n I.g0.n + 2) (M.init I) [])

/-! ### the wrappers that REPORT an exhausted call: outer `none` = some `next()` call ran out of fuel -/

/-- `try_match(..).unwrap_or(false)`; `none` = the call did not return within `fuel` loop iterations -/
def tryMatchR (I : Inst) (sub : Bool) (fuel : Nat) : Option Bool :=
  match isomorphisms I sub fuel (M.init I) with
  | none => none
  | some (_, some _) => some true
  | some (_, none) => some false

/-- `is_isomorphic[_matching]`, reporting -/
def isoModelR (I : Inst) (fuel : Nat) : Option Bool :=
  if I.g0.n != I.g1.n || I.g0.ecount != I.g1.ecount then some false else tryMatchR I false fuel

/-- `is_isomorphic_subgraph[_matching]`, reporting -/
def subModelR (I : Inst) (fuel : Nat) : Option Bool :=
  if I.g0.n > I.g1.n || I.g0.ecount > I.g1.ecount then some false else tryMatchR I true fuel

/-- the drain loop of the iterator, reporting: `none` as soon as one `next()` call runs out of fuel -/
def iterLoopR (I : Inst) (fuel : Nat) : Nat → M → List (List Nat) → Option (List (List Nat) × Bool)
  | 0, m, acc =>
    match isomorphisms I true fuel m with
    | none => none
    | some (_, some _) => some (acc.reverse, false)
    | some (_, none) => some (acc.reverse, true)
  | k + 1, m, acc =>
    match isomorphisms I true fuel m with
    | none => none
    | some (m', some mp) => iterLoopR I fuel k m' (toAbstract I mp :: acc)
    | some (_, none) => some (acc.reverse, true)

/-- `subgraph_isomorphisms_iter` drained, reporting: outer `none` = out of fuel, `some none` = the function
returned `None`, `some (some (vs, fin))` = the yielded vectors and the end flag -/
def iterModelR (I : Inst) (fuel : Nat) : Option (Option (List (List Nat) × Bool)) :=
  if I.g0.n > I.g1.n || I.g0.ecount > I.g1.ecount then some none
  else (iterLoopR I fuel (fallingFact I.g1.n I.g0.n + 2) (M.init I) []).map some

/-! ### the bundle the driver evaluates on every query -/

/-- the first side condition of the theorems that does NOT hold on the instance (`none` = all hold) -/
def sideFail (I : Inst) : Option String :=
  if !cgOkB I.g0 then some "cgOkB g0 (index labeling / neighbour lists of the pattern's encoding are inconsistent)"
  else if !cgOkB I.g1 then some "cgOkB g1 (index labeling / neighbour lists of the target's encoding are inconsistent)"
  else if I.g0.directed != I.g1.directed then some "sameType (edge types differ)"
  else if !eCountOkB I.g0 then some "ECountOk g0 (edge count is not the number of edges the neighbour lists describe)"
  else if !eCountOkB I.g1 then some "ECountOk g1 (edge count is not the number of edges the neighbour lists describe)"
  else if !inNodupB I.g0 then some "inNodupB g0 (an Incoming neighbour list repeats a node)"
  else if !absPermB I.g0 then some "absPermB g0 (to_index is not a bijection onto 0..n0-1)"
  else if !absPermB I.g1 then some "absPermB g1 (to_index is not a bijection onto 0..n1-1)"
  else none

/-- all executable side conditions of the exactness theorems -/
def instOkB (I : Inst) : Bool := (sideFail I).isNone

end PetgraphModel.C13.Vf2
