import PetgraphModel.Model.C11Paths
/-
C11 — run-time checks of the hypotheses of the model theorems (core Lean only; linked into the
driver).  The property theorems of `Theorems/C11.lean` carry hypotheses about the concrete case:

  ViewArcs v, v.g.WellFormed          checked on the `graph` line (`viewArcsB`, `wfB`, Model/C11Paths.lean)
  s ∈ v.g.nodes                        `srcB`
  |V| ≤ node_bound                     `nbB`
  M ≥ every out-list length            `maxOutLen v`   (computed, bound proved)
  every cost within [−Wm, Wm], 0 ≤ Wm  `maxAbsW v.g`   (computed, bound proved)
  floyd:  2·|V|·Wm < max() ∧ min() ≤ −2·|V|·Wm                         `fitFloydB`
  spfa:   L·Wm < max() ∧ min() ≤ −L·Wm,  L = |V|·node_bound·M + |V|    `fitSpfaB`
  f64 used as an integer type (bellman_ford, find_negative_cycle, and the `f64` instances of
  spfa / floyd_warshall): every value the model computes stays within ±2^53, the range in which
  `f64` addition of integers is exact                                   `fitBfB`, `Meas.exactF64`

The driver evaluates these Booleans for every request it judges; `Theorems/C11.lean` (section
"run-time checks of the hypotheses") proves `…B = true → hypothesis`.
-/
namespace PetgraphModel.C11M
open PetgraphModel

def maxNat : List Nat → Nat
  | [] => 0
  | a :: t => Nat.max a (maxNat t)

/-- `M`: the length of the longest out-list of the view -/
def maxOutLen (v : View) : Nat := maxNat (v.out.map fun ar => ar.2.length)

/-- `Wm`: the largest magnitude of an edge cost -/
def maxAbsW (g : MGraph) : Nat := maxNat (g.edges.map fun e => e.w.natAbs)

/-- the source is a node of the graph -/
def srcB (v : View) (s : Nat) : Bool := v.g.nodes.contains s

/-- `node_count() ≤ node_bound()` -/
def nbB (v : View) : Bool := decide (v.g.nodes.length ≤ v.nb)

/-- walks of at most `L` arcs with costs of magnitude at most `Wm` fit the cost type:
`L·Wm < max()` and `min() ≤ −L·Wm` -/
def fitsB (B : Meas) (L Wm : Nat) : Bool :=
  decide (((L * Wm : Nat) : Int) < B.max) && decide (B.min ≤ -((L * Wm : Nat) : Int))

/-- `L` of `C11_spfa_iff`: `|V|·node_bound·M + |V|` -/
def spfaLenC (v : View) : Nat := v.g.nodes.length * v.nb * maxOutLen v + v.g.nodes.length

/-- number of arcs of the longest walk behind a label of `bellman_ford`'s relaxation phase, plus one
for the candidate sum `d[i] + w`: `(|V|−1)` passes, each relaxing at most `|V|·M` arcs -/
def bfLenC (v : View) : Nat := (v.g.nodes.length - 1) * (v.g.nodes.length * maxOutLen v) + 1

/-- the linear width hypothesis of `C11_floyd_*_linear` for `Wm = maxAbsW` -/
def fitFloydB (B : Meas) (v : View) : Bool := fitsB B (2 * v.g.nodes.length) (maxAbsW v.g)

/-- the width hypothesis of `C11_spfa_iff` for `M = maxOutLen`, `Wm = maxAbsW` -/
def fitSpfaB (B : Meas) (v : View) : Bool := fitsB B (spfaLenC v) (maxAbsW v.g)

/-- the integers `f64` represents exactly and adds exactly (while the sum stays in the range) -/
def Meas.exactF64 : Meas := ⟨2^53, -(2^53)⟩

/-- every label of the model of `bellman_ford` / `find_negative_cycle`, and every candidate sum, is
an integer of magnitude below `2^53` (so the `f64` arithmetic of the real code is exact) -/
def fitBfB (v : View) : Bool := fitsB Meas.exactF64 (bfLenC v) (maxAbsW v.g)

end PetgraphModel.C11M
