import PetgraphModel.Spec.Graph
import PetgraphModel.Model.C10ShortestPaths
import PetgraphModel.Model.C11Paths
import PetgraphModel.Model.C12Mst
import PetgraphModel.Oracle.Reach
import PetgraphModel.Oracle.C10Judge
/-
C20 — mirror model (core Lean only) of `steiner_tree` (/repo/src/algo/steiner_tree.rs, Kou's algorithm
as the crate implements it), over a `View` (abstract graph + iteration orders of the encoding).
It is composed of the mirror models of the functions the code calls, each of which is tied to /repo by
its own vertical: `SP.dijkstra` (C10), `C11M.floydWarshall` (= `floyd_warshall_path`, C11) and the exact
`BinaryHeap` of `min_spanning_tree` (`MstModel.push` / `popAll`, C12).

line by line:

  compute_metric_closure          for i < j (positions in `terminals`): key (ix tᵢ, ix tⱼ) ↦
                                  `dijkstra(g, tᵢ, Some(tⱼ))[&tⱼ]`  (a missing entry PANICS)     `closure`
  UnGraph::from_edges(closure.iter())   the closure graph; its EDGE ORDER is the iteration order of
                                  a `HashMap` — the ONE thing the hash order decides           `Oracle.hashOrder`
  min_spanning_tree(..)           pushes the edges in that order into a `BinaryHeap<MinScored>`,
                                  pops them, `UnionFind::union` decides                          `popOrder`, `scan`
  UnGraph::from_elements(..)      the accepted edges in emission order, source = tᵢ, target = tⱼ
  subgraph_edges_from_metric_closure
                                  `prev` = `floyd_warshall_path(g).unwrap().1` (`Err` PANICS);
                                  for every accepted edge walk `prev[source][·]` from the target back
                                  to the source, recording `(prev, current)`; a `None` entry makes
                                  the `while` loop spin forever                                    `walk`, `expand`
  retain_edges / retain_nodes     edges whose endpoint pair (either orientation) was recorded;
                                  nodes that were recorded or are terminals                        `keptEdges`, `keptNodes`
  non_terminal_leaves             rounds: all non-terminal, not yet removed nodes with exactly ONE
                                  distinct remaining neighbour are removed together, until a round
                                  finds none                                                       `leafRound`, `prune`
  retain_nodes                    the removed leaves go (with their edges)                         `steinerFrom`

Abstractions: node ids are abstract ids (`to_index` only matters for the loop order of
Floyd–Warshall, which `C11M.floydWarshall` takes from the view); the union–find is a labelling
(`find`/`union`; `union` answers "were in different sets", as any union–find does); hash SETS are
lists used through membership only.  Results: `ok nodes edgeIds` (in the order of the graph's node /
edge list), `panic`, `diverge` (the real code would not return).
-/
namespace PetgraphModel.C20.Steiner
open PetgraphModel

abbrev Item := MstModel.Item

/-- what the hash order decides in one run: the order in which `metric_closure.iter()` hands out the
entries of the closure (`⟨w, a, b⟩` = key `(a, b)`, value `w`) -/
structure Oracle where
  hashOrder : List Item → List Item

/-- the answers a hash map can give: some rearrangement of its entries -/
def Oracle.Valid (o : Oracle) : Prop := ∀ l, (o.hashOrder l).Perm l

inductive Res where
  | ok (nodes : List Nat) (edges : List Nat)
  | panic
  | diverge
  deriving Repr, DecidableEq, Inhabited

/-! ### metric closure -/

/-- `for (i, t1) in terminals.iter().enumerate() { for t2 in terminals.iter().skip(i + 1) { … } }` -/
def pairs : List Nat → List (Nat × Nat)
  | [] => []
  | t :: ts => ts.map (fun u => (t, u)) ++ pairs ts

/-- `compute_shortest_path_length`: `dijkstra(graph, source, Some(target), w)[&target]`;
`none` = the index panics (target not reached) -/
def dist (v : View) (s t : Nat) : Option Int :=
  (SP.dijkstra SP.popMin v s (some t)).bind fun m => SP.amGet m t

/-- a `HashMap` keeps one value per key (`insert` overwrites; equal keys carry equal values here) -/
def dedup : List Item → List Item
  | [] => []
  | x :: xs => if (dedup xs).contains x then dedup xs else x :: dedup xs

/-- the entries in insertion order; `none` = panic -/
def closureAux (v : View) : List (Nat × Nat) → Option (List Item)
  | [] => some []
  | p :: ps =>
    match dist v p.1 p.2, closureAux v ps with
    | some d, some rest => some (⟨d, p.1, p.2⟩ :: rest)
    | _, _ => none

/-- `compute_metric_closure`; `none` = panic -/
def closure (v : View) (terms : List Nat) : Option (List Item) :=
  (closureAux v (pairs terms)).map dedup

/-- the view of the abstract graph itself: `to_index` = id, neighbours in edge order -/
def viewOf (g : MGraph) : View :=
  { g := g, nb := g.nodes.length, ix := g.nodes.map fun x => (x, x),
    out := g.nodes.map fun a => (a, g.edges.filterMap fun e =>
      if e.src = a then some (e.tgt, e.id)
      else if g.directed = false ∧ e.tgt = a then some (e.src, e.id) else none),
    inn := g.nodes.map fun a => (a, g.edges.filterMap fun e =>
      if e.tgt = a then some (e.src, e.id)
      else if g.directed = false ∧ e.src = a then some (e.tgt, e.id) else none) }

/-! ### min_spanning_tree of the closure graph -/

/-- the pushes of `min_spanning_tree`, in `edge_references()` order -/
def heapOf (l : List Item) : MstModel.Heap := l.foldl MstModel.push []

/-- the order in which the `BinaryHeap` hands the edges to Kruskal's loop -/
def popOrder (l : List Item) : List Item := MstModel.popAll ((heapOf l).length + 1) (heapOf l)

def find (lab : List (Nat × Nat)) (x : Nat) : Nat := (lab.lookup x).getD x

/-- merge the class of `b` into the class of `a` -/
def union (lab : List (Nat × Nat)) (a b : Nat) : List (Nat × Nat) :=
  lab.map fun p => (p.1, if p.2 = find lab b then find lab a else p.2)

/-- Kruskal's loop over the popped edges: the accepted ones (`subgraphs.union(a, b)` returned true),
in emission order -/
def scan : List (Nat × Nat) → List Item → List Item
  | _, [] => []
  | lab, it :: rest =>
    if find lab it.a = find lab it.b then scan lab rest
    else it :: scan (union lab it.a it.b) rest

/-- every node that occurs in the closure is its own class at the start -/
def initLab (items : List Item) : List (Nat × Nat) :=
  items.flatMap fun it => [(it.a, it.a), (it.b, it.b)]

/-- the edges of `minimum_spanning`, in `edge_references()` order -/
def mstOf (pops : List Item) : List Item := scan (initLab pops) pops

/-! ### expansion of the closure edges into paths -/

/-- `while current != source { if let Some(p) = prev[source][current] { push (p, current); current = p } }`;
`none` = the loop does not terminate (a `None` entry, or more steps than there are nodes) -/
def walk (prev : Nat → Nat → Option Nat) (src : Nat) : Nat → Nat → List (Nat × Nat) → Option (List (Nat × Nat))
  | 0, _, _ => none
  | f+1, cur, acc =>
    if cur = src then some acc
    else match prev src cur with
      | some p => walk prev src f p ((p, cur) :: acc)
      | none => none

/-- `subgraph_edges_from_metric_closure`: `retained_edges` (most recent first) -/
def expand (prev : Nat → Nat → Option Nat) (n : Nat) : List Item → List (Nat × Nat) → Option (List (Nat × Nat))
  | [], acc => some acc
  | it :: rest, acc =>
    match walk prev it.a (n + 1) it.b acc with
    | some acc' => expand prev n rest acc'
    | none => none

/-! ### retained subgraph and leaf pruning -/

/-- `subgraph_edges.contains(&(a, b)) || subgraph_edges.contains(&(b, a))` -/
def pairIn (se : List (Nat × Nat)) (a b : Nat) : Bool := se.contains (a, b) || se.contains (b, a)

def keptEdges (g : MGraph) (se : List (Nat × Nat)) : List Edge := g.edges.filter fun e => pairIn se e.src e.tgt

/-- `retained_nodes`: both ends of every recorded pair -/
def seNodes (se : List (Nat × Nat)) : List Nat := se.flatMap fun p => [p.1, p.2]

def keptNodes (g : MGraph) (se : List (Nat × Nat)) (terms : List Nat) : List Nat :=
  g.nodes.filter fun x => (seNodes se).contains x || terms.contains x

/-- the edges that survive `retain_edges` and then `retain_nodes` (an edge goes with its endpoint) -/
def baseEdges (g : MGraph) (se : List (Nat × Nat)) (terms : List Nat) : List Edge :=
  (keptEdges g se).filter fun e => (keptNodes g se terms).contains e.src && (keptNodes g se terms).contains e.tgt

/-- `graph.neighbors(x)` in the graph with the edges `es` -/
def nbrs (es : List Edge) (x : Nat) : List Nat :=
  es.filterMap fun e => if e.src = x then some e.tgt else if e.tgt = x then some e.src else none

/-- `set.len() == 1` for the set of the list's members -/
def single : List Nat → Bool
  | [] => false
  | a :: rest => rest.all (· == a)

/-- one round of `non_terminal_leaves`: the nodes that are no terminals, not yet removed, and have
exactly one distinct neighbour that is not yet removed -/
def leafRound (nodes : List Nat) (es : List Edge) (terms removed : List Nat) : List Nat :=
  nodes.filter fun x => !terms.contains x && !removed.contains x &&
    single ((nbrs es x).filter fun y => !removed.contains y)

/-- the rounds; `none` = more rounds than nodes (cannot happen: every round but the last removes a node) -/
def prune (nodes : List Nat) (es : List Edge) (terms : List Nat) : Nat → List Nat → Option (List Nat)
  | 0, _ => none
  | f+1, removed =>
    let r := leafRound nodes es terms removed
    if r.isEmpty then some removed else prune nodes es terms f (removed ++ r)

/-- the graph `(nodes, es)` without the nodes `removed` (and their edges) -/
def dropNodes (removed : List Nat) (es : List Edge) : List Edge :=
  es.filter fun e => !removed.contains e.src && !removed.contains e.tgt

/-! ### the whole function -/

/-- everything after `prev` is known and the heap has been emptied: `pops` = the closure edges in the
order in which Kruskal's loop sees them -/
def steinerWith (prev : Nat → Nat → Option Nat) (g : MGraph) (terms : List Nat) (pops : List Item) : Res :=
  match expand prev g.nodes.length (mstOf pops) [] with
  | none => .diverge
  | some se =>
    match prune (keptNodes g se terms) (baseEdges g se terms) terms ((keptNodes g se terms).length + 1) [] with
    | none => .diverge
    | some removed =>
      .ok ((keptNodes g se terms).filter fun x => !removed.contains x)
        ((dropNodes removed (baseEdges g se terms)).map (·.id))

/-- `prev[s][c]` of `floyd_warshall_path` -/
def prevOf (fw : C11M.FW) (s c : Nat) : Option Nat := C11M.tget fw.p (s, c)

/-- everything after the heap has been emptied -/
def steinerFrom (B : C11M.Meas) (v : View) (terms : List Nat) (pops : List Item) : Res :=
  match C11M.floydWarshall B v with
  | none => .panic                                   -- `.unwrap()` of `Err(NegativeCycle)`
  | some fw => steinerWith (prevOf fw) v.g terms pops

/-- `steiner_tree(graph, terminals)` -/
def steiner (B : C11M.Meas) (v : View) (terms : List Nat) (o : Oracle) : Res :=
  match closure v terms with
  | none => .panic
  | some c => steinerFrom B v terms (popOrder (o.hashOrder c))

/-- the identity hash order -/
def idOracle : Oracle := ⟨id⟩

/-! ### the runs the driver compares the implementation with

The hash order cannot be reproduced, so the comparison is existential: the result only depends on the
SET of closure edges Kruskal accepts, i.e. on the minimum spanning tree of the closure that the tie
order selects.  The driver enumerates them: `mstCandidates` lists, for every spanning tree of the
closure of minimal weight, the closure in an order (non-decreasing weight, the tree's edges first among
equal weights) for which Kruskal's loop accepts exactly that tree; `mstCandidatesIn c allowed` restricts
the trees to entries of `allowed` (the driver's guided search). -/

def weightSum (l : List Item) : Int := (l.map (·.w)).sum

/-- insertion sort by weight, stable -/
def sortByW (l : List Item) : List Item :=
  l.foldl (fun acc x => let (a, b) := acc.span (fun y => decide (y.w ≤ x.w)); a ++ x :: b) []

/-- all acyclic sub-lists with exactly `need` elements and total weight at most `bw`, of a list sorted by
weight (branch and bound: an element that is too heavy for the remaining budget ends the search) -/
def trees : List Item → List (Nat × Nat) → Nat → Int → List (List Item)
  | _, _, 0, _ => [[]]
  | [], _, _+1, _ => []
  | it :: rest, lab, need+1, bw =>
    if it.w * ((need : Int) + 1) > bw then []
    else
      (if find lab it.a = find lab it.b then []
       else (trees rest (union lab it.a it.b) need (bw - it.w)).map (it :: ·)) ++
      trees rest lab (need + 1) bw

/-- the pop orders to try: for every spanning tree `T` of the closure `c` of minimal weight that only
uses entries of `allowed` — `T` first (stable sort by weight), checked to be exactly what Kruskal's
loop accepts -/
def mstCandidatesIn (c allowed : List Item) : List (List Item) :=
  let base := mstOf (sortByW c)
  let k := base.length
  let wmin := weightSum base
  (trees (sortByW allowed) (initLab c) k wmin).filterMap fun T =>
    let pops := sortByW (T ++ c.filter fun x => !T.contains x)
    if (mstOf pops).length == k && (mstOf pops).all (T.contains ·) then some pops else none

def mstCandidates (c : List Item) : List (List Item) := mstCandidatesIn c c

/-- the closure entries whose expansion only uses node pairs of `pairs` (the driver passes the endpoint
pairs of the implementation's answer: the answer contains the expansion of every accepted closure edge,
so only these entries can have been accepted) -/
def compatible (prev : Nat → Nat → Option Nat) (n : Nat) (pairs : List (Nat × Nat)) (c : List Item) : List Item :=
  c.filter fun it =>
    match walk prev it.a (n + 1) it.b [] with
    | some prs => prs.all fun pr => pairIn pairs pr.1 pr.2
    | none => false

/-- all results the model can produce over the candidate pop orders (first one first) -/
def candidateResults (B : C11M.Meas) (v : View) (terms : List Nat) : Option (List Res) :=
  (closure v terms).map fun c => (mstCandidates c).map (steinerFrom B v terms)

/-! ### run-time checks of the hypotheses of the theorems (`Proofs/C20W4SteinerTop.lean`) -/

/-- the bound on the absolute edge costs the driver checks (far above what the harness generates, far
below what `i64` Floyd–Warshall needs) -/
def costBound : Int := 4294967296

/-- everything `steiner_spec` assumes about the concrete case, as one executable check: the graph is
well formed, every cost is within `costBound`, twice `|V| · costBound` fits `i64`, and the terminals
are nodes -/
def scopeB (v : View) (terms : List Nat) : Bool :=
  C11M.wfB v.g && v.g.edges.all (fun e => decide (-costBound ≤ e.w) && decide (e.w ≤ costBound)) &&
  decide (2 * ((v.g.nodes.length : Int) * costBound) < C11M.Meas.i64.max) &&
  decide (C11M.Meas.i64.min ≤ -(2 * ((v.g.nodes.length : Int) * costBound))) &&
  terms.all fun t => v.g.nodes.contains t

/-- the two facts about a candidate pop order the driver checks before it trusts a match -/
def popsOkB (terms : List Nat) (pops : List Item) : Bool :=
  (terms.all fun a => terms.all fun b => a == b ||
    pops.any fun it => (it.a == a && it.b == b) || (it.a == b && it.b == a)) &&
  pops.all fun it => terms.contains it.a && terms.contains it.b

/-- the terminals lie in one connected component (decided by the proved reachability oracle; an
exhausted oracle counts as "no") -/
def termsConnB (g : MGraph) (terms : List Nat) : Bool :=
  match terms with
  | [] => true
  | t0 :: rest =>
    match Oracle.reachFrom g t0 with
    | none => false
    | some r => rest.all fun t => r.contains t

/-- the domain of `steiner_tree` as `C20_steiner_model_total` needs it: an undirected graph, `edges()`
describing its arcs (C10's view check), positive costs, connected terminals -/
def domainB (v : View) (terms : List Nat) : Bool :=
  !v.g.directed && C10.viewOkB v && v.g.edges.all (fun e => decide (0 < e.w)) && termsConnB v.g terms

end PetgraphModel.C20.Steiner
