import PetgraphModel.Spec.Graph
/-
Mirror models of `/repo/src/visit/traversal.rs` (`Dfs`, `DfsPostOrder`, `Bfs`, `Topo`) and
`/repo/src/visit/dfsvisit.rs` (`depth_first_search`) over a `View` (core Lean only).

`graph.neighbors(x)` is `v.succ x` (the encoding's iteration order); a visit map is a list of
visited ids; stacks have their top at the head.  Loops take fuel; `none` for the walker state means
fuel ran out.  That CAN happen: `ViewOk` fixes only the set of neighbours a view enumerates, so a view
that repeats a neighbour often enough exhausts any fuel computed from `|nodes|` and `|edges|`
(`Theorems/C08.lean`, `C08_total_needs_bound_witness`).  It does not happen with at least
`walkFuel v = Σ_{u ∈ nodes} (|v.succ u| + 2) + 2` inner and `|nodes| + 1` outer fuel
(`C08_dfs_total`, `C08_bfs_total`, `C08_postorder_total`, `C08_topo_total`, `C08_dfsv_fuel`), and the
fuel the driver uses is at least that for every view it accepts (`C08_driver_fuel_suffices`: there the
neighbour lists are permutations of the abstract graph's).
-/
namespace PetgraphModel.Trav
open PetgraphModel

/-! ### Dfs -/
structure Dfs where
  stack : List Nat := []
  disc : List Nat := []
  deriving Repr, Inhabited

def Dfs.moveTo (d : Dfs) (s : Nat) : Dfs := { d with stack := [s] }
def Dfs.reset (_ : Dfs) : Dfs := {}

/-- `Dfs::next`: pop until an undiscovered node is found; push its undiscovered neighbours -/
def dfsNext (v : View) : Nat → Dfs → Option (Option Nat × Dfs)
  | 0, _ => none
  | f+1, d =>
    match d.stack with
    | [] => some (none, d)
    | x :: st =>
      if x ∈ d.disc then dfsNext v f { d with stack := st }
      else
        let disc := x :: d.disc
        let pushes := (v.succ x).filter (fun y => !disc.contains y)
        some (some x, { stack := pushes.reverse ++ st, disc := disc })

/-! ### DfsPostOrder -/
structure Post where
  stack : List Nat := []
  disc : List Nat := []
  fin : List Nat := []
  deriving Repr, Inhabited

def Post.moveTo (d : Post) (s : Nat) : Post := { d with stack := [s] }

def postNext (v : View) : Nat → Post → Option (Option Nat × Post)
  | 0, _ => none
  | f+1, d =>
    match d.stack with
    | [] => some (none, d)
    | x :: st =>
      if !d.disc.contains x then
        let disc := x :: d.disc
        let pushes := (v.succ x).filter (fun y => !disc.contains y)
        postNext v f { d with stack := pushes.reverse ++ (x :: st), disc := disc }
      else if !d.fin.contains x then
        some (some x, { d with stack := st, fin := x :: d.fin })
      else postNext v f { d with stack := st }

/-! ### Bfs -/
structure Bfs where
  queue : List Nat := []      -- front at the head
  disc : List Nat := []
  deriving Repr, Inhabited

def Bfs.new (s : Nat) : Bfs := { queue := [s], disc := [s] }

/-- `Bfs::next`: every neighbour that `discovered.visit` reports as new is queued -/
def bfsVisitAll (disc : List Nat) (q : List Nat) : List Nat → List Nat × List Nat
  | [] => (disc, q)
  | y :: ys => if disc.contains y then bfsVisitAll disc q ys else bfsVisitAll (y :: disc) (q ++ [y]) ys

def bfsNext (v : View) (b : Bfs) : Option Nat × Bfs :=
  match b.queue with
  | [] => (none, b)
  | x :: q =>
    let (disc, q') := bfsVisitAll b.disc q (v.succ x)
    (some x, { queue := q', disc := disc })

/-! ### Topo -/
structure Topo where
  tovisit : List Nat := []     -- top at the head
  ordered : List Nat := []
  deriving Repr, Inhabited

/-- `extend_with_initials`: nodes without incoming neighbours, in node order; `Vec::extend` puts the
last one on top -/
def Topo.initials (v : View) (cands : List Nat) : List Nat :=
  (cands.filter fun a => (v.pred a).isEmpty).reverse

def Topo.new (v : View) : Topo := { tovisit := Topo.initials v v.g.nodes }
def Topo.withInitials (v : View) (l : List Nat) : Topo := { tovisit := Topo.initials v l }

def topoNext (v : View) : Nat → Topo → Option (Option Nat × Topo)
  | 0, _ => none
  | f+1, t =>
    match t.tovisit with
    | [] => some (none, t)
    | x :: rest =>
      if t.ordered.contains x then topoNext v f { t with tovisit := rest }
      else
        let ordered := x :: t.ordered
        let pushes := (v.succ x).filter fun n => (v.pred n).all fun b => ordered.contains b
        some (some x, { tovisit := pushes.reverse ++ rest, ordered := ordered })

/-! ### depth_first_search with a visitor script -/
inductive Ctl where | cont | prune | brk
  deriving Repr, DecidableEq, Inhabited

inductive Ev where
  | discover (n t : Nat) | tree (u w : Nat) | back (u w : Nat) | cross (u w : Nat) | finish (n t : Nat)
  deriving Repr, DecidableEq, Inhabited

inductive Res where
  | cont | brk | panicPruneFinish | fuel
  deriving Repr, DecidableEq, Inhabited

structure VS where
  disc : List Nat := []
  fin : List Nat := []
  time : Nat := 0
  evs : List Ev := []          -- reversed
  deriving Repr, Inhabited

/-- the visitor: the control for the `k`-th event (0-based), `cont` beyond the script -/
def ctlAt (script : List Ctl) (k : Nat) : Ctl := script.getD k .cont

def emit (script : List Ctl) (s : VS) (e : Ev) : VS × Ctl :=
  ({ s with evs := e :: s.evs }, ctlAt script s.evs.length)

mutual
/-- `dfs_visitor` -/
def dfsVisitor (v : View) (script : List Ctl) : Nat → Nat → VS → VS × Res
  | 0, _, s => (s, .fuel)
  | f+1, u, s =>
    if s.disc.contains u then (s, .cont)
    else
      let s := { s with disc := u :: s.disc }
      let (s, c) := emit script { s with time := s.time + 1 } (.discover u s.time)
      match c with
      | .brk => (s, .brk)
      | c =>
        let (s, r) := if c = .prune then (s, Res.cont) else neighLoop v script f u (v.succ u) s
        match r with
        | .cont =>
          let s := { s with fin := u :: s.fin }
          let (s, c) := emit script { s with time := s.time + 1 } (.finish u s.time)
          match c with
          | .brk => (s, .brk)
          | .prune => (s, .panicPruneFinish)
          | .cont => (s, .cont)
        | r => (s, r)
/-- the `for v in graph.neighbors(u)` loop -/
def neighLoop (v : View) (script : List Ctl) : Nat → Nat → List Nat → VS → VS × Res
  | 0, _, _, s => (s, .fuel)
  | _, _, [], s => (s, .cont)
  | f+1, u, w :: ws, s =>
    if !s.disc.contains w then
      let (s, c) := emit script s (.tree u w)
      match c with
      | .brk => (s, .brk)
      | .prune => neighLoop v script f u ws s
      | .cont =>
        let (s, r) := dfsVisitor v script f w s
        match r with
        | .cont => neighLoop v script f u ws s
        | r => (s, r)
    else
      let (s, c) := emit script s (if !s.fin.contains w then .back u w else .cross u w)
      match c with
      | .brk => (s, .brk)
      | _ => neighLoop v script f u ws s
end

/-- `depth_first_search(graph, starts, visitor)` -/
def dfsSearch (v : View) (script : List Ctl) (fuel : Nat) : List Nat → VS → VS × Res
  | [], s => (s, .cont)
  | st :: rest, s =>
    let (s, r) := dfsVisitor v script fuel st s
    match r with
    | .cont => dfsSearch v script fuel rest s
    | r => (s, r)

end PetgraphModel.Trav
