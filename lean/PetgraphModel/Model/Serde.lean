/-
Mirror model for C17 (serde), core Lean only.

What is modelled (all of it hand-written from the Rust source, tied to `/repo` by `./check C17`):

* the storage of `Graph` and `StableGraph` (`/repo/src/graph_impl/mod.rs`, `stable_graph/mod.rs`): the two
  arrays of `Node {weight, next:[_;2]}` / `Edge {weight, next:[_;2], node:[_;2]}`, for `StableGraph` with
  `Option` weights, the two free lists and the cached counts.  An index value is a `Nat`; the index type is the
  parameter `END = Ix::max() = 2^w - 1` (`EdgeIndex::end()`/`NodeIndex::end()` are `END`).
* the operations the correspondence runs need before and after a (de)serialization: `try_add_node`,
  `try_add_edge`, `remove_node`, `remove_edge` (both types), `check_free_lists`, the iterators `edges_directed`,
  `neighbors_undirected`, `node_bound`, `edge_bound`.
* the wire value `Wire` (`graph_impl/serialization.rs:14-66`), `ser` for `Graph` and `StableGraph`
  (`Somes`/`Holes` truncation at the bounds), `de` for both: the parse stage (serde-derive visiting the fields
  in stream order, `MappedSequenceVisitor` mapping elements lazily) followed by `from_deserialized`
  (edge-property check, length limits, hole interleaving, `link_edges`).
* `GraphMap` as two insertion-ordered association lists (`IndexMap` with `swap_remove`), `into_graph`,
  `from_graph`; its serde impls go through `Graph<_,_,_,u32>`.

Unchecked or panicking indexing in the Rust code is a *checked* access here whose failure is the value
`DeErr.panic` (deserialization) or a `Fault` (graph operations); `Theorems/C17.lean` proves that `de` never
produces `panic`, for every wire value.
-/
namespace PetgraphModel.Serde

/-! ## storage -/

structure NodeSlot where
  w : Option Int
  n0 : Nat
  n1 : Nat
  deriving Repr, DecidableEq, Inhabited

structure EdgeSlot where
  w : Option Int
  n0 : Nat
  n1 : Nat
  src : Nat
  tgt : Nat
  deriving Repr, DecidableEq, Inhabited

def NodeSlot.next (s : NodeSlot) (k : Nat) : Nat := if k = 0 then s.n0 else s.n1
def NodeSlot.setNext (s : NodeSlot) (k v : Nat) : NodeSlot := if k = 0 then { s with n0 := v } else { s with n1 := v }
def EdgeSlot.next (s : EdgeSlot) (k : Nat) : Nat := if k = 0 then s.n0 else s.n1
def EdgeSlot.setNext (s : EdgeSlot) (k v : Nat) : EdgeSlot := if k = 0 then { s with n0 := v } else { s with n1 := v }
def EdgeSlot.node (s : EdgeSlot) (k : Nat) : Nat := if k = 0 then s.src else s.tgt
def EdgeSlot.setNode (s : EdgeSlot) (k v : Nat) : EdgeSlot := if k = 0 then { s with src := v } else { s with tgt := v }

/-- the arrays of a `Graph` (all weights `some`) or of the inner graph of a `StableGraph` -/
structure Raw where
  END : Nat
  directed : Bool
  nodes : List NodeSlot
  edges : List EdgeSlot
  deriving Repr, DecidableEq

structure Stable where
  g : Raw
  nodeCount : Nat
  edgeCount : Nat
  freeNode : Nat
  freeEdge : Nat
  deriving Repr, DecidableEq

inductive Fault where
  | oob    -- a panicking index expression (`v[i]`) would be out of bounds
  | fuel   -- a loop did not terminate within its fuel
  | dbg    -- a `debug_assert!` would fire
  | arith  -- usize underflow
  deriving Repr, DecidableEq

def Raw.empty (END : Nat) (directed : Bool) : Raw := { END, directed, nodes := [], edges := [] }
def Stable.empty (END : Nat) (directed : Bool) : Stable :=
  { g := Raw.empty END directed, nodeCount := 0, edgeCount := 0, freeNode := END, freeEdge := END }

/-- `Vec::swap_remove` (index assumed in range) -/
def swapRemove {α} (l : List α) (i : Nat) : List α :=
  match l.getLast? with
  | none => l
  | some last => (l.set i last).dropLast

/-! ## `Graph` operations -/

inductive OpErr where
  | nodeIxLimit | edgeIxLimit | nodeOutBounds | nodeMissed (i : Nat)
  deriving Repr, DecidableEq

/-- `Graph::try_add_node` -/
def Raw.tryAddNode (g : Raw) (w : Int) : Raw × Except OpErr Nat :=
  let idx := g.nodes.length
  if idx ≠ g.END then ({ g with nodes := g.nodes ++ [{ w := some w, n0 := g.END, n1 := g.END }] }, .ok idx)
  else (g, .error .nodeIxLimit)

/-- the linking part shared by `try_add_edge` and `link_edges`: returns the new node array and the `next`
    pair of the new edge, or `none` for `Pair::None` -/
def linkNodes (nodes : List NodeSlot) (a b e : Nat) : Option (List NodeSlot × Nat × Nat) :=
  if Nat.max a b ≥ nodes.length then none
  else match nodes[a]?, nodes[b]? with
    | some an, some bn =>
      if a = b then some (nodes.set a { an with n0 := e, n1 := e }, an.n0, an.n1)
      else some ((nodes.set a { an with n0 := e }).set b { bn with n1 := e }, an.n0, bn.n1)
    | _, _ => none

/-- `Graph::try_add_edge` -/
def Raw.tryAddEdge (g : Raw) (a b : Nat) (w : Int) : Raw × Except OpErr Nat :=
  let idx := g.edges.length
  if idx = g.END then (g, .error .edgeIxLimit)
  else match linkNodes g.nodes a b idx with
    | none => (g, .error .nodeOutBounds)
    | some (ns, x0, x1) =>
      ({ g with nodes := ns, edges := g.edges ++ [{ w := some w, n0 := x0, n1 := x1, src := a, tgt := b }] }, .ok idx)

/-- the `while let Some(curedge) = edges.next_edge()` loop of `change_edge_links` -/
def walkReplace (edges : List EdgeSlot) (k e newNext : Nat) : Nat → Nat → Except Fault (List EdgeSlot)
  | 0, _ => .error .fuel
  | f+1, cur =>
    match edges[cur]? with
    | none => .ok edges
    | some c =>
      if c.next k = e then .ok (edges.set cur (c.setNext k newNext))
      else walkReplace edges k e newNext f (c.next k)

/-- one direction of `Graph::change_edge_links` -/
def changeLinksDir (g : Raw) (k : Nat) (endpoint e newNext : Nat) : Except Fault Raw :=
  match g.nodes[endpoint]? with
  | none => .error .dbg
  | some nd =>
    if nd.next k = e then .ok { g with nodes := g.nodes.set endpoint (nd.setNext k newNext) }
    else match walkReplace g.edges k e newNext (g.edges.length + 1) (nd.next k) with
      | .ok es => .ok { g with edges := es }
      | .error f => .error f

/-- `Graph::change_edge_links(edge_node, e, edge_next)` -/
def Raw.changeEdgeLinks (g : Raw) (src tgt e x0 x1 : Nat) : Except Fault Raw :=
  match changeLinksDir g 0 src e x0 with
  | .error f => .error f
  | .ok g1 => changeLinksDir g1 1 tgt e x1

/-- `Graph::remove_edge` (= `change_edge_links` + `remove_edge_adjust_indices`) -/
def Raw.removeEdge (g : Raw) (e : Nat) : Except Fault (Raw × Option Int) :=
  match g.edges[e]? with
  | none => .ok (g, none)
  | some ed =>
    match g.changeEdgeLinks ed.src ed.tgt e ed.n0 ed.n1 with
    | .error f => .error f
    | .ok g1 =>
      let es := swapRemove g1.edges e
      let g2 := { g1 with edges := es }
      match es[e]? with
      | none => .ok (g2, ed.w)
      | some sw =>
        match g2.changeEdgeLinks sw.src sw.tgt es.length e e with
        | .error f => .error f
        | .ok g3 => .ok (g3, ed.w)

/-- the `loop { … remove_edge(next) … }` of `remove_node` for one direction -/
def Raw.drainDir (a k : Nat) : Nat → Raw → Except Fault Raw
  | 0, _ => .error .fuel
  | f+1, g =>
    match g.nodes[a]? with
    | none => .error .oob
    | some nd =>
      let nx := nd.next k
      if nx = g.END then .ok g
      else match g.removeEdge nx with
        | .error e => .error e
        | .ok (_, none) => .error .dbg   -- debug_assert!(ret.is_some())
        | .ok (g1, some _) => Raw.drainDir a k f g1

/-- the re-pointing loop of `remove_node` (`curedge.node[k] = new_index`) -/
def repoint (edges : List EdgeSlot) (k oldIx newIx : Nat) : Nat → Nat → Except Fault (List EdgeSlot)
  | 0, _ => .error .fuel
  | f+1, cur =>
    match edges[cur]? with
    | none => .ok edges
    | some c =>
      if c.node k ≠ oldIx then .error .dbg
      else repoint (edges.set cur (c.setNode k newIx)) k oldIx newIx f (c.next k)

/-- `Graph::remove_node` -/
def Raw.removeNode (g : Raw) (a : Nat) : Except Fault (Raw × Option Int) :=
  match g.nodes[a]? with
  | none => .ok (g, none)
  | some _ =>
    match Raw.drainDir a 0 (g.edges.length + 2) g with
    | .error f => .error f
    | .ok g1 =>
      match Raw.drainDir a 1 (g1.edges.length + 2) g1 with
      | .error f => .error f
      | .ok g2 =>
        match g2.nodes[a]? with
        | none => .error .oob
        | some removed =>
          let ns := swapRemove g2.nodes a
          match ns[a]? with
          | none => .ok ({ g2 with nodes := ns }, removed.w)
          | some moved =>
            let oldIx := ns.length
            match repoint g2.edges 0 oldIx a (g2.edges.length + 1) moved.n0 with
            | .error f => .error f
            | .ok es1 =>
              match repoint es1 1 oldIx a (es1.length + 1) moved.n1 with
              | .error f => .error f
              | .ok es2 => .ok ({ g2 with nodes := ns, edges := es2 }, removed.w)

/-! ## `StableGraph` operations -/

/-- `StableGraph::occupy_vacant_node` -/
def Stable.occupyVacantNode (s : Stable) (idx : Nat) (w : Int) : Except Fault Stable :=
  match s.g.nodes[idx]? with
  | none => .error .oob
  | some slot =>
    if slot.w.isSome then .error .dbg
    else
      let prev := slot.n1
      let nxt := slot.n0
      let ns := s.g.nodes.set idx { w := some w, n0 := s.g.END, n1 := s.g.END }
      let r1 : Except Fault (List NodeSlot) :=
        if prev ≠ s.g.END then
          match ns[prev]? with
          | none => .error .oob
          | some p => .ok (ns.set prev { p with n0 := nxt })
        else .ok ns
      match r1 with
      | .error f => .error f
      | .ok ns1 =>
        let r2 : Except Fault (List NodeSlot) :=
          if nxt ≠ s.g.END then
            match ns1[nxt]? with
            | none => .error .oob
            | some p => .ok (ns1.set nxt { p with n1 := prev })
          else .ok ns1
        match r2 with
        | .error f => .error f
        | .ok ns2 =>
          .ok { s with g := { s.g with nodes := ns2 },
                       freeNode := if s.freeNode = idx then nxt else s.freeNode,
                       nodeCount := s.nodeCount + 1 }

/-- `StableGraph::try_add_node` -/
def Stable.tryAddNode (s : Stable) (w : Int) : Except Fault (Stable × Except OpErr Nat) :=
  if s.freeNode ≠ s.g.END then
    match s.occupyVacantNode s.freeNode w with
    | .error f => .error f
    | .ok s1 => .ok (s1, .ok s.freeNode)
  else
    match s.g.tryAddNode w with
    | (g1, .ok i) => .ok ({ s with g := g1, nodeCount := s.nodeCount + 1 }, .ok i)
    | (_, .error e) => .ok (s, .error e)

/-- `StableGraph::try_add_edge` -/
def Stable.tryAddEdge (s : Stable) (a b : Nat) (w : Int) : Except Fault (Stable × Except OpErr Nat) :=
  let reuse := s.freeEdge ≠ s.g.END
  let idx := if reuse then s.freeEdge else s.g.edges.length
  -- the `reuse_vacant` branch indexes `self.g.edges[edge_idx]`
  let slot? : Except Fault (Option EdgeSlot) :=
    if reuse then (match s.g.edges[idx]? with | none => .error .oob | some x => if x.w.isSome then .error .dbg else .ok (some x))
    else .ok none
  match slot? with
  | .error f => .error f
  | .ok slot =>
    if !reuse && idx = s.g.END then .ok (s, .error .edgeIxLimit)
    else
      let wrong : Option Nat :=
        if Nat.max a b ≥ s.g.nodes.length then some (Nat.max a b)
        else match s.g.nodes[a]?, s.g.nodes[b]? with
          | some an, some bn =>
            if an.w.isNone then some a else if bn.w.isNone then some b else none
          | _, _ => some (Nat.max a b)
      match wrong with
      | some i => .ok (s, .error (.nodeMissed i))    -- the vacant slot is put back exactly as it was
      | none =>
        match linkNodes s.g.nodes a b idx with
        | none => .error .oob
        | some (ns, x0, x1) =>
          let ne : EdgeSlot := { w := some w, n0 := x0, n1 := x1, src := a, tgt := b }
          match slot with
          | some old =>
            .ok ({ s with g := { s.g with nodes := ns, edges := s.g.edges.set idx ne },
                          freeEdge := old.n0, edgeCount := s.edgeCount + 1 }, .ok idx)
          | none =>
            .ok ({ s with g := { s.g with nodes := ns, edges := s.g.edges ++ [ne] },
                          edgeCount := s.edgeCount + 1 }, .ok idx)

/-- `StableGraph::remove_edge` -/
def Stable.removeEdge (s : Stable) (e : Nat) : Except Fault (Stable × Option Int) :=
  match s.g.edges[e]? with
  | none => .ok (s, none)
  | some ed =>
    match ed.w with
    | none => .ok (s, none)
    | some w =>
      match s.g.changeEdgeLinks ed.src ed.tgt e ed.n0 ed.n1 with
      | .error f => .error f
      | .ok g1 =>
        if e < g1.edges.length then
          let es := g1.edges.set e { w := none, n0 := s.freeEdge, n1 := s.g.END, src := s.g.END, tgt := s.g.END }
          if s.edgeCount = 0 then .error .arith
          else .ok ({ s with g := { g1 with edges := es }, freeEdge := e, edgeCount := s.edgeCount - 1 }, some w)
        else .error .oob

def Stable.drainDir (a k : Nat) : Nat → Stable → Except Fault Stable
  | 0, _ => .error .fuel
  | f+1, s =>
    match s.g.nodes[a]? with
    | none => .error .oob
    | some nd =>
      let nx := nd.next k
      if nx = s.g.END then .ok s
      else match s.removeEdge nx with
        | .error e => .error e
        | .ok (_, none) => .error .dbg
        | .ok (s1, some _) => Stable.drainDir a k f s1

/-- `StableGraph::remove_node` -/
def Stable.removeNode (s : Stable) (a : Nat) : Except Fault (Stable × Option Int) :=
  match s.g.nodes[a]? with
  | none => .ok (s, none)
  | some nd =>
    match nd.w with
    | none => .ok (s, none)
    | some w =>
      let s0 := { s with g := { s.g with nodes := s.g.nodes.set a { nd with w := none } } }
      match Stable.drainDir a 0 (s0.g.edges.length + 2) s0 with
      | .error f => .error f
      | .ok s1 =>
        match Stable.drainDir a 1 (s1.g.edges.length + 2) s1 with
        | .error f => .error f
        | .ok s2 =>
          let ns := s2.g.nodes.set a { w := none, n0 := s2.freeNode, n1 := s2.g.END }
          let r : Except Fault (List NodeSlot) :=
            if s2.freeNode ≠ s2.g.END then
              match ns[s2.freeNode]? with
              | none => .error .oob
              | some p => .ok (ns.set s2.freeNode { p with n1 := a })
            else .ok ns
          match r with
          | .error f => .error f
          | .ok ns1 =>
            if s2.nodeCount = 0 then .error .arith
            else .ok ({ s2 with g := { s2.g with nodes := ns1 }, freeNode := a, nodeCount := s2.nodeCount - 1 }, some w)

/-- the node half of `check_free_lists` (debug builds): returns the length of the free list -/
def checkFreeNodes (s : Stable) : Nat → Nat → Nat → Nat → Except Fault Nat
  | 0, _, _, _ => .error .fuel
  | f+1, free, prev, len =>
    if free = s.g.END then .ok len
    else match s.g.nodes[free]? with
      | none => .error .dbg
      | some n =>
        if n.w.isNone then
          if n.n1 ≠ prev then .error .dbg
          else checkFreeNodes s f n.n0 free (len + 1)
        else .error .dbg

def checkFreeEdges (s : Stable) : Nat → Nat → Nat → Except Fault Nat
  | 0, _, _ => .error .fuel
  | f+1, free, len =>
    if free = s.g.END then .ok len
    else match s.g.edges[free]? with
      | none => .error .dbg
      | some n => if n.w.isNone then checkFreeEdges s f n.n0 (len + 1) else .error .dbg

/-- `check_free_lists` as compiled with debug assertions -/
def Stable.checkFreeLists (s : Stable) : Except Fault Unit :=
  match checkFreeNodes s (s.g.nodes.length + 2) s.freeNode s.g.END 0 with
  | .error f => .error f
  | .ok ln =>
    if ln > s.g.nodes.length then .error .arith
    else if s.nodeCount ≠ s.g.nodes.length - ln then .error .dbg
    else match checkFreeEdges s (s.g.edges.length + 2) s.freeEdge 0 with
      | .error f => .error f
      | .ok le =>
        if le > s.g.edges.length then .error .arith
        else if s.edgeCount ≠ s.g.edges.length - le then .error .dbg
        else .ok ()

/-! ## observation -/

/-- position after the last live slot (`node_bound` / `edge_bound` of `StableGraph`) -/
def boundOf {α} (live : α → Bool) : List α → Nat
  | [] => 0
  | x :: xs =>
    let r := boundOf live xs
    if r > 0 then r + 1 else if live x then 1 else 0

def Stable.nodeBound (s : Stable) : Nat := boundOf (fun (n : NodeSlot) => n.w.isSome) s.g.nodes
def Stable.edgeBound (s : Stable) : Nat := boundOf (fun (e : EdgeSlot) => e.w.isSome) s.g.edges

/-- the outgoing half of the `Edges` iterator: follows `next[0]` while the slot exists and is live -/
def edgesOut (edges : List EdgeSlot) (swap : Bool) : Nat → Nat → Except Fault (List (Nat × Nat × Nat))
  | 0, _ => .error .fuel
  | f+1, cur =>
    match edges[cur]? with
    | none => .ok []
    | some e =>
      if e.w.isNone then .ok []
      else match edgesOut edges swap f e.n0 with
        | .error x => .error x
        | .ok r => .ok ((if swap then (cur, e.tgt, e.src) else (cur, e.src, e.tgt)) :: r)

/-- the incoming half (`skip` = `Some(skip_start)` in the "both" situations) -/
def edgesIn (edges : List EdgeSlot) (swap : Bool) (skip : Option Nat) : Nat → Nat → Except Fault (List (Nat × Nat × Nat))
  | 0, _ => .error .fuel
  | f+1, cur =>
    match edges[cur]? with
    | none => .ok []
    | some e =>
      if e.w.isNone then .error .dbg
      else match edgesIn edges swap skip f e.n1 with
        | .error x => .error x
        | .ok r =>
          if skip = some e.src then .ok r
          else .ok ((if swap then (cur, e.tgt, e.src) else (cur, e.src, e.tgt)) :: r)

/-- `edges_directed(a, dir)` as `(edge id, source, target)`; `dirOut = true` is `Outgoing`.  Vacant or
    out-of-range `a` gives the empty iterator. -/
def Raw.edgesDirected (g : Raw) (a : Nat) (dirOut : Bool) : Except Fault (List (Nat × Nat × Nat)) :=
  let (h0, h1) := match g.nodes[a]? with
    | some nd => if nd.w.isSome then (nd.n0, nd.n1) else (g.END, g.END)
    | none => (g.END, g.END)
  let fuel := g.edges.length + 1
  if g.directed then
    if dirOut then edgesOut g.edges false fuel h0 else edgesIn g.edges false none fuel h1
  else
    -- Undirected: iterate both; reverse = direction.opposite()
    match edgesOut g.edges (!dirOut) fuel h0 with
    | .error x => .error x
    | .ok o =>
      match edgesIn g.edges dirOut (some a) fuel h1 with
      | .error x => .error x
      | .ok i => .ok (o ++ i)

def nbrsOut (edges : List EdgeSlot) : Nat → Nat → Except Fault (List Nat)
  | 0, _ => .error .fuel
  | f+1, cur =>
    match edges[cur]? with
    | none => .ok []
    | some e =>
      if e.w.isNone then .error .dbg
      else match nbrsOut edges f e.n0 with
        | .error x => .error x
        | .ok r => .ok (e.tgt :: r)

def nbrsIn (edges : List EdgeSlot) (skip : Nat) : Nat → Nat → Except Fault (List Nat)
  | 0, _ => .error .fuel
  | f+1, cur =>
    match edges[cur]? with
    | none => .ok []
    | some e =>
      if e.w.isNone then .error .dbg
      else match nbrsIn edges skip f e.n1 with
        | .error x => .error x
        | .ok r => if e.src ≠ skip then .ok (e.src :: r) else .ok r

/-- `neighbors_undirected(a)` -/
def Raw.neighborsUndirected (g : Raw) (a : Nat) : Except Fault (List Nat) :=
  let (h0, h1) := match g.nodes[a]? with
    | some nd => if nd.w.isSome then (nd.n0, nd.n1) else (g.END, g.END)
    | none => (g.END, g.END)
  let fuel := g.edges.length + 1
  match nbrsOut g.edges fuel h0 with
  | .error x => .error x
  | .ok o =>
    match nbrsIn g.edges a fuel h1 with
    | .error x => .error x
    | .ok i => .ok (o ++ i)

/-- indexed list -/
def enumFrom {α} : Nat → List α → List (Nat × α)
  | _, [] => []
  | i, x :: xs => (i, x) :: enumFrom (i + 1) xs

structure Obs where
  nc : Nat
  ec : Nat
  nb : Nat
  eb : Nat
  nodes : List (Nat × Int)
  edges : List (Nat × Nat × Nat × Int)
  adj : List (Nat × List (Nat × Nat × Nat) × List (Nat × Nat × Nat) × List Nat)
  deriving Repr

def liveNodes (g : Raw) : List (Nat × Int) :=
  (enumFrom 0 g.nodes).filterMap fun (i, n) => n.w.map fun w => (i, w)

def liveEdges (g : Raw) : List (Nat × Nat × Nat × Int) :=
  (enumFrom 0 g.edges).filterMap fun (i, e) => e.w.map fun w => (i, e.src, e.tgt, w)

def adjOf (g : Raw) : List (Nat × Int) → Except Fault (List (Nat × List (Nat × Nat × Nat) × List (Nat × Nat × Nat) × List Nat))
  | [] => .ok []
  | (i, _) :: rest =>
    match g.edgesDirected i true, g.edgesDirected i false, g.neighborsUndirected i, adjOf g rest with
    | .ok o, .ok n, .ok u, .ok r => .ok ((i, o, n, u) :: r)
    | .error f, _, _, _ => .error f
    | _, .error f, _, _ => .error f
    | _, _, .error f, _ => .error f
    | _, _, _, .error f => .error f

def Raw.obs (g : Raw) : Except Fault Obs :=
  match adjOf g (liveNodes g) with
  | .error f => .error f
  | .ok a => .ok { nc := g.nodes.length, ec := g.edges.length, nb := g.nodes.length, eb := g.edges.length,
                   nodes := liveNodes g, edges := liveEdges g, adj := a }

def Stable.obs (s : Stable) : Except Fault Obs :=
  match adjOf s.g (liveNodes s.g) with
  | .error f => .error f
  | .ok a => .ok { nc := s.nodeCount, ec := s.edgeCount, nb := s.nodeBound, eb := s.edgeBound,
                   nodes := liveNodes s.g, edges := liveEdges s.g, adj := a }

/-! ## the wire value -/

structure Wire where
  nodes : List Int
  holes : List Nat
  /-- `some true` = "directed", `some false` = "undirected", `none` = any other variant tag -/
  prop : Option Bool
  edges : List (Option (Nat × Nat × Int))
  deriving Repr, DecidableEq

/-- `Serialize for Graph` (`into_serializable`) -/
def serGraph (g : Raw) : Wire :=
  { nodes := g.nodes.filterMap (·.w), holes := [], prop := some g.directed,
    edges := g.edges.map fun e => e.w.map fun w => (e.src, e.tgt, w) }

/-- `Serialize for StableGraph`: `Somes`/`Holes` over `raw_nodes()[..node_bound()]`, the edges up to
    `edge_bound()`.  `collect_seq_with_length` debug-asserts the announced length (`none` = that panic). -/
def serStable (s : Stable) : Option Wire :=
  let ns := s.g.nodes.take s.nodeBound
  let somes := ns.filterMap (·.w)
  let holes := (enumFrom 0 ns).filterMap fun (i, n) => if n.w.isNone then some i else none
  if somes.length ≠ s.nodeCount ∨ holes.length ≠ ns.length - s.nodeCount then none
  else some { nodes := somes, holes := holes, prop := some s.g.directed,
              edges := (s.g.edges.take s.edgeBound).map fun e => e.w.map fun w => (e.src, e.tgt, w) }

/-! ## deserialization -/

inductive DeErr where
  | other                       -- an error of the transport/derive layer (value does not fit the index type, bad variant)
  | missing                     -- a required field is absent
  | gholes                      -- "Graph can not have holes in the node set"
  | gnone                       -- "Graph can not have holes in the edge set"
  | prop                        -- "graph edge property mismatch"
  | lenNode (n max : Nat)       -- "invalid size: graph node count n exceeds index type maximum max"
  | lenEdge (n max : Nat)
  | hole (h : Nat)              -- "invalid value: node hole `h` is not allowed."
  | node (i bound : Nat)        -- "invalid value: node index `i` does not exist in graph with node bound b"
  | panic                       -- the code would panic (index out of bounds, debug assertion, underflow)
  deriving Repr, DecidableEq

inductive Field where
  | n | h | p | e
  deriving Repr, DecidableEq

/-- first failing element of the `edges` sequence (`MappedSequenceVisitor`: parse the element, then map it) -/
def parseEdges (stable : Bool) (modulus : Nat) : List (Option (Nat × Nat × Int)) → Option DeErr
  | [] => none
  | none :: rest => if stable then parseEdges stable modulus rest else some .gnone
  | some (a, b, _) :: rest =>
    if a ≥ modulus ∨ b ≥ modulus then some .other else parseEdges stable modulus rest

def parseHoles (stable : Bool) (modulus : Nat) : List Nat → Option DeErr
  | [] => none
  | h :: rest =>
    if h ≥ modulus then some .other
    else if stable then parseHoles stable modulus rest else some .gholes

def parseField (stable : Bool) (modulus : Nat) (w : Wire) : Field → Option DeErr
  | .n => none
  | .h => parseHoles stable modulus w.holes
  | .p => if w.prop.isNone then some .other else none
  | .e => parseEdges stable modulus w.edges

/-- serde-derive's `visit_map`/`visit_seq`: the fields are parsed in stream order, the first error wins;
    afterwards absent required fields are reported -/
def parseStage (stable : Bool) (modulus : Nat) (w : Wire) (order : List Field) : Option DeErr :=
  match order.findSome? (parseField stable modulus w) with
  | some e => some e
  | none => if order.contains .n && order.contains .p && order.contains .e then none else some .missing

def liveSlot (END : Nat) (w : Int) : NodeSlot := { w := some w, n0 := END, n1 := END }
def vacantSlot (END : Nat) : NodeSlot := { w := none, n0 := END, n1 := END }

/-- `Graph::link_edges`: `done` are the edges already linked (in index order), the new edge gets index
    `done.length`.  `Err(i)` is the offending node index. -/
def linkEdgesGraph (nodes : List NodeSlot) (done : List EdgeSlot) : List EdgeSlot → Except Nat (List NodeSlot × List EdgeSlot)
  | [] => .ok (nodes, done)
  | e :: rest =>
    match linkNodes nodes e.src e.tgt done.length with
    | none => .error (if e.src > e.tgt then e.src else e.tgt)
    | some (ns, x0, x1) => linkEdgesGraph ns (done ++ [{ e with n0 := x0, n1 := x1 }]) rest

/-- the edge as `deser_graph_edges` / `deser_stable_graph_edges` build it -/
def wireEdge (END : Nat) : Option (Nat × Nat × Int) → EdgeSlot
  | some (a, b, w) => { w := some w, n0 := END, n1 := END, src := a, tgt := b }
  | none => { w := none, n0 := END, n1 := END, src := END, tgt := END }

/-- `FromDeserialized for Graph` -/
def fromDeserializedGraph (END : Nat) (directed : Bool) (w : Wire) : Except DeErr Raw :=
  if w.prop ≠ some directed then .error .prop
  else if w.nodes.length ≥ END then .error (.lenNode w.nodes.length END)
  else if w.edges.length ≥ END then .error (.lenEdge w.edges.length END)
  else
    match linkEdgesGraph (w.nodes.map (liveSlot END)) [] (w.edges.map (wireEdge END)) with
    | .error i => .error (.node i w.nodes.length)
    | .ok (ns, es) => .ok { END, directed, nodes := ns, edges := es }

/-- `Deserialize for Graph<_,_,Ty,Ix>`; `modulus = 2^w` (`END + 1`) -/
def deGraph (END : Nat) (directed : Bool) (order : List Field) (w : Wire) : Except DeErr Raw :=
  match parseStage false (END + 1) w order with
  | some e => .error e
  | none => fromDeserializedGraph END directed (if order.contains .h then w else { w with holes := [] })

/-- the hole-interleaving loop of `StableGraph::from_deserialized` -/
def interleave (END total : Nat) : List Nat → List Int → List NodeSlot → Nat → Except DeErr (List NodeSlot)
  | [], compact, acc, _ => .ok (acc ++ compact.map (liveSlot END))
  | h :: hs, compact, acc, nodePos =>
    if !(decide (nodePos ≤ h) && decide (h < total)) then .error (.hole h)
    else
      let acc1 := acc ++ (compact.take (h - nodePos)).map (liveSlot END)
      if acc1.length ≠ h then .error (.hole h)       -- not enough nodes in front of this hole
      else
        let acc2 := acc1 ++ [vacantSlot END]
        if acc2.length ≠ h + 1 then .error .panic     -- debug_assert_eq!(nodes.len(), node_pos)
        else interleave END total hs (compact.drop (h - nodePos)) acc2 (h + 1)

structure FreeNodesSt where
  done : List NodeSlot
  free : Nat
  count : Nat

/-- the first loop of `StableGraph::link_edges` (free node list, `node_count`); `none` = index panic -/
def linkFreeNodes (END : Nat) : List NodeSlot → FreeNodesSt → Option FreeNodesSt
  | [], st => some st
  | nd :: rest, st =>
    if nd.w.isSome then linkFreeNodes END rest { st with done := st.done ++ [nd], count := st.count + 1 }
    else
      let i := st.done.length
      let nd' : NodeSlot := { nd with n0 := st.free, n1 := END }
      if st.free ≠ END then
        match st.done[st.free]? with
        | none => none
        | some p => linkFreeNodes END rest { st with done := (st.done.set st.free { p with n1 := i }) ++ [nd'], free := i }
      else linkFreeNodes END rest { st with done := st.done ++ [nd'], free := i }

structure LinkSt where
  nodes : List NodeSlot
  done : List EdgeSlot
  free : Nat
  count : Nat

/-- the second loop of `StableGraph::link_edges` -/
def linkEdgesStable (END : Nat) : List EdgeSlot → LinkSt → Except Nat LinkSt
  | [], st => .ok st
  | e :: rest, st =>
    if e.w.isNone then
      linkEdgesStable END rest { st with done := st.done ++ [{ e with n0 := st.free, n1 := END }], free := st.done.length }
    else
      let a := e.src
      let b := e.tgt
      if Nat.max a b ≥ st.nodes.length then .error (if a > b then a else b)
      else match st.nodes[a]?, st.nodes[b]? with
        | some an, some bn =>
          if an.w.isNone then .error a
          else if bn.w.isNone then .error b
          else match linkNodes st.nodes a b st.done.length with
            | none => .error (if a > b then a else b)
            | some (ns, x0, x1) =>
              linkEdgesStable END rest { st with nodes := ns, done := st.done ++ [{ e with n0 := x0, n1 := x1 }], count := st.count + 1 }
        | _, _ => .error (if a > b then a else b)

/-- `FromDeserialized for StableGraph` -/
def fromDeserializedStable (END : Nat) (directed : Bool) (w : Wire) : Except DeErr Stable :=
  if w.prop ≠ some directed then .error .prop
  else if w.edges.length ≥ END then .error (.lenEdge w.edges.length END)
  else
    match interleave END (w.nodes.length + w.holes.length) w.holes w.nodes [] 0 with
    | .error e => .error e
    | .ok nodes =>
      if nodes.length ≥ END then .error (.lenNode nodes.length END)
      else
        match linkFreeNodes END nodes { done := [], free := END, count := 0 } with
        | none => .error .panic
        | some fs =>
          match linkEdgesStable END (w.edges.map (wireEdge END)) { nodes := fs.done, done := [], free := END, count := 0 } with
          | .error i => .error (.node i nodes.length)
          | .ok ls =>
            .ok { g := { END, directed, nodes := ls.nodes, edges := ls.done },
                  nodeCount := fs.count, edgeCount := ls.count, freeNode := fs.free, freeEdge := ls.free }

/-- `Deserialize for StableGraph<_,_,Ty,Ix>` -/
def deStable (END : Nat) (directed : Bool) (order : List Field) (w : Wire) : Except DeErr Stable :=
  match parseStage true (END + 1) w order with
  | some e => .error e
  | none => fromDeserializedStable END directed (if order.contains .h then w else { w with holes := [] })

/-! ## `GraphMap` -/

/-- `nodes : IndexMap<N, Vec<(N, CompactDirection)>>` (`true` = Outgoing), `edges : IndexMap<(N,N), E>` -/
structure GMap where
  directed : Bool
  nodes : List (Int × List (Int × Bool))
  edges : List ((Int × Int) × Int)
  deriving Repr, DecidableEq

def GMap.empty (directed : Bool) : GMap := { directed, nodes := [], edges := [] }

def GMap.edgeKey (m : GMap) (a b : Int) : Int × Int := if m.directed || a ≤ b then (a, b) else (b, a)

def assocIdx {κ ν} [BEq κ] (l : List (κ × ν)) (k : κ) : Option Nat := l.findIdx? (·.1 == k)

/-- `entry(k).or_default()` followed by a modification of the value -/
def assocUpsert {κ ν} [BEq κ] (l : List (κ × ν)) (k : κ) (dflt : ν) (f : ν → ν) : List (κ × ν) :=
  match assocIdx l k with
  | some i => l.modify i fun (k', v) => (k', f v)
  | none => l ++ [(k, f dflt)]

def GMap.addNode (m : GMap) (n : Int) : GMap := { m with nodes := assocUpsert m.nodes n [] id }

/-- `GraphMap::add_edge` -/
def GMap.addEdge (m : GMap) (a b : Int) (w : Int) : GMap × Option Int :=
  let key := m.edgeKey a b
  match assocIdx m.edges key with
  | some i => ({ m with edges := m.edges.modify i fun (k, _) => (k, w) }, (m.edges[i]?).map (·.2))
  | none =>
    let es := m.edges ++ [(key, w)]
    let ns := assocUpsert m.nodes a [] (· ++ [(b, true)])
    let ns := if a ≠ b then assocUpsert ns b [] (· ++ [(a, false)]) else ns
    ({ m with nodes := ns, edges := es }, none)

/-- `remove_single_edge` -/
def GMap.removeSingle (m : GMap) (a b : Int) (dirOut : Bool) : GMap × Bool :=
  match assocIdx m.nodes a with
  | none => (m, false)
  | some i =>
    match m.nodes[i]? with
    | none => (m, false)
    | some (_, sus) =>
      let pos := if m.directed then sus.findIdx? (fun x => x == (b, dirOut)) else sus.findIdx? (fun x => x.1 == b)
      match pos with
      | some j => ({ m with nodes := m.nodes.modify i fun (k, v) => (k, swapRemove v j) }, true)
      | none => (m, false)

def assocSwapRemove {κ ν} [BEq κ] (l : List (κ × ν)) (k : κ) : List (κ × ν) × Option ν :=
  match assocIdx l k with
  | none => (l, none)
  | some i => (swapRemove l i, (l[i]?).map (·.2))

/-- `GraphMap::remove_edge` -/
def GMap.removeEdge (m : GMap) (a b : Int) : GMap × Option Int :=
  let (m1, _) := m.removeSingle a b true
  let m2 := if a ≠ b then (m1.removeSingle b a false).1 else m1
  let (es, w) := assocSwapRemove m2.edges (m2.edgeKey a b)
  ({ m2 with edges := es }, w)

/-- `GraphMap::remove_node` -/
def GMap.removeNode (m : GMap) (n : Int) : GMap × Bool :=
  match assocSwapRemove m.nodes n with
  | (_, none) => (m, false)
  | (ns, some links) =>
    let m0 := { m with nodes := ns }
    let m' := links.foldl (fun (acc : GMap) (succ, dirOut) =>
      let key := if dirOut then acc.edgeKey n succ else acc.edgeKey succ n
      let acc1 := (acc.removeSingle succ n (!dirOut)).1
      { acc1 with edges := (assocSwapRemove acc1.edges key).1 }) m0
    (m', true)

/-- `neighbors_directed(a, dir)` -/
def GMap.neighborsDirected (m : GMap) (a : Int) (dirOut : Bool) : List Int :=
  match assocIdx m.nodes a with
  | none => []
  | some i =>
    match m.nodes[i]? with
    | none => []
    | some (_, sus) =>
      if m.directed then sus.filterMap fun (n, d) => if d == dirOut || n == a then some n else none
      else sus.map (·.1)

/-- `GraphMap::into_graph::<u32>()` (`none` = a panic: capacity or a missing key) -/
def GMap.intoGraph (m : GMap) (END : Nat) : Option Raw :=
  let g0 : Option Raw := m.nodes.foldl (fun acc (n, _) =>
    match acc with
    | none => none
    | some g => match g.tryAddNode n with
      | (g1, .ok _) => some g1
      | _ => none) (some (Raw.empty END m.directed))
  m.edges.foldl (fun acc ((a, b), w) =>
    match acc with
    | none => none
    | some g =>
      match assocIdx m.nodes a, assocIdx m.nodes b with
      | some ai, some bi =>
        (match g.tryAddEdge ai bi w with
          | (g1, .ok _) => some g1
          | _ => none)
      | _, _ => none) g0

/-- `GraphMap::from_graph` (`none` = an `unwrap` on a missing endpoint would panic) -/
def GMap.fromGraph (g : Raw) : Option GMap :=
  let m0 := g.nodes.foldl (fun (acc : GMap) nd => match nd.w with | some w => acc.addNode w | none => acc) (GMap.empty g.directed)
  g.edges.foldl (fun acc e =>
    match acc with
    | none => none
    | some (m : GMap) =>
      match (g.nodes[e.src]?).bind (·.w), (g.nodes[e.tgt]?).bind (·.w), e.w with
      | some wa, some wb, some w => some (m.addEdge wa wb w).1
      | _, _, _ => none) (some m0)

/-- `Serialize for GraphMap` -/
def serMap (m : GMap) : Option Wire := (m.intoGraph 4294967295).map serGraph

/-- `Deserialize for GraphMap` -/
def deMap (directed : Bool) (order : List Field) (w : Wire) : Except DeErr GMap :=
  match deGraph 4294967295 directed order w with
  | .error e => .error e
  | .ok g => match GMap.fromGraph g with
    | some m => .ok m
    | none => .error .panic

end PetgraphModel.Serde
