import PetgraphModel.Model.Graph6
import PetgraphModel.Spec.Graph6
/-
C18 (wave 5) — what `from_graph6_representation` (src/graph6/graph6_decoder.rs:34-128, mirror: `G6.decode`) does on an
ARBITRARY string, in closed form.  `Theorems/C18.lean` proves `G6.decode s = G6.decodeClosed s` for every `s`.

The decoder has no error type.  It PANICS in exactly four situations and otherwise answers `(order, edges)`:

  (P1) some character has a code below 63 (`'?'`): `(c as usize) - N` overflows — a panic in a build with overflow checks
       (the debug profile); a build without them (the release profile) wraps modulo 2^64 instead and goes on with the
       wrapped value (`decodeWrap` below: its low six bits are `code + 1`, and it never equals the marker 63);
  (P2) the string is empty: `bytes.first().unwrap()`;
  (P3) the first character is `'~'` (126) and fewer than three characters follow: `&bytes[1..=3]`;
  (P4) fewer than `order * (order - 1) / 2` bits follow the size header: `adj_matrix_bits[i]` out of bounds.

Otherwise: every character contributes the LOW SIX BITS of `code - 63` (codes above 126, non-ASCII included, are not
rejected); the order is those six bits of the first character, or — after a first `'~'` — the 18 bits of the next three
characters (also when that number is below 63, and also when the second character is `'~'` again: the 36-bit form of
the format is read as an 18-bit form whose first group is 63); bit `j(j-1)/2 + i` of the rest says whether `i < j` are
joined; surplus bits and bytes are ignored.  So the decoder accepts every valid graph6 string of order ≤ 258047 and a
superset of them (non-zero padding, trailing bytes, long headers for small orders, characters above 126).

Core Lean only (the driver uses `decodePanics` as a guard: the positions of a huge claimed order are never built).
-/
namespace PetgraphModel.G6

/-- the size header on the byte values: `(order, bytes after the header)`; `none` = (P2) or (P3) -/
def decodeHeader : List Nat → Option (Nat × List Nat)
  | [] => none
  | b0 :: rest =>
    if b0 = 63 then
      match rest with
      | b1 :: b2 :: b3 :: body => some (b1 % 64 * 4096 + b2 % 64 * 64 + b3 % 64, body)
      | _ => none
    else some (b0 % 64, rest)

/-- bit `k` of the bytes after the header: six bits per byte, most significant first, low six bits of the byte only;
`false` beyond the end -/
def bodyBit (body : List Nat) (k : Nat) : Bool := (body.getD (k / 6) 0).testBit (5 - k % 6)

/-- the adjacency the decoder reads: bit `j(j-1)/2 + i` for the pair `i < j` -/
def bodyAdj (body : List Nat) (i j : Nat) : Bool := bodyBit body (j * (j - 1) / 2 + i)

/-- the byte values `code - 63` (meaningful when no code is below 63) -/
def byteValues (s : List Char) : List Nat := s.map fun c => c.toNat - 63

/-- the decoder panics: (P1) ∨ (P2) ∨ (P3) ∨ (P4) -/
def decodePanics (s : List Char) : Bool :=
  s.any (fun c => decide (c.toNat < 63)) ||
    match decodeHeader (byteValues s) with
    | none => true
    | some (n, body) => decide (6 * body.length < n * (n - 1) / 2)

/-- `from_graph6_representation` in closed form -/
def decodeClosed (s : List Char) : Option (Nat × List (Nat × Nat)) :=
  if s.any (fun c => decide (c.toNat < 63)) then none
  else match decodeHeader (byteValues s) with
    | none => none
    | some (n, body) =>
      if 6 * body.length < n * (n - 1) / 2 then none
      else some (n, Spec.Graph6.edges n (bodyAdj body))

/-- the mirror model behind the guard (what the driver runs on arbitrary input) -/
def decodeGuarded (s : List Char) : Option (Nat × List (Nat × Nat)) :=
  if decodePanics s then none else decode s

/-! ### the same decoder compiled WITHOUT overflow checks (release profile) -/

/-- everything `from_graph6_representation` does after `.chars().map(|c| (c as usize) - N).collect()` -/
def decodeBytes (bytes : List Nat) : Option (Nat × List (Nat × Nat)) :=
  match splitHeader bytes with
  | none => none
  | some (ob, mb) =>
    let order := bitsToNat (bytesToBits ob)
    match getEdges order (bytesToBits mb) with
    | none => none
    | some es => some (order, es)

/-- `(c as usize) - N` with wrapping `usize` arithmetic (64 bit) -/
def byteValuesWrap (s : List Char) : List Nat :=
  s.map fun c => if c.toNat < 63 then c.toNat + 18446744073709551616 - 63 else c.toNat - 63

/-- `from_graph6_representation` in a build without overflow checks: (P1) does not exist there -/
def decodeWrap (s : List Char) : Option (Nat × List (Nat × Nat)) := decodeBytes (byteValuesWrap s)

/-- closed form on the byte values: (P2) ∨ (P3) ∨ (P4), otherwise the order and the pairs whose bit is set -/
def decodeClosedBytes (bytes : List Nat) : Option (Nat × List (Nat × Nat)) :=
  match decodeHeader bytes with
  | none => none
  | some (n, body) =>
    if 6 * body.length < n * (n - 1) / 2 then none
    else some (n, Spec.Graph6.edges n (bodyAdj body))

def decodePanicsBytes (bytes : List Nat) : Bool :=
  match decodeHeader bytes with
  | none => true
  | some (n, body) => decide (6 * body.length < n * (n - 1) / 2)

/-- the wrapping decoder behind its guard -/
def decodeWrapGuarded (s : List Char) : Option (Nat × List (Nat × Nat)) :=
  if decodePanicsBytes (byteValuesWrap s) then none else decodeWrap s

/-- what the driver runs: `checked` = the build has overflow checks -/
def decodeProfile (checked : Bool) (s : List Char) : Option (Nat × List (Nat × Nat)) :=
  if checked then decodeGuarded s else decodeWrapGuarded s

end PetgraphModel.G6
