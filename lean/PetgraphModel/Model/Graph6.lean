/-
Mirror model of `/repo/src/graph6/graph6_encoder.rs`, `/repo/src/graph6/graph6_decoder.rs` and of the
two `GetAdjacencyMatrix` impls of `/repo/src/traits_graph.rs` (`Graph`, `StableGraph`) the encoder
reads through.  Core Lean only.

* a bit is a `Bool` (the Rust code uses `usize`/`u8` values 0 and 1 and converts them to text and back
  with `to_string` / `from_str_radix(_, 2)`; the model computes the same number directly);
* a byte vector is a `List Nat`, the graph6 string a `List Char`;
* a panic of the real code (`panic!("Graph order not supported.")`, `unwrap` on an empty string, slice
  or index out of bounds, `(c as usize) - N` overflowing in a debug build) is the answer `none`.
-/
namespace PetgraphModel.G6

/-- `const N: usize = 63;` (both files) -/
def N : Nat := 63
/-- largest order of the 18 bit form (`order <= 258047`) -/
def maxOrder : Nat := 258047

/-- `get_number_as_bits(n, bits_length)`: `for i in (0..bits_length).rev() { bits.push((n >> i) & 1) }` -/
def numberBits (n : Nat) : Nat → List Bool
  | 0 => []
  | k + 1 => n.testBit k :: numberBits n k

/-- `usize::from_str_radix(&bits.join(""), 2)` of a vector of 0/1 values (most significant first) -/
def bitsToNat (bits : List Bool) : Nat :=
  bits.foldl (fun acc b => 2 * acc + b.toNat) 0

/-- `get_graph_order_as_bits`; `none` = `panic!("Graph order not supported.")` -/
def orderBits (order : Nat) : Option (List Bool) :=
  if order < N then some (numberBits order 6)
  else if order ≤ maxOrder then some (numberBits N 6 ++ numberBits order 18)
  else none

/-- `get_adj_matrix_upper_diagonal_as_bits`: the `n`-th node of the iteration is compared with the
nodes `0 .. n-1` seen before it (`for i in 1..=n { is_adjacent(ids[i-1], ids[n]) }`).
`adj` is `is_adjacent` on iteration positions. -/
def upperBits (adj : Nat → Nat → Bool) (order : Nat) : List Bool :=
  (List.range order).flatMap fun n => (List.range' 1 n).map fun i => adj (i - 1) n

/-- `while bits.len() % 6 != 0 { bits.push(0) }` -/
def padTo6 (bits : List Bool) : List Bool :=
  bits ++ List.replicate ((6 - bits.length % 6) % 6) false

/-- `chunks(6)` -/
def chunks6 : List Bool → List (List Bool)
  | [] => []
  | b :: bs => (b :: bs).take 6 :: chunks6 ((b :: bs).drop 6)
termination_by l => l.length
decreasing_by simp only [List.drop_succ_cons, List.length_drop, List.length_cons]; omega

/-- `bits_to_ascii`: pad, cut into groups of 6, `char::from((N + value) as u8)` -/
def bitsToAscii (bits : List Bool) : List Char :=
  (chunks6 (padTo6 bits)).map fun c => Char.ofNat (N + bitsToNat c)

/-- `get_graph6_representation`; `adj` on iteration positions, `order` = number of nodes iterated -/
def encode (order : Nat) (adj : Nat → Nat → Bool) : Option (List Char) :=
  match orderBits order with
  | none => none
  | some hb => some (bitsToAscii (hb ++ upperBits adj order))

/-! ### the adjacency matrices the encoder reads (`traits_graph.rs`) -/

/-- `FixedBitSet::put(i)`; `none` = the panic of an out-of-range position -/
def putBit (m : Array Bool) (i : Nat) : Option (Array Bool) :=
  if i < m.size then some (m.setIfInBounds i true) else none

/-- `adjacency_matrix()` of `Graph`/`StableGraph` (undirected): a bitmap of `w * w` positions, `w` =
`node_count()` for `Graph`, `node_bound()` for `StableGraph`; edges by node index; every edge sets
`source * w + target` and `source + w * target`. -/
def adjMatrix (w : Nat) (edges : List (Nat × Nat)) : Option (Array Bool) :=
  edges.foldlM (fun m e => (putBit m (e.1 * w + e.2)).bind fun m' => putBit m' (e.1 + w * e.2))
    (Array.replicate (w * w) false)

/-- `is_adjacent(matrix, a, b)`: `matrix.contains(n * a + b)` (`false` beyond the bitmap) -/
def isAdjacent (w : Nat) (matrix : Array Bool) (a b : Nat) : Bool :=
  matrix.getD (w * a + b) false

/-! ### decoder -/

/-- `.chars().map(|c| (c as usize) - N)`; `none` = subtraction overflow (debug build) -/
def charsToBytes : List Char → Option (List Nat)
  | [] => some []
  | c :: cs =>
    if c.toNat < N then none
    else (charsToBytes cs).map fun r => (c.toNat - N) :: r

/-- `get_order_bytes_and_adj_matrix_bytes` on the byte values -/
def splitHeader (bytes : List Nat) : Option (List Nat × List Nat) :=
  match bytes with
  | [] => none                                       -- `bytes.first().unwrap()`
  | first :: rest =>
    if first = N then
      if rest.length < 3 then none                   -- `&bytes[1..=3]`
      else some (rest.take 3, rest.drop 3)
    else some ([first], rest)

/-- `bytes_vector_to_bits_vector` -/
def bytesToBits (bytes : List Nat) : List Bool :=
  bytes.flatMap fun b => numberBits b 6

/-- the column-major positions `get_edges` walks: `for col in 1..order { for lin in 0..col {..} }` -/
def positions (order : Nat) : List (Nat × Nat) :=
  (List.range' 1 (order - 1)).flatMap fun col => (List.range col).map fun lin => (lin, col)

/-- the body of `get_edges`: one bit per position, consumed in order (`adj_matrix_bits[i]`, `i += 1`);
`none` = index out of bounds -/
def takeEdges : List (Nat × Nat) → List Bool → Option (List (Nat × Nat))
  | [], _ => some []
  | _ :: _, [] => none
  | p :: ps, b :: bs => (takeEdges ps bs).map fun r => if b then p :: r else r

def getEdges (order : Nat) (bits : List Bool) : Option (List (Nat × Nat)) :=
  takeEdges (positions order) bits

/-- `from_graph6_representation`: `(order, edges)` -/
def decode (s : List Char) : Option (Nat × List (Nat × Nat)) :=
  match charsToBytes s with
  | none => none
  | some bytes =>
    match splitHeader bytes with
    | none => none
    | some (ob, mb) =>
      let order := bitsToNat (bytesToBits ob)
      match getEdges order (bytesToBits mb) with
      | none => none
      | some es => some (order, es)

end PetgraphModel.G6
