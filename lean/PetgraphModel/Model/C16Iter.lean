import PetgraphModel.Model.C16Dom
/-
The two LAZY iterators of `/repo/src/algo/dominators.rs` as state machines (core Lean only) — wave 6.
`Model/C16Dom.lean` models `dominators`, `strict_dominators`, `immediately_dominated_by` by the lists
they yield when collected; here are the iterators themselves:

* `DominatorsIter { dominators: &Dominators, node: Option<N> }` —
  `next`: `let next = self.node.take(); if let Some(next) = next { self.node =
  self.dominators.immediate_dominator(next); } next`.  No `size_hint` override (`(0, None)`).
* `DominatedByIter { iter: hash_map::Iter<N, N>, node: N }` —
  `next`: advance the map iterator to the next entry `(k, v)` with `v == node && v != k`, yield `k`;
  `size_hint`: `(0, self.iter.size_hint().1)`, i.e. lower bound 0, upper bound = number of map entries
  not yet looked at.  The hash map's iteration order is the (arbitrary) order of the list `rest`.

`Proofs/C16W6.lean` proves: stepping these machines yields exactly the collected lists of
`Model/C16Dom.lean`, both are fused (after `None` always `None`), and the `size_hint` of
`DominatedByIter` brackets the number of items still to come in every state.
-/
namespace PetgraphModel.C16M

/-! ### `DominatorsIter` -/
structure DomIter where
  d : Doms
  node : Option Nat
  deriving Repr

namespace DomIter

/-- `Iterator::next` -/
def next (it : DomIter) : Option Nat × DomIter :=
  match it.node with
  | none => (none, it)
  | some n => (some n, { it with node := it.d.immediateDominator n })

/-- the items of at most `k` calls of `next`, stopping at the first `None` -/
def take : Nat → DomIter → List Nat
  | 0, _ => []
  | k+1, it =>
    match it.next with
    | (none, _) => []
    | (some x, it') => x :: take k it'

/-- the default `Iterator::size_hint` -/
def sizeHint (_ : DomIter) : Nat × Option Nat := (0, none)

end DomIter

/-- `Dominators::dominators(node)` as the iterator it returns -/
def Doms.dominatorsIter (d : Doms) (n : Nat) : Option DomIter :=
  if (d.map.lookup n).isSome then some ⟨d, some n⟩ else none

/-- `Dominators::strict_dominators(node)` as the iterator it returns -/
def Doms.strictDominatorsIter (d : Doms) (n : Nat) : Option DomIter :=
  if (d.map.lookup n).isSome then some ⟨d, d.immediateDominator n⟩ else none

/-! ### `DominatedByIter` -/
structure IdbIter where
  /-- the entries of the map not yet looked at, in the map's iteration order -/
  rest : List (Nat × Nat)
  node : Nat
  deriving Repr

namespace IdbIter

/-- `for (dominator, dominated) in self.iter.by_ref() { if dominated == &self.node && dominated != dominator
{ return Some(*dominator) } } None` on the entries not yet looked at: the item and what is left -/
def scan (n : Nat) : List (Nat × Nat) → Option Nat × List (Nat × Nat)
  | [] => (none, [])
  | (k, v) :: rest => if v = n ∧ v ≠ k then (some k, rest) else scan n rest

/-- `Iterator::next`: skip to the next matching entry -/
def next (it : IdbIter) : Option Nat × IdbIter :=
  ((scan it.node it.rest).1, { it with rest := (scan it.node it.rest).2 })

/-- `size_hint`: `(0, upper bound of the underlying map iterator)` -/
def sizeHint (it : IdbIter) : Nat × Option Nat := (0, some it.rest.length)

/-- everything the iterator will still yield -/
def toList (it : IdbIter) : List Nat :=
  it.rest.filterMap fun (k, v) => if v = it.node ∧ v ≠ k then some k else none

/-- the items of at most `k` calls of `next`, stopping at the first `None` -/
def take : Nat → IdbIter → List Nat
  | 0, _ => []
  | k+1, it =>
    match it.next with
    | (none, _) => []
    | (some x, it') => x :: take k it'

end IdbIter

/-- `Dominators::immediately_dominated_by(node)` as the iterator it returns -/
def Doms.immediatelyDominatedByIter (d : Doms) (n : Nat) : IdbIter := ⟨d.map, n⟩

end PetgraphModel.C16M
