import PetgraphModel.Oracle.C13Iso
import PetgraphModel.Model.C13Vf2Side
/-
C13 — the LINK between the two things the driver judges an answer against: the abstract problem `P` (nodes
`0..n-1` = abstract ids; what the oracle enumerates) and the concrete instance `I` handed to the mirror model
(nodes = `to_index` values, `abs` = concrete index ↦ abstract id).  Core Lean only; the driver evaluates
`linkFail` on every query, `Theorems/C13.lean` proves that a passed check makes the two specifications the
same: `Embeds P f` exactly when the re-indexed `f` is a valid complete mapping of `I`, so the model's reported
vectors are (a permutation of) the oracle's list (`C13_checked_model_eq_oracle`).
-/
namespace PetgraphModel.C13.Vf2
open PetgraphModel PetgraphModel.C13

/-- concrete index of the abstract node `a` (inverse of `abs`) -/
def CG.ixOf (g : CG) (a : Nat) : Nat := g.abs.idxOf a
/-- abstract id of the concrete index `i` -/
def CG.absOf (g : CG) (i : Nat) : Nat := (g.abs[i]?).getD 0

def linkNodesB (g : CG) (m : MGraph) : Bool := m.nodes == List.range g.n
def linkDirB (g : CG) (m : MGraph) : Bool := g.directed == m.directed
/-- adjacency of the concrete graph, read through the index labeling, is adjacency of the abstract graph -/
def linkAdjB (g : CG) (m : MGraph) : Bool :=
  (List.range g.n).all fun a => (List.range g.n).all fun b => g.adj (g.ixOf a) (g.ixOf b) == adjB m a b
/-- the weight the model finds for an abstract edge is the weight of that edge -/
def linkEwB (g : CG) (m : MGraph) : Bool :=
  m.edges.all fun e => g.ew (g.ixOf e.src) (g.ixOf e.tgt) == some e.w
def linkNwB (g : CG) (nw : Nat → Int) : Bool :=
  (List.range g.n).all fun a => (g.nw[g.ixOf a]?).getD 0 == nw a

/-- the concrete graph `g` encodes the abstract graph `m` with node weights `nw` -/
def linkGraphB (g : CG) (m : MGraph) (nw : Nat → Int) : Bool :=
  linkNodesB g m && linkDirB g m && linkAdjB g m && linkEwB g m && linkNwB g nw

def linkGraphFail (g : CG) (m : MGraph) (nw : Nat → Int) : Option String :=
  if !linkNodesB g m then some "abstract nodes are not 0..n-1"
  else if !linkDirB g m then some "edge type"
  else if !linkAdjB g m then some "adjacency"
  else if !linkEwB g m then some "edge weights"
  else if !linkNwB g nw then some "node weights"
  else none

/-- `none` = the instance handed to the model encodes the abstract problem the oracle is asked -/
def linkFail (I : Inst) (P : Problem) : Option String :=
  match linkGraphFail I.g0 P.g0 P.nw0 with
  | some w => some s!"linkOk g0 ({w} of the concrete pattern differ from the abstract pattern)"
  | none =>
    match linkGraphFail I.g1 P.g1 P.nw1 with
    | some w => some s!"linkOk g1 ({w} of the concrete target differ from the abstract target)"
    | none => none

def linkOkB (I : Inst) (P : Problem) : Bool := linkGraphB I.g0 P.g0 P.nw0 && linkGraphB I.g1 P.g1 P.nw1

end PetgraphModel.C13.Vf2
