import PetgraphModel.Oracle.C13Iso
/-
C13, wave 6 — the REST of the public surface of `src/algo/isomorphism.rs`: the iterator that
`subgraph_isomorphisms_iter` returns (`GraphMatcher`) overrides exactly two methods of `Iterator`, `next`
(mirrored in `Model/C13Vf2.lean`) and `size_hint` (mirrored HERE).  Core Lean only.

`size_hint` (isomorphism.rs:764-804, as repaired by a69e23d: finding D34) does not look at the search state: with
`n = g1.node_count()` (the TARGET, "graph 1" of the code's comment) it returns `(0, None)` if `n ≥ 21`
(`n >= upper_bounds.len()`, the table has 21 entries `0!..20!`), otherwise `(0, upper_bounds[n])` — the index is
in bounds by that very test (no panic), and the entry is `n!` on a 64-bit `usize` (`usize::try_from(20!)`
succeeds).  Before the repair `n` was the PATTERN's node count (an upper bound `n0!` although up to
`n1!/(n1-n0)!` mappings are yielded) and the test was `n > len` (`upper_bounds[21]`: a panic for 21 nodes).

The judge `judgeHint` says what the `Iterator` contract demands of a `size_hint` taken after `k` items were
consumed: the lower bound is at most, and the upper bound (if any) at least, the number of items still to come —
which the property fixes: the iterator yields every embedding exactly once, so `|subIsoAll P| - k` remain.
-/
namespace PetgraphModel.C13
open PetgraphModel

def fact : Nat → Nat
  | 0 => 1
  | n + 1 => (n + 1) * fact n

/-- the literal table `upper_bounds` of `size_hint` -/
def hintTable : List Nat :=
  [1, 1, 2, 6, 24, 120, 720, 5040, 40320, 362880, 3628800, 39916800, 479001600, 6227020800, 87178291200,
   1307674368000, 20922789888000, 355687428096000, 6402373705728000, 121645100408832000, 2432902008176640000]

/-- `GraphMatcher::size_hint` for a TARGET with `n1` nodes (64-bit `usize`).  The result is never `none` (the
type is kept for `showHint`; `none` would be a panic): the bound test is what makes the index legal -/
def sizeHintModel (n1 : Nat) : Option (Nat × Option Nat) :=
  if h : n1 ≥ hintTable.length then some (0, none)
  else some (0, some (hintTable[n1]'(Nat.lt_of_not_ge h)))

/-- `n1 * (n1-1) * … * (n1-n0+1)`: the number of injections of an `n0`-set into an `n1`-set -/
def falling (n1 : Nat) : Nat → Nat
  | 0 => 1
  | k + 1 => n1 * falling (n1 - 1) k

/-- `lo ≤ total - k ≤ hi` -/
def judgeHintN (total k lo : Nat) (hi : Option Nat) : Bool :=
  let rem := total - k
  decide (lo ≤ rem) && (match hi with | none => true | some h => decide (rem ≤ h))

/-- what the `Iterator` contract demands of `size_hint() = (lo, hi)` after `k` of the embeddings were yielded -/
def judgeHint (P : Problem) (k lo : Nat) (hi : Option Nat) : Bool :=
  judgeHintN (subIsoAll P).length k lo hi

/-- a bound that needs no enumeration (graphs of any size): `lo = 0`, and the upper bound, if any, is at least
the number of injections -/
def judgeHintBig (n0 n1 lo : Nat) (hi : Option Nat) : Bool :=
  lo == 0 && (match hi with | none => true | some h => decide (falling n1 n0 ≤ h))

def showHint (r : Option (Nat × Option Nat)) : String :=
  match r with
  | none => "panic"
  | some (lo, none) => s!"{lo} inf"
  | some (lo, some h) => s!"{lo} {h}"

/-- `<lo> <hi|inf>` -/
def parseHint (ws : List String) : Option (Nat × Option Nat) :=
  match ws with
  | [lo, hi] =>
    match lo.toNat? with
    | none => none
    | some l => if hi == "inf" then some (l, none) else hi.toNat?.map fun h => (l, some h)
  | _ => none

end PetgraphModel.C13
