/-
Mirror model of `/repo/src/graph_impl/mod.rs` (`Graph<N, E, Ty, Ix>`), `frozen.rs` and the `Graph`
impls of `/repo/src/data.rs`.  Core Lean only.

* `nodes : List Node` / `edges : List Edge` are the two vectors.  An index value is its `index()`
  as a `Nat`; `EdgeIndex::end()` / `NodeIndex::end()` is `endv = Ix::max()` (`2^w - 1`).
  The capacity test `<Ix as IndexType>::max().index() == !0 || end() != idx` is `canGrow`: for
  `u8/u16/u32` it is `endv ≠ len`; for `usize` (`endv = 2^64 - 1`) the first disjunct makes the test
  vacuous in the code, but `len = usize::MAX` is unreachable there (a `Vec` aborts with "capacity
  overflow" long before), so the model uses `endv ≠ len` for every width and "no limit for usize"
  reads "the limit `2^64 - 1` that no `Vec` reaches".
  `directed` is `Ty::is_directed()` (a run-time field so that `into_edge_type` is an operation).
* weights are `Nat`s (the harness uses small integers).
* every `while let Some(..) = edges.get(..)` loop takes fuel (`edges.length + 1`); exhaustion is the
  fault `fuel`.  `self.nodes[i]` / `vec[i]` that would panic is the fault `oob`; a failing
  `debug_assert!` is the fault `dbg`.  `Theorems/C01.lean` shows faults are unreachable under the
  representation invariant.  A *documented* panic is the answer `panic`.
* `k : Bool` is a `Direction` index: `false` = `Outgoing` = 0, `true` = `Incoming` = 1.
-/
namespace PetgraphModel.G

inductive Fault where
  | oob    -- an indexing expression `v[i]` of the real code would be out of bounds
  | fuel   -- a list walk did not terminate within its fuel (a cyclic `next` chain)
  | dbg    -- a `debug_assert!` of the real code would fire
  deriving Repr, DecidableEq

inductive GErr where
  | nodeIxLimit | edgeIxLimit | nodeOutBounds
  deriving Repr, DecidableEq

structure Node where
  weight : Nat
  next0 : Nat
  next1 : Nat
  deriving Repr, DecidableEq

structure Edge where
  weight : Nat
  next0 : Nat
  next1 : Nat
  src : Nat      -- node[0]
  tgt : Nat      -- node[1]
  deriving Repr, DecidableEq

def Node.next (n : Node) (k : Bool) : Nat := if k then n.next1 else n.next0
def Node.setNext (n : Node) (k : Bool) (v : Nat) : Node :=
  if k then { n with next1 := v } else { n with next0 := v }
def Edge.next (e : Edge) (k : Bool) : Nat := if k then e.next1 else e.next0
def Edge.setNext (e : Edge) (k : Bool) (v : Nat) : Edge :=
  if k then { e with next1 := v } else { e with next0 := v }
def Edge.node (e : Edge) (k : Bool) : Nat := if k then e.tgt else e.src
def Edge.setNode (e : Edge) (k : Bool) (v : Nat) : Edge :=
  if k then { e with tgt := v } else { e with src := v }

structure State where
  endv : Nat
  directed : Bool
  nodes : List Node
  edges : List Edge
  deriving Repr, DecidableEq

/-- `Graph::with_capacity(_, _)` / `new` / `new_undirected` / `default` -/
def empty (endv : Nat) (directed : Bool) : State :=
  { endv, directed, nodes := [], edges := [] }

/-- `<Ix as IndexType>::max().index() == !0 || end() != idx` (see the header for `usize`) -/
def canGrow (s : State) (len : Nat) : Bool := s.endv != len

/-- fuel of every walk over the edge array -/
def State.fuel (s : State) : Nat := s.edges.length + 1

/-! ### adding -/

/-- `try_add_node` -/
def tryAddNode (s : State) (w : Nat) : State × Option Nat :=
  let idx := s.nodes.length
  if canGrow s idx then ({ s with nodes := s.nodes ++ [⟨w, s.endv, s.endv⟩] }, some idx)
  else (s, none)

/-- `try_add_edge`: limit test first, then `index_twice` (`None` / `One` / `Both`) -/
def tryAddEdge (s : State) (a b w : Nat) : State × Except GErr Nat :=
  let eidx := s.edges.length
  if !(canGrow s eidx) then (s, .error .edgeIxLimit)
  else if max a b ≥ s.nodes.length then (s, .error .nodeOutBounds)
  else if a = b then
    match s.nodes[a]? with
    | none => (s, .error .nodeOutBounds)
    | some an =>
      ({ s with nodes := s.nodes.set a { an with next0 := eidx, next1 := eidx },
                edges := s.edges ++ [⟨w, an.next0, an.next1, a, b⟩] }, .ok eidx)
  else
    match s.nodes[a]?, s.nodes[b]? with
    | some an, some bn =>
      ({ s with nodes := (s.nodes.set a { an with next0 := eidx }).set b { bn with next1 := eidx },
                edges := s.edges ++ [⟨w, an.next0, bn.next1, a, b⟩] }, .ok eidx)
    | _, _ => (s, .error .nodeOutBounds)

/-! ### list walks -/

/-- the edges reached from `cur` along `next[k]`, as (index, slot) pairs -/
def chain (edges : List Edge) (k : Bool) : Nat → Nat → Except Fault (List (Nat × Edge))
  | 0, _ => .error .fuel
  | f+1, cur =>
    match edges[cur]? with
    | none => .ok []
    | some ed =>
      match chain edges k f (ed.next k) with
      | .ok l => .ok ((cur, ed) :: l)
      | .error e => .error e

/-- loop of `find_edge_directed_from_node` (`k = false`) and of each round of
`find_edge_undirected_from_node`: first edge of the `k`-list whose `node[1-k]` is `b` -/
def findFrom (edges : List Edge) (k : Bool) (b : Nat) : Nat → Nat → Except Fault (Option Nat)
  | 0, _ => .error .fuel
  | f+1, cur =>
    match edges[cur]? with
    | none => .ok none
    | some ed => if ed.node (!k) = b then .ok (some cur) else findFrom edges k b f (ed.next k)

/-- `find_edge_undirected` -/
def findEdgeUndirected (s : State) (a b : Nat) : Except Fault (Option (Nat × Bool)) :=
  match s.nodes[a]? with
  | none => .ok none
  | some nd =>
    match findFrom s.edges false b s.fuel nd.next0 with
    | .error e => .error e
    | .ok (some e) => .ok (some (e, false))
    | .ok none =>
      match findFrom s.edges true b s.fuel nd.next1 with
      | .error e => .error e
      | .ok (some e) => .ok (some (e, true))
      | .ok none => .ok none

/-- `find_edge` -/
def findEdge (s : State) (a b : Nat) : Except Fault (Option Nat) :=
  if !s.directed then
    match findEdgeUndirected s a b with
    | .ok o => .ok (o.map (·.1))
    | .error e => .error e
  else
    match s.nodes[a]? with
    | none => .ok none
    | some nd => findFrom s.edges false b s.fuel nd.next0

/-- `try_update_edge` -/
def tryUpdateEdge (s : State) (a b w : Nat) : Except Fault (State × Except GErr Nat) :=
  match findEdge s a b with
  | .error e => .error e
  | .ok (some ix) =>
    match s.edges[ix]? with
    | some ed => .ok ({ s with edges := s.edges.set ix { ed with weight := w } }, .ok ix)
    | none => .ok (tryAddEdge s a b w)
  | .ok none => .ok (tryAddEdge s a b w)

/-! ### removal -/

/-- the `edges_walker_mut` loop of `change_edge_links`: find the slot whose `next[k]` is `e` -/
def relink (edges : List Edge) (k : Bool) (e enext : Nat) : Nat → Nat → Except Fault (List Edge)
  | 0, _ => .error .fuel
  | f+1, cur =>
    match edges[cur]? with
    | none => .ok edges
    | some ed =>
      if ed.next k = e then .ok (edges.set cur (ed.setNext k enext))
      else relink edges k e enext f (ed.next k)

/-- one direction of `change_edge_links` -/
def changeLinks1 (s : State) (k : Bool) (nodeIx e enext : Nat) : Except Fault State :=
  match s.nodes[nodeIx]? with
  | none => .error .dbg
  | some nd =>
    if nd.next k = e then .ok { s with nodes := s.nodes.set nodeIx (nd.setNext k enext) }
    else
      match relink s.edges k e enext s.fuel (nd.next k) with
      | .ok es => .ok { s with edges := es }
      | .error f => .error f

/-- `change_edge_links(edge_node, e, edge_next)` -/
def changeEdgeLinks (s : State) (n0 n1 e x0 x1 : Nat) : Except Fault State :=
  match changeLinks1 s false n0 e x0 with
  | .error f => .error f
  | .ok s1 => changeLinks1 s1 true n1 e x1

/-- `Vec::swap_remove(i)` for `i < len` -/
def swapRemove {α : Type} (l : List α) (i : Nat) : List α :=
  match l.getLast? with
  | none => l
  | some last => (l.set i last).dropLast

/-- `remove_edge_adjust_indices` -/
def removeEdgeAdjust (s : State) (e : Nat) : Except Fault State :=
  let es := swapRemove s.edges e
  let s1 := { s with edges := es }
  match es[e]? with
  | none => .ok s1
  | some ed => changeEdgeLinks s1 ed.src ed.tgt es.length e e

/-- `remove_edge` -/
def removeEdge (s : State) (e : Nat) : Except Fault (State × Option Nat) :=
  match s.edges[e]? with
  | none => .ok (s, none)
  | some x =>
    match changeEdgeLinks s x.src x.tgt e x.next0 x.next1 with
    | .error f => .error f
    | .ok s1 =>
      match removeEdgeAdjust s1 e with
      | .error f => .error f
      | .ok s2 => .ok (s2, some x.weight)

/-- the `loop { let next = self.nodes[a].next[k]; … self.remove_edge(next) }` of `remove_node` -/
def drain (k : Bool) (a : Nat) : Nat → State → Except Fault State
  | 0, _ => .error .fuel
  | f+1, s =>
    match s.nodes[a]? with
    | none => .error .oob
    | some nd =>
      if nd.next k = s.endv then .ok s
      else
        match removeEdge s (nd.next k) with
        | .error e => .error e
        | .ok (_, none) => .error .dbg
        | .ok (s', some _) => drain k a f s'

/-- the re-pointing walk at the end of `remove_node` -/
def renode (k : Bool) (old new : Nat) : Nat → List Edge → Nat → Except Fault (List Edge)
  | 0, _, _ => .error .fuel
  | f+1, edges, cur =>
    match edges[cur]? with
    | none => .ok edges
    | some ed =>
      if ed.node k ≠ old then .error .dbg
      else renode k old new f (edges.set cur (ed.setNode k new)) (ed.next k)

/-- `remove_node` -/
def removeNode (s : State) (a : Nat) : Except Fault (State × Option Nat) :=
  match s.nodes[a]? with
  | none => .ok (s, none)
  | some _ =>
    match drain false a s.fuel s with
    | .error e => .error e
    | .ok s1 =>
      match drain true a s1.fuel s1 with
      | .error e => .error e
      | .ok s2 =>
        match s2.nodes[a]? with
        | none => .error .oob
        | some nd =>
          let ns := swapRemove s2.nodes a
          match ns[a]? with
          | none => .ok ({ s2 with nodes := ns }, some nd.weight)
          | some moved =>
            let old := ns.length
            match renode false old a s2.fuel s2.edges moved.next0 with
            | .error e => .error e
            | .ok es1 =>
              match renode true old a s2.fuel es1 moved.next1 with
              | .error e => .error e
              | .ok es2 => .ok ({ s2 with nodes := ns, edges := es2 }, some nd.weight)

/-! ### iterators (run to exhaustion) -/

/-- an `EdgeReference`: index, source, target, weight -/
structure ERef where
  ix : Nat
  src : Nat
  tgt : Nat
  weight : Nat
  deriving Repr, DecidableEq

def heads (s : State) (a : Nat) : Nat × Nat :=
  match s.nodes[a]? with
  | none => (s.endv, s.endv)
  | some nd => (nd.next0, nd.next1)

/-- `Neighbors` / `WalkNeighbors` run to exhaustion from the cursor `(skip, n0, n1)`: (edge, node) -/
def nbrIter (s : State) (skip n0 n1 : Nat) : Except Fault (List (Nat × Nat)) :=
  match chain s.edges false s.fuel n0 with
  | .error e => .error e
  | .ok c0 =>
    match chain s.edges true s.fuel n1 with
    | .error e => .error e
    | .ok c1 =>
      .ok (c0.map (fun p => (p.1, p.2.tgt)) ++
           (c1.filter (fun p => p.2.src != skip)).map (fun p => (p.1, p.2.src)))

/-- `neighbors_undirected(a)` -/
def neighborsUndirected (s : State) (a : Nat) : Except Fault (List (Nat × Nat)) :=
  let h := heads s a
  nbrIter s a h.1 h.2

/-- `neighbors_directed(a, dir)` -/
def neighborsDirected (s : State) (a : Nat) (k : Bool) : Except Fault (List (Nat × Nat)) :=
  let h := heads s a
  if s.directed then
    if k then nbrIter s s.endv s.endv h.2 else nbrIter s s.endv h.1 s.endv
  else nbrIter s a h.1 h.2

def mkRef (swap : Bool) (p : Nat × Edge) : ERef :=
  if swap then ⟨p.1, p.2.tgt, p.2.src, p.2.weight⟩ else ⟨p.1, p.2.src, p.2.tgt, p.2.weight⟩

/-- `edges_directed(a, dir)` run to exhaustion -/
def edgesDirected (s : State) (a : Nat) (dir : Bool) : Except Fault (List ERef) :=
  let h := heads s a
  if s.directed then
    if dir then
      match chain s.edges true s.fuel h.2 with
      | .ok c1 => .ok (c1.map (mkRef false))
      | .error e => .error e
    else
      match chain s.edges false s.fuel h.1 with
      | .ok c0 => .ok (c0.map (mkRef false))
      | .error e => .error e
  else
    match chain s.edges false s.fuel h.1 with
    | .error e => .error e
    | .ok c0 =>
      match chain s.edges true s.fuel h.2 with
      | .error e => .error e
      | .ok c1 =>
        -- reverse = Some(direction.opposite()): out-list items are swapped iff dir = Incoming,
        -- in-list items iff dir = Outgoing; self-loops are skipped in the in-list
        .ok (c0.map (mkRef dir) ++ (c1.filter (fun p => p.2.src != a)).map (mkRef (!dir)))

/-- `edges_connecting(a, b)` -/
def edgesConnecting (s : State) (a b : Nat) : Except Fault (List ERef) :=
  match edgesDirected s a false with
  | .ok l => .ok (l.filter (fun r => r.tgt == b))
  | .error e => .error e

/-- `externals(dir)` -/
def externals (s : State) (k : Bool) : List Nat :=
  (List.range s.nodes.length).filter fun i =>
    match s.nodes[i]? with
    | none => false
    | some nd => nd.next k == s.endv && (s.directed || nd.next (!k) == s.endv)

/-- `first_edge(a, dir)` -/
def firstEdge (s : State) (a : Nat) (k : Bool) : Option Nat :=
  match s.nodes[a]? with
  | none => none
  | some nd => if nd.next k = s.endv then none else some (nd.next k)

/-- `next_edge(e, dir)` -/
def nextEdge (s : State) (e : Nat) (k : Bool) : Option Nat :=
  match s.edges[e]? with
  | none => none
  | some ed => if ed.next k = s.endv then none else some (ed.next k)

/-! ### the detached walker as a cursor machine -/

structure Walker where
  skip : Nat
  next0 : Nat
  next1 : Nat
  deriving Repr, DecidableEq

/-- the `while let` of `WalkNeighbors::next` over the incoming list -/
def walkIn (edges : List Edge) (skip : Nat) : Nat → Nat → Except Fault (Nat × Option (Nat × Nat))
  | 0, _ => .error .fuel
  | f+1, cur =>
    match edges[cur]? with
    | none => .ok (cur, none)
    | some ed => if ed.src ≠ skip then .ok (ed.next1, some (cur, ed.src)) else walkIn edges skip f ed.next1

/-- `WalkNeighbors::next(&g)` -/
def walkerNext (s : State) (wk : Walker) : Except Fault (Walker × Option (Nat × Nat)) :=
  match s.edges[wk.next0]? with
  | some ed => .ok ({ wk with next0 := ed.next0 }, some (wk.next0, ed.tgt))
  | none =>
    match walkIn s.edges wk.skip s.fuel wk.next1 with
    | .error e => .error e
    | .ok (n1, r) => .ok ({ wk with next1 := n1 }, r)

/-- `.neighbors_directed(a, k).detach()` (`mode` 0/1) or `.neighbors_undirected(a).detach()` (2) -/
def walkerNew (s : State) (a : Nat) (mode : Nat) : Walker :=
  let h := heads s a
  if mode = 2 || !s.directed then ⟨a, h.1, h.2⟩
  else if mode = 1 then ⟨s.endv, s.endv, h.2⟩ else ⟨s.endv, h.1, s.endv⟩

/-- step a walker until `None`; when `bump`, `g[edge] += 1` after every step (weights may be
mutated while a detached walker is alive) -/
def walkAll (bump : Bool) : Nat → State → Walker → Except Fault (State × List (Nat × Nat))
  | 0, _, _ => .error .fuel
  | f+1, s, wk =>
    match walkerNext s wk with
    | .error e => .error e
    | .ok (_, none) => .ok (s, [])
    | .ok (wk', some (e, n)) =>
      let s' := if bump then
          match s.edges[e]? with
          | some ed => { s with edges := s.edges.set e { ed with weight := ed.weight + 1 } }
          | none => s
        else s
      match walkAll bump f s' wk' with
      | .error e => .error e
      | .ok (s'', l) => .ok (s'', (e, n) :: l)

/-! ### whole-graph operations -/

/-- `reverse` -/
def reverse (s : State) : State :=
  { s with
    edges := s.edges.map fun e => ⟨e.weight, e.next1, e.next0, e.tgt, e.src⟩,
    nodes := s.nodes.map fun n => ⟨n.weight, n.next1, n.next0⟩ }

/-- `clear` -/
def clear (s : State) : State := { s with nodes := [], edges := [] }

/-- `clear_edges` -/
def clearEdges (s : State) : State :=
  { s with edges := [], nodes := s.nodes.map fun n => ⟨n.weight, s.endv, s.endv⟩ }

def maskAt (m : List Bool) (i : Nat) : Bool := m[i]?.getD true
def bumpAt (m : List Bool) (i : Nat) : Bool := m[i]?.getD false

/-- the closure's `if bump[i] { g[i] += 1 }` through `Frozen` (node index) -/
def bumpNodeAt (s : State) (bump : List Bool) (i : Nat) : State :=
  if bumpAt bump i then
    match s.nodes[i]? with
    | some nd => { s with nodes := s.nodes.set i { nd with weight := nd.weight + 1 } }
    | none => s
  else s

/-- the closure's `if bump[e] { g[e] += 1 }` through `Frozen` (edge index) -/
def bumpEdgeAt (s : State) (bump : List Bool) (i : Nat) : State :=
  if bumpAt bump i then
    match s.edges[i]? with
    | some ed => { s with edges := s.edges.set i { ed with weight := ed.weight + 1 } }
    | none => s
  else s

/-- `retain_nodes(|g, i| { if bump[i] { g[i] += 1 }; mask[i] })`: `for index in node_indices().rev()` -/
def retainNodes (mask bump : List Bool) : Nat → State → Except Fault State
  | 0, s => .ok s
  | i+1, s =>
    let s1 := bumpNodeAt s bump i
    if maskAt mask i then retainNodes mask bump i s1
    else
      match removeNode s1 i with
      | .error e => .error e
      | .ok (_, none) => .error .dbg
      | .ok (s2, some _) => retainNodes mask bump i s2

/-- `retain_edges`, same shape -/
def retainEdges (mask bump : List Bool) : Nat → State → Except Fault State
  | 0, s => .ok s
  | i+1, s =>
    let s1 := bumpEdgeAt s bump i
    if maskAt mask i then retainEdges mask bump i s1
    else
      match removeEdge s1 i with
      | .error e => .error e
      | .ok (_, none) => .error .dbg
      | .ok (s2, some _) => retainEdges mask bump i s2

/-- `while nx.index() >= self.node_count() { self.add_node(N::default()); }`; `false` = the
documented capacity panic of `add_node` -/
def growTo (nx : Nat) : Nat → State → State × Bool
  | 0, s => (s, true)
  | f+1, s =>
    if nx ≥ s.nodes.length then
      match tryAddNode s 0 with
      | (s', some _) => growTo nx f s'
      | (s', none) => (s', false)
    else (s, true)

/-- `extend_with_edges`; `false` = a documented panic of `add_node` / `add_edge` (capacity), the
graph keeps what was added before -/
def extendWithEdges (s : State) : List (Nat × Nat × Nat) → State × Bool
  | [] => (s, true)
  | (a, b, w) :: rest =>
    let nx := max a b
    match growTo nx (nx + 2 - s.nodes.length) s with
    | (s1, false) => (s1, false)
    | (s1, true) =>
      match tryAddEdge s1 a b w with
      | (s2, .ok _) => extendWithEdges s2 rest
      | (s2, .error _) => (s2, false)

/-- an `Element` of `FromElements` -/
inductive Elem where
  | node (w : Nat)
  | edge (a b w : Nat)
  deriving Repr, DecidableEq

/-- `from_elements_indexable`: `none` = a documented panic of `add_node` / `add_edge` -/
def fromElements (s : State) : List Elem → Option State
  | [] => some s
  | .node w :: rest =>
    match tryAddNode s w with
    | (s', some _) => fromElements s' rest
    | (_, none) => none
  | .edge a b w :: rest =>
    match tryAddEdge s a b w with
    | (s', .ok _) => fromElements s' rest
    | (_, .error _) => none

/-- `map(|i, w| w + dn + i, |e, w| w + de + e)`: same links, new weights -/
def mapWeights (s : State) (dn de : Nat) : State :=
  { s with
    nodes := (List.range s.nodes.length).zipWith (fun i n => { n with weight := n.weight + dn + i }) s.nodes,
    edges := (List.range s.edges.length).zipWith (fun i e => { e with weight := e.weight + de + i }) s.edges }

/-- first loop of `filter_map` / `From<StableGraph>`: kept nodes are added in index order;
returns the new graph and `node_index_map` -/
def fmNodes (nmask : List Bool) (dn : Nat) : List Node → Nat → State → List Nat → State × List Nat
  | [], _, g, m => (g, m)
  | nd :: rest, i, g, m =>
    if maskAt nmask i then
      match tryAddNode g (nd.weight + dn) with
      | (g', some ix) => fmNodes nmask dn rest (i + 1) g' (m ++ [ix])
      | (g', none) => fmNodes nmask dn rest (i + 1) g' (m ++ [g.endv])   -- unreachable: result ≤ source
    else fmNodes nmask dn rest (i + 1) g (m ++ [g.endv])

/-- second loop of `filter_map` -/
def fmEdges (emask : List Bool) (de : Nat) (m : List Nat) : List Edge → Nat → State → Except Fault State
  | [], _, g => .ok g
  | ed :: rest, i, g =>
    match m[ed.src]?, m[ed.tgt]? with
    | some a, some b =>
      if a != g.endv && b != g.endv then
        if maskAt emask i then
          match tryAddEdge g a b (ed.weight + de) with
          | (g', .ok _) => fmEdges emask de m rest (i + 1) g'
          | (_, .error _) => .error .dbg     -- `add_edge` would panic: unreachable, result ≤ source
        else fmEdges emask de m rest (i + 1) g
      else fmEdges emask de m rest (i + 1) g
    | _, _ => .error .oob

/-- `filter_map(|i, w| mask_n[i].then(w + dn), |e, w| mask_e[e].then(w + de))` -/
def filterMap (s : State) (nmask emask : List Bool) (dn de : Nat) : Except Fault State :=
  let (g, m) := fmNodes nmask dn s.nodes 0 (empty s.endv s.directed) []
  fmEdges emask de m s.edges 0 g

/-- `Graph::from(StableGraph::from(g))`: every slot is occupied, so this is the re-insertion of
all nodes and edges in index order -/
def rebuild (s : State) : Except Fault State := filterMap s [] [] 0 0

/-- `g[x] = w` for an edge (`k = true`) or node (`k = false`) index known to be in bounds -/
def putWeight (s : State) (k : Bool) (x w : Nat) : State :=
  if k then
    match s.edges[x]? with
    | some ed => { s with edges := s.edges.set x { ed with weight := w } }
    | none => s
  else
    match s.nodes[x]? with
    | some nd => { s with nodes := s.nodes.set x { nd with weight := w } }
    | none => s

/-- is `x` a live index of kind `k` (edge / node)? -/
def inBounds (s : State) (k : Bool) (x : Nat) : Bool :=
  if k then x < s.edges.length else x < s.nodes.length

/-- `index_twice_mut(i, j)` with node (`false`) / edge (`true`) kinds; `none` = documented panic:
the `assert!` (same kind and equal indices), then the two `index_mut` bounds checks -/
def indexTwiceMut (s : State) (ki kj : Bool) (i j wi wj : Nat) : Option State :=
  if !(ki != kj || i != j) then none
  else if !(inBounds s ki i) || !(inBounds s kj j) then none
  else some (putWeight (putWeight s ki i wi) kj j wj)

/-! ### the operation alphabet of the history-quantified statements -/

inductive Op where
  -- constructors (replace the current graph)
  | new (directed : Bool)                       -- new / new_undirected / with_capacity / default
  | fromEdges (l : List (Nat × Nat × Nat))
  | fromElements (l : List Elem)
  -- mutators
  | addNode (w : Nat) | tryAddNode (w : Nat)
  | addEdge (a b w : Nat) | tryAddEdge (a b w : Nat)
  | updateEdge (a b w : Nat) | tryUpdateEdge (a b w : Nat)
  | removeNode (a : Nat) | removeEdge (e : Nat)
  | nodeWeightMut (a w : Nat) | edgeWeightMut (e w : Nat)      -- also DataMapMut
  | indexMutNode (a w : Nat) | indexMutEdge (e w : Nat)        -- `g[a] = w`
  | indexTwiceMut (ki kj : Bool) (i j wi wj : Nat)
  | bumpNodes (d : Nat) | bumpEdges (d : Nat)                  -- node_weights_mut / edge_weights_mut
  | reverse | clear | clearEdges
  | retainNodes (mask bump : List Bool) | retainEdges (mask bump : List Bool)
  | extendWithEdges (l : List (Nat × Nat × Nat))
  | map (dn de : Nat) | filterMap (nmask emask : List Bool) (dn de : Nat)
  | intoEdgeType (directed : Bool)
  | clone | rebuild | capacityOp
  | walk (a mode : Nat) (bump : Bool)
  -- queries
  | nodeCount | edgeCount | isDirected
  | nodeWeight (a : Nat) | edgeWeight (e : Nat) | indexNode (a : Nat) | indexEdge (e : Nat)
  | edgeEndpoints (e : Nat)
  | findEdge (a b : Nat) | findEdgeUndirected (a b : Nat) | containsEdge (a b : Nat)
  | neighbors (a : Nat) | neighborsDirected (a : Nat) (k : Bool) | neighborsUndirected (a : Nat)
  | edges (a : Nat) | edgesDirected (a : Nat) (k : Bool) | edgesConnecting (a b : Nat)
  | externals (k : Bool) | firstEdge (a : Nat) (k : Bool) | nextEdge (e : Nat) (k : Bool)
  | nodeWeights | edgeRefs
  deriving Repr

inductive Out where
  | unit | panic
  | fault (f : Fault)
  | nat (n : Nat) | bool (b : Bool)
  | optNat (o : Option Nat)
  | res (r : Except GErr Nat)
  | optPair (o : Option (Nat × Nat))
  | optEdgeDir (o : Option (Nat × Bool))
  | nats (l : List Nat)
  | pairs (l : List (Nat × Nat))
  | erefs (l : List ERef)
  deriving Repr

def liftF {α : Type} (s : State) (r : Except Fault α) (f : α → State × Out) : State × Out :=
  match r with
  | .ok v => f v
  | .error e => (s, .fault e)

def setNodeWeight (s : State) (a w : Nat) : Option (State × Nat) :=
  match s.nodes[a]? with
  | some nd => some ({ s with nodes := s.nodes.set a { nd with weight := w } }, nd.weight)
  | none => none

def setEdgeWeight (s : State) (e w : Nat) : Option (State × Nat) :=
  match s.edges[e]? with
  | some ed => some ({ s with edges := s.edges.set e { ed with weight := w } }, ed.weight)
  | none => none

def allERefs (s : State) : List ERef :=
  (List.range s.edges.length).zipWith (fun i e => ⟨i, e.src, e.tgt, e.weight⟩) s.edges

/-- one public call.  A documented panic leaves the state as the real code leaves it. -/
def step (s : State) : Op → State × Out
  | .new d => (empty s.endv d, .unit)
  | .fromEdges l =>
    match extendWithEdges (empty s.endv s.directed) l with
    | (g, true) => (g, .unit)
    | (_, false) => (s, .panic)
  | .fromElements l =>
    match fromElements (empty s.endv s.directed) l with
    | some g => (g, .unit)
    | none => (s, .panic)
  | .addNode w =>
    match tryAddNode s w with
    | (s', some i) => (s', .nat i)
    | (s', none) => (s', .panic)
  | .tryAddNode w =>
    match tryAddNode s w with
    | (s', some i) => (s', .res (.ok i))
    | (s', none) => (s', .res (.error .nodeIxLimit))
  | .addEdge a b w =>
    match tryAddEdge s a b w with
    | (s', .ok e) => (s', .nat e)
    | (s', .error _) => (s', .panic)
  | .tryAddEdge a b w => let (s', r) := tryAddEdge s a b w; (s', .res r)
  | .updateEdge a b w =>
    liftF s (tryUpdateEdge s a b w) fun (s', r) =>
      match r with
      | .ok e => (s', .nat e)
      | .error _ => (s', .panic)
  | .tryUpdateEdge a b w => liftF s (tryUpdateEdge s a b w) fun (s', r) => (s', .res r)
  | .removeNode a => liftF s (removeNode s a) fun (s', o) => (s', .optNat o)
  | .removeEdge e => liftF s (removeEdge s e) fun (s', o) => (s', .optNat o)
  | .nodeWeightMut a w =>
    match setNodeWeight s a w with
    | some (s', old) => (s', .optNat (some old))
    | none => (s, .optNat none)
  | .edgeWeightMut e w =>
    match setEdgeWeight s e w with
    | some (s', old) => (s', .optNat (some old))
    | none => (s, .optNat none)
  | .indexMutNode a w =>
    match setNodeWeight s a w with
    | some (s', _) => (s', .unit)
    | none => (s, .panic)
  | .indexMutEdge e w =>
    match setEdgeWeight s e w with
    | some (s', _) => (s', .unit)
    | none => (s, .panic)
  | .indexTwiceMut ki kj i j wi wj =>
    match indexTwiceMut s ki kj i j wi wj with
    | some s' => (s', .unit)
    | none => (s, .panic)
  | .bumpNodes d => ({ s with nodes := s.nodes.map fun n => { n with weight := n.weight + d } }, .unit)
  | .bumpEdges d => ({ s with edges := s.edges.map fun e => { e with weight := e.weight + d } }, .unit)
  | .reverse => (reverse s, .unit)
  | .clear => (clear s, .unit)
  | .clearEdges => (clearEdges s, .unit)
  | .retainNodes mask bump => liftF s (retainNodes mask bump s.nodes.length s) fun s' => (s', .unit)
  | .retainEdges mask bump => liftF s (retainEdges mask bump s.edges.length s) fun s' => (s', .unit)
  | .extendWithEdges l =>
    match extendWithEdges s l with
    | (s', true) => (s', .unit)
    | (s', false) => (s', .panic)
  | .map dn de => (mapWeights s dn de, .unit)
  | .filterMap nmask emask dn de => liftF s (filterMap s nmask emask dn de) fun s' => (s', .unit)
  | .intoEdgeType d => ({ s with directed := d }, .unit)
  | .clone => (s, .unit)
  | .rebuild => liftF s (rebuild s) fun s' => (s', .unit)
  | .capacityOp => (s, .unit)
  | .walk a mode bump =>
    liftF s (walkAll bump (2 * s.fuel + 1) s (walkerNew s a mode)) fun (s', l) => (s', .pairs l)
  | .nodeCount => (s, .nat s.nodes.length)
  | .edgeCount => (s, .nat s.edges.length)
  | .isDirected => (s, .bool s.directed)
  | .nodeWeight a => (s, .optNat (s.nodes[a]?.map (·.weight)))
  | .edgeWeight e => (s, .optNat (s.edges[e]?.map (·.weight)))
  | .indexNode a =>
    match s.nodes[a]? with
    | some nd => (s, .nat nd.weight)
    | none => (s, .panic)
  | .indexEdge e =>
    match s.edges[e]? with
    | some ed => (s, .nat ed.weight)
    | none => (s, .panic)
  | .edgeEndpoints e => (s, .optPair (s.edges[e]?.map fun ed => (ed.src, ed.tgt)))
  | .findEdge a b => liftF s (findEdge s a b) fun o => (s, .optNat o)
  | .findEdgeUndirected a b => liftF s (findEdgeUndirected s a b) fun o => (s, .optEdgeDir o)
  | .containsEdge a b => liftF s (findEdge s a b) fun o => (s, .bool o.isSome)
  | .neighbors a => liftF s (neighborsDirected s a false) fun l => (s, .nats (l.map (·.2)))
  | .neighborsDirected a k => liftF s (neighborsDirected s a k) fun l => (s, .nats (l.map (·.2)))
  | .neighborsUndirected a => liftF s (neighborsUndirected s a) fun l => (s, .nats (l.map (·.2)))
  | .edges a => liftF s (edgesDirected s a false) fun l => (s, .erefs l)
  | .edgesDirected a k => liftF s (edgesDirected s a k) fun l => (s, .erefs l)
  | .edgesConnecting a b => liftF s (edgesConnecting s a b) fun l => (s, .erefs l)
  | .externals k => (s, .nats (externals s k))
  | .firstEdge a k => (s, .optNat (firstEdge s a k))
  | .nextEdge e k => (s, .optNat (nextEdge s e k))
  | .nodeWeights => (s, .nats (s.nodes.map (·.weight)))
  | .edgeRefs => (s, .erefs (allERefs s))

def run (s : State) : List Op → State × List Out
  | [] => (s, [])
  | op :: ops =>
    let (s1, o) := step s op
    let (s2, os) := run s1 ops
    (s2, o :: os)

end PetgraphModel.G
