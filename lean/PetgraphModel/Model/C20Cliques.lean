import PetgraphModel.Spec.Graph
/-
C20 — mirror model (core Lean only) of `maximal_cliques` / `bron_kerbosch_pivot`
(/repo/src/algo/maximal_cliques.rs).

The real code keeps `R`, `P`, `X` in `HashSet`s, so two things are decided by the hash order and are
NOT part of the algorithm's contract:

* which vertex of maximal degree becomes the pivot `u` (`p.iter().max_by_key(..)`), and
* the order of the vector `todo` (it is collected from `p.iter()`), hence the order in which the
  branches are explored and the order of the returned cliques.

The model abstracts both through an `Oracle`: `pivot r p x` is ANY vertex (the theorems only ask that
it lies in `P ∪ X`; the real code takes it from `P`), `order r l` is ANY permutation of the filtered
list `l`.  Both oracles see `r`, and every call of one run has its own `r`, so every real run is an
instance.  The sets are lists without duplicates: `insert` = cons, `remove` = `erase`,
`intersection(&neighbors)` = `filter (neighbors.contains ·)`.
-/
namespace PetgraphModel.C20.Cliques

/-- what the hash order decides in one run -/
structure Oracle where
  /-- the pivot `u` chosen in the call with the sets `r`, `p`, `x` -/
  pivot : List Nat → List Nat → List Nat → Nat
  /-- the order in which `p.iter().filter(..)` hands out the vertices that are not skipped -/
  order : List Nat → List Nat → List Nat

/-- the oracle answers the real code can give (and more: the real pivot always lies in `p`) -/
structure Oracle.Valid (o : Oracle) : Prop where
  pivot_mem : ∀ r p x, p ≠ [] → o.pivot r p x ∈ p ++ x
  order_perm : ∀ r l, (o.order r l).Perm l

/-- `s.intersection(&neighbors)` -/
def inter (s nbrs : List Nat) : List Nat := s.filter fun w => nbrs.contains w

/-- `while let Some(v) = todo.pop() { … }` with the vertices listed in pop order;
`rec` = the recursive call -/
def loop (nb : Nat → List Nat) (rec : List Nat → List Nat → List Nat → List (List Nat)) (r : List Nat) :
    List Nat → List Nat → List Nat → List (List Nat)
  | [], _, _ => []
  | v :: todo, p, x =>
    let p := p.erase v                                        -- p.remove(&v)
    rec (v :: r) (inter p (nb v)) (inter x (nb v)) ++         -- cliques.extend(bron_kerbosch_pivot(..))
      loop nb rec r todo p (v :: x)                           -- x.insert(v)

/-- `bron_kerbosch_pivot(g, adj_mat, r, p, x)`; `nb v` = `g.neighbors(v)`, `isAdj a b` =
`g.is_adjacent(adj_mat, a, b)`.  The fuel bounds the recursion DEPTH (`p` shrinks in every call, so
`p.length + 1` is enough); without fuel nothing is reported. -/
def bk (nb : Nat → List Nat) (isAdj : Nat → Nat → Bool) (o : Oracle) :
    Nat → List Nat → List Nat → List Nat → List (List Nat)
  | 0, _, _, _ => []
  | f+1, r, p, x =>
    if p.isEmpty then (if x.isEmpty then [r] else [])
    else
      let u := o.pivot r p x
      let todo := o.order r (p.filter fun v => u == v || !isAdj u v || !isAdj v u)
      -- `todo.pop()` takes from the back
      loop nb (bk nb isAdj o f) r todo.reverse p x

/-- `maximal_cliques(g)`: `R = X = ∅`, `P` = all nodes -/
def maximalCliques (g : MGraph) (o : Oracle) (fuel : Nat) : List (List Nat) :=
  bk g.succ (fun a b => decide (g.Adj a b)) o fuel [] g.nodes []

/-- one concrete run: the first vertex of maximal degree is the pivot, `todo` in list order -/
def firstOracle (g : MGraph) : Oracle where
  pivot := fun _ p _ => p.foldl (fun best v => if (g.succ best).length < (g.succ v).length then v else best) (p.headD 0)
  order := fun _ l => l

end PetgraphModel.C20.Cliques
