import Std.Data.HashMap
import PetgraphModel.Model.C20Cliques
import PetgraphModel.GraphProto
/-
C20 (wave 4) — the proved Bron–Kerbosch model (`Model/C20Cliques.lean`) EXECUTED against the real
`maximal_cliques` (core Lean + Std only).

`bron_kerbosch_pivot` keeps `R`, `P`, `X` in randomly seeded `HashSet`s, so the ORDER of the returned
`Vec` cannot be reproduced — but it is not arbitrary either.  It is the report order of SOME run that
follows the code's concrete rule:

* the pivot `u` is a member of `P` whose `g.neighbors(u).count()` is maximal among the members of `P`
  (which of the maximal ones: hash order),
* `todo` = `u` and the non-neighbours of `u` in `P`, explored in some order (hash order),
* a call reports the concatenation of its sub-calls' reports in exploration order; a leaf call
  (`P = ∅`) reports `R` iff `X = ∅`.

`explain g out` SEARCHES for such a run whose report sequence (every clique sorted) is exactly `out`
and returns it as a `Trace` (what the hash order decided in every call of the run, keyed by the
call's `r`); `traceOracle g tr` turns a trace into a `Cliques.Oracle` that is valid AND follows the
concrete rule BY CONSTRUCTION (guards); `replayB g tr out` runs the PROVED model `Cliques.maximalCliques`
under that oracle and compares exactly.  `check g out = none` iff a run was found and it replays.
Soundness of `check` (`Proofs/C20W4CliquesRun.lean`) only needs `replayB`; the search itself carries
no proof obligation, only the engineering obligation to be complete and fast:

* the outcome of a (sub-)call started at position `pos` of `out` is just the set of its possible end
  positions (with one witness trace each);
* inside one call, after the vertices of a set `S ⊆ todo` were explored, `P` and (as a set) `X` are
  determined by `S`: the search is a breadth-first search over the states `(S, pos)`, one layer per
  explored vertex, states that agree on `S` and `pos` are merged — so sub-calls that report nothing
  can be interleaved anywhere without a factorial blow-up, and the edgeless graph (`todo` = all
  nodes) costs one candidate per step because a leaf report must equal `out[pos]`;
* results of calls are memoised on `(r as a set, p, x as a set, pos)`;
* FAST mode (adjacency symmetric and node list duplicate-free — the domain of
  `C20_cliques_model_exact`): by that theorem (`Cliques.bk_claim`) the SET of cliques a call reports
  does not depend on the oracle, so (a) the segment `out[pos .. pos + k)` must be a permutation of
  what the reference run (`Cliques.firstOracle`) reports for this call, else the call is infeasible
  — checked before descending; (b) a call that reports nothing in the reference run reports nothing
  in every run and needs no trace entries; (c) the end position is unique, so the first pivot that
  works is enough.  Outside that domain none of the three shortcuts is taken (complete search).
-/
namespace PetgraphModel.C20.CliquesRun
open PetgraphModel PetgraphModel.C20

/-- what the hash order decided in the calls of one run: `(r, pivot, todo)` with `r` exactly as
`Cliques.bk` passes it (`v :: r`), `todo` = the vector that is popped from the back -/
abbrev Trace := List (List Nat × Nat × List Nat)

/-! ### the oracle of a trace (guarded: valid and rule-conforming for EVERY trace) -/

/-- `u` is a member of `p` of maximal `neighbors(..).count()` — the code's pivot rule -/
def pivotOkB (g : MGraph) (p : List Nat) (u : Nat) : Bool :=
  p.contains u && p.all fun v => decide ((g.succ v).length ≤ (g.succ u).length)

/-- pivot/order as recorded for the call `r`; anything that is not a legal answer of the real code
for the actual `p` / `l` is replaced by the reference answer -/
def traceOracle (g : MGraph) (tr : Trace) : Cliques.Oracle where
  pivot := fun r p x =>
    match tr.lookup r with
    | some (u, _) => if pivotOkB g p u then u else (Cliques.firstOracle g).pivot r p x
    | none => (Cliques.firstOracle g).pivot r p x
  order := fun r l =>
    match tr.lookup r with
    | some (_, ord) => if ord.isPerm l then ord else l
    | none => l

/-- the run described by `tr`, replayed through the proved model, reports exactly `out` -/
def replayB (g : MGraph) (tr : Trace) (out : List (List Nat)) : Bool :=
  (Cliques.maximalCliques g (traceOracle g tr) (g.nodes.length + 1)).map sortNats == out

/-- diagnostic: along the replay of `tr`, every call that has a trace entry uses it verbatim (no
guard of `traceOracle` fires).  Same recursion as `Cliques.bk`. -/
def ruleLoop (nb : Nat → List Nat) (rec : List Nat → List Nat → List Nat → Bool) (r : List Nat) :
    List Nat → List Nat → List Nat → Bool
  | [], _, _ => true
  | v :: todo, p, x =>
    let p := p.erase v
    rec (v :: r) (Cliques.inter p (nb v)) (Cliques.inter x (nb v)) && ruleLoop nb rec r todo p (v :: x)

def ruleRun (g : MGraph) (tr : Trace) : Nat → List Nat → List Nat → List Nat → Bool
  | 0, _, _, _ => true
  | f+1, r, p, x =>
    if p.isEmpty then true else
    let o := traceOracle g tr
    let u := o.pivot r p x
    let l := p.filter fun v => u == v || !decide (g.Adj u v) || !decide (g.Adj v u)
    let here := match tr.lookup r with
      | some (u', ord) => pivotOkB g p u' && ord.isPerm l
      | none => true
    here && ruleLoop g.succ (ruleRun g tr f) r (o.order r l).reverse p x

def concreteRuleB (g : MGraph) (tr : Trace) : Bool := ruleRun g tr (g.nodes.length + 1) [] g.nodes []

/-! ### the search -/

/-- possible end positions of a call, one witness each; the keys of a witness are RELATIVE to the
call's `r` (key `k` stands for `k ++ r`), so that memoised results can be shared between calls whose
`r` differ in order only -/
abbrev Ends := List (Nat × Trace)
abbrev Key := List Nat × List Nat × List Nat × Nat
abbrev Memo := Std.HashMap Key Ends
abbrev Rec := List Nat → List Nat → List Nat → Nat → Memo → Ends × Memo

structure Ctx where
  g : MGraph
  out : Array (List Nat)
  /-- `g.succ` tabulated for small ids -/
  nbArr : Array (List Nat)
  fast : Bool

def Ctx.nb (C : Ctx) (v : Nat) : List Nat := if h : v < C.nbArr.size then C.nbArr[v] else C.g.succ v
def Ctx.isAdj (C : Ctx) (a b : Nat) : Bool := (C.nb a).contains b
def Ctx.deg (C : Ctx) (v : Nat) : Nat := (C.nb v).length

/-- adjacency is symmetric -/
def symB (g : MGraph) : Bool :=
  g.directed == false || g.edges.all fun e => (g.succ e.tgt).contains e.src

def nodupB : List Nat → Bool
  | [] => true
  | a :: l => !l.contains a && nodupB l

def mkCtx (g : MGraph) (out : List (List Nat)) : Ctx :=
  let bound := g.nodes.foldl (fun m v => max m (v + 1)) 0
  { g := g, out := out.toArray,
    nbArr := if bound ≤ 4096 then (Array.range bound).map g.succ else #[],
    fast := symB g && nodupB g.nodes }

/-- a state of the search inside one call: the set of explored `todo` vertices (as a sublist of the
candidates, canonical), the position reached, the exploration so far (last first = the `todo` vector
of the explored part) and a witness -/
structure BState where
  S : List Nat
  pos : Nat
  ex : List Nat
  tr : Trace

def addState (l : List BState) (s : BState) : List BState :=
  if l.any (fun t => t.pos == s.pos && t.S == s.S) then l else s :: l

/-- all ways to explore one more vertex from the state `st` -/
def expandState (C : Ctx) (rec : Rec) (r p x cand : List Nat) (st : BState) :
    List Nat → List BState → Memo → List BState × Memo
  | [], acc, m => (acc, m)
  | v :: vs, acc, m =>
    if st.ex.contains v then expandState C rec r p x cand st vs acc m else
    let pcur := (p.filter fun w => !st.ex.contains w).erase v
    let nbv := C.nb v
    let (es, m) := rec (v :: r) (Cliques.inter pcur nbv) (Cliques.inter (st.ex ++ x) nbv) st.pos m
    let S' := cand.filter fun w => w == v || st.S.contains w
    let acc := es.foldl (fun acc (e : Nat × Trace) =>
      addState acc { S := S', pos := e.1, ex := v :: st.ex,
                     tr := e.2.map (fun en => (en.1 ++ [v], en.2)) ++ st.tr }) acc
    expandState C rec r p x cand st vs acc m

def expandLayer (C : Ctx) (rec : Rec) (r p x cand : List Nat) :
    List BState → List BState → Memo → List BState × Memo
  | [], acc, m => (acc, m)
  | st :: sts, acc, m =>
    let (acc, m) := expandState C rec r p x cand st cand acc m
    expandLayer C rec r p x cand sts acc m

def runLayers (C : Ctx) (rec : Rec) (r p x cand : List Nat) :
    Nat → List BState → Memo → List BState × Memo
  | 0, layer, m => (layer, m)
  | k+1, layer, m =>
    if layer.isEmpty then ([], m) else
    let (next, m) := expandLayer C rec r p x cand layer [] m
    runLayers C rec r p x cand k next m

/-- every admissible pivot (the candidates `todo` sets that were already tried are skipped: the pivot
matters only through its `todo` set) -/
def tryPivots (C : Ctx) (rec : Rec) (r p x : List Nat) (pos : Nat) :
    List Nat → List (List Nat) → Ends → Memo → Ends × Memo
  | [], _, acc, m => (acc, m)
  | u :: us, seen, acc, m =>
    let cand := p.filter fun v => u == v || !C.isAdj u v || !C.isAdj v u
    if seen.contains cand then tryPivots C rec r p x pos us seen acc m else
    let (fin, m) := runLayers C rec r p x cand cand.length [{ S := [], pos := pos, ex := [], tr := [] }] m
    let acc := fin.foldl (fun acc st =>
      if acc.any (·.1 == st.pos) then acc else (st.pos, ([], u, st.ex) :: st.tr) :: acc) acc
    if C.fast && !acc.isEmpty then (acc, m) else tryPivots C rec r p x pos us (cand :: seen) acc m

/-- the possible end positions of the call `(r, p, x)` whose first report (if any) is `out[pos]` -/
def search (C : Ctx) : Nat → Rec
  | 0, _, _, _, _, m => ([], m)
  | f+1, r, p, x, pos, m =>
    if p.isEmpty then
      if x.isEmpty then
        (if C.out[pos]? == some (sortNats r) then [(pos + 1, [])] else [], m)
      else ([(pos, [])], m)
    else
      let key : Key := (sortNats r, p, sortNats x, pos)
      match m.get? key with
      | some e => (e, m)
      | none =>
        let maxd := p.foldl (fun d v => max d (C.deg v)) 0
        let pivots := p.filter fun v => C.deg v == maxd
        let go : Unit → Ends × Memo := fun _ => tryPivots C (search C f) r p x pos pivots [] [] m
        let (e, m) :=
          if C.fast then
            let ref := (Cliques.bk C.nb C.isAdj (Cliques.firstOracle C.g) (f + 1) r p x).map sortNats
            let seg := (C.out.extract pos (pos + ref.length)).toList
            if seg.length == ref.length && ref.isPerm seg then
              (if ref.isEmpty then ([(pos, [])], m) else go ())
            else ([], m)
          else go ()
        (e, m.insert key e)

/-- a run of `Cliques.bk` under the code's concrete rule that reports exactly `out` (cliques sorted),
if there is one -/
def explain (g : MGraph) (out : List (List Nat)) : Option Trace :=
  let C := mkCtx g out
  let (es, _) := search C (g.nodes.length + 1) [] g.nodes [] 0 {}
  (es.find? (·.1 == out.length)).map (·.2)

/-- `none`: some run of the proved model under the code's pivot rule reports exactly `out` -/
def check (g : MGraph) (out : List (List Nat)) : Option String :=
  match explain g out with
  | none => some "no run of the Bron-Kerbosch model with a maximum-degree pivot from P reports the cliques in this order"
  | some tr =>
    if replayB g tr out then none
    else some "internal: the run found by the search does not replay through the model"

end PetgraphModel.C20.CliquesRun
