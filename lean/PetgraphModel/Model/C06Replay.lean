import PetgraphModel.Model.C06Views
import PetgraphModel.Extracted.Csr
/-
C06 (wave 5) — REPLAY of the operation history of a base graph on the storage mirror of the vertical that owns
the storage type.

`harness/src/c06.rs` prints every constructor / mutating call of a case in the REQUEST SYNTAX of the owning
vertical (C01 `Graph`, C02 `StableGraph`, C03 `GraphMap`, C04 `MatrixGraph`, C05 `Csr` and `adj::List`).  This file
parses such a request into the `Op` type of that vertical's mirror model (`parseReq`) and executes it with that
model's own `step` function (`Store.exec`; the Model files are imported, nothing is copied).  `Store.table` is the
visit-trait table computed from the mirror state by `Model/C06Views.lean`; the driver compares it EXACTLY with the
table dumped from the real graph after the same call.

`Store.exec` refuses (`Except.error`) a request outside the scope of the `C06_consistent_<Type>` theorems — the
executable side conditions `matrixValidB`, `csrInitOkB` (Theorems/C06.lean, "run-time checks of the hypotheses",
proves that what is accepted is inside the scope) — and a model fault (unreachable under the invariants).
Core Lean only.
-/
namespace PetgraphModel.C06R
open PetgraphModel PetgraphModel.Visit

/-- the mirror state of the case's base graph -/
inductive Store where
  | graph (s : G.State)
  | stable (s : SG.State)
  | map (s : GM.State)
  | matrix (s : Matrix.State)
  | csr (s : CsrM.State)
  | list (s : AdjM.State)

/-- the visit-trait table of the base graph, computed from the mirror state -/
def Store.table : Store → Table
  | .graph s => graphTable s
  | .stable s => stableTable s
  | .map s => graphMapTable s
  | .matrix s => matrixTable s
  | .csr s => csrTable s
  | .list s => adjListTable s

/-- the query nodes of the dump: the type's `node_identifiers()` -/
def Store.qs : Store → List Nat
  | .graph s => List.range s.nodes.length
  | .stable s => SG.nodeIndices s
  | .map s => GM.nodesOf s
  | .matrix s => s.nodes.ids
  | .csr s => CsrM.nodeIdentifiers s
  | .list s => AdjM.nodeIndices s

/-- the type parameters the harness instantiates (`harness/src/c06.rs`): `Graph`/`StableGraph<i32, i32, Ty, u32>`
(debug or release build), `GraphMap<u32, i32, Ty>`, `MatrixGraph<i32, i32, _, Ty, Option<i32>, u16>`, `Csr<i32, i32, Ty, u32>`,
`adj::List<i32, u32>` -/
def u32Max : Nat := 4294967295
def u16Max : Nat := 65535
def u32Modulus : Nat := 4294967296

/-- `dbg`: the build profile of the harness (`debug_assert!`s on / off; a parameter of the C02 and C05 mirrors) -/
def Store.init (ty : String) (dir : Bool) (dbg : Bool := true) : Option Store :=
  match ty with
  | "graph" => some (.graph (G.empty u32Max dir))
  | "stable" => some (.stable (SG.empty dir u32Max false dbg))
  | "map" => some (.map (GM.State.empty dir))
  | "matrix" => some (.matrix { dir := dir, nz := false, ixMax := u16Max })
  | "csr" => some (.csr (CsrM.new dir u32Modulus Extracted.Csr.cutoff dbg))
  | "list" => some (.list (AdjM.new u32Modulus))
  | _ => none

/-- a parsed request: a constructor of the case's type, or a call of the owning vertical's `Op` alphabet -/
inductive Req where
  | gOp (o : G.Op)
  | sNew | sOp (o : SG.Op)
  | mNew | mOp (o : GM.Op)
  | xNew (k : Nat) | xOp (o : Matrix.Op)
  | cNew | cWithNodes (n : Nat) | cFromSorted (es : List CsrM.Edge) | cOp (o : CsrM.Op)
  | lNew | lOp (o : AdjM.Op)

def pNat (s : String) : Option Nat := s.toNat?
def pInt (s : String) : Option Int := s.toInt?

/-- `a:b:w;a:b:w` (`-` = empty): the edge list syntax of C05's `from_sorted` -/
def pEdges (s : String) : Option (List (Nat × Nat × Int)) :=
  if s == "-" || s == "" then some []
  else (s.splitOn ";").mapM fun r =>
    match r.splitOn ":" with
    | [a, b, w] =>
      match a.toNat?, b.toNat?, w.toInt? with
      | some a, some b, some w => some (a, b, w)
      | _, _, _ => none
    | _ => none

/-- C01 request syntax (`Driver/C01.lean`) -/
def parseGraph (dir : Bool) : List String → Option Req
  | ["new", _] => some (.gOp (.new dir))
  | ["add_node", w] => (pNat w).map fun w => .gOp (.addNode w)
  | ["add_edge", a, b, w] => do some (.gOp (.addEdge (← pNat a) (← pNat b) (← pNat w)))
  | ["update_edge", a, b, w] => do some (.gOp (.updateEdge (← pNat a) (← pNat b) (← pNat w)))
  | ["remove_node", a] => (pNat a).map fun a => .gOp (.removeNode a)
  | ["remove_edge", e] => (pNat e).map fun e => .gOp (.removeEdge e)
  | ["node_weight_mut", a, w] => do some (.gOp (.nodeWeightMut (← pNat a) (← pNat w)))
  | ["edge_weight_mut", e, w] => do some (.gOp (.edgeWeightMut (← pNat e) (← pNat w)))
  | ["reverse"] => some (.gOp .reverse)
  | ["clear"] => some (.gOp .clear)
  | ["clear_edges"] => some (.gOp .clearEdges)
  | _ => none

/-- C02 request syntax (`Driver/C02.lean`) -/
def parseStable : List String → Option Req
  | ["new", _] => some .sNew
  | ["add_node", w] => (pInt w).map fun w => .sOp (.addNode w)
  | ["add_edge", a, b, w] => do some (.sOp (.addEdge (← pNat a) (← pNat b) (← pInt w)))
  | ["update_edge", a, b, w] => do some (.sOp (.updateEdge (← pNat a) (← pNat b) (← pInt w)))
  | ["remove_node", a] => (pNat a).map fun a => .sOp (.removeNode a)
  | ["remove_edge", e] => (pNat e).map fun e => .sOp (.removeEdge e)
  | ["node_weight_mut", a, w] => do some (.sOp (.setNodeWeight (← pNat a) (← pInt w)))
  | ["edge_weight_mut", e, w] => do some (.sOp (.setEdgeWeight (← pNat e) (← pInt w)))
  | ["reverse"] => some (.sOp .reverse)
  | ["clear"] => some (.sOp .clear)
  | ["clear_edges"] => some (.sOp .clearEdges)
  | _ => none

/-- C03 request syntax (`Driver/C03.lean`) -/
def parseMap : List String → Option Req
  | "init" :: _ => some .mNew
  | ["add_node", a] => (pNat a).map fun a => .mOp (.addNode a)
  | ["add_edge", a, b, w] => do some (.mOp (.addEdge (← pNat a) (← pNat b) (← pNat w)))
  | ["remove_node", a] => (pNat a).map fun a => .mOp (.removeNode a)
  | ["remove_edge", a, b] => do some (.mOp (.removeEdge (← pNat a) (← pNat b)))
  | ["clear"] => some (.mOp .clear)
  | _ => none

/-- C04 request syntax (`Driver/C04.lean`) -/
def parseMatrix : List String → Option Req
  | ["new", "default"] => some (.xNew 0)
  | ["new", "with_capacity", k] => (pNat k).map .xNew
  | ["add_node", w] => (pInt w).map fun w => .xOp (.addNode w)
  | ["add_edge", a, b, w] => do some (.xOp (.addEdge (← pNat a) (← pNat b) (← pInt w)))
  | ["update_edge", a, b, w] => do some (.xOp (.updateEdge (← pNat a) (← pNat b) (← pInt w)))
  | ["remove_node", a] => (pNat a).map fun a => .xOp (.removeNode a)
  | ["remove_edge", a, b] => do some (.xOp (.removeEdge (← pNat a) (← pNat b)))
  | ["clear"] => some (.xOp .clear)
  | _ => none

/-- C05 request syntax, `Csr` (`Driver/C05.lean`, `stepCsr`) -/
def parseCsr : List String → Option Req
  | ["new"] => some .cNew
  | ["with_nodes", n] => (pNat n).map .cWithNodes
  | ["from_sorted", es] => (pEdges es).map .cFromSorted
  | ["add_node", w] => (pInt w).map fun w => .cOp (.addNode w)
  | ["add_edge", a, b, w] => do some (.cOp (.addEdge (← pNat a) (← pNat b) (← pInt w)))
  | ["clear_edges"] => some (.cOp .clearEdges)
  | _ => none

/-- C05 request syntax, `adj::List` (`Driver/C05.lean`, `stepList`) -/
def parseList : List String → Option Req
  | ["new"] => some .lNew
  | ["add_node"] => some (.lOp .addNode)
  | ["add_node_cap", _] => some (.lOp .addNode)
  | ["add_edge", a, b, w] => do some (.lOp (.addEdge (← pNat a) (← pNat b) (← pInt w)))
  | ["update_edge", a, b, w] => do some (.lOp (.updateEdge (← pNat a) (← pNat b) (← pInt w)))
  | ["clear"] => some (.lOp .clear)
  | _ => none

def parseReq (ty : String) (dir : Bool) (req : List String) : Option Req :=
  match ty with
  | "graph" => parseGraph dir req
  | "stable" => parseStable req
  | "map" => parseMap req
  | "matrix" => parseMatrix req
  | "csr" => parseCsr req
  | "list" => parseList req
  | _ => none

/-! ### run-time checks of the side conditions of the storage theorems -/

/-- C04's quantifier (`MatrixProofs.Valid`): an edge-writing call names two live nodes -/
def matrixValidB (s : Matrix.State) : Matrix.Op → Bool
  | .addEdge a b _ | .updateEdge a b _ | .tryUpdateEdge a b _ | .addOrUpdateEdge a b _
  | .buildAddEdge a b _ | .buildUpdateEdge a b _ => (s.nodes.get a).isSome && (s.nodes.get b).isSome
  | .setEdgeWeight _ _ w => !s.nz || w != 0
  | _ => true

/-- `Csr`: the node count of a freshly constructed graph fits the index type (`CsrW2.IxFits`) -/
def csrIxFitsB (s : CsrM.State) : Bool := s.modulus == 0 || decide (s.nodeCount ≤ s.modulus)

/-! ### execution -/

def outOfScope (what : String) : Except String Store := .error s!"out of scope: {what}"
def modelFault (what : String) : Except String Store := .error s!"model fault: {what}"

/-- one request on the mirror: the owning vertical's `step` (or constructor) -/
def Store.exec : Store → Req → Except String Store
  | .graph s, .gOp o =>
    match G.step s o with
    | (_, .fault _) => modelFault "Graph"
    | (s', _) => .ok (.graph s')
  | .stable s, .sNew => .ok (.stable (SG.empty s.directed s.fin s.noLimit s.debug))
  | .stable s, .sOp o =>
    match SG.step s o with
    | .ok (s', _) => .ok (.stable s')
    | .error _ => modelFault "StableGraph"
  | .map s, .mNew => .ok (.map (GM.State.empty s.directed))
  | .map s, .mOp o => .ok (.map (GM.step s o).1)
  | .matrix s, .xNew k =>
    match Matrix.withCapacity s.dir s.nz s.ixMax k with
    | .ok s' => .ok (.matrix s')
    | .error _ => modelFault "MatrixGraph::with_capacity"
  | .matrix s, .xOp o =>
    if matrixValidB s o then
      match Matrix.step s o with
      | (_, .fault _) => modelFault "MatrixGraph"
      | (s', _) => .ok (.matrix s')
    else outOfScope "MatrixGraph edge-writing call between nodes that are not both live"
  | .csr s, .cNew => .ok (.csr (CsrM.new s.directed s.modulus s.cutoff s.debug))
  | .csr s, .cWithNodes n =>
    let s' := CsrM.withNodes s.directed s.modulus s.cutoff s.debug n
    if csrIxFitsB s' then .ok (.csr s') else outOfScope "Csr::with_nodes beyond the index type"
  | .csr s, .cFromSorted es =>
    if s.directed then
      match CsrM.fromSortedEdges s.modulus s.cutoff s.debug es with
      | .ok s' => if csrIxFitsB s' then .ok (.csr s') else outOfScope "Csr::from_sorted_edges beyond the index type"
      | .error _ => outOfScope "Csr::from_sorted_edges on an unsorted list"
    else outOfScope "Csr::from_sorted_edges on an undirected Csr"
  | .csr s, .cOp o => .ok (.csr (CsrM.step s o).1)
  | .list s, .lNew => .ok (.list (AdjM.new s.modulus))
  | .list s, .lOp o =>
    match o with
    | .addNodeFromEdges _ => outOfScope "adj::List::add_node_from_edges"
    | _ => .ok (.list (AdjM.step s o).1)
  | _, _ => .error "request of another storage type"

end PetgraphModel.C06R
