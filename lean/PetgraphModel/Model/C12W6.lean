import PetgraphModel.Model.C12W4
/-
C12, wave 6 — the corners (core Lean only; linked into the driver).

1. `MaxScored::cmp` (`/repo/src/scored.rs`) transcribed branch by branch, next to the C10
   transcription of `MinScored::cmp`; the expected answer of EVERY comparison operator of the two
   types on one pair of scores (`mscmp` lines).
2. float weights that are not numbers: the `sw=` field of a `graph` line replaces the weight of the
   named edges by the KEY of the score (`scoreKey`: NaN is the greatest key, as `MinScored` documents —
   "so that it is last in the MinScore order").  A minimum spanning forest depends on the ORDER of
   the weights only (`Theorems/C12.lean`: `C12_msf_order_invariant`), so judging keys judges scores.
3. views of adaptors with open findings: `inc=` lists the entries of `edges(a)` whose source is not
   `a` (D23 `UndirectedAdaptor`, D6 `Reversed(&MatrixGraph)`).  `min_spanning_tree_prim` pushes
   `(source, target)` of every such entry; its target `a` is already taken when it is popped, so for
   Prim the entry behaves as a self-loop at `a` — `primView` (exactly what the iterator sees).
   `UndirectedAdaptor` lists a self-loop twice (D23): `dedupLoops` is the view without the repeats.
4. what `GraphMap::<_, _, Undirected>::from_elements` builds from a forest stream.
-/
namespace PetgraphModel.MstModel
open PetgraphModel

/-! ### 1. the two orders of `scored.rs` -/

/-- `impl Ord for MaxScored`: `cmp` transcribed branch by branch -/
def maxScoredCmp {α : Type} (eq lt : α → α → Bool) (a b : α) : SP.Ord3 :=
  if eq a b then .equal
  else if lt a b then .less
  else if lt b a then .greater
  else if !(eq a a) && !(eq b b) then .equal
  else if !(eq a a) then .less
  else .greater

def maxCmp (a b : SP.Score) : SP.Ord3 := maxScoredCmp SP.Score.eq SP.Score.lt a b

/-- the key that orders scores like `MaxScored`: NaN is the LEAST key (popped last from a max-heap) -/
def maxKey : SP.Score → Int
  | .ninf => -bigKey
  | .fin x => x
  | .pinf => bigKey
  | .nan => -(bigKey + 1)

def cmpInt (x y : Int) : SP.Ord3 := if x < y then .less else if x = y then .equal else .greater

def showOrd : SP.Ord3 → String
  | .less => "l"
  | .equal => "e"
  | .greater => "g"

def b01 (b : Bool) : String := if b then "1" else "0"

/-- the answer of a `mscmp` line, from the value `c` of `a.cmp(&b)`: `partial_cmp` is `Some(cmp)`,
`eq` is `cmp == Equal`, the operators `< <= > >=` come from `partial_cmp`, `Ord::max` returns the
second argument unless the first is greater, `Ord::min` the first unless it is greater -/
def cmpAnswer (c : SP.Ord3) : String :=
  s!"cmp={showOrd c} pcmp={showOrd c} eq={b01 (c == .equal)} ne={b01 (c != .equal)} lt={b01 (c == .less)} le={b01 (c != .greater)} gt={b01 (c == .greater)} ge={b01 (c != .less)} max={if c == .greater then "a" else "b"} min={if c == .greater then "b" else "a"}"

/-! ### 2. special weights -/

def parseScore (s : String) : Option SP.Score :=
  if s == "nan" then some .nan
  else if s == "inf" then some .pinf
  else if s == "-inf" then some .ninf
  else s.toInt?.map .fin

/-- `sw=<eid>:<score>;…` -/
def parseSW (s : String) : List (Nat × SP.Score) :=
  if s == "-" || s == "" then [] else
  (s.splitOn ";").filterMap fun t =>
    match t.splitOn ":" with
    | [k, x] => match k.toNat?, parseScore x with
      | some k, some x => some (k, x)
      | _, _ => none
    | _ => none

def reweighEdge (sw : List (Nat × SP.Score)) (e : Edge) : Edge :=
  match sw.lookup e.id with
  | some x => { e with w := scoreKey x }
  | none => e

def applySW (sw : List (Nat × SP.Score)) (v : View) : View :=
  let g := v.g
  { v with g := { g with edges := g.edges.map (reweighEdge sw) } }

/-! ### 3. views of adaptors with open findings -/

/-- `inc=<a>:<i>.<j>;…` -/
def parseInc (s : String) : List (Nat × List Nat) :=
  if s == "-" || s == "" then [] else
  (s.splitOn ";").filterMap fun t =>
    match t.splitOn ":" with
    | [a, l] => a.toNat?.map fun a => (a, (l.splitOn ".").filterMap (·.toNat?))
    | _ => none

def mapIdx {α β : Type} (f : Nat → α → β) : Nat → List α → List β
  | _, [] => []
  | i, x :: xs => f i x :: mapIdx f (i + 1) xs

/-- what Prim sees: a flagged entry of the row of `a` acts as a self-loop at `a` -/
def primView (inc : List (Nat × List Nat)) (v : View) : View :=
  { v with out := v.out.map fun (a, row) =>
      let fl := (inc.lookup a).getD []
      (a, mapIdx (fun i oe => if fl.contains i then (a, oe.2) else oe) 0 row) }

/-- drop the repeated listings of self-loops from a row -/
def dedupRow (a : Nat) : List Nat → List (Nat × Nat) → List (Nat × Nat)
  | _, [] => []
  | seen, oe :: rest =>
    if oe.1 == a && seen.contains oe.2 then dedupRow a seen rest
    else oe :: dedupRow a (if oe.1 == a then oe.2 :: seen else seen) rest

def dedupLoops (v : View) : View :=
  { v with out := v.out.map fun (a, row) => (a, dedupRow a [] row) }

def loopsRepeated (v : View) : Bool :=
  v.out.any fun (a, row) => (dedupRow a [] row).length != row.length

/-! ### 4. `GraphMap::<usize, W, Undirected>::from_elements` on a forest stream

`from_elements_indexable`: `add_node(weight)` per node element (the node IS its weight), then
`add_edge(from_index(s), from_index(t), w)`; an undirected `GraphMap` stores the edge under the key
`(min, max)`, and `all_edges` lists the keys in insertion order.  With distinct node weights and no
two edge elements on the same unordered pair (a forest has neither), the map holds the stream. -/
def mapEdges (ns : List Nat) (es : List EdgeEl) : Option (List (Nat × Nat × Int)) :=
  es.mapM fun e => match ns[e.s]?, ns[e.t]? with
    | some a, some b => some (if a ≤ b then (a, b, e.w) else (b, a, e.w))
    | _, _ => none

end PetgraphModel.MstModel
