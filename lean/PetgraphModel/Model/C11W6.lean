import PetgraphModel.Model.C11Checks
/-
C11, wave 6 (core Lean only; linked into the driver) — the corners of the property:

* all fourteen `BoundedMeasure` cost types (`Meas.ofBits`, `Meas.f32`) and the range `±2^24` in which `f32`
  represents and adds integers exactly (`Meas.exactF32`; `bellman_ford::<f32>`, `spfa::<f32>`, …);
* the unsigned cost types: the model theorems need `min() ≤ −L·Wm`, which no unsigned type satisfies; for
  non-negative costs (`nonnegB`) the models do not depend on `min()` at all (`Proofs/C11W6.lean`:
  `spfa_min_irrelevant`, `floyd_min_irrelevant`), so the driver checks the width hypotheses for the signed
  twin `Meas.twin` (same `max()`);
* the *effective view* of a graph adaptor whose edge references report the wrong endpoints (open findings
  D23: `UndirectedAdaptor::edges` keeps the orientation of incoming edges; D6 seen through `Reversed`:
  `MatrixGraph::edges_directed(_, Incoming)` swaps the endpoints): the algorithms relax `edge.target()`,
  which for such an entry is the node itself — `effView` is the graph those references describe.  The
  driver uses it to classify a wrong answer as KNOWN (only if it is the right answer for `effView`).
-/
namespace PetgraphModel.C11M
open PetgraphModel

/-- `max()` / `min()` of the integer types -/
def Meas.ofBits (signed : Bool) (bits : Nat) : Meas :=
  if signed then ⟨2^(bits-1) - 1, -(2^(bits-1))⟩ else ⟨2^bits - 1, 0⟩

/-- `f32::MAX = 2^128 − 2^104`, `f32::MIN = −f32::MAX` -/
def Meas.f32 : Meas := ⟨2^128 - 2^104, -(2^128 - 2^104)⟩

/-- the integers `f32` represents exactly and adds exactly (while the sum stays in the range) -/
def Meas.exactF32 : Meas := ⟨2^24, -(2^24)⟩

/-- the signed type with the same `max()` -/
def Meas.twin (B : Meas) : Meas := ⟨B.max, -B.max - 1⟩

/-- no edge has a negative cost -/
def nonnegB (g : MGraph) : Bool := g.edges.all fun e => decide (0 ≤ e.w)

/-- `bellman_ford::<f32>`: every label and candidate sum is an integer below `2^24` -/
def fitBf32B (v : View) : Bool := fitsB Meas.exactF32 (bfLenC v) (maxAbsW v.g)

/-! ### effective views -/

/-- the out-lists as the algorithms see them through the adaptor: `(edge.target(), edge id)` -/
def effOut (q : String) (v : View) : List (Nat × List (Nat × Nat)) :=
  v.out.map fun ar => (ar.1, ar.2.map fun te =>
    if q == "d6" then (ar.1, te.2)
    else match v.edge? te.2 with
      | some e => if e.src == ar.1 then te else (ar.1, te.2)
      | none => te)

/-- number the entries of one row from `k` on -/
def effRow (v : View) (a : Nat) : List (Nat × Nat) → Nat → List (Nat × Nat) × List Edge
  | [], _ => ([], [])
  | te :: rest, k =>
    let r := effRow v a rest (k + 1)
    ((te.1, k) :: r.1, ⟨k, a, te.1, v.weight te.2⟩ :: r.2)

def effRows (v : View) : List (Nat × List (Nat × Nat)) → Nat → List (Nat × List (Nat × Nat)) × List Edge
  | [], _ => ([], [])
  | ar :: rest, k =>
    let r := effRow v ar.1 ar.2 k
    let rs := effRows v rest (k + ar.2.length)
    ((ar.1, r.1) :: rs.1, r.2 ++ rs.2)

/-- the directed graph (and its view) that the edge references of the adaptor describe -/
def effView (q : String) (v : View) : View :=
  let r := effRows v (effOut q v) 0
  { g := { directed := true, nodes := v.g.nodes, edges := r.2 }, nb := v.nb, ix := v.ix, out := r.1, inn := [] }

end PetgraphModel.C11M
