import PetgraphModel.Model.VisitTable
import PetgraphModel.Model.GraphMap
import PetgraphModel.Model.Csr
import PetgraphModel.Model.Graph
import PetgraphModel.Model.AdjList
import PetgraphModel.Model.Matrix
import PetgraphModel.Model.StableGraph
import PetgraphModel.Extracted.AdjWidth
/-
C06 (wave 2) — the TABLE of `visit`-trait answers computed from a STORAGE MODEL.

For every storage model `<type>Table : <ModelState> → Visit.Table` fills every field of the table the way
`harness/src/c06.rs` (`table!`) fills it from the real crate: one field per trait method, computed with the
model's own query functions as the Rust trait impl computes it with the type's inherent methods.  The query
nodes are the type's `node_identifiers()`, the queried edge ids (`EdgeIndexable`) its own edge ids.
A field is `none` where the type does not implement the trait (`na` in the driver's format).

Identifier codes are the harness's (`NId`, `EId` in harness/src/c06.rs): a node is its raw id, a pair edge id
`(a, b)` is `pcode a b` (`pcode min max` for the undirected pair-id types; `Visit.pcode` is injective on all pairs),
weights are integers.
Core Lean only.
-/
namespace PetgraphModel.Visit
open PetgraphModel

/-- `EId for (A, A)`: `pcode a b`, canonicalised to `pcode min max` when `sym` -/
def pairCode (sym : Bool) (a b : Nat) : Nat :=
  if sym && decide (b < a) then pcode b a else pcode a b

/-- one row per query node -/
def rowsOver {α : Type} (qs : List Nat) (f : Nat → List α) : Rows α := qs.map fun q => (q, f q)

/-! ### `GraphMap<N, E, Ty, S>` (src/graphmap.rs:1130-1361) -/

namespace GMView
open PetgraphModel.GM

/-- `NodeIndexable::to_index`: `self.nodes.get_index_of(&ix).expect(..)` (the `expect` cannot fail on a query
node: `C06_consistent_GraphMap` proves the recorded index is below the bound and round-trips) -/
def toIndex (s : State) (n : Nat) : Nat := (IMap.indexOf? s.nodes n).getD 0
/-- `NodeIndexable::from_index`: the key at position `ix` -/
def fromIndex (s : State) (i : Nat) : Nat := (s.nodes[i]?.map (·.1)).getD 0
/-- `EdgeIndexable::to_index` / `from_index` on the edge map -/
def edgeToIndex (s : State) (k : EKey) : Nat := (IMap.indexOf? s.edges k).getD 0
def edgeFromIndex (s : State) (i : Nat) : EKey := (s.edges[i]?.map (·.1)).getD (0, 0)

/-- an edge reference `(N, N, &E)`: `id() = (source, target)` (src/visit/mod.rs, `EdgeRef for (N, N, &E)`);
the looked-up weight of `Edges`/`EdgesDirected` is present in every reachable state (`C03_no_internal_panic`) -/
def eref (s : State) (x : Nat × Nat × Option Nat) : ERef :=
  ⟨pairCode (!s.directed) x.1 x.2.1, x.1, x.2.1, ((x.2.2.getD 0 : Nat) : Int)⟩

end GMView

open GMView in
def graphMapTable (s : GM.State) : Table :=
  let qs := GM.nodesOf s                                    -- `g.nodes()`
  let qe : List GM.EKey := (GM.allEdges s).map fun e => (e.1, e.2.1)   -- `g.all_edges().map(|(a, b, _)| (a, b))`
  let sym := !s.directed
  { directed := s.directed
    ids := some (GM.nodesOf s)                              -- `self.nodes.iter()` keys
    refs := some ((GM.nodesOf s).map fun n => (n, (n : Int)))   -- `(N, &N)`: the weight is the key
    nodeCount := some (GM.nodeCount s)
    nodeBound := GM.nodeCount s                             -- `node_bound = node_count`
    toIx := qs.map fun q => (q, toIndex s q)
    fromIx := qs.map fun q => (q, fromIndex s (toIndex s q))
    compact := true
    erefs := some ((GM.allEdges s).map fun e => eref s (e.1, e.2.1, some e.2.2))   -- `all_edges()`
    edgeCount := some (GM.edgeCount s)
    edgeBound := some (GM.edgeCount s)                      -- `edge_bound = edge_count`
    eix := some (qe.map fun k =>
      (pairCode sym k.1 k.2, edgeToIndex s k,
        let k' := edgeFromIndex s (edgeToIndex s k); pairCode sym k'.1 k'.2))
    nbrs := some (rowsOver qs (GM.neighbors s))
    nbrsOut := some (rowsOver qs fun a => GM.neighborsDirected s a .out)
    nbrsIn := some (rowsOver qs fun a => GM.neighborsDirected s a .inc)
    edges := some (rowsOver qs fun a => (GM.edgesOf s a).map (eref s))
    edgesOut := some (rowsOver qs fun a => (GM.edgesDirected s a .out).map (eref s))
    edgesIn := some (rowsOver qs fun a => (GM.edgesDirected s a .inc).map (eref s))
    adj := some (rowsOver qs fun a => qs.filter fun b => GM.containsEdge s a b) }   -- `contains_edge(a, b)`

/-! ## `MatrixGraph` -/
/-
C06 (wave 2) — the TABLE of `visit`-trait answers of `MatrixGraph<N, E, S, Ty, Null, Ix>`
(src/matrix_graph.rs:1280-1455), computed from the storage model `Model/Matrix.lean` the way
`harness/src/c06.rs` (`table!`, runner `matrix_like!`) fills it from the real crate.

Query nodes `qs` = `node_identifiers()` (the live ids; there can be removed ids below `node_bound`),
`sym = !directed` (pair edge ids of the undirected kind are canonicalised `pcode min max`), no queried
edge ids (`EdgeIndexable` is not implemented: `eb`/`eix` = `none`), not `NodeCompactIndexable`.
`IntoNeighborsDirected` / `IntoEdgesDirected` exist only for `MatrixGraph<_, _, _, Directed, _, _>`
(src/matrix_graph.rs:1392, 1431): the four directed fields are `none` for the undirected kind.

The table models the code as it stands: `edges_directed(a, Incoming)` is `Edges::on_rows`, which yields
`(column, row, w)` = `(a, source, w)` for an edge `source → a` (recorded open finding D6).
Core Lean only.
-/

namespace MXView
open PetgraphModel.Matrix

/-- an edge reference `(NodeIndex, NodeIndex, &E)`: `id() = (source, target)`, `source() = .0`, `target() = .1`
(src/visit/mod.rs, `EdgeRef for (N, N, &E)`); coded by the harness with `sym = !directed` -/
def eref (s : State) (x : Nat × Nat × Int) : ERef :=
  ⟨pairCode (!s.dir) x.1 x.2.1, x.1, x.2.1, x.2.2⟩

/-- `NodeIndexable::to_index`: `ix.index()` (src/matrix_graph.rs:1448) -/
def toIndex (_ : State) (n : Nat) : Nat := n
/-- `NodeIndexable::from_index`: `NodeIndex::new(ix)` (src/matrix_graph.rs:1452), i.e. `ix as Ix`
(src/graph_impl/mod.rs:76: truncation to the index type) -/
def fromIndex (s : State) (i : Nat) : Nat := i % (s.ixMax + 1)

end MXView

open MXView in
def matrixTable (s : Matrix.State) : Table :=
  let qs := s.nodes.ids                                      -- `g.node_identifiers()`
  { directed := s.dir                                        -- `Ty::is_directed()`
    ids := some s.nodes.ids                                  -- `self.nodes.iter_ids()` (:1377)
    refs := some (Matrix.nodeRefs s)                         -- `(NodeIndex::new(i), &self.nodes[i])` (:839)
    nodeCount := some s.nodes.len                            -- `self.nodes.len()` (:336, :1283)
    nodeBound := s.nodes.upperBound                          -- `self.nodes.upper_bound` (:1444)
    toIx := qs.map fun q => (q, toIndex s q)
    fromIx := qs.map fun q => (q, fromIndex s (toIndex s q))
    compact := false                                         -- no `NodeCompactIndexable` impl
    erefs := some ((Matrix.edgeRefs s).map (eref s))         -- `EdgeReferences::new(..)` (:1417, :883)
    edgeCount := some s.nbEdges                              -- `self.nb_edges` (:344, :1292)
    edgeBound := none                                        -- no `EdgeIndexable` impl
    eix := none
    nbrs := some (rowsOver qs (Matrix.neighborsOut s))       -- `Neighbors(Edges::on_columns(a))` (:636, :1387)
    -- `neighbors_directed` (:738, :1397): `Outgoing` = `neighbors(a)`, else `Neighbors(Edges::on_rows(a))`
    nbrsOut := if s.dir then some (rowsOver qs (Matrix.neighborsOut s)) else none
    nbrsIn := if s.dir then some (rowsOver qs (Matrix.neighborsIn s)) else none
    edges := some (rowsOver qs fun a => (Matrix.edgesOut s a).map (eref s))   -- `Edges::on_columns(a)` (:651, :1426)
    -- `edges_directed` (:761, :1436): `Outgoing` = `edges(a)`, else `Edges::on_rows(a)`
    edgesOut := if s.dir then some (rowsOver qs fun a => (Matrix.edgesOut s a).map (eref s)) else none
    edgesIn := if s.dir then some (rowsOver qs fun a => (Matrix.edgesIn s a).map (eref s)) else none
    -- `is_adjacent(&(), a, b)` = `has_edge(a, b)` (:1332)
    adj := some (rowsOver qs fun a => qs.filter fun b => Matrix.hasEdge s a b) }

/-! ## `Graph` -/
/-
C06 (wave 2) — the TABLE of `visit`-trait answers of `Graph<N, E, Ty, Ix>` computed from the storage model
`Model/Graph.lean`, field by field as `harness/src/c06.rs` (`table!`, runner `graph_like!`) fills it:

  query nodes  qs = `g.node_indices()` = `0..node_count`      (src/graph_impl/mod.rs:1109)
  query edges  qe = `g.edge_indices()` = `0..edge_count`
  ids are raw indices (`NId for NodeIndex`, `EId for EdgeIndex`: `index()`), weights integers.

Every trait of the table is implemented by `&Graph` (no `none` field), `NodeCompactIndexable` included.
Core Lean only.
-/

namespace GView
open PetgraphModel.G

/-- the items of an iterator run to exhaustion; a fault of the model (out-of-bounds access, cyclic `next`
chain) is unreachable under the representation invariant (`graphTable_no_fault`, Proofs/C06W2Graph.lean) and is
rendered as the empty row -/
def okOr {α : Type} (r : Except Fault (List α)) : List α :=
  match r with
  | .ok l => l
  | .error _ => []

/-- `IndexType::new(x)` = `x as uN` (src/graph_impl/mod.rs:44-103, 110, 169): truncation to the index width, `endv = 2^w - 1` -/
def ixNew (s : State) (x : Nat) : Nat := x % (s.endv + 1)

/-- `EdgeReference` as printed by the harness: `id().index()`, `source()`, `target()`, `weight()`
(src/graph_impl/mod.rs:2433-2453) -/
def eref (r : G.ERef) : Visit.ERef := ⟨r.ix, r.src, r.tgt, (r.weight : Int)⟩

/-- `IntoNodeReferences::node_references`: `self.nodes.iter().enumerate()` mapped to `(node_index(i), &node.weight)`
(src/graph_impl/mod.rs:2370-2405) -/
def nodeRefs (s : State) : List (Nat × Int) :=
  (List.range s.nodes.length).zipWith (fun i nd => (i, (nd.weight : Int))) s.nodes

/-- `IntoNeighbors::neighbors(a)` = `Graph::neighbors(a)` = `neighbors_directed(a, Outgoing)`
(src/graph_impl/mod.rs:893-895, 2325-2334); `IntoNeighborsDirected` (2336-2345): the yielded node of each item -/
def nbrsDir (s : State) (a : Nat) (k : Bool) : List Nat := (okOr (neighborsDirected s a k)).map (·.2)

/-- `IntoEdges::edges(a)` = `edges_directed(a, Outgoing)` (src/graph_impl/mod.rs:958-960, 1728-1748) -/
def edgesDir (s : State) (a : Nat) (k : Bool) : List Visit.ERef := (okOr (edgesDirected s a k)).map eref

/-- `GetAdjacencyMatrix::adjacency_matrix` (src/traits_graph.rs:23-35): the positions `put` into the
`FixedBitSet::with_capacity(n * n)`, `n = node_count()`, in the order of `edge_references()`.
(`put` of a position `≥ n * n` would panic: unreachable, `adjMatrix_in_range`.) -/
def adjMatrix (s : State) : List Nat :=
  let n := s.nodes.length
  (allERefs s).flatMap fun e =>
    (e.src * n + e.tgt) :: (if !s.directed then [e.src + n * e.tgt] else [])

/-- `GetAdjacencyMatrix::is_adjacent` (src/traits_graph.rs:37-41): `matrix.contains(n * a + b)` -/
def isAdjacent (s : State) (m : List Nat) (a b : Nat) : Bool := m.contains (s.nodes.length * a + b)

end GView

open GView in
def graphTable (s : G.State) : Table :=
  let n := s.nodes.length
  let qs := List.range n                                     -- `g.node_indices()`
  let qe := List.range s.edges.length                        -- `g.edge_indices()`
  let m := adjMatrix s
  { directed := s.directed                                   -- `Ty::is_directed()`
    ids := some (List.range n)                               -- `node_indices()`: `(0..node_count).map(node_index)`
    refs := some (nodeRefs s)
    nodeCount := some n
    nodeBound := n                                           -- `node_bound = node_count` (mod.rs:2305)
    toIx := qs.map fun q => (q, q)                           -- `to_index(ix) = ix.index()`
    fromIx := qs.map fun q => (q, ixNew s q)                 -- `from_index(ix) = NodeIndex::new(ix)`
    compact := true
    erefs := some ((G.allERefs s).map eref)                  -- `edge_references()`: `edges.iter().enumerate()`
    edgeCount := some s.edges.length
    edgeBound := some s.edges.length                         -- `edge_bound = edge_count` (mod.rs:2500)
    eix := some (qe.map fun e => (e, e, ixNew s e))          -- `to_index = index()`, `from_index = EdgeIndex::new`
    nbrs := some (rowsOver qs fun a => nbrsDir s a false)
    nbrsOut := some (rowsOver qs fun a => nbrsDir s a false)
    nbrsIn := some (rowsOver qs fun a => nbrsDir s a true)
    edges := some (rowsOver qs fun a => edgesDir s a false)
    edgesOut := some (rowsOver qs fun a => edgesDir s a false)
    edgesIn := some (rowsOver qs fun a => edgesDir s a true)
    adj := some (rowsOver qs fun a => qs.filter fun b => isAdjacent s m a b) }

/-! ## `adj::List` -/
/-
C06 (wave 2) — the TABLE of `visit`-trait answers of `adj::List<E, Ix>` computed from the storage model
`AdjM.State` (Model/AdjList.lean), field by field as `harness/src/c06.rs` (`table!`, `run_list`) fills it from
the real crate and as the trait impls of /repo/src/adj.rs:422-664 compute it.

Identifier codes (harness `NId`, `EId for adj::EdgeIndex<u32>`, c06.rs:68-79): a node is its raw index, an
edge index `EdgeIndex { from, successor_index }` is `pcode from successor_index`; the node weight `()` is `0`.
`adj::List` is always directed; it implements neither `EdgeIndexable` nor the `*Directed` traits
(`expectedNa "list"` in Driver/C06.lean).  Core Lean only.
-/

namespace ALView
open PetgraphModel.AdjM

/-- `EId for adj::EdgeIndex<u32>` (harness/src/c06.rs): `pcode from successor_index` -/
def eidCode (e : EIx) : Nat := pcode e.1 e.2

/-- an `EdgeReference` (`EdgeRef for EdgeReference`, src/adj.rs:80-96): `id() = self.id`,
`source() = self.id.from`, `target() = self.edge.suc`, `weight() = &self.edge.weight` -/
def eref (r : AdjM.ERef) : ERef := ⟨eidCode (r.1, r.2.1), r.1, r.2.2.1, r.2.2.2⟩

/-- `NodeIndexable::to_index` (src/adj.rs:594-596): `a.index()` -/
def toIndex (_ : State) (a : Nat) : Nat := a
/-- `NodeIndexable::from_index` (src/adj.rs:598-600): `Ix::new(i)` -/
def fromIndex (s : State) (i : Nat) : Nat := mkIx s.modulus i

/-- a `FixedBitSet`: its capacity and the positions that are set -/
structure Bits where
  cap : Nat
  ones : List Nat
  deriving Repr, DecidableEq

/-- `FixedBitSet::put(i)`; `none` = the panic (`assert!`) for a position beyond the capacity -/
def Bits.put (m : Bits) (i : Nat) : Option Bits :=
  if i < m.cap then some { m with ones := i :: m.ones } else none

/-- `FixedBitSet::contains(i)` (`false` beyond the capacity: nothing is ever set there) -/
def Bits.contains (m : Bits) (i : Nat) : Bool := m.ones.contains i

/-- `GetAdjacencyMatrix::adjacency_matrix` (src/adj.rs:649-657): a bitmap of `n * n` positions; every edge
reference sets position `source * n + target`.  `none` = `put` panicked. -/
def adjacencyMatrix (s : State) : Option Bits :=
  let n := s.nodeCount
  (edgeReferences s).foldlM (fun m e => m.put (e.1 * n + e.2.2.1)) { cap := n * n, ones := [] }

/-- `GetAdjacencyMatrix::is_adjacent` (src/adj.rs:659-663): `matrix.contains(n * a + b)` -/
def isAdjacent (s : State) (m : Bits) (a b : Nat) : Bool := m.contains (s.nodeCount * a + b)

end ALView

open ALView in
/-- the table of `&adj::List<E, Ix>`.  The per-node iterators index `self.suc[a.index()]` (a panic beyond the
list) and `put` may panic: the `getD` defaults are never used on a query node of a well-formed state
(`adjListTable_no_default`, Proofs/C06W2List.lean). -/
def adjListTable (s : AdjM.State) : Table :=
  let qs := AdjM.nodeIndices s                              -- `g.node_identifiers()`
  let m := (adjacencyMatrix s).getD { cap := 0, ones := [] } -- `g.adjacency_matrix()`
  { directed := true                                        -- `is_directed` (src/adj.rs:566)
    ids := some (AdjM.nodeIndices s)                        -- `node_identifiers = node_indices` (src/adj.rs:446)
    refs := some ((AdjM.nodeIndices s).map fun n => (n, (0 : Int)))  -- `node_references`: `(id, &())` (src/adj.rs:451-468)
    nodeCount := some s.nodeCount                           -- `self.suc.len()` (src/adj.rs:575)
    nodeBound := s.nodeCount                                -- `node_bound = node_count` (src/adj.rs:590)
    toIx := qs.map fun q => (q, toIndex s q)
    fromIx := qs.map fun q => (q, fromIndex s (toIndex s q))
    compact := true                                         -- `NodeCompactIndexable` (src/adj.rs:603)
    erefs := some ((AdjM.edgeReferences s).map eref)        -- `edge_references` (src/adj.rs:537)
    edgeCount := some s.edgeCount                           -- `List::edge_count` (src/adj.rs:584)
    edgeBound := none                                       -- no `EdgeIndexable`
    eix := none
    nbrs := some (rowsOver qs fun a => (AdjM.neighbors s a).getD [])      -- `neighbors` (src/adj.rs:482)
    nbrsOut := none                                         -- no `IntoNeighborsDirected`
    nbrsIn := none
    edges := some (rowsOver qs fun a => ((AdjM.edgesOf s a).getD []).map eref)   -- `edges` (src/adj.rs:554)
    edgesOut := none                                        -- no `IntoEdgesDirected`
    edgesIn := none
    adj := some (rowsOver qs fun a => qs.filter fun b => isAdjacent s m a b) }

/-! ## `Csr` -/
/-
C06 (wave 2) — the TABLE of `visit`-trait answers of `Csr<N, E, Ty, Ix>` (src/csr.rs:547-887), computed from
the storage model `Model/Csr.lean` the way `harness/src/c06.rs` (`csr_like!`, `table!`) fills it from the real
crate.  Query nodes: `node_identifiers()`; no edge-id queries (`Csr` is not `EdgeIndexable`); `Csr` does not
implement `IntoNeighborsDirected` / `IntoEdgesDirected`.  Edge ids are `usize` positions in `column`.

A model function answers `none` where the Rust code would panic; a table cannot record a panic, so the table
takes `.getD` of the answer and `CsrView.callsOk` says that no call made for the table panicked
(`Proofs/C06W2Csr.lean` proves it under the representation invariant).

The table models the code as it stands for both edge types; in particular for `Undirected` the
`edge_references` field walks all rows (finding D7).  Core Lean only.
-/

namespace CsrView
open PetgraphModel.CsrM
open PetgraphModel.Extracted

/-- `NodeIndexable::to_index`: `a.index()` (src/csr.rs:707) -/
def toIndex (a : Nat) : Nat := a
/-- `NodeIndexable::from_index`: `Ix::new(ix)` (src/csr.rs:710) -/
def fromIndex (s : State) (i : Nat) : Nat := mkIx s.modulus i

/-- an `EdgeReference` as the harness prints it: `id()` = `index`, `source()`, `target()`, `weight()`
(src/csr.rs:500-521) -/
def eref (e : CsrM.ERef) : Visit.ERef := ⟨e.1, e.2.1, e.2.2.1, e.2.2.2⟩

/-- a `FixedBitSet`: its length and the bits that are set -/
structure BitSet where
  cap : Nat
  bits : List Nat
  deriving Repr, DecidableEq

/-- `FixedBitSet::put`: **panics** if the bit is out of bounds (fixedbitset-0.5.7 src/lib.rs:485) -/
def BitSet.put (m : BitSet) (i : Nat) : Option BitSet :=
  if i < m.cap then some { m with bits := i :: m.bits } else none

/-- `FixedBitSet::contains`: bits outside the capacity are disabled (fixedbitset-0.5.7 src/lib.rs:392) -/
def BitSet.contains (m : BitSet) (i : Nat) : Bool := decide (i < m.cap) && m.bits.contains i

/-- the body of the loop of `adjacency_matrix` (src/csr.rs:870-878) -/
def adjPut (s : State) (m : BitSet) (e : CsrM.ERef) : Option BitSet :=
  let n := s.nodeCount
  match m.put (AdjWidth.bitBuild_Csr n e.2.1 e.2.2.1) with
  | none => none
  | some m1 => if !s.directed then m1.put (AdjWidth.bitBuildSym_Csr n e.2.1 e.2.2.1) else some m1

def adjLoop (s : State) : BitSet → List CsrM.ERef → Option BitSet
  | m, [] => some m
  | m, e :: es =>
    match adjPut s m e with
    | none => none
    | some m1 => adjLoop s m1 es

/-- `GetAdjacencyMatrix::adjacency_matrix` (src/csr.rs:867-880): a bitmap of `n * n` bits, one `put` per edge
reference (two if undirected) -/
def adjacencyMatrix (s : State) : Option BitSet :=
  match edgeReferences s with
  | none => none
  | some refs => adjLoop s ⟨s.nodeCount * s.nodeCount, []⟩ refs

/-- `GetAdjacencyMatrix::is_adjacent` (src/csr.rs:882-886) -/
def isAdjacent (s : State) (m : BitSet) (a b : Nat) : Bool :=
  m.contains (AdjWidth.bitRead_Csr s.nodeCount a b)

/-- none of the calls the harness makes to fill the table panics -/
def callsOk (s : State) : Prop :=
  (edgeReferences s).isSome ∧ (adjacencyMatrix s).isSome ∧
  ∀ a ∈ nodeIdentifiers s, (neighborsSlice s a).isSome ∧ (edgesOf s a).isSome

end CsrView

open CsrView in
def csrTable (s : CsrM.State) : Table :=
  let qs := CsrM.nodeIdentifiers s                               -- `g.node_identifiers()`
  let m := (adjacencyMatrix s).getD ⟨0, []⟩                      -- `let m = g.adjacency_matrix()`
  { directed := s.directed                                       -- `Ty::is_directed()`
    ids := some (CsrM.nodeIdentifiers s)                         -- `(0..node_count).map(Ix::new)`
    refs := some (CsrM.nodeReferences s)                         -- `node_weights.iter().enumerate()`, `Ix::new(i)`
    nodeCount := some s.nodeCount
    nodeBound := s.nodeCount                                     -- `node_bound = node_count`
    toIx := qs.map fun q => (q, toIndex q)
    fromIx := qs.map fun q => (q, fromIndex s (toIndex q))
    compact := true
    erefs := some (((CsrM.edgeReferences s).getD []).map eref)   -- `edge_references()`
    edgeCount := some s.edgeCountQ                               -- `edge_count()`
    edgeBound := none                                            -- not `EdgeIndexable`
    eix := none
    nbrs := some (rowsOver qs fun a => (CsrM.neighborsSlice s a).getD [])   -- `neighbors_slice(a).iter()`
    nbrsOut := none                                              -- not `IntoNeighborsDirected`
    nbrsIn := none
    edges := some (rowsOver qs fun a => ((CsrM.edgesOf s a).getD []).map eref)   -- `self.edges(a)`
    edgesOut := none                                             -- not `IntoEdgesDirected`
    edgesIn := none
    adj := some (rowsOver qs fun a => qs.filter fun b => isAdjacent s m a b) }

/-! ## `StableGraph` -/
/-
C06 (wave 3) — the TABLE of `visit`-trait answers of `StableGraph<N, E, Ty, Ix>` computed from the storage model
`Model/StableGraph.lean` (the C02 model), field by field as `harness/src/c06.rs` (`table!`, runner `graph_like!`
instantiated with `StableGraph`) fills it and as the trait impls of
/repo/src/graph_impl/stable_graph/mod.rs:1858-2063 and /repo/src/traits_graph.rs:44-71 compute it:

  query nodes  qs = `g.node_indices()`   (the live slots, ascending: vacancies are skipped)
  query edges  qe = `g.edge_indices()`   (the live edge slots)
  ids are raw indices, weights integers.

`StableGraph` implements every trait of the table but NOT `NodeCompactIndexable` (`compact = false`): there may be
vacant indices below `node_bound`.  `node_bound` / `edge_bound` are "last live index + 1"; the adjacency bitmap
has `node_bound` columns (built and read with the same width, `Extracted/AdjWidth.lean`).  Core Lean only.
-/

namespace SGView
open PetgraphModel.SG
open PetgraphModel.Extracted

/-- the items of an iterator run to exhaustion; a fault of the model (out-of-bounds access, a `next` walk that
does not terminate, a failing `debug_assert!`) is unreachable under the C02 invariant
(`stableTable_no_fault`, Proofs/C06W3Stable.lean) and is rendered as the empty row -/
def okOr {α : Type} (r : Except Fault (List α)) : List α :=
  match r with
  | .ok l => l
  | .error _ => []

/-- `EdgeReference` as printed by the harness: `id().index()`, `source()`, `target()`, `weight()`
(src/graph_impl/stable_graph/mod.rs:1983-2003) -/
def eref (r : SG.ERef) : Visit.ERef := ⟨r.id, r.a, r.b, r.w⟩

/-- `NodeIndexable::to_index`: `ix.index()` (stable_graph/mod.rs:1942) -/
def toIndex (_ : State) (a : Nat) : Nat := a
/-- `NodeIndexable::from_index` / `EdgeIndexable::from_index`: `NodeIndex::new(ix)` / `EdgeIndex::new(ix)`
(stable_graph/mod.rs:1945, 2020): `ix as Ix` -/
def fromIndex (s : State) (i : Nat) : Nat := mkIx s i

/-- `IntoNeighbors::neighbors(a)` = `neighbors_directed(a, Outgoing)` (stable_graph/mod.rs:1950-1970);
`k = dir.index()` -/
def nbrsDir (s : State) (a k : Nat) : List Nat := okOr (neighborsDirected s a k)

/-- `IntoEdges::edges(a)` = `edges_directed(a, Outgoing)`; `IntoEdgesDirected` (stable_graph/mod.rs:1972-2034) -/
def edgesDir (s : State) (a : Nat) (dirIn : Bool) : List Visit.ERef := (okOr (edgesDirected s a dirIn)).map eref

/-- `GetAdjacencyMatrix::adjacency_matrix` (src/traits_graph.rs:54-64): the positions `put` into the
`FixedBitSet::with_capacity(n * n)`, `n = node_bound()`, in the order of `edge_references()`
(`put` of a position `≥ n * n` would panic: unreachable, `sgAdjMatrix_in_range`) -/
def adjMatrix (s : State) : List Nat :=
  let n := nodeBound s
  (edgeReferences s).flatMap fun e =>
    AdjWidth.bitBuild_StableGraph n e.a e.b ::
      (if !s.directed then [AdjWidth.bitBuildSym_StableGraph n e.a e.b] else [])

/-- `GetAdjacencyMatrix::is_adjacent` (src/traits_graph.rs:66-70): `matrix.contains(n * a + b)`, `n = node_bound()`;
`FixedBitSet::contains` answers `false` beyond the capacity `n * n` -/
def isAdjacent (s : State) (m : List Nat) (a b : Nat) : Bool :=
  let n := nodeBound s
  decide (AdjWidth.bitRead_StableGraph n a b < n * n) && m.contains (AdjWidth.bitRead_StableGraph n a b)

end SGView

open SGView in
def stableTable (s : SG.State) : Table :=
  let qs := SG.nodeIndices s                                 -- `g.node_indices()`
  let qe := SG.edgeIndices s                                 -- `g.edge_indices()`
  let m := adjMatrix s                                       -- `g.adjacency_matrix()`
  { directed := s.directed                                   -- `Ty::is_directed()`
    ids := some (SG.nodeIndices s)                           -- `node_identifiers = node_indices` (:1905)
    refs := some (SG.nodeReferences s)                       -- `NodeReferences`: vacant slots skipped (:1384)
    nodeCount := some s.nodeCount                            -- `self.node_count` (:1915)
    nodeBound := SG.nodeBound s                              -- last live index + 1 (:1939)
    toIx := qs.map fun q => (q, toIndex s q)
    fromIx := qs.map fun q => (q, fromIndex s (toIndex s q))
    compact := false                                         -- no `NodeCompactIndexable` impl
    erefs := some ((SG.edgeReferences s).map eref)           -- `EdgeReferences`: vacant slots skipped (:1582)
    edgeCount := some s.edgeCount                            -- `self.edge_count` (:2060)
    edgeBound := some (SG.edgeBound s)                       -- last live edge index + 1 (:2010)
    eix := some (qe.map fun e => (e, e, fromIndex s e))      -- `to_index = index()`, `from_index = EdgeIndex::new`
    nbrs := some (rowsOver qs fun a => nbrsDir s a 0)
    nbrsOut := some (rowsOver qs fun a => nbrsDir s a 0)
    nbrsIn := some (rowsOver qs fun a => nbrsDir s a 1)
    edges := some (rowsOver qs fun a => edgesDir s a false)
    edgesOut := some (rowsOver qs fun a => edgesDir s a false)
    edgesIn := some (rowsOver qs fun a => edgesDir s a true)
    adj := some (rowsOver qs fun a => qs.filter fun b => isAdjacent s m a b) }

end PetgraphModel.Visit
