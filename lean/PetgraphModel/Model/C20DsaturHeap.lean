import PetgraphModel.Spec.Graph
import PetgraphModel.Model.C20
/-
C20 — mirror model (core Lean only) of the MECHANISM of `dsatur_coloring`
(/repo/src/algo/coloring.rs): a max-heap of `MaxScored((saturation, degree), node)` entries with lazy
deletion (stale entries stay in the heap and are skipped through the `seen` set).

`Model/C20.lean` (`Dsatur.greedy`) colours the nodes in a pop order handed in by the caller; here the
pop order is produced by the heap.  `MaxScored` compares the scores only, so which of several entries
with the same `(saturation, degree)` comes out is decided by `BinaryHeap` internals: the model pops
SOME entry of maximal score, chosen by an `Oracle` that sees the step number and the heap's content
(every real run is an instance).  The heap is the list of its entries, `pop` erases the chosen one.

line by line (`st` = the mutable locals):
  degree_map / queue.push(MaxScored((0, degree), node))      `init`
  while let Some(MaxScored(_, node)) = queue.pop()           `run` (one iteration per unit of fuel)
    if seen.is_visited(&node) { continue }                   `st.seen.contains node`
    seen.visit(node)
    color = least value not in adj_color_map[ix(node)]       `Dsatur.leastFree`
    colored.insert(node, color); max_color = max(..)
    for nbor in graph.neighbors(node)                        `visitNbrs`
      adj_color.insert(color)
      queue.push(MaxScored((adj_color.len(), degree_map[ix(nbor)]), nbor))
  (colored, max_color + 1)
-/
namespace PetgraphModel.C20.DsaturHeap

/-- `MaxScored((saturation, degree), node)` -/
abbrev Entry := Nat × Nat × Nat

/-- the order of `MaxScored`: the scores `(saturation, degree)` lexicographically, the node ignored -/
def keyLe (a b : Entry) : Bool := a.1 < b.1 || (a.1 == b.1 && a.2.1 ≤ b.2.1)

/-- `BinaryHeap::pop` at step `t` on the heap with the entries `q` -/
structure Oracle where
  choose : Nat → List Entry → Entry

/-- a pop returns an entry of the heap whose score is maximal -/
def Oracle.Valid (o : Oracle) : Prop :=
  ∀ t q, q ≠ [] → o.choose t q ∈ q ∧ ∀ e ∈ q, keyLe e (o.choose t q) = true

structure St where
  queue : List Entry := []
  colored : List (Nat × Nat) := []          -- `colored`, most recent first
  adjCol : List (Nat × List Nat) := []      -- `adj_color_map` (a missing key = the empty set)
  seen : List Nat := []
  maxColor : Nat := 0
  deriving Inhabited, Repr

/-- `adj_color_map[ix(v)]` -/
def adjOf (m : List (Nat × List Nat)) (v : Nat) : List Nat := (m.lookup v).getD []

/-- `HashSet::insert` -/
def setInsert (s : List Nat) (c : Nat) : List Nat := if s.contains c then s else s ++ [c]

/-- `degree_map[ix(v)]`: `graph.edges(v).count()` for the nodes, the initial 0 otherwise -/
def degOf (g : MGraph) (v : Nat) : Nat := if v ∈ g.nodes then (g.succ v).length else 0

/-- the first loop: one entry `(0, degree)` per node -/
def init (g : MGraph) : St := { queue := g.nodes.map fun v => (0, degOf g v, v) }

/-- one neighbour of the node just coloured: record the colour FIRST, then queue the neighbour with
its new saturation -/
def visitNbr (g : MGraph) (color : Nat) (st : St) (nbor : Nat) : St :=
  let s := setInsert (adjOf st.adjCol nbor) color
  { st with adjCol := (nbor, s) :: st.adjCol, queue := st.queue ++ [(s.length, degOf g nbor, nbor)] }

/-- `for nbor in graph.neighbors(node) { … }` -/
def visitNbrs (g : MGraph) (color : Nat) (st : St) (nbrs : List Nat) : St := nbrs.foldl (visitNbr g color) st

/-- the body of the `while` loop for the popped entry `e` -/
def body (g : MGraph) (st : St) (e : Entry) : St :=
  let node := e.2.2
  if st.seen.contains node then st
  else
    let color := Dsatur.leastFree (adjOf st.adjCol node)
    let st := { st with seen := node :: st.seen, colored := (node, color) :: st.colored,
                        maxColor := max st.maxColor color }
    visitNbrs g color st (g.succ node)

/-- the `while` loop from step `t` on; `none` = the fuel ran out -/
def run (g : MGraph) (o : Oracle) : Nat → Nat → St → Option St
  | 0, _, _ => none
  | f+1, t, st =>
    if st.queue.isEmpty then some st
    else
      let e := o.choose t st.queue
      run g o f (t + 1) (body g { st with queue := st.queue.erase e } e)

/-- `dsatur_coloring(g)` = `(colored, max_color + 1)` -/
def dsatur (g : MGraph) (o : Oracle) (fuel : Nat) : Option (List (Nat × Nat) × Nat) :=
  (run g o fuel 0 (init g)).map fun st => (st.colored, st.maxColor + 1)

/-- fuel that always suffices: one iteration per entry ever pushed (one per node, one per neighbour
of a node when it is coloured), and the final look at the empty heap -/
def fuelBound (g : MGraph) : Nat := g.nodes.length + (g.nodes.map fun v => (g.succ v).length).sum + 1

/-- one concrete heap: the first entry of maximal score -/
def firstMax : Oracle where
  choose := fun _ q => q.foldl (fun best e => if keyLe e best then best else e) (q.headD (0, 0, 0))

/-- another one: the last entry of maximal score -/
def lastMax : Oracle where
  choose := fun _ q => q.foldl (fun best e => if keyLe best e then e else best) (q.headD (0, 0, 0))

end PetgraphModel.C20.DsaturHeap
