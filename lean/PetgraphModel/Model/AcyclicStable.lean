import PetgraphModel.Model.StableGraph
import PetgraphModel.Model.AcyclicGraph
/-
`Acyclic<StableDiGraph<N, E, Ix>>` as ONE machine: the C02 mirror model of the inner `StableGraph`
(`Model/StableGraph.lean`: vacant slots, both free lists, index reuse) + the C14 bookkeeping
(`Model/Acyclic.lean`), glued in the order `acyclic.rs` calls them.  Core Lean only: the C14 driver
replays this machine beside the real crate, and `Proofs/C14W4Stable.lean` proves the C14 theorems for
it without any hypothesis on the inner graph.

`sView s` is what the generic code of `Acyclic<G>` sees of a `StableGraph`: `node_identifiers()` = the
live indices in ascending order, `node_bound()` = last live index + 1, `neighbors_directed(a, dir)` =
`SG.neighborsDirected`.
-/
namespace PetgraphModel.AcyS
open PetgraphModel PetgraphModel.Acy
open PetgraphModel.AcyG (AOp)

/-- `neighbors_directed(a, k)` as `(neighbour, 0)` in iteration order (the C02 model of `Neighbors`
yields nodes only; the edge-id component of a view row is not used by the C14 model) -/
def sRow (s : SG.State) (k : Nat) (a : Nat) : List (Nat × Nat) :=
  match SG.neighborsDirected s a k with
  | .ok l => l.map fun y => (y, 0)
  | .error _ => []

def sEdges (s : SG.State) : List PetgraphModel.Edge :=
  (SG.edgeReferences s).map fun r => ⟨r.id, r.a, r.b, r.w⟩

/-- what `Acyclic<G>` sees of a `StableGraph<_, _, Directed, Ix>` -/
def sView (s : SG.State) : View :=
  { g := { directed := true, nodes := SG.nodeIndices s, edges := sEdges s },
    nb := SG.nodeBound s, ix := [],
    out := (SG.nodeIndices s).map fun a => (a, sRow s 0 a),
    inn := (SG.nodeIndices s).map fun a => (a, sRow s 1 a) }

/-- the state of `Acyclic<StableDiGraph<N, E, Ix>>` -/
structure AS where
  g : SG.State
  a : AState

/-- one call of `acyclic.rs` over the C02 model (same alphabet `AOp` as for `DiGraph`; weights are
`Int` here); `.error` = the call panics or the C02 model faults (excluded by `C02`) -/
def AS.step (x : AS) : AOp → Except String AS
  | .addNode w =>
    match SG.tryAddNode x.g w with
    | .ok (g', .ok i) =>
      match Acy.addNode (sView g') x.a i with
      | .ok a' => .ok ⟨g', a'⟩
      | .error e => .error e
    | .ok (_, .error _) => .error "StableGraph::add_node: index limit"
    | .error _ => .error "C02 model fault"
  | .tryAddEdge a b w =>
    match Acy.tryAddEdge (sView x.g) x.a a b with
    | .error e => .error e
    | .ok (a', .accepted) =>
      match SG.tryAddEdge x.g a b w with
      | .ok (g', .ok _) => .ok ⟨g', a'⟩
      | .ok (_, .error _) => .error "StableGraph::add_edge panics"
      | .error _ => .error "C02 model fault"
    | .ok (a', _) => .ok ⟨x.g, a'⟩                 -- rejected: the inner graph is not touched
  | .tryUpdateEdge a b w =>
    match Acy.tryAddEdge (sView x.g) x.a a b with
    | .error e => .error e
    | .ok (a', .accepted) =>
      match SG.tryUpdateEdge x.g a b w with
      | .ok (g', .ok _) => .ok ⟨g', a'⟩
      | .ok (_, .error _) => .error "StableGraph::update_edge panics"
      | .error _ => .error "C02 model fault"
    | .ok (a', _) => .ok ⟨x.g, a'⟩
  | .removeEdge e =>
    match SG.removeEdge x.g e with
    | .ok (g', _) => .ok ⟨g', x.a⟩
    | .error _ => .error "C02 model fault"
  | .removeNode n =>
    match SG.removeNode x.g n with
    | .ok (g', _) =>
      match Acy.removeNode (sView x.g) (sView g') x.a n with
      | .ok (a', _) => .ok ⟨g', a'⟩
      | .error e => .error e
    | .error _ => .error "C02 model fault"
  | .isValidEdge a b =>
    match Acy.isValidEdge (sView x.g) x.a a b with
    | .ok (a', _) => .ok ⟨x.g, a'⟩
    | .error e => .error e

def AS.run : AS → List AOp → Except String AS
  | x, [] => .ok x
  | x, op :: ops =>
    match x.step op with
    | .ok x' => AS.run x' ops
    | .error e => .error e

/-- `Acyclic::new()` / `with_capacity` over `StableDiGraph` (index limit `fin`, `usize` flag, build mode) -/
def AS.new (fin : Nat) (noLimit debug : Bool) (cap : Nat) : AS := ⟨SG.empty true fin noLimit debug, { cap := cap }⟩

def AS.tryFromGraph (g : SG.State) : Except String (Sum Nat AS) :=
  match Acy.tryFromGraph (sView g) with
  | .ok (.inl x) => .ok (.inl x)
  | .ok (.inr a) => .ok (.inr ⟨g, a⟩)
  | .error e => .error e


/-! ### rebuilding the storage state from a reported view (the driver's `from` line)

Beyond the graph line (live nodes and edges, adjacency rows in iteration order = the `next` links) a
`StableGraph` has two free lists; the harness observes their order through the public API on a clone
(`fn=` / `fe=`: the vacant slots in the order `add_node` / `add_edge` hand them out; `nl=` / `el=`: the
number of slots). -/

def succIn (l : List Nat) (x fin : Nat) : Nat :=
  match l.dropWhile (· != x) with
  | _ :: y :: _ => y
  | _ => fin

/-- the `StableGraph` whose view is `v`, with free lists `freeN` / `freeE` and `nl` / `el` slots -/
def ofView (v : View) (lab : Nat → Nat) (fin : Nat) (freeN freeE : List Nat) (nl el : Nat) : SG.State :=
  { directed := true, fin := fin, noLimit := false, debug := true,
    nodes := (List.range nl).map fun i =>
      if v.g.nodes.contains i then ⟨some (lab i : Int), AcyG.headOf (v.outOf i) fin, AcyG.headOf (v.innOf i) fin⟩
      else ⟨none, succIn freeN i fin, succIn freeN.reverse i fin⟩,
    edges := (List.range el).map fun e =>
      match v.g.edges.find? (fun ed => ed.id == e) with
      | some ed => ⟨some ed.w, AcyG.nextAfter (v.outOf ed.src) e fin, AcyG.nextAfter (v.innOf ed.tgt) e fin, ed.src, ed.tgt⟩
      | none => ⟨none, succIn freeE e fin, fin, fin, fin⟩,
    nodeCount := v.g.nodes.length, edgeCount := v.g.edges.length,
    freeNode := freeN.headD fin, freeEdge := freeE.headD fin }

/-- the reported free lists are exactly the vacant slots -/
def freeListsFit (v : View) (freeN freeE : List Nat) (nl el : Nat) : Bool :=
  let vacN := (List.range nl).filter fun i => !v.g.nodes.contains i
  let vacE := (List.range el).filter fun e => !(v.g.edges.any fun ed => ed.id == e)
  (vacN.all fun i => freeN.contains i) && (freeN.all fun i => vacN.contains i) && freeN.length == vacN.length &&
  (vacE.all fun i => freeE.contains i) && (freeE.all fun i => vacE.contains i) && freeE.length == vacE.length &&
  (v.g.nodes.all fun i => i < nl) && (v.g.edges.all fun ed => ed.id < el)

/-- do the view of the storage model and a reported view agree (nodes, bound, edges, and the
neighbours of both adjacency tables — the C02 model of `Neighbors` yields no edge ids)? -/
def sameView (a b : View) : Bool :=
  a.g.nodes == b.g.nodes && a.nb == b.nb && a.g.edges == b.g.edges &&
  (a.g.nodes.all fun x => a.succ x == b.succ x && a.pred x == b.pred x)

end PetgraphModel.AcyS
