import PetgraphModel.Model.C10ShortestPaths
/-
Bounded cost types (wave 4; core Lean only, linked into the driver).

The algorithms of `Model/C10ShortestPaths.lean` once more, with the ONE arithmetic operation they
perform on costs — `node_score + edge_cost(edge)` (and, in astar, `next_score + estimate_cost(next)`)
— abstracted to a partial addition `add : Int → Int → Option Int`; `none` aborts the run with the
outer result `none` ("overflow").  Instances:

* `addInt`  — mathematical integers (never aborts): the models of `C10ShortestPaths.lean`
              (`Proofs/C10W4Bounded.lean`: `…G addInt = some (…)`);
* `addB M`  — an unsigned type with largest value `M` compiled with overflow checks (`+` panics):
              defined exactly when `0 ≤ a + b ≤ M`;
* `addW M`  — the same type in release mode (`+` wraps modulo `M + 1`).

`Proofs/C10W4Bounded.lean` proves that a run which does not abort under `addB M` returns the same
result under `addInt` and under `addW M`.  The driver runs the `addB M` model (M = the largest value
of the cost type of the request for which arithmetic is exact: `T::MAX` of an integer type `T` (costs are
non-negative, so a signed type is used on `0 ..= T::MAX`; `usize` = 64 bits), `2^24` for f32, `2^53` for f64, in the
unit of the request) and thereby checks the no-overflow hypothesis per call.
-/
namespace PetgraphModel.SP
open PetgraphModel

abbrev Add := Int → Int → Option Int

def addInt : Add := fun a b => some (a + b)
def addB (M : Int) : Add := fun a b => if 0 ≤ a + b ∧ a + b ≤ M then some (a + b) else none
def addW (M : Int) : Add := fun a b => some ((a + b) % (M + 1))

/-! ### dijkstra -/

def dijRelaxG (add : Add) (v : View) (nodeScore : Int) : List (Nat × Nat) → DState → Option DState
  | [], st => some st
  | (next, eid) :: rest, st =>
    if st.visited.contains next then dijRelaxG add v nodeScore rest st
    else
      match add nodeScore (v.weight eid) with
      | none => none
      | some ns =>
        match amGet st.scores next with
        | some old =>
          if ns < old then
            dijRelaxG add v nodeScore rest { st with scores := amSet st.scores next ns, heap := st.heap ++ [(ns, next)] }
          else dijRelaxG add v nodeScore rest st
        | none =>
          dijRelaxG add v nodeScore rest { st with scores := amSet st.scores next ns, heap := st.heap ++ [(ns, next)] }

/-- outer `none` = an addition left the cost type; inner `none` = fuel exhausted -/
def dijLoopG (add : Add) (pop : Pop) (v : View) (goal : Option Nat) : Nat → DState → Option (Option DState)
  | 0, _ => some none
  | f+1, st =>
    match pop st.heap with
    | none => some (some st)
    | some ((nodeScore, node), h') =>
      let st := { st with heap := h' }
      if st.visited.contains node then dijLoopG add pop v goal f st
      else if goal == some node then some (some st)
      else
        match dijRelaxG add v nodeScore (v.outOf node) st with
        | none => none
        | some st => dijLoopG add pop v goal f { st with visited := node :: st.visited }

def dijkstraG (add : Add) (pop : Pop) (v : View) (s : Nat) (goal : Option Nat) : Option (Option (List (Nat × Int))) :=
  (dijLoopG add pop v goal (dijFuel v) (dijInit s)).map fun r => r.map (·.scores)

/-! ### astar -/

def astarRelaxG (add : Add) (v : View) (h : Nat → Int) (node : Nat) (nodeScore : Int) :
    List (Nat × Nat) → AState → Option AState
  | [], st => some st
  | (next, eid) :: rest, st =>
    match add nodeScore (v.weight eid) with
    | none => none
    | some ns =>
      let skip := match amGet st.scores next with
        | some old => decide (old ≤ ns)
        | none => false
      if skip then astarRelaxG add v h node nodeScore rest st
      else
        match add ns (h next) with
        | none => none
        | some est =>
          astarRelaxG add v h node nodeScore rest
            { st with scores := amSet st.scores next ns, came := amSet st.came next node,
                      heap := st.heap ++ [(est, next)] }

def astarLoopG (add : Add) (pop : Pop) (v : View) (isGoal : Nat → Bool) (h : Nat → Int) : Nat → AState → Option AResult
  | 0, _ => some .fuel
  | f+1, st =>
    match pop st.heap with
    | none => some .notFound
    | some ((estimate, node), h') =>
      let st := { st with heap := h' }
      if isGoal node then
        match amGet st.scores node with
        | none => some .panic
        | some cost =>
          match reconstruct st.came (st.came.length + 1) node [node] with
          | some p => some (.found cost p)
          | none => some .fuel
      else
        match amGet st.scores node with
        | none => some .panic
        | some nodeScore =>
          let go := fun (st : AState) =>
            match astarRelaxG add v h node nodeScore (v.outOf node) st with
            | none => none
            | some st => astarLoopG add pop v isGoal h f st
          match amGet st.est node with
          | some e => if e ≤ estimate then astarLoopG add pop v isGoal h f st
                      else go { st with est := amSet st.est node estimate }
          | none => go { st with est := amSet st.est node estimate }

def astarG (add : Add) (pop : Pop) (v : View) (s : Nat) (isGoal : Nat → Bool) (h : Nat → Int) (fuel : Nat) : Option AResult :=
  astarLoopG add pop v isGoal h fuel { scores := [(s, 0)], heap := [(h s, s)] }

/-! ### k_shortest_path -/

/-- the pushes of one expansion, in row order -/
def kspPushG (add : Add) (v : View) (nodeScore : Int) : List (Nat × Nat) → Option Heap
  | [] => some []
  | (next, eid) :: rest =>
    match add nodeScore (v.weight eid) with
    | none => none
    | some ns => (kspPushG add v nodeScore rest).map fun r => (ns, next) :: r

def kspLoopG (add : Add) (pop : Pop) (v : View) (goal : Option Nat) (k : Nat) : Nat → KState → Option KResult
  | 0, _ => some .fuel
  | f+1, st =>
    match pop st.heap with
    | none => some (.done st.scores)
    | some ((nodeScore, node), h') =>
      let i := v.toIndex node
      match st.counter[i]? with
      | none => some .panic
      | some c =>
        let cur := c + 1
        let st := { st with heap := h', counter := st.counter.set i cur }
        if cur > k then kspLoopG add pop v goal k f st
        else
          let st := if cur = k then { st with scores := amSet st.scores node nodeScore } else st
          if goal == some node && cur == k then some (.done st.scores)
          else
            match kspPushG add v nodeScore (v.outOf node) with
            | none => none
            | some pushes => kspLoopG add pop v goal k f { st with heap := st.heap ++ pushes }

def kShortestPathG (add : Add) (pop : Pop) (v : View) (s : Nat) (goal : Option Nat) (k : Nat) : Option KResult :=
  kspLoopG add pop v goal k (kspFuel v k) { counter := List.replicate v.nb 0, heap := [(0, s)] }

/-- largest value up to which the arithmetic of a cost type of the harness is exact, in the unit of the
request (`q` types: the unit is 1/8, so the bound is the same number of units) -/
def costMax (ty : String) : Option Int :=
  if ty == "u32" then some 4294967295
  else if ty == "u64" || ty == "usize" then some 18446744073709551615
  else if ty == "f64" || ty == "f64q" || ty == "f64inf" then some 9007199254740992
  else if ty == "f32" || ty == "f32q" then some 16777216
  else if ty == "u8" then some 255
  else if ty == "u16" then some 65535
  else if ty == "i8" then some 127
  else if ty == "i16" then some 32767
  else if ty == "i32" then some 2147483647
  else if ty == "i64" || ty == "isize" then some 9223372036854775807
  else none

end PetgraphModel.SP
