import PetgraphModel.Model.Serde
/-
C17, wave 6: the rarely used whole-graph operations that the correspondence runs on graphs before a serialization and
on graphs that came out of a deserializer — `reverse`, `clear`, `clear_edges` of `Graph` and `StableGraph`
(`/repo/src/graph_impl/mod.rs`, `stable_graph/mod.rs`) and `GraphMap::clear`.  Core Lean only (linked into the driver).
-/
namespace PetgraphModel.Serde

/-- `node.next.swap(0, 1)` -/
def NodeSlot.rev (n : NodeSlot) : NodeSlot := { n with n0 := n.n1, n1 := n.n0 }

/-- `edge.node.swap(0, 1); edge.next.swap(0, 1)` -/
def EdgeSlot.rev (e : EdgeSlot) : EdgeSlot := { e with n0 := e.n1, n1 := e.n0, src := e.tgt, tgt := e.src }

/-- `Graph::reverse`: every edge and every node is swapped -/
def Raw.reverse (g : Raw) : Raw :=
  { g with nodes := g.nodes.map NodeSlot.rev, edges := g.edges.map EdgeSlot.rev }

/-- `StableGraph::reverse`: vacant slots are skipped, their `next` fields hold the free lists -/
def Stable.reverse (s : Stable) : Stable :=
  { s with g := { s.g with nodes := s.g.nodes.map (fun n => if n.w.isSome then n.rev else n),
                           edges := s.g.edges.map (fun e => if e.w.isSome then e.rev else e) } }

/-- `Graph::clear` -/
def Raw.clear (g : Raw) : Raw := { g with nodes := [], edges := [] }

/-- `StableGraph::clear`: counts and both free lists are reset as well -/
def Stable.clear (s : Stable) : Stable :=
  { g := s.g.clear, nodeCount := 0, edgeCount := 0, freeNode := s.g.END, freeEdge := s.g.END }

/-- `Graph::clear_edges` -/
def Raw.clearEdges (g : Raw) : Raw :=
  { g with edges := [], nodes := g.nodes.map fun n => { n with n0 := g.END, n1 := g.END } }

/-- `StableGraph::clear_edges`: "clear edges without touching the free list" — only live nodes are reset -/
def Stable.clearEdges (s : Stable) : Stable :=
  { s with edgeCount := 0, freeEdge := s.g.END,
           g := { s.g with edges := [],
                           nodes := s.g.nodes.map fun n => if n.w.isSome then { n with n0 := s.g.END, n1 := s.g.END } else n } }

/-- `GraphMap::clear` -/
def GMap.clear (m : GMap) : GMap := { m with nodes := [], edges := [] }

end PetgraphModel.Serde
