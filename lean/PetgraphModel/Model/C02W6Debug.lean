import PetgraphModel.Model.StableGraph
import PetgraphModel.Spec.StableGraphSpec
/-
C02, wave 6 — two corners of the public API on the mirror model (core Lean only; linked into the driver).

* `impl Debug for StableGraph` (`stable_graph/mod.rs:104-163`): the rendering shows the edge type, the two cached counts, the
  endpoints of every LIVE edge (the field is omitted if there is none), the weight maps `index: weight` of the live nodes and
  of the live edges, and the heads of the two vacancy lists `free_node` / `free_edge`.  `DbgView` is that content, `renderDbg`
  the text `{:?}` produces for `i64` weights; `Theorems/C02.lean` (`C02_debug_refines`) shows that under the invariant every
  part except the two list heads is a function of the reference multigraph.  The driver compares the text exactly
  (`free_node`/`free_edge` included: the one place where the free lists are directly observable) and judges the live parts
  against the reference.

* the whole-graph slice iterators (`NodeIndices`, `EdgeIndices`, `NodeReferences`, `EdgeReferences`: an
  `Enumerate<slice::Iter<_>>` whose `next`/`next_back` skip vacant slots, `size_hint = (0, upper of the slice)`):
  `Win` is the iterator state (the slots not yet consumed and the index of the first of them), `Win.next`/`Win.nextBack`/
  `Win.sizeHint` mirror the three methods.  `Proofs/C02W6Iter.lean` proves the `Iterator`/`DoubleEndedIterator` contract for
  them (the laws the harness checks on the implementation with `iterlaws.rs`).
-/
namespace PetgraphModel.SG

/-! ### `Debug` -/

structure DbgView where
  directed : Bool
  nodeCount : Nat
  edgeCount : Nat
  /-- `(source, target)` of the live edges, in index order -/
  edges : List (Nat × Nat)
  nodeWeights : List (Nat × Int)
  edgeWeights : List (Nat × Int)
  freeNode : Nat
  freeEdge : Nat
  deriving Repr, DecidableEq

def dbgView (s : State) : DbgView :=
  { directed := s.directed, nodeCount := s.nodeCount, edgeCount := s.edgeCount,
    edges := (edgeReferences s).map fun r => (r.a, r.b),
    nodeWeights := nodeReferences s,
    edgeWeights := (edgeReferences s).map fun r => (r.id, r.w),
    freeNode := s.freeNode, freeEdge := s.freeEdge }

def showWeightMap (l : List (Nat × Int)) : String :=
  "{" ++ String.intercalate ", " (l.map fun p => s!"{p.1}: {p.2}") ++ "}"

def showEdgePairs (l : List (Nat × Nat)) : String :=
  String.intercalate ", " (l.map fun p => s!"({p.1}, {p.2})")

/-- the text of `format!("{:?}", g)` for `StableGraph<i64, i64, Ty, Ix>` -/
def renderDbg (v : DbgView) : String :=
  let ty := if v.directed then "Directed" else "Undirected"
  let edges := if v.edges.isEmpty then "" else s!"edges: {showEdgePairs v.edges}, "
  "StableGraph { Ty: \"" ++ ty ++ "\", node_count: " ++ toString v.nodeCount ++ ", edge_count: " ++ toString v.edgeCount ++ ", " ++
    edges ++ "node weights: " ++ showWeightMap v.nodeWeights ++ ", edge weights: " ++ showWeightMap v.edgeWeights ++
    ", free_node: NodeIndex(" ++ toString v.freeNode ++ "), free_edge: EdgeIndex(" ++ toString v.freeEdge ++ ") }"

/-- what the reference multigraph determines of the view: everything but the heads of the vacancy lists; the stored
orientation of an undirected edge is not determined (the driver compares unordered pairs then) -/
structure SpecDbg where
  directed : Bool
  nodeCount : Nat
  edgeCount : Nat
  edges : List (Nat × Nat)
  nodeWeights : List (Nat × Int)
  edgeWeights : List (Nat × Int)
  deriving Repr, DecidableEq

def specDbg (sp : SGSpec.Spec) : SpecDbg :=
  { directed := sp.directed, nodeCount := sp.nodeCount, edgeCount := sp.edgeCount,
    edges := sp.edgeRefs.map fun p => (p.2.a, p.2.b),
    nodeWeights := sp.nodeRefs,
    edgeWeights := sp.edgeRefs.map fun p => (p.1, p.2.w) }

def DbgView.live (v : DbgView) : SpecDbg :=
  { directed := v.directed, nodeCount := v.nodeCount, edgeCount := v.edgeCount, edges := v.edges,
    nodeWeights := v.nodeWeights, edgeWeights := v.edgeWeights }

/-! ### the slice iterators -/

/-- state of `Enumerate<slice::Iter<Option<_>>>`: index of the first remaining slot, the remaining slots (`true` = live) -/
structure Win where
  base : Nat
  slots : List Bool
  deriving Repr, DecidableEq

/-- the iterator a fresh `node_indices()` / `edge_indices()` / `*_references()` call returns -/
def Win.ofSlots {α : Type} (l : List (Option α)) : Win := ⟨0, l.map Option.isSome⟩

def nextFrom : List Bool → Nat → Option Nat × Win
  | [], b => (none, ⟨b, []⟩)
  | true :: r, b => (some b, ⟨b + 1, r⟩)
  | false :: r, b => nextFrom r (b + 1)

/-- `next`: `ex_find_map` — consume slots from the front up to and including the first live one -/
def Win.next (w : Win) : Option Nat × Win := nextFrom w.slots w.base

/-- consume slots from the back of a list up to and including the last live one: `(position of it, what remains)` -/
def dropBack : List Bool → Option Nat × List Bool
  | [] => (none, [])
  | x :: r =>
    match dropBack r with
    | (some i, r') => (some (i + 1), x :: r')
    | (none, _) => if x then (some 0, []) else (none, [])

/-- `next_back`: `ex_rfind_map` -/
def Win.nextBack (w : Win) : Option Nat × Win :=
  match dropBack w.slots with
  | (some i, r) => (some (w.base + i), ⟨w.base, r⟩)
  | (none, _) => (none, ⟨w.base + w.slots.length, []⟩)

/-- `size_hint`: `(0, upper bound of the wrapped slice iterator)` -/
def Win.sizeHint (w : Win) : Nat × Nat := (0, w.slots.length)

def itemsFrom : List Bool → Nat → List Nat
  | [], _ => []
  | true :: r, b => b :: itemsFrom r (b + 1)
  | false :: r, b => itemsFrom r (b + 1)

/-- the items `next` goes on to yield -/
def Win.items (w : Win) : List Nat := itemsFrom w.slots w.base

end PetgraphModel.SG
