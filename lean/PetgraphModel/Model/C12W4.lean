import PetgraphModel.Model.C12Mst
import PetgraphModel.Model.Graph
import PetgraphModel.Model.StableGraph
import PetgraphModel.Model.C10ShortestPaths
/-
C12, wave 4 — three more mirror models (core Lean only; linked into the driver).

1. `from_elements` (`/repo/src/data.rs`, `from_elements_indexable`) on the element stream of the MST
   iterators, for the three graph types the harness collects into: `Graph<_, _, Undirected>`,
   `Graph<_, _, Directed>` (the C01 model `G`, whose `G.fromElements` is the transcription of
   `from_elements_indexable`) and `StableGraph<_, _, Undirected>` (the C02 model `SG`: the same loop
   over `SG.tryAddNode` / `SG.tryAddEdge`).  Node weights are the abstract node ids.  Edge weights
   are opaque to `from_elements`; the C01 model carries `Nat` weights, so the `Int` weights of the
   stream travel through the bijective coding `encW`/`decW`.
2. heap scripts: `BinaryHeap::{push, pop, clear}` sequences on the heap mirror of `Model/C12Mst.lean`
   with an observation of the internal vector after every call (`into_vec`), and a priority-queue
   specification (`pqJudge`) the implementation's answers are judged against.
3. the key embedding of `MinScored<f64, _>`: a float-like score (`SP.Score` of the C10 model:
   finite, ±∞, NaN) is mapped to an `Int` such that `MinScored`'s `<=` is the heap mirror's `rle`
   (`Theorems/C12.lean`: `C12_minscored_key_embedding`).
-/
namespace PetgraphModel.MstModel
open PetgraphModel

/-! ### 1. `from_elements` -/

/-- bijective coding of `Int` edge weights as the `Nat` weights of the C01 model -/
def encW (w : Int) : Nat := if 0 ≤ w then 2 * w.toNat else 2 * (-w).toNat - 1
def decW (n : Nat) : Int := if n % 2 = 0 then ((n / 2 : Nat) : Int) else - (((n + 1) / 2 : Nat) : Int)

/-- the element stream: node elements (weight = abstract id) then edge elements -/
def toElems (ns : List Nat) (es : List EdgeEl) : List G.Elem :=
  ns.map .node ++ es.map fun e => .edge e.s e.t (encW e.w)

/-- what the harness observes of a collected graph: node weights in index order, edges in index
order as (weight of the source node, weight of the target node, edge weight) -/
inductive FERes where
  | ok (nodes : List Nat) (edges : List (Nat × Nat × Int))
  | panic
  | fault
  deriving Repr, DecidableEq

/-- `g.node_indices().map(|n| g[n])` and `g.edge_indices().map(|e| (g[a], g[b], g[e]))` on `Graph` -/
def obsGraph (s : G.State) : FERes :=
  let nw := fun i => ((s.nodes[i]?).map (·.weight)).getD 0
  .ok (s.nodes.map (·.weight)) (s.edges.map fun e => (nw e.src, nw e.tgt, decW e.weight))

/-- `Graph::<usize, W, Ty, Ix>::from_elements(stream)`; `endv` = `Ix::max()` -/
def collectGraphState (endv : Nat) (directed : Bool) (ns : List Nat) (es : List EdgeEl) : Option G.State :=
  G.fromElements (G.empty endv directed) (toElems ns es)

def collectGraph (endv : Nat) (directed : Bool) (ns : List Nat) (es : List EdgeEl) : FERes :=
  match collectGraphState endv directed ns es with
  | some s => obsGraph s
  | none => .panic

/-- `from_elements_indexable` over the `StableGraph` model (`add_node` / `add_edge` =
`try_*().unwrap()`: an `Err` is the documented panic) -/
def sgFromElements (s : SG.State) : List G.Elem → Except SG.Fault (Option SG.State)
  | [] => .ok (some s)
  | .node w :: rest =>
    match SG.tryAddNode s (w : Int) with
    | .error f => .error f
    | .ok (s', .ok _) => sgFromElements s' rest
    | .ok (_, .error _) => .ok none
  | .edge a b w :: rest =>
    match SG.tryAddEdge s a b (decW w) with
    | .error f => .error f
    | .ok (s', .ok _) => sgFromElements s' rest
    | .ok (_, .error _) => .ok none

/-- `node_indices()` / `edge_indices()` skip vacant slots -/
def obsStable (s : SG.State) : FERes :=
  let nw := fun i => (((s.nodes[i]?).bind (·.w)).getD 0).toNat
  .ok (s.nodes.filterMap fun n => n.w.map Int.toNat)
      (s.edges.filterMap fun e => e.w.map fun w => (nw e.a, nw e.b, w))

def collectStableState (fin : Nat) (ns : List Nat) (es : List EdgeEl) : Except SG.Fault (Option SG.State) :=
  sgFromElements (SG.empty false fin false true) (toElems ns es)

/-- `StableGraph::<usize, W, Undirected, Ix>::from_elements(stream)` (debug assertions on) -/
def collectStable (fin : Nat) (ns : List Nat) (es : List EdgeEl) : FERes :=
  match collectStableState fin ns es with
  | .error _ => .fault
  | .ok none => .panic
  | .ok (some s) => obsStable s

/-- the graph type named by the `fe=` field: `g` = `Graph<Undirected>`, `d` = `Graph<Directed>`,
`s` = `StableGraph<Undirected>`; default index type `u32` -/
def u32max : Nat := 4294967295

def collect (kind : String) (ns : List Nat) (es : List EdgeEl) : FERes :=
  if kind == "s" then collectStable u32max ns es
  else collectGraph u32max (kind == "d") ns es

/-- the streams inside the proved range of the `from_elements` theorems: every position is a node
position and both vectors fit the index type (`add_node` / `add_edge` do not hit the index limit) -/
def feFitsB (endv : Nat) (ns : List Nat) (es : List EdgeEl) : Bool :=
  decide (ns.length ≤ endv) && decide (es.length ≤ endv) &&
  es.all fun e => decide (e.s < ns.length) && decide (e.t < ns.length)

/-! ### 2. heap scripts -/

inductive HOp where
  | push (it : Item)
  | pop
  | clear
  deriving Repr, DecidableEq

/-- answer of one call, with the internal vector (`into_vec`, as payload ids) afterwards -/
inductive HAns where
  | pushed (lay : List Nat)
  | popped (r : Option Item) (lay : List Nat)
  | cleared
  | bad (s : String)
  deriving Repr, DecidableEq

def layout (h : Heap) : List Nat := h.map (·.a)

def heapStep (h : Heap) : HOp → Heap × HAns
  | .push it => let h' := push h it; (h', .pushed (layout h'))
  | .pop =>
    match pop h with
    | none => (h, .popped none (layout h))
    | some (x, h') => (h', .popped (some x) (layout h'))
  | .clear => ([], .cleared)

def heapRun : Heap → List HOp → List HAns
  | _, [] => []
  | h, op :: ops => let (h', a) := heapStep h op; a :: heapRun h' ops

/-- the priority-queue specification: the state is the multiset of queued items; `pop` returns
`None` exactly on the empty queue and otherwise SOME item of least score (which one among equal
scores is not specified); the internal vector holds exactly the queued items.  `.ok m'` = accepted,
new multiset. -/
def pqJudge (m : List Item) : HOp → HAns → Except String (List Item)
  | .push it, .pushed lay =>
    if lay.isPerm ((it :: m).map (·.a)) then .ok (it :: m)
    else .error "after push the heap's vector is not the queued items"
  | .pop, .popped none lay =>
    if m.isEmpty && lay.isEmpty then .ok []
    else .error "pop returned None on a non-empty heap"
  | .pop, .popped (some x) lay =>
    if !m.contains x then .error "pop returned an item that is not queued"
    else if !(m.all fun y => decide (x.w ≤ y.w)) then .error "pop returned an item that is not of least score"
    else if lay.isPerm ((m.erase x).map (·.a)) then .ok (m.erase x)
    else .error "after pop the heap's vector is not the remaining items"
  | .clear, .cleared => .ok []
  | _, _ => .error "answer does not fit the call"

def pqJudgeAll : List Item → List HOp → List HAns → Option String
  | _, [], [] => none
  | m, op :: ops, a :: as =>
    match pqJudge m op a with
    | .error why => some why
    | .ok m' => pqJudgeAll m' ops as
  | _, _, _ => some "number of answers differs from the number of calls"

/-! ### 3. `MinScored` keys -/

/-- beyond every finite key the harness uses (`i64` and integer-valued `f64`) -/
def bigKey : Int := 1000000000000000000000000000000

/-- a float-like score as a key of the heap mirror: NaN is the greatest key (popped last) -/
def scoreKey : SP.Score → Int
  | .ninf => -bigKey
  | .fin x => x
  | .pinf => bigKey
  | .nan => bigKey + 1

def scoreInRangeB : SP.Score → Bool
  | .fin x => decide (-bigKey < x) && decide (x < bigKey)
  | _ => true

/-- Rust `x <= y` on `MinScored<f64, _>`: `partial_cmp = Some(cmp)`, so `le` is `cmp != Greater` -/
def scoreRle (x y : SP.Score) : Bool := SP.scoreCmp x y != .greater

end PetgraphModel.MstModel
