import PetgraphModel.Spec.Graph
/-
C13 — mirror model of `src/algo/isomorphism.rs` (VF2): `Vf2State` with its generation-stamped `out`/`ins`
frontier vectors, `is_feasible`, `next_candidate`, `next_from_ix` and the explicit frame stack of
`isomorphisms()`, plus the early size rejections of the public wrappers.  Core Lean only.

The model runs on *concrete indices* (`to_index`) — that is what the Rust code orders its candidates by — and
therefore on a `View` of each argument (abstract graph + index labeling + neighbour iteration orders).  Its
answers are reported in abstract node ids, like the harness's.

`usize::MAX` ("not mapped") is `none`.  The `while let` loop takes fuel: `isoLoop` / `isomorphisms` return the
outer `none` when the fuel is exhausted.  The wrappers of THIS file do not report that: they call `isomorphisms`
with the fixed fuel `bigFuel = 4000000`, and `tryMatch` maps an exhausted call to `false` (like `None` under
`unwrap_or(false)`), `iterLoop` maps it to "the iterator ended" (end flag `true`, exactly like a `None` from
`next()`); their answers are complete only when no call runs out of fuel.  The DRIVER therefore does not run
them but the reporting wrappers of `Model/C13Vf2Side.lean` (`isoModelR` / `subModelR` / `iterModelR`: outer
`none` = some `next()` call ran out of fuel, which becomes the verdict `SPECFAIL generator left the proved
range: FUEL …`); a reported answer is the answer of these wrappers AND of the unbounded loop (fuel monotonicity),
so the exactness theorems `C13_vf2_*_checked` of `Theorems/C13.lean` need no bound on the size of the graphs.
The loop terminates within `explicitBound I` iterations (`Proofs/C13W3Term.lean`), so `FUEL` cannot be reported
while `explicitBound I ≤ bigFuel` (all graphs with at most 9 nodes; the generator makes at most 7).
-/
namespace PetgraphModel.C13.Vf2
open PetgraphModel

/-- one argument graph in concrete indices `0..n-1` -/
structure CG where
  n : Nat
  ecount : Nat
  directed : Bool
  /-- `neighbors_directed(i, Outgoing)` with the weight of that edge, in iteration order -/
  outE : List (List (Nat × Int))
  /-- `neighbors_directed(i, Incoming)` -/
  inN : List (List Nat)
  /-- concrete index ↦ abstract id -/
  abs : List Nat
  /-- node weight by concrete index -/
  nw : List Int
  deriving Inhabited

def CG.outN (g : CG) (i : Nat) : List Nat := ((g.outE[i]?).getD []).map (·.1)
def CG.inNb (g : CG) (i : Nat) : List Nat := (g.inN[i]?).getD []
/-- `is_adjacent(matrix, a, b)` -/
def CG.adj (g : CG) (a b : Nat) : Bool := (g.outN a).contains b
/-- `edges_directed(a, Outgoing).find(|e| e.target() == b)` then `edge_weight` -/
def CG.ew (g : CG) (a b : Nat) : Option Int := (((g.outE[a]?).getD []).find? (·.1 == b)).map (·.2)

/-- executable consistency check of a concrete graph (what the soundness theorem of the model assumes):
vector lengths, entries in range, no parallel edges, `Incoming` lists mirror `Outgoing` lists (directed), neighbour lists and
edge weights are symmetric (undirected) -/
def cgOkB (g : CG) : Bool :=
  g.outE.length == g.n && g.inN.length == g.n
  && (List.range g.n).all (fun i => (g.outN i).all (· < g.n) && (g.inNb i).all (· < g.n))
  && (List.range g.n).all (fun i => decide (g.outN i).Nodup)
  && (List.range g.n).all (fun i => (List.range g.n).all fun j =>
        if g.directed then (g.inNb j).contains i == (g.outN i).contains j
        else g.adj i j == g.adj j i && g.ew i j == g.ew j i)

def invIx (v : View) (i : Nat) : Nat := ((v.ix.find? (·.2 == i)).map (·.1)).getD 0

def CG.ofView (v : View) (nw : Nat → Int) : CG :=
  let n := v.g.nodes.length
  let absl := (List.range n).map (invIx v)
  { n := n, ecount := v.g.edges.length, directed := v.g.directed,
    outE := absl.map fun a => (v.outOf a).map fun (b, e) => (v.toIndex b, v.weight e),
    inN := absl.map fun a => (v.innOf a).map fun (b, _) => v.toIndex b,
    abs := absl, nw := absl.map nw }

structure St where
  mapping : List (Option Nat)
  out : List Nat
  ins : List Nat
  outSize : Nat := 0
  insSize : Nat := 0
  gen : Nat := 0
  deriving Inhabited

def St.new (g : CG) : St :=
  { mapping := List.replicate g.n none, out := List.replicate g.n 0,
    ins := List.replicate (if g.directed then g.n else 0) 0 }

def St.isComplete (s : St) : Bool := s.gen == s.mapping.length

def St.map (s : St) (i : Nat) : Option Nat := (s.mapping[i]?).getD none

def markAll (gen : Nat) (nb : List Nat) (vec : List Nat) (size : Nat) : List Nat × Nat :=
  nb.foldl (fun (acc : List Nat × Nat) ix =>
    if (acc.1[ix]?).getD 0 == 0 then (acc.1.set ix gen, acc.2 + 1) else acc) (vec, size)

def unmarkAll (gen : Nat) (nb : List Nat) (vec : List Nat) (size : Nat) : List Nat × Nat :=
  nb.foldl (fun (acc : List Nat × Nat) ix =>
    if (acc.1[ix]?).getD 0 == gen then (acc.1.set ix 0, acc.2 - 1) else acc) (vec, size)

def pushMapping (g : CG) (s : St) (frm to : Nat) : St :=
  let gen := s.gen + 1
  let mapping := s.mapping.set frm (some to)
  let (out, outSize) := markAll gen (g.outN frm) s.out s.outSize
  let (ins, insSize) := if g.directed then markAll gen (g.inNb frm) s.ins s.insSize else (s.ins, s.insSize)
  { mapping := mapping, out := out, ins := ins, outSize := outSize, insSize := insSize, gen := gen }

def popMapping (g : CG) (s : St) (frm : Nat) : St :=
  let mapping := s.mapping.set frm none
  let (out, outSize) := unmarkAll s.gen (g.outN frm) s.out s.outSize
  let (ins, insSize) := if g.directed then unmarkAll s.gen (g.inNb frm) s.ins s.insSize else (s.ins, s.insSize)
  { mapping := mapping, out := out, ins := ins, outSize := outSize, insSize := insSize, gen := s.gen - 1 }

/-- least index `≥ start` whose stamp is non-zero and that is not mapped (absolute index) -/
def nextStamped (vec : List Nat) (s : St) (start : Nat) : Option Nat :=
  ((List.range vec.length).drop start).find? fun i => (vec[i]?).getD 0 > 0 && (s.map i).isNone

def nextOut (s : St) (start : Nat) : Option Nat := nextStamped s.out s start
def nextIn (g : CG) (s : St) (start : Nat) : Option Nat := if g.directed then nextStamped s.ins s start else none
def nextRest (s : St) (start : Nat) : Option Nat :=
  ((List.range s.mapping.length).drop start).find? fun i => (s.map i).isNone

inductive OpenList where | out | inn | other
  deriving DecidableEq, Repr

inductive Frame where
  | outer
  | inner (n0 n1 : Nat) (ol : OpenList)
  | unwind (n0 n1 : Nat) (ol : OpenList)
  deriving Repr

/-- both graphs, the predicates and whether the matchers are `enabled()` (the `_matching` variants) -/
structure Inst where
  g0 : CG
  g1 : CG
  nm : Int → Int → Bool
  em : Int → Int → Bool
  semantic : Bool

structure M where
  s0 : St
  s1 : St
  stack : List Frame

/-- the adjacency test of `r_succ!(j)`, seen from graph `g` (state `s`, node `n`) towards graph `h` (node `m`):
every out-neighbour of `n` that is mapped (or is `n` itself: the self-loop case, standing for `m`) must be an
out-neighbour of `m`; `false` = the macro's `return false`.  The macro's value, `succ_count`, is the number of
out-neighbours. -/
def succOk (g h : CG) (s : St) (n m : Nat) : Bool :=
  (g.outN n).all fun nb =>
    match (if n != nb then s.map nb else some m) with
    | none => true
    | some x => h.adj m x

/-- the adjacency test of `r_pred!(j)` -/
def predOk (g h : CG) (s : St) (n m : Nat) : Bool :=
  (g.inNb n).all fun nb =>
    match s.map nb with
    | none => true
    | some x => h.adj x m

/-- `EdgeMatcher::eq` for a closure: both weights must be found -/
def edgeEq (I : Inst) (a0 b0 a1 b1 : Nat) : Bool :=
  match I.g0.ew a0 b0, I.g1.ew a1 b1 with
  | some x, some y => I.em x y
  | _, _ => false

/-- `edge_feasibility!(j)`; `flip = false`: `g` is g0, `flip = true`: `g` is g1 -/
def edgeFeas (I : Inst) (flip : Bool) (g : CG) (s : St) (n m : Nat) : Bool :=
  let eq := fun (a b c d : Nat) => if flip then edgeEq I c d a b else edgeEq I a b c d
  (g.outN n).all (fun nb =>
    match (if n != nb then s.map nb else some m) with
    | none => true
    | some x => eq n nb m x)
  && (!g.directed || (g.inNb n).all fun nb =>
    match s.map nb with
    | none => true
    | some x => eq nb n x m)

def isFeasible (I : Inst) (m : M) (n0 n1 : Nat) : Bool :=
  -- if r_succ!(0) > r_succ!(1) { return false }
  succOk I.g0 I.g1 m.s0 n0 n1 && succOk I.g1 I.g0 m.s1 n1 n0
  && !((I.g0.outN n0).length > (I.g1.outN n1).length)
  -- if st.0.graph.is_directed() && r_pred!(0) > r_pred!(1) { return false }
  && (!I.g0.directed ||
       (predOk I.g0 I.g1 m.s0 n0 n1 && predOk I.g1 I.g0 m.s1 n1 n0
        && !((I.g0.inNb n0).length > (I.g1.inNb n1).length)))
  -- semantic feasibility: node weights, then edge weights
  && (!I.semantic || I.nm ((I.g0.nw[n0]?).getD 0) ((I.g1.nw[n1]?).getD 0))
  && (!I.semantic || (edgeFeas I false I.g0 m.s0 n0 n1 && edgeFeas I true I.g1 m.s1 n1 n0))

def nextCandidate (I : Inst) (m : M) : Option (Nat × Nat × OpenList) :=
  let to1 := nextOut m.s1 0
  let (frm1, ol1) := if to1.isSome then (nextOut m.s0 0, OpenList.out) else (none, OpenList.out)
  let (to2, frm2, ol2) :=
    if to1.isNone || frm1.isNone then
      let t := nextIn I.g1 m.s1 0
      if t.isSome then (t, nextIn I.g0 m.s0 0, OpenList.inn) else (t, frm1, ol1)
    else (to1, frm1, ol1)
  let (to3, frm3, ol3) :=
    if to2.isNone || frm2.isNone then
      let t := nextRest m.s1 0
      if t.isSome then (t, nextRest m.s0 0, OpenList.other) else (t, frm2, ol2)
    else (to2, frm2, ol2)
  match frm3, to3 with
  | some n, some k => some (n, k, ol3)
  | _, _ => none

def nextFromIx (I : Inst) (m : M) (nx : Nat) (ol : OpenList) : Option Nat :=
  let start := nx + 1
  match ol with
  | .out => nextOut m.s1 start
  | .inn => nextIn I.g1 m.s1 start
  | .other => nextRest m.s1 start

def pushState (I : Inst) (m : M) (n0 n1 : Nat) : M :=
  { m with s0 := pushMapping I.g0 m.s0 n0 n1, s1 := pushMapping I.g1 m.s1 n1 n0 }

def popState (I : Inst) (m : M) (n0 n1 : Nat) : M :=
  { m with s0 := popMapping I.g0 m.s0 n0, s1 := popMapping I.g1 m.s1 n1 }

abbrev Result := Option (List (Option Nat))

/-- the tail shared by the `Unwind` and `Inner` arms: `next_from_ix`, then either `continue` (flag `false`)
or push the next `Inner` frame and fall through to the loop's `if result.is_some() { return result }`
(flag `true`) -/
def advance (I : Inst) (m : M) (n0 n1 : Nat) (ol : OpenList) (result : Result) : M × Result × Bool :=
  match nextFromIx I m n1 ol with
  | none => (m, result, false)
  | some nx => ({ m with stack := .inner n0 nx ol :: m.stack }, result, true)

/-- the cardinality test on the frontier sets after `push_state` -/
def sizesOk (sub : Bool) (m : M) : Bool :=
  (!sub && m.s0.outSize == m.s1.outSize && m.s0.insSize == m.s1.insSize)
  || (sub && m.s0.outSize ≤ m.s1.outSize && m.s0.insSize ≤ m.s1.insSize)

/-- one iteration of the `while let Some(frame) = stack.pop()` loop on the popped frame `fr` (`m.stack` is
the rest).  The flag says whether the iteration reaches the loop's final `if result.is_some() { return }`
(`true`) or leaves it by `continue` (`false`). -/
def frameStep (I : Inst) (sub : Bool) (m : M) (fr : Frame) (result : Result) : M × Result × Bool :=
  match fr with
  | .unwind n0 n1 ol => advance I (popState I m n0 n1) n0 n1 ol result
  | .outer =>
    match nextCandidate I m with
    | none => (m, result, false)
    | some (nx, mx, ol) => ({ m with stack := .inner nx mx ol :: m.stack }, result, true)
  | .inner n0 n1 ol =>
    if isFeasible I m n0 n1 then
      let m1 := pushState I m n0 n1
      let result := if m1.s0.isComplete then some m1.s0.mapping else result
      if sizesOk sub m1 then
        ({ m1 with stack := .outer :: .unwind n0 n1 ol :: m1.stack }, result, false)
      else advance I (popState I m1 n0 n1) n0 n1 ol result
    else advance I m n0 n1 ol result

/-- the `while let Some(frame) = stack.pop()` loop of `isomorphisms()`; outer `none` = out of fuel -/
def isoLoop (I : Inst) (sub : Bool) : Nat → M → Result → Option (M × Result)
  | 0, _, _ => none
  | fuel + 1, m, result =>
    match m.stack with
    | [] => some (m, result)
    | fr :: rest =>
      match frameStep I sub { m with stack := rest } fr result with
      | (m2, result2, check) =>
        if check && result2.isSome then some (m2, result2) else isoLoop I sub fuel m2 result2

/-- `isomorphisms()` -/
def isomorphisms (I : Inst) (sub : Bool) (fuel : Nat) (m : M) : Option (M × Result) :=
  if m.s0.isComplete then
    -- (repaired code, D30) only an empty pattern is complete here: `stack.pop().map(|_| mapping.clone())`
    match m.stack with
    | [] => some (m, none)
    | _ :: rest => some ({ m with stack := rest }, some m.s0.mapping)
  else isoLoop I sub fuel m none

def M.init (I : Inst) : M := { s0 := St.new I.g0, s1 := St.new I.g1, stack := [.outer] }

def setup (v0 v1 : View) (nw0 nw1 : Nat → Int) (nm em : Int → Int → Bool) (semantic : Bool) : Inst :=
  { g0 := CG.ofView v0 nw0, g1 := CG.ofView v1 nw1, nm := nm, em := em, semantic := semantic }

def bigFuel : Nat := 4000000

/-- `try_match(..).unwrap_or(false)` -/
def tryMatch (I : Inst) (sub : Bool) : Bool :=
  match isomorphisms I sub bigFuel (M.init I) with
  | some (_, some _) => true
  | _ => false

/-- `is_isomorphic[_matching]` -/
def isoModel (I : Inst) : Bool :=
  if I.g0.n != I.g1.n || I.g0.ecount != I.g1.ecount then false else tryMatch I false

/-- `is_isomorphic_subgraph[_matching]` -/
def subModel (I : Inst) : Bool :=
  if I.g0.n > I.g1.n || I.g0.ecount > I.g1.ecount then false else tryMatch I true

/-- a complete `mapping` of g0 (by concrete index) as a vector over abstract g0 ids with abstract g1 values -/
def toAbstract (I : Inst) (mp : List (Option Nat)) : List Nat :=
  (List.range I.g0.n).map fun a =>
    let i := (I.g0.abs.idxOf a)
    match (mp[i]?).getD none with
    | some j => (I.g1.abs[j]?).getD 0
    | none => 0

/-- call `next()` up to `cap` times; the flag says whether the iterator then reported the end -/
def iterLoop (I : Inst) : Nat → M → List (List Nat) → List (List Nat) × Bool
  | 0, m, acc =>
    match isomorphisms I true bigFuel m with
    | some (_, some _) => (acc.reverse, false)
    | _ => (acc.reverse, true)
  | k + 1, m, acc =>
    match isomorphisms I true bigFuel m with
    | some (m', some mp) => iterLoop I k m' (toAbstract I mp :: acc)
    | _ => (acc.reverse, true)

def fallingFact (n k : Nat) : Nat := ((List.range k).map (n - ·)).foldl (· * ·) 1

/-- `subgraph_isomorphisms_iter`, drained like the harness drains it (at most `n1!/(n1-n0)! + 2` items) -/
def iterModel (I : Inst) : Option (List (List Nat) × Bool) :=
  if I.g0.n > I.g1.n || I.g0.ecount > I.g1.ecount then none
  else some (iterLoop I (fallingFact I.g1.n I.g0.n + 2) (M.init I) [])

end PetgraphModel.C13.Vf2
