import PetgraphModel.Spec.Graph
import PetgraphModel.Model.Traversal
import PetgraphModel.Model.UnionFind
/-
Mirror models of the C09 functions of `/repo/src/algo/mod.rs` over a `View` (core Lean only):

  kosaraju_scc, toposort, has_path_connecting      compositions of the C08 walkers (`Model/Traversal`)
  is_cyclic_directed                               `depth_first_search`, any `BackEdge`
  TarjanScc::run / node_component_index            Pearce's variant, rootindex / componentcount encoding
  connected_components, is_cyclic_undirected       over the C19 union–find model (`Model/UnionFind`)
  is_bipartite_undirected                          the 2-colouring BFS
  condensation                                     on `Graph` (node index order, edge index order)

`graph.neighbors(x)` is `v.succ x`, `Reversed(graph).neighbors(x)` is `v.pred x`, both in the
encoding's iteration order; `node_identifiers()` is `v.g.nodes`.  Loops take fuel; `none` = fuel ran
out (never happens with the fuel the driver uses; it would show up as a MODELDIFF).
-/
namespace PetgraphModel.C09M
open PetgraphModel PetgraphModel.Trav

/-- the view of `Reversed(g)` -/
def rev (v : View) : View := { v with g := v.g.reverse, out := v.inn, inn := v.out }

def fuel (v : View) : Nat := 4 * v.g.edges.length + 2 * v.g.nodes.length + 16

/-- iterate a walker until it returns `None`, appending what it emits -/
def drain {σ : Type} (next : σ → Option (Option Nat × σ)) : Nat → σ → List Nat → Option (List Nat × σ)
  | 0, _, _ => none
  | k+1, s, acc =>
    match next s with
    | none => none
    | some (none, s') => some (acc, s')
    | some (some x, s') => drain next k s' (acc ++ [x])

/-! ### kosaraju_scc -/

/-- one iteration of the first phase: skip a discovered node, else run `DfsPostOrder` on `Reversed(g)`
from it to exhaustion, appending what it emits -/
def finishStep (v : View) (st : Post × List Nat) (i : Nat) : Option (Post × List Nat) :=
  if st.1.disc.contains i then some st
  else (drain (postNext (rev v) (2 * fuel v)) (2 * fuel v + 4) (st.1.moveTo i) st.2).map fun p => (p.2, p.1)

/-- first phase: `DfsPostOrder` on `Reversed(g)`, restarted at every undiscovered node -/
def kosarajuFinish (v : View) : Option (List Nat) :=
  (v.g.nodes.foldlM (finishStep v) (({} : Post), [])).map (·.2)

/-- one iteration of the second phase: skip a discovered node, else one forward `Dfs` = one component -/
def collectStep (v : View) (st : Dfs × List (List Nat)) (i : Nat) : Option (Dfs × List (List Nat)) :=
  if st.1.disc.contains i then some st
  else (drain (dfsNext v (fuel v)) (fuel v + 4) (st.1.moveTo i) []).map fun p => (p.2, st.2 ++ [p.1])

/-- second phase: forward `Dfs` in decreasing finishing time; one component per restart -/
def kosarajuCollect (v : View) (finish : List Nat) : Option (List (List Nat)) :=
  (finish.reverse.foldlM (collectStep v) (({} : Dfs), [])).map (·.2)

def kosaraju (v : View) : Option (List (List Nat)) :=
  (kosarajuFinish v).bind (kosarajuCollect v)

/-! ### toposort -/

structure TS where
  stack : List Nat := []     -- top at the head
  disc : List Nat := []
  fin : List Nat := []
  out : List Nat := []       -- `finish_stack` in push order
  deriving Repr, Inhabited

/-- the `while let Some(&nx) = dfs.stack.last()` loop; `.error x` = `Err(Cycle(x))` (self-loop) -/
def topoWhile (v : View) : Nat → TS → Option (Except Nat TS)
  | 0, _ => none
  | f+1, s =>
    match s.stack with
    | [] => some (.ok s)
    | nx :: st =>
      if !s.disc.contains nx then
        if (v.succ nx).contains nx then some (.error nx)
        else
          let disc := nx :: s.disc
          let pushes := (v.succ nx).filter fun y => !disc.contains y
          topoWhile v f { s with stack := pushes.reverse ++ (nx :: st), disc := disc }
      else if !s.fin.contains nx then
        topoWhile v f { s with stack := st, fin := nx :: s.fin, out := s.out ++ [nx] }
      else topoWhile v f { s with stack := st }

/-- the `for i in g.node_identifiers()` loop of the first pass -/
def topoFirst (v : View) (f : Nat) : List Nat → TS → Option (Except Nat TS)
  | [], s => some (.ok s)
  | i :: rest, s =>
    if s.disc.contains i then topoFirst v f rest s
    else match topoWhile v f { s with stack := i :: s.stack } with
      | none => none
      | some (.error x) => some (.error x)
      | some (.ok s') => topoFirst v f rest s'

/-- second pass: `Dfs` on `Reversed(g)` from every node in the order found; a second node in one
restart is a cycle.  `some (some j)` = `Err(Cycle(j))` -/
def topoSecond (v : View) (f : Nat) : List Nat → Dfs → Option (Option Nat)
  | [], _ => some none
  | i :: rest, d =>
    match dfsNext (rev v) f (d.moveTo i) with
    | none => none
    | some (none, d1) => topoSecond v f rest d1
    | some (some _, d1) =>
      match dfsNext (rev v) f d1 with
      | none => none
      | some (none, d2) => topoSecond v f rest d2
      | some (some j, _) => some (some j)

inductive TopoRes where
  | ok (order : List Nat) | cycle (x : Nat)
  deriving Repr, DecidableEq, Inhabited

def toposort (v : View) : Option TopoRes :=
  let f := 2 * fuel v
  match topoFirst v f v.g.nodes {} with
  | none => none
  | some (.error x) => some (.cycle x)
  | some (.ok s) =>
    let order := s.out.reverse
    match topoSecond v f order {} with
    | none => none
    | some (some j) => some (.cycle j)
    | some none => some (.ok order)

/-! ### has_path_connecting: `dfs.reset; dfs.move_to(from); dfs.iter(g).any(|x| x == to)` -/

def hasPathLoop (v : View) (f : Nat) (to : Nat) : Nat → Dfs → Option Bool
  | 0, _ => none
  | k+1, d =>
    match dfsNext v f d with
    | none => none
    | some (none, _) => some false
    | some (some x, d') => if x = to then some true else hasPathLoop v f to k d'

def hasPath (v : View) (a b : Nat) : Option Bool :=
  hasPathLoop v (fuel v) b (fuel v + 4) (({} : Dfs).moveTo a)

/-! ### is_cyclic_directed: a `BackEdge` event stops the search with `Err(())` -/

def isBack : Ev → Bool
  | .back .. => true
  | _ => false

/-- the run is the unbroken run up to the first `BackEdge`, so "some BackEdge occurs" is the answer -/
def cyclicDirected (v : View) : Option Bool :=
  match dfsSearch v [] (4 * fuel v) v.g.nodes {} with
  | (s, .cont) => some (s.evs.any isBack)
  | _ => none

/-! ### TarjanScc -/

/-- `usize::MAX` on the 64-bit target the harness runs on -/
def usizeMax : Nat := 18446744073709551615

structure TJ where
  index : Nat := 1
  cc : Nat := usizeMax              -- `componentcount`
  root : List (Nat × Nat) := []     -- `nodes[to_index].rootindex`; absent = `None`
  stack : List Nat := []            -- top at the head
  out : List (List Nat) := []
  deriving Repr, Inhabited

def TJ.get (t : TJ) (v : View) (x : Nat) : Option Nat := t.root.lookup (v.toIndex x)
def TJ.set (t : TJ) (v : View) (x : Nat) (r : Option Nat) : TJ :=
  match r with
  | some r => { t with root := (v.toIndex x, r) :: t.root }
  | none => t

/-- `Option<NonZeroUsize>` order: `None < Some(_)` -/
def optLt : Option Nat → Option Nat → Bool
  | none, some _ => true
  | some a, some b => a < b
  | _, none => false

mutual
/-- `TarjanScc::visit` -/
def tjVisit (v : View) : Nat → Nat → TJ → Option TJ
  | 0, _, _ => none
  | f+1, x, t =>
    let t := ({ t with index := t.index + 1 } : TJ).set v x (some t.index)
    match tjNeigh v f x (v.succ x) t true with
    | none => none
    | some (t, localRoot) =>
      if localRoot then
        let rx := t.get v x
        -- `rposition`: from the top, until a node whose rootindex is smaller than `x`'s
        let comp := t.stack.takeWhile fun w => !(optLt (t.get v w) rx)
        let rest := t.stack.drop comp.length
        let t := (comp ++ [x]).foldl (fun (t : TJ) w => t.set v w (some t.cc)) t
        some { t with stack := rest, out := t.out ++ [comp.reverse ++ [x]],
                      index := t.index - (comp.length + 1), cc := t.cc - 1 }
      else some { t with stack := x :: t.stack }
/-- the `for w in g.neighbors(v)` loop -/
def tjNeigh (v : View) : Nat → Nat → List Nat → TJ → Bool → Option (TJ × Bool)
  | 0, _, _, _, _ => none
  | _, _, [], t, lr => some (t, lr)
  | f+1, x, w :: ws, t, lr =>
    match (if (t.get v w).isNone then tjVisit v f w t else some t) with
    | none => none
    | some t =>
      if optLt (t.get v w) (t.get v x) then tjNeigh v f x ws (t.set v x (t.get v w)) false
      else tjNeigh v f x ws t lr
end

/-- the body of `for n in g.node_identifiers()` in `run` -/
def tjRunStep (v : View) (t : TJ) (n : Nat) : Option TJ :=
  if (t.get v n).isNone then tjVisit v (4 * fuel v) n t else some t

/-- `TarjanScc::run` on a (possibly used) value: `nodes` is cleared, `index`/`componentcount` are kept -/
def tjRun (v : View) (t : TJ) : Option TJ :=
  v.g.nodes.foldlM (tjRunStep v) { t with root := [], out := [] }

/-- `node_component_index` -/
def tjIndex (v : View) (t : TJ) (x : Nat) : Nat := usizeMax - (t.get v x).getD 0

/-! ### union–find based: connected_components, is_cyclic_undirected
`pairs` = `(to_index(source), to_index(target))` of `edge_references()` in iteration order -/

/-- one `vertex_sets.union(a, b)`; `none` = it panicked (out of range) or the model faulted -/
def unionStep (s : UF.State) (p : Nat × Nat) : Option UF.State :=
  match UF.tryUnion s p.1 p.2 with
  | .ok (s', .ok _) => some s'
  | _ => none

/-- the distinct values of a list (`sort_unstable(); dedup()` keeps one of each) -/
def distinct : List Nat → List Nat
  | [] => []
  | x :: xs => if xs.contains x then distinct xs else x :: distinct xs

/-- `Some(n)` = count, `none` = a `union` panicked or the model faulted -/
def connectedComponents (nb : Nat) (pairs : List (Nat × Nat)) : Option Nat :=
  match pairs.foldlM unionStep (UF.new 0 nb) with
  | none => none
  | some s =>
    match UF.intoLabeling s with
    | .ok labels => some (distinct labels).length     -- `sort_unstable(); dedup(); len()`
    | .error _ => none

def cyclicUndirected (nb : Nat) : List (Nat × Nat) → UF.State → Option Bool
  | [], _ => some false
  | p :: rest, s =>
    match UF.tryUnion s p.1 p.2 with
    | .ok (s', .ok true) => cyclicUndirected nb rest s'
    | .ok (_, .ok false) => some true
    | _ => none

/-! ### is_bipartite_undirected -/

/-- the `for neighbour in g.neighbors(node)` loop; `none` = `return false` -/
def bipNeigh (isRed isBlue : Bool) : List Nat → List Nat → List Nat → List Nat → Option (List Nat × List Nat × List Nat)
  | [], q, red, blue => some (q, red, blue)
  | nb :: rest, q, red, blue =>
    let nr := red.contains nb
    let nbl := blue.contains nb
    if (isRed && nr) || (isBlue && nbl) then none
    else if !nr && !nbl then
      if isRed then bipNeigh isRed isBlue rest (q ++ [nb]) red (nb :: blue)
      else bipNeigh isRed isBlue rest (q ++ [nb]) (nb :: red) blue
    else bipNeigh isRed isBlue rest q red blue

inductive BipRes where
  | answer (b : Bool) | panic | fuel
  deriving Repr, DecidableEq, Inhabited

def bipLoop (v : View) : Nat → List Nat → List Nat → List Nat → BipRes
  | 0, _, _, _ => .fuel
  | _+1, [], _, _ => .answer true
  | f+1, node :: q, red, blue =>
    let isRed := red.contains node
    let isBlue := blue.contains node
    if isRed == isBlue then .panic          -- `assert!(is_red ^ is_blue)`
    else match bipNeigh isRed isBlue (v.succ node) q red blue with
      | none => .answer false
      | some (q', red', blue') => bipLoop v f q' red' blue'

def bipartite (v : View) (s : Nat) : BipRes := bipLoop v (fuel v) [s] [s] []

/-! ### condensation (on `Graph`): `eo` = abstract edge id of every concrete edge index -/

structure Cond where
  nodes : List (List Nat)
  edges : List (Nat × Nat × Int)
  deriving Repr, DecidableEq, Inhabited

/-- `Graph::update_edge`: overwrite the weight of the first edge a→b (either way when undirected), else add -/
def updateEdge (directed : Bool) (es : List (Nat × Nat × Int)) (a b : Nat) (w : Int) : List (Nat × Nat × Int) :=
  let hit := fun (e : Nat × Nat × Int) => (e.1 == a && e.2.1 == b) || (!directed && e.1 == b && e.2.1 == a)
  if es.any hit then
    -- exactly one such edge exists in a graph built by `update_edge` alone
    es.map fun e => if hit e then (e.1, e.2.1, w) else e
  else es ++ [(a, b, w)]

/-- index of the component holding `x` (`node_map`) -/
def compOf (sccs : List (List Nat)) (x : Nat) : Nat := sccs.findIdx fun c => c.contains x

/-- the body of `for edge in edges` -/
def condEdgeStep (v : View) (comp : Nat → Nat) (makeAcyclic : Bool) (es : List (Nat × Nat × Int)) (k : Nat) :
    List (Nat × Nat × Int) :=
  match v.edge? k with
  | none => es
  | some e =>
    if makeAcyclic then
      (if comp e.src != comp e.tgt then updateEdge v.g.directed es (comp e.src) (comp e.tgt) e.w else es)
    else es ++ [(comp e.src, comp e.tgt, e.w)]

def condensation (v : View) (eo : List Nat) (makeAcyclic : Bool) : Option Cond :=
  match kosaraju v with
  | none => none
  | some sccs =>
    some {
      -- `for (nix, node) in nodes.into_iter().enumerate()`: node index order = `node_identifiers()`
      nodes := (List.range sccs.length).map fun ci => v.g.nodes.filter fun x => compOf sccs x == ci,
      edges := eo.foldl (condEdgeStep v (compOf sccs) makeAcyclic) [] }

end PetgraphModel.C09M
