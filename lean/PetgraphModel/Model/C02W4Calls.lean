import PetgraphModel.Model.StableGraph
import PetgraphModel.Spec.C02W4Queries
/-
C02, wave 4 — the rest of the public API of `StableGraph` on the mirror model of `Model/StableGraph.lean`:

* `query`: every read-only call as ONE function of the state (the driver prints its dump lines from it, the theorems
  `C02_query_*` relate it to the reference multigraph);
* `pstep`: the panicking call variants — `add_node`, `add_edge`, `update_edge` are literally `try_*(..).unwrap()` in
  `stable_graph/mod.rs`, `Index`/`IndexMut` are `*_weight(..).unwrap()` / `*_weight_mut(..).unwrap()`, `index_twice_mut`
  is an `assert!` followed by two `index_mut`; the answer `POut.panic` is the documented panic, the state is the one the
  real code leaves behind (the `try_*` call has already restored it);
* `Call`/`callStep`/`runCalls`: mutating calls, panicking variants and queries in one history;
* the constructors: `new()` = `default()` = `with_capacity(_, _)` = `empty`, `from_edges` = `extend_with_edges` on `empty`,
  `FromElements::from_elements` = `add_node` / `add_edge(from_index(a), from_index(b), w)` per element on `empty`.

Core Lean only.
-/
namespace PetgraphModel.SG
open PetgraphModel.SGSpec

def erefT (r : ERef) : ERefT := (r.id, r.a, r.b, r.w)

def mapOk {α β : Type} (f : α → β) : Except Fault α → Except Fault β
  | .ok a => .ok (f a)
  | .error x => .error x

/-- every read-only public call -/
def query (s : State) : Query → Except Fault QOut
  | .nodeCount => .ok (.nat s.nodeCount)
  | .edgeCount => .ok (.nat s.edgeCount)
  | .nodeBound => .ok (.nat (nodeBound s))
  | .edgeBound => .ok (.nat (edgeBound s))
  | .nodeIndices => .ok (.nats (nodeIndices s))
  | .edgeIndices => .ok (.nats (edgeIndices s))
  | .nodeReferences => .ok (.nodeRefs (nodeReferences s))
  | .edgeReferences => .ok (.erefs ((edgeReferences s).map erefT))
  | .nodeWeight a => .ok (.optInt (nodeWeight s a))
  | .containsNode a => .ok (.bool (containsNode s a))
  | .edgeWeight e => .ok (.optInt (edgeWeight s e))
  | .edgeEndpoints e => .ok (.optPair (edgeEndpoints s e))
  | .neighbors a => mapOk .nats (neighbors s a)
  | .neighborsDirected a d => mapOk .nats (neighborsDirected s a (dirK d))
  | .neighborsUndirected a => mapOk .nats (neighborsUndirected s a)
  | .edges a => mapOk (fun l => .erefs (l.map erefT)) (edgesDirected s a false)
  | .edgesDirected a d => mapOk (fun l => .erefs (l.map erefT)) (edgesDirected s a d)
  | .walker a k => mapOk .pairs (walker s a k)
  | .externals d => .ok (.nats (externals s (dirK d)))
  | .findEdge a b => mapOk .optNat (findEdge s a b)
  | .containsEdge a b => mapOk (fun o => .bool o.isSome) (findEdge s a b)
  | .findEdgeUndirected a b => mapOk (fun o => .optDir (o.map fun p => (p.1, p.2 != 0))) (findEdgeUndirected s a b)
  | .edgesConnecting a b => mapOk (fun l => .erefs (l.map erefT)) (edgesConnecting s a b)

/-- `x.unwrap()` of a `Result<Index, GraphError>` -/
def unwrapIdx (r : State × Except GErr Nat) : State × POut :=
  match r.2 with
  | .ok i => (r.1, .idx i)
  | .error _ => (r.1, .panic)

def hasElem (s : State) (isNode : Bool) (i : Nat) : Bool :=
  if isNode then (nodeWeight s i).isSome else (edgeWeight s i).isSome

def setElem (s : State) (isNode : Bool) (i : Nat) (w : Int) : State :=
  if isNode then (setNodeWeight s i w).1 else (setEdgeWeight s i w).1

/-- the panicking call variants -/
def pstep (s : State) : PCall → Except Fault (State × POut)
  | .addNode w => mapOk unwrapIdx (tryAddNode s w)
  | .addEdge a b w => mapOk unwrapIdx (tryAddEdge s a b w)
  | .updateEdge a b w => mapOk unwrapIdx (tryUpdateEdge s a b w)
  | .indexNode a => .ok (s, match nodeWeight s a with | some w => .weight w | none => .panic)
  | .indexEdge e => .ok (s, match edgeWeight s e with | some w => .weight w | none => .panic)
  | .indexMutNode a w => let r := setNodeWeight s a w; .ok (r.1, if r.2 then .unit else .panic)
  | .indexMutEdge e w => let r := setEdgeWeight s e w; .ok (r.1, if r.2 then .unit else .panic)
  | .indexTwice n1 n2 i j w1 w2 =>
    -- assert!(T::is_node_index() != U::is_node_index() || i.index() != j.index()), then the two index_mut
    if (n1 == n2 && i == j) || !hasElem s n1 i || !hasElem s n2 j then .ok (s, .panic)
    else .ok (setElem (setElem s n1 i w1) n2 j w2, .unit)

/-- one call of the public API -/
inductive Call where
  | op (o : Op)
  | p (c : PCall)
  | q (x : Query)
  deriving Repr

inductive COut where
  | op (o : Out)
  | p (o : POut)
  | q (o : QOut)
  deriving Repr

def callStep (s : State) : Call → Except Fault (State × COut)
  | .op o => mapOk (fun r => (r.1, .op r.2)) (step s o)
  | .p c => mapOk (fun r => (r.1, .p r.2)) (pstep s c)
  | .q x => mapOk (fun r => (s, .q r)) (query s x)

/-- a history of calls; stops at the first fault -/
def runCalls (s : State) : List Call → Except Fault (State × List COut)
  | [] => .ok (s, [])
  | c :: cs =>
    match callStep s c with
    | .error x => .error x
    | .ok (s1, o) =>
      match runCalls s1 cs with
      | .error x => .error x
      | .ok (s2, os) => .ok (s2, o :: os)

/-! ### constructors -/

/-- how a graph comes into being -/
inductive Ctor where
  /-- `StableGraph::new()` (only for `Directed`, `u32`), `default()`, `with_capacity(n, e)`, `Create::with_capacity` -/
  | new
  /-- `from_edges(l)` -/
  | fromEdges (l : List (Nat × Nat × Int))
  /-- `FromElements::from_elements(els)` -/
  | fromElements (els : List Elem)
  deriving Repr

/-- the element loop of `from_elements_indexable`; `none` = the inner `add_node`/`add_edge` panicked (the graph under
construction is dropped) -/
def fromElementsLoop : List Elem → State → Except Fault (Option State)
  | [], g => .ok (some g)
  | .node w :: rest, g =>
    match pstep g (.addNode w) with
    | .error x => .error x
    | .ok (_, .panic) => .ok none
    | .ok (g1, _) => fromElementsLoop rest g1
  | .edge a b w :: rest, g =>
    -- `from_index(i)` = `NodeIndex::new(i)`
    match pstep g (.addEdge (mkIx g a) (mkIx g b) w) with
    | .error x => .error x
    | .ok (_, .panic) => .ok none
    | .ok (g1, _) => fromElementsLoop rest g1

/-- a constructor call; `none` = it panicked -/
def construct (directed : Bool) (fin : Nat) (noLimit debug : Bool) : Ctor → Except Fault (Option State)
  | .new => .ok (some (empty directed fin noLimit debug))
  | .fromEdges l =>
    match extendWithEdges (empty directed fin noLimit debug) l with
    | .error x => .error x
    | .ok (g, false) => .ok (some g)
    | .ok (_, true) => .ok none
  | .fromElements els => fromElementsLoop els (empty directed fin noLimit debug)

end PetgraphModel.SG
