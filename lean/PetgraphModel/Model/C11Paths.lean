import PetgraphModel.Spec.Graph
import PetgraphModel.Oracle.Dist
/-
Mirror models (core Lean only) of

  src/algo/bellman_ford.rs   bellman_ford, find_negative_cycle, bellman_ford_initialize_relax
  src/algo/spfa.rs           spfa (FIFO work list, per-vertex visit counter)
  src/algo/floyd_warshall.rs floyd_warshall, floyd_warshall_path, _floyd_warshall_path
  src/algo/mod.rs            BoundedMeasure::{max, overflowing_add}

over a `View` (abstract graph + iteration orders of one encoding).  Costs are `Int`.

* `FloatMeasure` (bellman_ford): `+∞` is "no entry" in the distance table; the only float
  behaviour used is `∞ + w = ∞` and `¬ ∞ < ∞` (costs are integer-valued and small, hence exact).
* `BoundedMeasure` (spfa, floyd_warshall): a `Meas` gives `max()`/`min()`; `overflowing_add` is
  exact addition with the overflow flag (and two's-complement wrap of the value for the integer
  types; for `f64` the value is unused whenever the flag is set).

Vectors indexed by `to_index` are tables keyed by abstract node id (`Tab`); vacant indices of a
`StableGraph` are never touched by the algorithms and are not represented.
-/
namespace PetgraphModel.C11M
open PetgraphModel

/-! ### finite tables -/
abbrev Tab (κ α : Type) := List (κ × α)

def tget {κ α : Type} [BEq κ] (t : Tab κ α) (k : κ) : Option α := List.lookup k t
def terase {κ α : Type} [BEq κ] (t : Tab κ α) (k : κ) : Tab κ α := t.filter fun e => !(e.1 == k)
def tset {κ α : Type} [BEq κ] (t : Tab κ α) (k : κ) (x : α) : Tab κ α := (k, x) :: terase t k

/-- executable check that the view's out-lists describe exactly the arcs of the abstract graph (as
sets): every listed `(target, edge id)` is an arc of that cost, and every arc starts at a node of
the view and is listed there -/
def viewArcsB (v : View) : Bool :=
  (v.out.all fun ar => ar.2.all fun te => v.g.arcs.contains (ar.1, te.1, v.weight te.2)) &&
  (v.g.arcs.all fun x => v.g.nodes.contains x.1 &&
    (v.outOf x.1).any fun te => te.1 == x.2.1 && v.weight te.2 == x.2.2)

def nodupB : List Nat → Bool
  | [] => true
  | a :: t => !t.contains a && nodupB t

/-- executable `MGraph.WellFormed` -/
def wfB (g : MGraph) : Bool :=
  nodupB g.nodes && g.edges.all fun e => g.nodes.contains e.src && g.nodes.contains e.tgt

/-! ### bellman_ford (FloatMeasure) -/

structure BF where
  d : Tab Nat Int := []          -- absent = +∞
  p : Tab Nat Nat := []          -- absent = None
  upd : Bool := false
  deriving Repr, Inhabited

/-- `distance[i] + w < distance[j]` on floats with `+∞` -/
def fltLt (a : Option Int) (w : Int) (b : Option Int) : Bool :=
  match a, b with
  | none, _ => false
  | some _, none => true
  | some x, some y => decide (x + w < y)

/-- one edge `i → te.1` (edge id `te.2`) of the relaxation loop -/
def bfEdge (v : View) (i : Nat) (st : BF) (te : Nat × Nat) : BF :=
  match tget st.d i with
  | none => st
  | some x =>
    if fltLt (some x) (v.weight te.2) (tget st.d te.1) then
      { d := tset st.d te.1 (x + v.weight te.2), p := tset st.p te.1 i, upd := true }
    else st

/-- `for i in node_identifiers() { for edge in edges(i) { … } }` -/
def bfPass (v : View) (st : BF) : BF :=
  v.g.nodes.foldl (fun st i => (v.outOf i).foldl (bfEdge v i) st) st

/-- `for _ in 1..node_count` with the early exit -/
def bfRounds (v : View) : Nat → BF → BF
  | 0, st => st
  | k+1, st =>
    let st' := bfPass v { st with upd := false }
    if st'.upd then bfRounds v k st' else st'

def bfInit (s : Nat) : BF := { d := [(s, 0)] }

/-- `bellman_ford_initialize_relax` -/
def bfRelax (v : View) (s : Nat) : BF := bfRounds v (v.g.nodes.length - 1) (bfInit s)

/-- edges `(i, j)` that can still be relaxed, in iteration order -/
def relaxables (v : View) (d : Tab Nat Int) : List (Nat × Nat) :=
  v.g.nodes.flatMap fun i => (v.outOf i).filterMap fun te =>
    if fltLt (tget d i) (v.weight te.2) (tget d te.1) then some (i, te.1) else none

/-- `bellman_ford`: `none` = `Err(NegativeCycle)` -/
def bellmanFord (v : View) (s : Nat) : Option BF :=
  let st := bfRelax v s
  if (relaxables v st.d).isEmpty then some st else none

/-- the predecessor walk of `find_negative_cycle`; `path` in push order; `none` = fuel exhausted -/
def fncLoop (p : Tab Nat Nat) (start : Nat) : Nat → Nat → List Nat → List Nat → Option (List Nat)
  | 0, _, _, _ => none
  | f+1, node, vis, path =>
    let anc := (tget p node).getD node
    if anc == start then some (path ++ [anc])
    else if vis.contains anc then some (path.drop (path.idxOf anc))
    else fncLoop p start f anc (anc :: vis) (path ++ [anc])

inductive FncRes where
  | none
  | some (seq : List Nat)
  | fuel
  deriving Repr

/-- `find_negative_cycle` -/
def findNegativeCycle (v : View) (s : Nat) : FncRes :=
  let st := bfRelax v s
  match relaxables v st.d with
  | [] => .none
  | (i, j) :: _ =>
    -- (repaired code, D15) the detected relaxation is carried out first: `predecessor[ix(j)] = Some(i)`
    match fncLoop (tset st.p j i) j (v.g.nodes.length + 2) j [] [] with
    | none => .fuel
    | some path => if path.isEmpty then .none else .some path.reverse

/-! ### BoundedMeasure -/

structure Meas where
  max : Int
  min : Int
  deriving Repr

def Meas.i32 : Meas := ⟨2147483647, -2147483648⟩
def Meas.i64 : Meas := ⟨9223372036854775807, -9223372036854775808⟩
/-- `f64::MAX = 2^1024 - 2^971`, `f64::MIN = -f64::MAX` -/
def Meas.f64 : Meas := ⟨2^1024 - 2^971, -(2^1024 - 2^971)⟩

/-- `overflowing_add` -/
def Meas.oadd (B : Meas) (a b : Int) : Int × Bool :=
  let r := a + b
  if r > B.max then (r - (B.max - B.min + 1), true)
  else if r < B.min then (r + (B.max - B.min + 1), true)
  else (r, false)

/-! ### spfa -/

structure SP where
  d : Tab Nat Int := []          -- absent = K::max()
  p : Tab Nat Nat := []
  q : List Nat := []             -- VecDeque, front first
  inq : List Nat := []           -- in_queue
  visits : Tab Nat Nat := []
  deriving Repr, Inhabited

def spEdge (B : Meas) (v : View) (i : Nat) (st : SP) (te : Nat × Nat) : SP :=
  let j := te.1
  let r := B.oadd ((tget st.d i).getD B.max) (v.weight te.2)
  if !r.2 && decide (r.1 < (tget st.d j).getD B.max) then
    let st := { st with d := tset st.d j r.1, p := tset st.p j i }
    if st.inq.contains j then st else { st with inq := j :: st.inq, q := st.q ++ [j] }
  else st

/-- the `while let Some(i) = queue.pop_front()` loop: `none` = fuel exhausted, `some none` = `Err` -/
def spLoop (B : Meas) (v : View) : Nat → SP → Option (Option SP)
  | 0, _ => none
  | f+1, st =>
    match st.q with
    | [] => some (some st)
    | i :: q =>
      let st := { st with q := q, inq := st.inq.erase i }
      let vis := (tget st.visits i).getD 0
      if vis ≥ v.nb then some none
      else
        let st := { st with visits := tset st.visits i (vis + 1) }
        spLoop B v f ((v.outOf i).foldl (spEdge B v i) st)

def spFuel (v : View) : Nat := (v.nb + 2) * (v.g.nodes.length + 1) + 4

def spfa (B : Meas) (v : View) (s : Nat) : Option (Option SP) :=
  spLoop B v (spFuel v) { d := [(s, 0)], q := [s], inq := [s] }

/-! ### floyd_warshall / floyd_warshall_path -/

structure FW where
  d : Tab (Nat × Nat) Int := []  -- absent = K::max()
  p : Tab (Nat × Nat) Nat := []  -- absent = None
  deriving Repr, Inhabited

def FW.dist (B : Meas) (st : FW) (i j : Nat) : Int := (tget st.d (i, j)).getD B.max

/-- initialisation from one edge reference (result independent of the order of the edges) -/
def fwInitEdge (B : Meas) (directed : Bool) (st : FW) (e : Edge) : FW :=
  if st.dist B e.src e.tgt > e.w then
    let st : FW := { d := tset st.d (e.src, e.tgt) e.w, p := tset st.p (e.src, e.tgt) e.src }
    if !directed then { d := tset st.d (e.tgt, e.src) e.w, p := tset st.p (e.tgt, e.src) e.tgt } else st
  else st

/-- the diagonal: distance `default()` unless a negative self-loop made it smaller -/
def fwDiag (B : Meas) (st : FW) (i : Nat) : FW :=
  if st.dist B i i > 0 then { d := tset st.d (i, i) 0, p := tset st.p (i, i) i } else st

def fwStep (B : Meas) (k i : Nat) (st : FW) (j : Nat) : FW :=
  let dik := st.dist B i k
  let dkj := st.dist B k j
  if dik == B.max || dkj == B.max then st
  else
    let r := B.oadd dik dkj
    if !r.2 && decide (st.dist B i j > r.1) then
      { d := tset st.d (i, j) r.1,
        p := match tget st.p (k, j) with
          | some x => tset st.p (i, j) x
          | none => terase st.p (i, j) }
    else st

/-- insertion sort of the nodes by `to_index` (the loops run over `0..node_count`) -/
def ordByIx (v : View) : List Nat :=
  v.g.nodes.foldl (fun acc x =>
    let (a, b) := acc.span (fun y => v.toIndex y ≤ v.toIndex x); a ++ x :: b) []

/-- `_floyd_warshall_path`: `none` = `Err(NegativeCycle)` -/
def floydWarshall (B : Meas) (v : View) : Option FW :=
  let ord := ordByIx v
  let st := v.g.edges.foldl (fwInitEdge B v.g.directed) {}
  let st := v.g.nodes.foldl (fwDiag B) st
  let st := ord.foldl (fun st k => ord.foldl (fun st i => ord.foldl (fwStep B k i) st) st) st
  if ord.any (fun i => decide (st.dist B i i < 0)) then none else some st

end PetgraphModel.C11M
