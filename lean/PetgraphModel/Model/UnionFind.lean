/-
Mirror model of `/repo/src/unionfind.rs` (`UnionFind<K>`), core Lean only.

* `parent`, `rank` are the two vectors; an index value `K` is modelled by its `index()` as a `Nat`,
  `K::new(n)` by `mkIx modulus n` (`modulus = 2^w` for `u8/u16/u32`, `0` for `usize` = no wrap).
* `get_unchecked` is modelled by a *checked* access whose failure is the fault `oob`; loops take
  fuel whose exhaustion is the fault `fuel`.  `Theorems/C19.lean` proves that under the
  invariant neither fault is reachable, i.e. the SAFETY precondition of every unchecked access.
* a documented panic (`find`, `find_mut`, `equiv`, `union` on out-of-range arguments) is the
  answer `panic`; it leaves the state unchanged (the real code unwinds before mutating, except
  `union`, see `union` below).
-/
namespace PetgraphModel.UF

inductive Fault where
  | oob    -- an unchecked access would be out of bounds (undefined behaviour in the real code)
  | fuel   -- a loop did not terminate within its fuel
  deriving Repr, DecidableEq

structure State where
  modulus : Nat
  parent : List Nat
  rank : List Nat
  deriving Repr, DecidableEq

def mkIx (modulus n : Nat) : Nat := if modulus = 0 then n else n % modulus

def State.len (s : State) : Nat := s.parent.length

/-- `UnionFind::new(n)` -/
def new (modulus n : Nat) : State :=
  { modulus, parent := (List.range n).map (mkIx modulus), rank := List.replicate n 0 }

/-- `new_set` -/
def newSet (s : State) : State × Nat :=
  let r := mkIx s.modulus s.parent.length
  ({ s with parent := s.parent ++ [r], rank := s.rank ++ [0] }, r)

/-- the loop of `try_find` -/
def findLoop (parent : List Nat) : Nat → Nat → Except Fault Nat
  | 0, _ => .error .fuel
  | f+1, x =>
    match parent[x]? with
    | none => .error .oob
    | some px => if px = x then .ok x else findLoop parent f px

/-- `try_find`: `none` for an out-of-range argument -/
def tryFind (s : State) (x : Nat) : Except Fault (Option Nat) :=
  if x ≥ s.len then .ok none
  else match findLoop s.parent (s.len + 1) x with
    | .ok r => .ok (some r)
    | .error e => .error e

/-- `find_mut_recursive` (path halving): the `while parent != x` loop -/
def halveLoop (parent : List Nat) : Nat → Nat → Nat → Except Fault (List Nat × Nat)
  | 0, _, _ => .error .fuel
  | f+1, x, p =>
    if p = x then .ok (parent, x)
    else match parent[p]? with
      | none => .error .oob
      | some gp =>
        if x < parent.length then halveLoop (parent.set x gp) f p gp else .error .oob

def findMutRec (s : State) (x : Nat) : Except Fault (State × Nat) :=
  match s.parent[x]? with
  | none => .error .oob
  | some p =>
    match halveLoop s.parent (s.len + 1) x p with
    | .ok (par, r) => .ok ({ s with parent := par }, r)
    | .error e => .error e

/-- `try_find_mut` -/
def tryFindMut (s : State) (x : Nat) : Except Fault (State × Option Nat) :=
  if x ≥ s.len then .ok (s, none)
  else match findMutRec s x with
    | .ok (s', r) => .ok (s', some r)
    | .error e => .error e

/-- `try_equiv`: `Err(first bad argument)` -/
def tryEquiv (s : State) (x y : Nat) : Except Fault (Except Nat Bool) :=
  match tryFind s x with
  | .error e => .error e
  | .ok none => .ok (.error x)
  | .ok (some xr) =>
    match tryFind s y with
    | .error e => .error e
    | .ok none => .ok (.error y)
    | .ok (some yr) => .ok (.ok (xr == yr))

/-- `try_union`.  Note the order of the real code: `x == y` first, then `try_find_mut(x)`
(which compresses) *before* `y` is validated – so an `Err(y)` call may already have halved the
path of `x`; that is invisible to every query (`C19_compression_invisible`). -/
def tryUnion (s : State) (x y : Nat) : Except Fault (State × Except Nat Bool) :=
  if x = y then .ok (s, .ok false)
  else match tryFindMut s x with
    | .error e => .error e
    | .ok (s1, none) => .ok (s1, .error x)
    | .ok (s1, some xrep) =>
      match tryFindMut s1 y with
      | .error e => .error e
      | .ok (s2, none) => .ok (s2, .error y)
      | .ok (s2, some yrep) =>
        if xrep = yrep then .ok (s2, .ok false)
        else match s2.rank[xrep]?, s2.rank[yrep]? with
          | some xr, some yr =>
            if xr < yr then .ok ({ s2 with parent := s2.parent.set xrep yrep }, .ok true)
            else if xr > yr then .ok ({ s2 with parent := s2.parent.set yrep xrep }, .ok true)
            else .ok ({ s2 with parent := s2.parent.set yrep xrep,
                                rank := s2.rank.set xrep (xr + 1) }, .ok true)
          | _, _ => .error .oob

/-- the `for ix in 0..len` loop of `into_labeling` -/
def labelLoop (s : State) : Nat → Nat → Except Fault State
  | 0, _ => .ok s
  | n+1, ix =>
    match s.parent[ix]? with
    | none => .error .oob
    | some k =>
      match findMutRec s k with
      | .error e => .error e
      | .ok (s', r) => labelLoop { s' with parent := s'.parent.set ix r } n (ix + 1)

def intoLabeling (s : State) : Except Fault (List Nat) :=
  match labelLoop s s.len 0 with
  | .ok s' => .ok s'.parent
  | .error e => .error e

/-! ### the operation alphabet of the history-quantified statement -/

inductive Op where
  | newSet
  | find (x : Nat) | tryFind (x : Nat) | findMut (x : Nat) | tryFindMut (x : Nat)
  | equiv (x y : Nat) | tryEquiv (x y : Nat)
  | union (x y : Nat) | tryUnion (x y : Nat)
  | labeling          -- `clone().into_labeling()`
  | len
  | capacityOp        -- reserve / reserve_exact / try_reserve(_exact) / shrink_to(_fit) / capacity
  deriving Repr, DecidableEq

inductive Out where
  | ix (n : Nat) | optIx (o : Option Nat) | bool (b : Bool)
  | res (r : Except Nat Bool) | list (l : List Nat) | unit | panic
  | fault (f : Fault)
  deriving Repr

/-- one public call; a documented panic leaves the state as the real code leaves it -/
def step (s : State) : Op → State × Out
  | .newSet => let (s', r) := newSet s; (s', .ix r)
  | .find x => match tryFind s x with
    | .ok (some r) => (s, .ix r) | .ok none => (s, .panic) | .error e => (s, .fault e)
  | .tryFind x => match tryFind s x with
    | .ok o => (s, .optIx o) | .error e => (s, .fault e)
  | .findMut x =>
    if x < s.len then match findMutRec s x with
      | .ok (s', r) => (s', .ix r) | .error e => (s, .fault e)
    else (s, .panic)
  | .tryFindMut x => match tryFindMut s x with
    | .ok (s', o) => (s', .optIx o) | .error e => (s, .fault e)
  | .equiv x y => match tryFind s x, tryFind s y with
    | .ok (some a), .ok (some b) => (s, .bool (a == b))
    | .error e, _ => (s, .fault e)
    | _, .error e => (s, .fault e)
    | _, _ => (s, .panic)
  | .tryEquiv x y => match tryEquiv s x y with
    | .ok r => (s, .res r) | .error e => (s, .fault e)
  | .union x y => match tryUnion s x y with
    | .ok (s', .ok b) => (s', .bool b)
    | .ok (s', .error _) => (s', .panic)
    | .error e => (s, .fault e)
  | .tryUnion x y => match tryUnion s x y with
    | .ok (s', r) => (s', .res r) | .error e => (s, .fault e)
  | .labeling => match intoLabeling s with
    | .ok l => (s, .list l) | .error e => (s, .fault e)
  | .len => (s, .ix s.len)
  | .capacityOp => (s, .unit)

def run (s : State) : List Op → State × List Out
  | [] => (s, [])
  | op :: ops =>
    let (s1, o) := step s op
    let (s2, os) := run s1 ops
    (s2, o :: os)

end PetgraphModel.UF
