import PetgraphModel.Model.Graph
/-
Detached neighbour walkers (`WalkNeighbors<Ix>`, `/repo/src/graph_impl/mod.rs`) as first-class
values that live *beside* the graph and survive every other call — the layer on top of `Model/Graph`
that property C01's clause "detached walkers" needs once walkers are interleaved with mutations.
Core Lean only.

A `WalkNeighbors` holds no borrow: it is the triple `(skip_start, next[0], next[1])` (`G.Walker`).
`G.walkerNew` is `.neighbors_directed(a, dir).detach()` / `.neighbors_undirected(a).detach()`,
`G.walkerNext` is `WalkNeighbors::next(&g)` (`next_node` / `next_edge` are its projections).  Every
access of `next` is a checked `edges.get(..)`, so a *stale* cursor (the graph was changed under the
walker) is not an error of the real code; in the model the only conceivable fault is the fuel of the
`while let` over the incoming list (`Theorems/C01.lean` shows it is unreachable in every reachable
graph, for every walker value whatsoever).

`WState` = the graph plus the table of walkers created so far (a walker is named by its position);
`WOp` = every call of `G.Op` (the walkers are untouched) + `walkerNew` + `walkerNext`.
-/
namespace PetgraphModel.GW
open PetgraphModel PetgraphModel.G

structure WState where
  g : G.State
  ws : List Walker
  deriving Repr

def init (endv : Nat) (directed : Bool) : WState := { g := G.empty endv directed, ws := [] }

inductive WOp where
  /-- any call of the `Graph` alphabet; the detached walkers are not touched -/
  | base (op : Op)
  /-- `neighbors_directed(a, Outgoing / Incoming).detach()` (`mode` 0 / 1) or
  `neighbors_undirected(a).detach()` (`mode` 2); the new walker gets the next free name -/
  | walkerNew (a mode : Nat)
  /-- `walkers[w].next(&g)` -/
  | walkerNext (w : Nat)
  deriving Repr

inductive WOut where
  | base (o : Out)
  /-- the name of the new walker -/
  | walkerId (w : Nat)
  /-- `Some((edge, node))` / `None` -/
  | item (o : Option (Nat × Nat))
  /-- the fuel of the incoming-list loop ran out (a cyclic chain) -/
  | fault (f : Fault)
  /-- the request names no walker (not a call of the real code; the harness never does this) -/
  | noWalker
  deriving Repr

def step (s : WState) : WOp → WState × WOut
  | .base op => let (g', o) := G.step s.g op; ({ s with g := g' }, .base o)
  | .walkerNew a mode => ({ s with ws := s.ws ++ [walkerNew s.g a mode] }, .walkerId s.ws.length)
  | .walkerNext w =>
    match s.ws[w]? with
    | none => (s, .noWalker)
    | some wk =>
      match walkerNext s.g wk with
      | .error f => (s, .fault f)
      | .ok (wk', r) => ({ s with ws := s.ws.set w wk' }, .item r)

def run (s : WState) : List WOp → WState × List WOut
  | [] => (s, [])
  | op :: ops =>
    let (s1, o) := step s op
    let (s2, os) := run s1 ops
    (s2, o :: os)

/-- calls that leave every `next` link, every endpoint and both counts as they are (queries, weight
mutation through every entry point, `map`, `into_edge_type`, `clone`, capacity calls, an atomic
weight-bumping walk): exactly the calls the rustdoc of `WalkNeighbors` allows while a walker is
alive ("step through … while also mutating graph weights") -/
def keepsLinks : Op → Bool
  | .nodeWeightMut .. | .edgeWeightMut .. | .indexMutNode .. | .indexMutEdge .. | .indexTwiceMut ..
  | .bumpNodes _ | .bumpEdges _ | .map .. | .intoEdgeType _ | .clone | .capacityOp | .walk ..
  | .nodeCount | .edgeCount | .isDirected | .nodeWeight _ | .edgeWeight _ | .indexNode _ | .indexEdge _
  | .edgeEndpoints _ | .findEdge .. | .findEdgeUndirected .. | .containsEdge ..
  | .neighbors _ | .neighborsDirected .. | .neighborsUndirected _
  | .edges _ | .edgesDirected .. | .edgesConnecting ..
  | .externals _ | .firstEdge .. | .nextEdge .. | .nodeWeights | .edgeRefs => true
  | _ => false

/-- an operation that cannot disturb walker `w`: a link-preserving call, the creation of another
walker, or a step of *any* walker (a step of `w` itself consumes an item but keeps the rest) -/
def WOp.quietFor : WOp → Bool
  | .base op => keepsLinks op
  | .walkerNew .. => true
  | .walkerNext _ => true

/-- the answers of the `walkerNext w` calls of a history, in order -/
def answersOf (w : Nat) : List WOp → List WOut → List WOut
  | .walkerNext w' :: ops, o :: os => if w' = w then o :: answersOf w ops os else answersOf w ops os
  | _ :: ops, _ :: os => answersOf w ops os
  | _, _ => []

end PetgraphModel.GW
