import PetgraphModel.Common
import PetgraphModel.GraphProto
import PetgraphModel.Oracle.C20Judge
import PetgraphModel.Model.C20
/-
C20, wave 4 — run-time checks of the hypotheses of the property theorems (core Lean only; evaluated by
`Driver/C20.lean` on every case it judges).  For every Boolean here `Proofs/C20W4Scope.lean` proves
`… = true → <the hypothesis>`; `Theorems/C20.lean`, section "run-time checks of the hypotheses", lists
them as `C20_*_check`.
-/
namespace PetgraphModel.C20
open PetgraphModel PetgraphModel.MGraph

/-- the view's neighbour lists describe the abstract graph (as multisets) -/
def viewOkB (v : View) : Bool :=
  v.g.nodes.all fun a => sameSet (v.succ a) (v.g.succ a) && sameSet (v.pred a) (v.g.pred a)

/-- executable `EndpointsOk` -/
def endpointsB (g : MGraph) : Bool := decide (EndpointsOk g)

/-- executable `Nodup` of the node list -/
def nodesNodupB (g : MGraph) : Bool := decide g.nodes.Nodup

/-! ### greedy_feedback_arc_set -/

/-- the edges in `edge_references()` order, as the driver hands them to the mirror model -/
def fasOrder (g : MGraph) (eorder : List Nat) : List Edge :=
  eorder.filterMap fun i => g.edges.find? (·.id == i)

/-- hypotheses of `C20_fas_model_correct`: a directed graph, every edge listed -/
def fasScopeB (g : MGraph) (eorder : List Nat) : Bool :=
  g.directed && decide (∀ e ∈ g.edges, e ∈ fasOrder g eorder)

/-! ### tred -/

/-- `Tred.DagInput v topo`, clause by clause -/
def dagInputB (v : View) (topo : List Nat) : Bool :=
  v.g.directed && decide topo.Nodup &&
  decide (∀ x ∈ topo, x ∈ v.g.nodes) && decide (∀ x ∈ v.g.nodes, x ∈ topo) &&
  (v.g.nodes.all fun a => sameSet (v.pred a) (v.g.pred a)) &&
  (v.inn.all fun r => v.g.nodes.contains r.1 || r.2.isEmpty) &&
  decide (∀ e ∈ v.g.edges, topo.idxOf e.src < topo.idxOf e.tgt) &&
  decide (∀ x ∈ v.g.nodes, x < v.g.nodes.length) &&
  endpointsB v.g

/-! ### all_simple_paths -/

/-- hypotheses of `C20_paths_model_exact` / `C20_paths_from_eq_to` -/
def pathsScopeB (g : MGraph) (a : Nat) : Bool :=
  g.directed && endpointsB g && g.nodes.contains a

/-! ### page_rank -/

/-- the relabelling `a ↦ perm[a]` (identity outside the list) -/
def applyPerm (p : List Nat) (a : Nat) : Nat := p.getD a a

/-- `perm` is a permutation of `0 .. |perm|−1` -/
def permB (p : List Nat) : Bool := decide p.Nodup && p.all fun x => decide (x < p.length)

/-- hypotheses of `C20_pagerank_sum` / `C20_pagerank_defined` / `C20_pagerank_equivariant` for the
concrete case: distinct nodes, no dangling edge, damping factor in `[0, 1]`, a permutation -/
def pagerankScopeB (g : MGraph) (d : Rat) (perm : List Nat) : Bool :=
  nodesNodupB g && endpointsB g && decide (0 ≤ d) && decide (d ≤ 1) && permB perm

end PetgraphModel.C20
