import PetgraphModel.Model.C20DsaturHeap
/-
C20 (wave 4) — EXACT mirror (core Lean only) of `dsatur_coloring` (/repo/src/algo/coloring.rs)
including the tie-breaking of the heap.

`Model/C20DsaturHeap.lean` is proved for EVERY tie-breaking oracle but cannot be compared with /repo
(it does not say which entry of maximal score comes out).  In the real code everything is
deterministic given the view:

* `BinaryHeap<MaxScored<(usize, usize), NodeId>>` is a deterministic data structure; `MaxScored`
  compares the score only (/repo/src/scored.rs), so Rust's `a <= b` on the entries is
  `DsaturHeap.keyLe a b` (lexicographic on `(saturation, degree)`, the node ignored).  `Heap` below is
  `alloc::collections::BinaryHeap` line by line (same shape as `MstModel.siftUp/siftDown/push/pop`,
  `Model/C12Mst.lean`):
    push                  `data.push(item); sift_up(0, old_len)`
    sift_up(start=0,pos)  `while hole.pos() > 0 { parent = (pos-1)/2;
                             if hole.element() <= hole.get(parent) { break }; hole.move_to(parent) }`
    pop                   `data.pop().map(|mut item| { if !is_empty() { swap(&mut item, &mut data[0]);
                             sift_down_to_bottom(0) }; item })`
    sift_down_to_bottom   `while child <= end.saturating_sub(2) {
                             child += (hole.get(child) <= hole.get(child + 1)) as usize;
                             hole.move_to(child); child = 2 * hole.pos() + 1 }
                           if child == end - 1 { hole.move_to(child) }
                           sift_up(start, pos)`
* the `HashSet`s `adj_color_map[..]` are used through `contains` / `insert` / `len` only (lists without
  duplicates here, `DsaturHeap.setInsert`), `colored` is returned as a map, `seen` is a set.

`run v` is `dsatur_coloring` on the VIEW `v` (`v.g.nodes` = `node_identifiers()`, `(v.outOf a).length` =
`edges(a).count()`, `v.succ a` = `neighbors(a)`, all in the encoding's iteration order) and returns
the colouring (pop order, most recent first), `k = max_color + 1` and the TRACE: every entry popped,
in order, stale ones included.  The vectors indexed by `ix(node)` (`degree_map`, `adj_color_map`, the
visit map) are association lists keyed by the abstract node id (`to_index` is injective on the nodes
of every encoding).

`checkB v` replays the trace as the tie-breaking oracle of the order-abstract model
(`traceOracle trace`; it is a VALID oracle whatever the trace is, `Proofs/C20W4DsaturBin.lean`) and
checks that `DsaturHeap.dsatur v.g (traceOracle trace)` returns the same `(colored, k)`: the concrete
run IS an instance of the model `C20_dsatur_heap_model` is about, so everything proved there holds
of the answer the driver compares with /repo exactly.
-/
namespace PetgraphModel.C20.DsaturBin
open PetgraphModel PetgraphModel.C20
open PetgraphModel.C20.DsaturHeap (Entry keyLe adjOf setInsert)

/-! ### `alloc::collections::BinaryHeap<MaxScored<(usize, usize), NodeId>>` -/

/-- `BinaryHeap::data` -/
abbrev Heap := List Entry

/-- `sift_up(0, pos)` with the element `elt` held in the hole -/
def siftUp (elt : Entry) : Nat → Heap → Nat → Heap
  | 0, d, pos => d.set pos elt
  | f+1, d, pos =>
    if pos = 0 then d.set pos elt
    else
      let parent := (pos - 1) / 2
      let p := d.getD parent default
      if keyLe elt p then d.set pos elt
      else siftUp elt f (d.set pos p) parent

/-- `BinaryHeap::push` -/
def push (d : Heap) (x : Entry) : Heap := siftUp x (d.length + 1) (d ++ [x]) d.length

/-- the loop of `sift_down_to_bottom` (and the single remaining child): the data and the final hole
position -/
def siftDown : Nat → Heap → Nat → Heap × Nat
  | 0, d, pos => (d, pos)
  | f+1, d, pos =>
    let child := 2 * pos + 1
    if child + 2 ≤ d.length then
      let c := if keyLe (d.getD child default) (d.getD (child + 1) default) then child + 1 else child
      siftDown f (d.set pos (d.getD c default)) c
    else if child + 1 = d.length then (d.set pos (d.getD child default), child)
    else (d, pos)

/-- `BinaryHeap::pop` -/
def pop (d : Heap) : Option (Entry × Heap) :=
  match d.getLast? with
  | none => none
  | some last =>
    let d' := d.dropLast
    match d' with
    | [] => some (last, [])
    | top :: _ =>
      let (d2, pos) := siftDown (d'.length + 1) d' 0
      some (top, siftUp last (d'.length + 1) d2 pos)

/-! ### `dsatur_coloring` -/

structure St where
  heap : Heap := []
  degMap : List (Nat × Nat) := []           -- `degree_map` (a missing key = the initial 0)
  colored : List (Nat × Nat) := []          -- `colored`, most recent first
  adjCol : List (Nat × List Nat) := []      -- `adj_color_map` (a missing key = the empty set)
  seen : List Nat := []
  maxColor : Nat := 0
  trace : List Entry := []                  -- every entry popped, most recent first
  deriving Inhabited, Repr

/-- `degree_map[ix(v)]` -/
def degOf (m : List (Nat × Nat)) (v : Nat) : Nat := (m.lookup v).getD 0

/-- `for node in graph.node_identifiers() { let degree = graph.edges(node).count();
      queue.push(MaxScored((0, degree), node)); degree_map[ix(node)] = degree; }` -/
def initStep (v : View) (st : St) (node : Nat) : St :=
  let degree := (v.outOf node).length
  { st with heap := push st.heap (0, degree, node), degMap := (node, degree) :: st.degMap }

def initSt (v : View) : St := v.g.nodes.foldl (initStep v) {}

/-- `adj_color.insert(color); queue.push(MaxScored((adj_color.len(), degree_map[ix(nbor)]), nbor))` -/
def visitNbr (color : Nat) (st : St) (nbor : Nat) : St :=
  let s := setInsert (adjOf st.adjCol nbor) color
  { st with adjCol := (nbor, s) :: st.adjCol, heap := push st.heap (s.length, degOf st.degMap nbor, nbor) }

/-- `for nbor in graph.neighbors(node) { … }` -/
def visitNbrs (color : Nat) (st : St) (nbrs : List Nat) : St := nbrs.foldl (visitNbr color) st

/-- the body of the `while` loop for the popped entry `e` -/
def body (v : View) (st : St) (e : Entry) : St :=
  let node := e.2.2
  if st.seen.contains node then st
  else
    let color := Dsatur.leastFree (adjOf st.adjCol node)
    let st := { st with seen := node :: st.seen, colored := (node, color) :: st.colored,
                        maxColor := max st.maxColor color }
    visitNbrs color st (v.succ node)

/-- `while let Some(MaxScored(_, node)) = queue.pop() { … }`; `none` = the fuel ran out -/
def loop (v : View) : Nat → St → Option St
  | 0, _ => none
  | f+1, st =>
    match pop st.heap with
    | none => some st
    | some (e, h) => loop v f (body v { st with heap := h, trace := e :: st.trace } e)

/-- one iteration per entry ever pushed and the final look at the empty heap: `DsaturHeap.fuelBound`
counts the pushes over the abstract graph, the second summand over the view (equal on a view that
describes the graph; the sum is slack) -/
def fuel (v : View) : Nat :=
  DsaturHeap.fuelBound v.g + (v.g.nodes.map fun a => (v.outOf a).length).sum + 1

/-- `dsatur_coloring(g)` on the view: `(colored, max_color + 1, trace)`, `colored` in pop order most
recent first, `trace` = the entries popped, in order; `none` = the fuel ran out -/
def run (v : View) : Option (List (Nat × Nat) × Nat × List Entry) :=
  (loop v (fuel v) (initSt v)).map fun st => (st.colored, st.maxColor + 1, st.trace.reverse)

/-! ### the concrete run as an instance of the order-abstract model -/

/-- the tie-breaking that replays `trace`: at step `t` pop the `t`-th entry of the trace if it is in
the heap and has maximal score, and the first entry of maximal score otherwise (so the oracle is
valid for EVERY trace) -/
def traceOracle (trace : List Entry) : DsaturHeap.Oracle where
  choose := fun t q =>
    let e := trace.getD t default
    if q.contains e && q.all (fun x => keyLe x e) then e else DsaturHeap.firstMax.choose t q

/-- the concrete run succeeds and is the run of `DsaturHeap.dsatur` for the oracle that replays its
trace -/
def checkB (v : View) : Bool :=
  match run v with
  | none => false
  | some (col, k, trace) =>
    decide (DsaturHeap.dsatur v.g (traceOracle trace) (DsaturHeap.fuelBound v.g) = some (col, k))

/-! ### the hypotheses of `C20_dsatur_heap_model`, as Boolean checks -/

/-- `g.directed = false` -/
def undirectedB (g : MGraph) : Bool := !g.directed

/-- `EndpointsOk g`: every edge joins two listed nodes -/
def endpointsOkB (g : MGraph) : Bool :=
  g.edges.all fun e => g.nodes.contains e.src && g.nodes.contains e.tgt

/-- `g.nodes.Nodup` -/
def nodupB (g : MGraph) : Bool := decide g.nodes.Nodup

/-- the three of them -/
def hypsB (g : MGraph) : Bool := undirectedB g && endpointsOkB g && nodupB g

/-- the view's neighbour lists are rearrangements of the abstract graph's successor lists (then
`checkB` cannot fail: `checkB_complete`, `Proofs/C20W4DsaturBinTotal.lean`) -/
def viewPermB (v : View) : Bool := v.g.nodes.all fun a => (v.succ a).isPerm (v.g.succ a)

/-! ### the harness format -/

/-- insertion into a list sorted by node id (stable) -/
def insertPair (p : Nat × Nat) : List (Nat × Nat) → List (Nat × Nat)
  | [] => [p]
  | q :: t => if p.1 < q.1 then p :: q :: t else q :: insertPair p t

/-- the pairs sorted by node id, ascending -/
def sortPairs (l : List (Nat × Nat)) : List (Nat × Nat) := l.foldr insertPair []

/-- `a:c,a:c,..`, `-` if empty -/
def showPairs (l : List (Nat × Nat)) : String :=
  if l.isEmpty then "-" else String.intercalate "," (l.map fun p => s!"{p.1}:{p.2}")

/-- `colors=<a:c,..> k=<k>` with the pairs sorted by node id — the harness's answer line of `dsatur` -/
def showAnswer (col : List (Nat × Nat)) (k : Nat) : String := s!"colors={showPairs (sortPairs col)} k={k}"

/-- the answer line of the exact mirror on the view; `none` = the fuel ran out (never on a view that
describes its graph) -/
def answer (v : View) : Option String := (run v).map fun r => showAnswer r.1 r.2.1

end PetgraphModel.C20.DsaturBin
