import PetgraphModel.Common
import PetgraphModel.GraphProto
import PetgraphModel.Oracle.Reach
import PetgraphModel.Oracle.Dist
import PetgraphModel.Oracle.C11Judge
import PetgraphModel.Model.C11Paths
import PetgraphModel.Model.C11Checks
import PetgraphModel.Model.C11W6
/-
C11 driver.  Requests (after a `graph …` line), answers in abstract node ids:

  bf <s>          => ok a:d:p,…   (d = `i` for +∞, p = `x` for None)  | err      (`bf32`: f32 edge weights)
  fnc <s>         => some a,b,c|<bf>  /  none|<bf>      (<bf> = ok | err, bellman_ford on the same input; `fnc32`)
  spfa <ty> <s>   => ok a:d:p,…   (d = `i` for K::max())              | err      ty = any BoundedMeasure type
  fw <ty>         => ok u.v:d,…                                        | err
  fwp <ty>        => ok u.v:d:p,…                                      | err

and, independent of the graph (wave 6: the rarely used public surface of the anchored files),

  consts <ty>       => max=<num> min=<num> zero=<num>     BoundedMeasure::max / min, Default, against `measOf ty`
  oadd <ty> <a> <b> => <num>|inf|-inf <true|false>         BoundedMeasure::overflowing_add against `Meas.oadd`
  law <name> …      => ok | VIOLATED <why>                 a law the harness checked against the implementation itself

A case may contain several `graph` lines (sections: the storage type, then a graph adaptor over it); each
resets the view.  A `graph` line with `quirk=d23` / `quirk=d6` is the view of an adaptor whose edge
references are known to report wrong endpoints (open findings D23, D6): an answer the judge rejects is
classified `KNOWN` only if the judge accepts it for `effView` (the graph those references describe);
everything else stays `SPECFAIL`.

Per line: first the run-time checks of the hypotheses of the model theorems (`Model/C11Checks.lean`;
`Theorems/C11.lean`, section "run-time checks of the hypotheses", proves each Boolean sound): the
`graph` line establishes `ViewArcs`, `WellFormed` and `|V| ≤ node_bound`; every request re-checks what
it needs about its own arguments (source is a node; the width bounds for its cost type, with
`M = maxOutLen v` and `Wm = maxAbsW v.g` computed from the case).  A failed check about the graph type
or its encoding is `SPECFAIL side condition …`, one about the generated input only is
`SPECFAIL generator left the proved range …` (the generator of harness/src/c11.rs keeps the costs in
range; must never fire).  Then the spec-level judge (`Oracle/C11Judge.lean`, against the abstract graph)
decides SPECFAIL (there is no KNOWN classification: D15 is repaired, `find_negative_cycle` answers are
judged by `checkNegClosedWalk`); if it accepts, the answer is compared exactly with the mirror model on
the view.
-/
namespace PetgraphModel.C11
open PetgraphModel PetgraphModel.Oracle PetgraphModel.C11M PetgraphModel.C11J

structure DState where
  v : View := default
  ok : Bool := false
  /-- "", "d23" or "d6": the open finding the adaptor of this section exposes -/
  quirk : String := ""

/-- the view's out-lists describe exactly the arcs of the abstract graph (targets and costs, as
multisets per node) -/
def sortPairs (l : List (Nat × Int)) : List (Nat × Int) :=
  l.foldl (fun acc x =>
    let (a, b) := acc.span (fun y => y.1 < x.1 || (y.1 == x.1 && y.2 ≤ x.2)); a ++ x :: b) []

def viewArcsOkB (v : View) : Bool :=
  (v.g.nodes.eraseDups.length == v.g.nodes.length) &&
  (v.g.edges.all fun e => v.g.nodes.contains e.src && v.g.nodes.contains e.tgt) &&
  ((v.g.edges.map (·.id)).eraseDups.length == v.g.edges.length) &&
  v.g.nodes.all fun a =>
    sortPairs ((v.outOf a).map fun te => (te.1, v.weight te.2)) ==
      sortPairs ((v.g.arcs.filter fun x => x.1 == a).map fun x => (x.2.1, x.2.2))

def measOf (ty : String) : Meas :=
  if ty == "i32" then Meas.i32 else if ty == "i64" then Meas.i64
  else if ty == "i8" then Meas.ofBits true 8 else if ty == "i16" then Meas.ofBits true 16
  else if ty == "i128" then Meas.ofBits true 128 else if ty == "isize" then Meas.ofBits true 64
  else if ty == "u8" then Meas.ofBits false 8 else if ty == "u16" then Meas.ofBits false 16
  else if ty == "u32" then Meas.ofBits false 32 else if ty == "u64" then Meas.ofBits false 64
  else if ty == "u128" then Meas.ofBits false 128 else if ty == "usize" then Meas.ofBits false 64
  else if ty == "f32" then Meas.f32 else Meas.f64

def unsignedTy (ty : String) : Bool := ["u8", "u16", "u32", "u64", "u128", "usize"].contains ty

def floatTy (ty : String) : Bool := ty == "f32" || ty == "f64"

/-- the cost type the width hypotheses are checked for: the type itself, or — for an unsigned type, whose
`min() = 0` can never satisfy `min() ≤ −L·Wm` — its signed twin; with non-negative costs (`nonnegB`, checked
alongside) the models do not depend on `min()` (`C11_spfa_min_irrelevant`, `C11_floyd_min_irrelevant`) -/
def proofMeas (ty : String) : Meas := if unsignedTy ty then (measOf ty).twin else measOf ty

def showDist : Option Int → String
  | none => "i"
  | some x => toString x

def showPred : Option Nat → String
  | none => "x"
  | some x => toString x

def joinC (l : List String) : String := if l.isEmpty then "-" else String.intercalate "," l

def sortedNodes (v : View) : List Nat := sortNats v.g.nodes

/-! ### model answers, rendered -/

def showBF (v : View) (r : Option BF) : String :=
  match r with
  | none => "err"
  | some st => "ok " ++ joinC ((sortedNodes v).map fun a => s!"{a}:{showDist (tget st.d a)}:{showPred (tget st.p a)}")

def boundedDist (B : Meas) (d : Tab Nat Int) (a : Nat) : Option Int :=
  match tget d a with
  | none => none
  | some x => if x == B.max then none else some x

def showSP (B : Meas) (v : View) (r : Option (Option SP)) : String :=
  match r with
  | none => "FUEL"
  | some none => "err"
  | some (some st) => "ok " ++ joinC ((sortedNodes v).map fun a => s!"{a}:{showDist (boundedDist B st.d a)}:{showPred (tget st.p a)}")

def fwDistOpt (B : Meas) (st : FW) (u w : Nat) : Option Int :=
  let x := st.dist B u w
  if x == B.max then none else some x

def showFW (B : Meas) (v : View) (withPrev : Bool) (r : Option FW) : String :=
  match r with
  | none => "err"
  | some st =>
    let ns := sortedNodes v
    "ok " ++ joinC (ns.flatMap fun u => ns.map fun w =>
      if withPrev then s!"{u}.{w}:{showDist (fwDistOpt B st u w)}:{showPred (tget st.p (u, w))}"
      else s!"{u}.{w}:{showDist (fwDistOpt B st u w)}")

def showFnc : FncRes → String
  | .none => "none"
  | .some seq => "some " ++ showNats seq
  | .fuel => "FUEL"

/-! ### parsing implementation answers -/

structure Item where
  key : Nat × Nat        -- (node, 0) for single-source answers, (u, v) for all-pairs answers
  dist : Option Int      -- none = infinite / max()
  pred : Option Nat

def parseKey (s : String) : Option (Nat × Nat) :=
  match s.splitOn "." with
  | [a] => a.toNat?.map fun a => (a, 0)
  | [a, b] => match a.toNat?, b.toNat? with
    | some a, some b => some (a, b)
    | _, _ => none
  | _ => none

def parseDist (s : String) : Option (Option Int) :=
  if s == "i" then some none else s.toInt?.map some

def parsePredTok (s : String) : Option (Option Nat) :=
  if s == "x" then some none else s.toNat?.map some

def parseItem (s : String) : Option Item :=
  match s.splitOn ":" with
  | [k, d] => match parseKey k, parseDist d with
    | some k, some d => some ⟨k, d, none⟩
    | _, _ => none
  | [k, d, p] => match parseKey k, parseDist d, parsePredTok p with
    | some k, some d, some p => some ⟨k, d, p⟩
    | _, _, _ => none
  | _ => none

/-- `ok <items>`: all items must parse -/
def parseOk (impl : String) : Option (List Item) :=
  match impl.splitOn " " with
  | ["ok", body] =>
    let toks := if body == "-" then [] else body.splitOn ","
    let items := toks.filterMap parseItem
    if items.length == toks.length then some items else none
  | _ => none

def itemsDist (items : List Item) : List (Nat × Int) :=
  items.filterMap fun it => it.dist.map fun y => (it.key.1, y)

def itemsPred (items : List Item) (a : Nat) : Option Nat :=
  match items.find? fun it => it.key.1 == a with
  | some it => it.pred
  | none => none

def entryOf (items : List Item) (u w : Nat) : Option Int :=
  match items.find? fun it => it.key == (u, w) with
  | some it => it.dist
  | none => none

def prevOf (items : List Item) (u w : Nat) : Option Nat :=
  match items.find? fun it => it.key == (u, w) with
  | some it => it.pred
  | none => none

/-! ### run-time checks of the hypotheses (`none` = all hold) -/

/-- the range the costs must respect for the cost type `ty`: `f64` is used as an integer type, so
beyond `max()`/`min()` of the type every value must stay within the exactly represented `±2^53` -/
def rangeOf (ty : String) : Meas :=
  if ty == "f64" then Meas.exactF64 else if ty == "f32" then Meas.exactF32 else proofMeas ty

def caseParams (v : View) : String :=
  s!"|V|={v.g.nodes.length} node_bound={v.nb} M={maxOutLen v} Wm={maxAbsW v.g}"

def okGraph (d : DState) : Option String :=
  if d.ok then none else some "SPECFAIL side condition ViewArcs / WellFormed does not hold: the graph line of this case was rejected"

def srcCheck (v : View) (s : Nat) : Option String :=
  if srcB v s then none else some s!"SPECFAIL generator left the proved range: source {s} is not a node of the graph"

/-- `bf`, `fnc`: `s ∈ nodes`; all values of the relaxation phase within `±2^53` (`f64` exact) -/
def preFloat (d : DState) (s : Nat) : Option String :=
  (okGraph d).or <| (srcCheck d.v s).or <|
    if fitBfB d.v then none
    else some s!"SPECFAIL generator left the proved range: bellman_ford on f64 is exact only while {bfLenC d.v}*Wm < 2^53 ({caseParams d.v})"

/-- `bf32`, `fnc32`: as `preFloat`, with the exact range `±2^24` of `f32` -/
def preFloat32 (d : DState) (s : Nat) : Option String :=
  (okGraph d).or <| (srcCheck d.v s).or <|
    if fitBf32B d.v then none
    else some s!"SPECFAIL generator left the proved range: bellman_ford on f32 is exact only while {bfLenC d.v}*Wm < 2^24 ({caseParams d.v})"

/-- an unsigned cost type is used with non-negative costs only -/
def signOk (ty : String) (v : View) : Bool := !unsignedTy ty || nonnegB v.g

/-- `spfa <ty>`: `s ∈ nodes`, `|V| ≤ node_bound`, `L·Wm < max()`, `min() ≤ −L·Wm` with
`L = |V|·node_bound·M + |V|` (unsigned `ty`: for the signed twin, and all costs non-negative) -/
def preSpfa (d : DState) (ty : String) (s : Nat) : Option String :=
  (okGraph d).or <| (srcCheck d.v s).or <|
    if !nbB d.v then some s!"SPECFAIL side condition node_count <= node_bound does not hold: {caseParams d.v}"
    else if fitSpfaB (proofMeas ty) d.v && fitSpfaB (rangeOf ty) d.v && signOk ty d.v then none
    else some s!"SPECFAIL generator left the proved range: spfa::<{ty}> is proved for L*Wm < max() (f64: < 2^53, f32: < 2^24; unsigned: costs >= 0), L = {spfaLenC d.v} ({caseParams d.v})"

/-- `fw <ty>`, `fwp <ty>`: `2·|V|·Wm < max()`, `min() ≤ −2·|V|·Wm` (unsigned `ty`: as for spfa) -/
def preFw (d : DState) (ty : String) : Option String :=
  (okGraph d).or <|
    if fitFloydB (proofMeas ty) d.v && fitFloydB (rangeOf ty) d.v && signOk ty d.v then none
    else some s!"SPECFAIL generator left the proved range: floyd_warshall::<{ty}> is proved for 2*|V|*Wm < max() (f64: < 2^53, f32: < 2^24; unsigned: costs >= 0) ({caseParams d.v})"

def verdict (spec : Option String) (model impl : String) : String :=
  match spec with
  | some why => s!"SPECFAIL {why}"
  | none => cmpExact model impl

/-- `UndirectedAdaptor::edges` chains the in- and the out-list: a self-loop is listed twice (harmless for the
algorithms; `quirk=dup` marks such a view when nothing else is wrong with it, `quirk=d23` implies it) -/
def loopsTwice (q : String) : Bool := q == "d23" || q == "dup"

/-- the `quirk=` word of a `graph` line -/
def quirkOf (req : List String) : String := (field? req "quirk").getD ""

/-- the open finding behind a quirk -/
def findingOf (q : String) : String :=
  if q == "d6" then "D6 MatrixGraph::edges_directed(_, Incoming) reports swapped endpoints (seen through Reversed): the answer is the right one for the graph those edge references describe"
  else "D23 UndirectedAdaptor::edges keeps the orientation of incoming edges: the answer is the right one for the graph those edge references describe"

/-- verdict of a single-source request.  No quirk: spec verdict, then exact comparison with the model on the
view.  Under a quirk the implementation is known to walk `effView`: an accepted answer is compared with the
model on `effView`; a rejected one is `KNOWN` iff the same judge accepts it for `effView`'s graph. -/
def verdictQ (d : DState) (judge : MGraph → Option String) (model : View → String) (impl : String) : String :=
  if d.quirk == "" || d.quirk == "dup" then verdict (judge d.v.g) (model d.v) impl
  else
    let ve := effView d.quirk d.v
    if !(wfB ve.g && viewArcsB ve) then
      "SPECFAIL side condition ViewArcs / WellFormed does not hold for the effective view of the adaptor"
    else match judge d.v.g with
    | none => cmpExact (model ve) impl
    | some why =>
      match judge ve.g with
      | none => s!"KNOWN {findingOf d.quirk}"
      | some _ => s!"SPECFAIL {why}"

/-! ### numbers of the `consts` / `oadd` lines: a decimal integer or `MpE` = M·2^E -/

def parseNum (s : String) : Option Int :=
  match s.splitOn "p" with
  | [m] => m.toInt?
  | [m, e] => match m.toInt?, e.toNat? with
    | some m, some e => some (m * (2 : Int) ^ e)
    | _, _ => none
  | _ => none

def wordField (ws : List String) (k : String) : Option String :=
  ws.findSome? fun w => if w.startsWith (k ++ "=") then some (w.drop (k.length + 1)).toString else none

/-- `consts <ty>` -/
def judgeConsts (ty impl : String) : String :=
  let B := measOf ty
  let ws := impl.splitOn " "
  match (wordField ws "max").bind parseNum, (wordField ws "min").bind parseNum, (wordField ws "zero").bind parseNum with
  | some mx, some mn, some z =>
    if mx == B.max && mn == B.min && z == 0 then "ok"
    else s!"SPECFAIL BoundedMeasure for {ty}: max()={mx} min()={mn} default()={z}, expected {B.max} {B.min} 0"
  | _, _, _ => s!"SPECFAIL unparsable answer {impl}"

/-- `oadd <ty> <a> <b>`: the overflow flag always; the value whenever it is determined (integer types: the
wrapped sum; float types: the exact sum when there is no overflow — the harness picks operands whose sum is
representable) -/
def judgeOadd (ty a b impl : String) : String :=
  match parseNum a, parseNum b, impl.splitOn " " with
  | some x, some y, [r, f] =>
    let e := (measOf ty).oadd x y
    if f != toString e.2 then
      s!"SPECFAIL {ty}::overflowing_add({a}, {b}) reports overflow={f}, the sum {x + y} {if e.2 then "is outside" else "is inside"} [min(), max()]"
    else if floatTy ty && e.2 then "ok"
    else if parseNum r == some e.1 then "ok"
    else s!"SPECFAIL {ty}::overflowing_add({a}, {b}) = {r}, expected {e.1}"
  | _, _, _ => s!"SPECFAIL unparsable oadd line {a} {b} {impl}"

/-- single-source answer (`bf`, `spfa`) -/
def judgeSS (g : MGraph) (s : Nat) (impl : String) : Option String :=
  if impl == "err" then judgeErr g s
  else if impl == "panic" then some "the call panicked"
  else match parseOk impl with
    | none => some s!"unparsable answer (non-integer distance?) {impl}"
    | some items =>
      if !(sameSet (items.map (·.key.1)) g.nodes) then some "answer does not cover exactly the nodes"
      else judgeOk g s (itemsDist items) (itemsPred items)

/-- all-pairs answer (`fw`, `fwp`) -/
def judgeAP (g : MGraph) (withPrev : Bool) (impl : String) : Option String :=
  if impl == "err" then judgeFwErr g
  else if impl == "panic" then some "the call panicked"
  else match parseOk impl with
    | none => some s!"unparsable answer (non-integer distance, missing pair?) {impl}"
    | some items =>
      if items.length != g.nodes.length * g.nodes.length then some "answer does not cover exactly the ordered pairs of nodes"
      else if !(g.nodes.all fun u => g.nodes.all fun w => items.any fun it => it.key == (u, w)) then
        some "answer does not cover exactly the ordered pairs of nodes"
      else match judgeFwOk g (entryOf items) with
        | some why => some why
        | none => if withPrev then judgeFwPrev g (entryOf items) (prevOf items) else none

/-- `fnc <s>` / `fnc32 <s>` once the pre-check passed -/
def answerFnc (d : DState) (s : Nat) (impl : String) : String :=
  match impl.splitOn "|" with
  | [ans, bf] =>
    let parsed : Option (Option (List Nat)) :=
      if ans == "none" then some none
      else if ans.startsWith "some " then some (some (parseNats (ans.drop 5).toString))
      else none
    match parsed with
    | none => s!"SPECFAIL unexpected answer {impl}"
    | some a =>
      verdictQ d (fun g => match judgeFnc g s a (bf == "err") with | .ok => none | .fail why => some why)
        (fun v => showFnc (findNegativeCycle v s) ++ "|" ++ (if (bellmanFord v s).isSome then "ok" else "err")) impl
  | _ => s!"SPECFAIL malformed answer {impl}"

def step (d : DState) (req : List String) (impl : String) : DState × String :=
  match req with
  | "case" :: k :: _ => ({}, s!"case {k}")
  | "graph" :: _ =>
    match parseView req with
    | none => (d, "SPECFAIL unparsable graph line")
    | some v =>
      if !wfB v.g then
        ({ v := v, ok := false, quirk := quirkOf req }, "SPECFAIL side condition WellFormed does not hold: duplicate node or edge endpoint outside the node list")
      else if !((loopsTwice (quirkOf req) || viewArcsOkB v) && viewArcsB v) then
        -- (`UndirectedAdaptor` lists a self-loop twice: its out-lists are compared as sets only)
        ({ v := v, ok := false, quirk := quirkOf req }, "SPECFAIL side condition ViewArcs does not hold: edge iteration of this encoding does not describe the abstract graph")
      else if !nbB v then
        ({ v := v, ok := false, quirk := quirkOf req }, s!"SPECFAIL side condition node_count <= node_bound does not hold: {caseParams v}")
      else ({ v := v, ok := true, quirk := quirkOf req }, "ok")
  | ["bf", s] =>
    let s := s.toNat?.getD 0
    match preFloat d s with
    | some why => (d, why)
    | none => (d, verdictQ d (fun g => judgeSS g s impl) (fun v => showBF v (bellmanFord v s)) impl)
  | ["bf32", s] =>
    let s := s.toNat?.getD 0
    match preFloat32 d s with
    | some why => (d, why)
    | none => (d, verdictQ d (fun g => judgeSS g s impl) (fun v => showBF v (bellmanFord v s)) impl)
  | ["spfa", ty, s] =>
    let s := s.toNat?.getD 0
    let B := measOf ty
    match preSpfa d ty s with
    | some why => (d, why)
    | none => (d, verdictQ d (fun g => judgeSS g s impl) (fun v => showSP B v (spfa B v s)) impl)
  | ["fw", ty] =>
    let B := measOf ty
    match preFw d ty with
    | some why => (d, why)
    | none => (d, verdict (judgeAP d.v.g false impl) (showFW B d.v false (floydWarshall B d.v)) impl)
  | ["fwp", ty] =>
    let B := measOf ty
    match preFw d ty with
    | some why => (d, why)
    | none => (d, verdict (judgeAP d.v.g true impl) (showFW B d.v true (floydWarshall B d.v)) impl)
  | ["fnc", s] =>
    let s := s.toNat?.getD 0
    match preFloat d s with
    | some why => (d, why)
    | none => (d, answerFnc d s impl)
  | ["fnc32", s] =>
    let s := s.toNat?.getD 0
    match preFloat32 d s with
    | some why => (d, why)
    | none => (d, answerFnc d s impl)
  | ["consts", ty] => (d, judgeConsts ty impl)
  | ["oadd", ty, a, b] => (d, judgeOadd ty a b impl)
  | "law" :: name =>
    (d, if impl == "ok" then "ok" else s!"SPECFAIL law {String.intercalate " " name} does not hold: {impl}")
  | _ => (d, s!"SPECFAIL bad request {req}")

end PetgraphModel.C11
