import PetgraphModel.Common
import PetgraphModel.Model.Graph6
import PetgraphModel.Model.Dot
import PetgraphModel.Spec.Graph6
import PetgraphModel.Spec.Dot
import PetgraphModel.Model.C18Decode
import PetgraphModel.Model.C18Views
import PetgraphModel.Driver.C18Checks
import Std.Data.HashSet
import Std.Data.HashMap
/-
C18 driver.  Protocol (harness/src/c18.rs):

  case <k> g6 <family> n=<n> m=<m> simple=<0|1> ovf=<0|1> dbg=<0|1>      (build profile of the harness, see `DState`)
  case <k> g6x <kind of damage> n=<n> len=<l> ovf=<0|1> dbg=<0|1>
  truth n=<n> simple=<0|1> edges=<a-b,…>            the abstract graph on labels 0..n (by construction)
  enc <type> labels=<…> ix=<…> bound=<w>  => <graph6 string | panic>
        labels = node weights in `node_identifiers()` order, ix = their node indices, bound = `node_bound()`
  dec <raw|type+index width> <graph6 string>  => order=<n> [nodes=<…> m=<edge_count>] edges=<a-b,…> | panic
        a VALID string (the driver checks that: `validB`); type = graph8/16/32/64, stable16, map32, matrix16, csr32
  decx <raw|type+index width> <code points of an ARBITRARY string, `-` = empty>  => the same answers
        the malformed-input stream: truncated strings, bytes < 63 or > 126, wrong lengths, long header forms, …

  case <k> dot <type> <dir|undir> w=<weight kind>
  w <id> <r0>|…|<r7>                                renderings of a weight: {} {:#} {:?} {:#?} {:x} {:#x} {:X} {:#X}
                                                    as code points (`-` empty, `x` trait not implemented)
  graph <type> <dir|undir> tn=<idx:wid,…> te=<a:b:wid,…>     nodes / edges by construction
  iter nodes=<idx:wid:attr;…> edges=<s:t:wid:attr;…>         what node_references() / edge_references() yield
  dot cfg=<Config,…> kind=<0..3> alt=<0|1> spec=<id> attrs=<0|1>  => <code points of the text | panic>
  law <name> <params…>  => ok | VIOLATED <why>      a law the harness checks against the implementation itself

Exact part: the mirror models `G6.encode` (through `G6.adjMatrix`/`G6.isAdjacent` for the bitmap types),
`G6.decode` behind the guard `G6.decodePanics` (= `G6.decodeGuarded`, proved equal to `G6.decode`; a huge claimed order is
never expanded), for decoded orders ≤ 24 the REPLAY of the type's `from_graph6_string` on its storage model
(`G6V.fromGraph6*`, observed through the C06 table), and `Dot.dot`.

Run-time checks of the theorems' hypotheses (`Driver/C18Checks.lean`, `C18_*_check` in `Theorems/C18.lean`): the `truth`
line is a simple graph; orders ≤ 258047; bitmap indices below the width; `dec` strings are valid graph6 strings; the
`iter` line lists the graph of the `graph` line; getter strings are `a_list` fragments.  A `dot` line is ACCEPTED iff the
text equals the printer model's text for a view that passed those checks (`dotAcceptB`, sound by `C18_dot_accept_sound`);
the statement-comparison code `judgeDot` only classifies a text that DIFFERS (MODELDIFF vs SPECFAIL).  Spec-level judge: `Spec.Graph6.graph6` on the abstract graph in node-iteration
order; for a decoded graph: nodes `0..n`, distinct edges `a < b < n`, and its spec encoding is the input
string; for Dot: `Spec.Dot.parse` of the implementation's text must yield the header the edge type asks
for, node statements = the node indices, edge statements = the edges (as a multiset, unordered pairs for
undirected graphs) with the right connector, labels that un-escape to what the weight prints.
-/
namespace PetgraphModel.C18
open PetgraphModel

structure DState where
  -- graph6
  n : Nat := 0
  simple : Bool := true
  truthEdges : List (Nat × Nat) := []
  truthSet : Std.HashSet (Nat × Nat) := {}
  /-- the build profile of the harness, from the case line: `ovf=1` arithmetic overflow panics (debug profile), `ovf=0` it
  wraps (release profile); `dbg=1` `debug_assert!` is compiled in -/
  checked : Bool := true
  dbg : Bool := true
  -- dot
  weights : Array (Array (Option (List Char))) := #[]
  directed : Bool := true
  tn : List (Nat × Nat) := []
  te : List (Nat × Nat × Nat) := []
  itNodes : List (Nat × Nat × List Char) := []
  itEdges : List (Nat × Nat × Nat × List Char) := []

def verdict (spec : Option String) (model impl : String) : String :=
  match spec with
  | some why => s!"SPECFAIL {why}"
  | none => cmpExact model impl

def kv (w : String) : String × String :=
  match w.splitOn "=" with
  | k :: rest => (k, String.intercalate "=" rest)
  | [] => ("", "")

def field (req : List String) (k : String) : String :=
  match req.find? (fun w => (kv w).1 == k) with
  | some w => (kv w).2
  | none => ""

/-- `a-b,c-d` -/
def parsePairs (s : String) : List (Nat × Nat) :=
  if s == "-" || s == "" then [] else
  (s.splitOn ",").filterMap fun p =>
    match p.splitOn "-" with
    | [a, b] => match a.toNat?, b.toNat? with
      | some x, some y => some (x, y)
      | _, _ => none
    | _ => none

def showPairs (l : List (Nat × Nat)) : String :=
  if l.isEmpty then "-" else String.intercalate "," (l.map fun p => s!"{p.1}-{p.2}")

def pairLe (p q : Nat × Nat) : Bool := p.1 < q.1 || (p.1 == q.1 && p.2 ≤ q.2)

def charsOfNats (l : List Nat) : List Char := l.map Char.ofNat

/-! ### graph6 -/

/-- the bitmap types read the adjacency through `adjacency_matrix` / `is_adjacent`: width and edges by node index -/
def bitmapInput (d : DState) (ty : String) (labels ix : Array Nat) (bound : Nat) : Nat × List (Nat × Nat) :=
  let n := labels.size
  let w := if ty == "stable" then bound else n
  let ixOf : Std.HashMap Nat Nat :=
    (List.range n).foldl (fun m p => m.insert (labels.getD p 0) (ix.getD p 0)) {}
  (w, d.truthEdges.map fun e => (ixOf.getD e.1 0, ixOf.getD e.2 0))

def isBitmapType (ty : String) : Bool := ty == "graph" || ty == "stable" || ty == "csr"

def encStep (d : DState) (ty : String) (req : List String) (impl : String) : String :=
  let labels := (parseNats (field req "labels")).toArray
  let ix := (parseNats (field req "ix")).toArray
  let bound := (field req "bound").toNat?.getD 0
  let n := labels.size
  let adjT : Nat → Nat → Bool := fun p q =>
    d.truthSet.contains (normPair (labels.getD p 0) (labels.getD q 0))
  let (w, es) := bitmapInput d ty labels ix bound
  -- run-time checks of the hypotheses (`C18_order_check`, `C18_bitmap_range_check`)
  if !orderOkB n then s!"SPECFAIL generator left the proved range: {n} nodes (graph6 orders above 258047 are outside the property)"
  else if d.simple && labels.toList.mergeSort (· ≤ ·) != List.range d.n then
    s!"SPECFAIL node iteration {showNats labels.toList} is not the node set 0..{d.n}"
  else if d.simple && isBitmapType ty && !bitmapRangeB w es ix.toList then
    s!"SPECFAIL side condition node-index-below-bitmap-width does not hold: to_index of an iterated node or edge endpoint is not below {w} (ix={showNats ix.toList})"
  else
  -- the mirror model: bitmap types read the adjacency through `adjacency_matrix` / `is_adjacent`
  let modelAdj : Option (Nat → Nat → Bool) :=
    if isBitmapType ty then
      match G6.adjMatrix w es with
      | none => none
      | some m => some fun p q => G6.isAdjacent w m (ix.getD p 0) (ix.getD q 0)
    else some adjT
  let model : String :=
    match modelAdj with
    | none => "panic"
    | some adj =>
      match G6.encode n adj with
      | none => "panic"
      | some cs => String.ofList cs
  let spec : Option String :=
    if !d.simple then none          -- not a simple graph: outside the property, mirror comparison only
    else if impl == "panic" then some "graph6_string panicked on a simple graph"
    else
      let want := String.ofList (charsOfNats (Spec.Graph6.graph6 n adjT))
      if impl == want then none
      else some s!"graph6_string [{impl}] is not the graph6 encoding [{want}] of the graph in node-iteration order"
  verdict spec model impl

/-- `graph32` → (`graph`, 32) -/
def splitType (t : String) : String × Nat :=
  let cs := t.toList
  let name := cs.takeWhile (fun c => !c.isDigit)
  let bits := cs.dropWhile (fun c => !c.isDigit)
  (String.ofList name, (String.ofList bits).toNat?.getD 32)

/-- the edge list of a graph as a hash set of normalised pairs -/
def pairSet (es : List (Nat × Nat)) : Std.HashSet (Nat × Nat) :=
  es.foldl (fun m e => m.insert (normPair e.1 e.2)) {}

/-- the format's string of the graph `(order, es)` -/
def canonChars (order : Nat) (es : List (Nat × Nat)) : List Char :=
  let set := pairSet es
  charsOfNats (Spec.Graph6.graph6 order fun p q => set.contains (normPair p q))

def canonString (order : Nat) (es : List (Nat × Nat)) : String := String.ofList (canonChars order es)

/-- the string is a VALID graph6 string of a supported order: the decoder model accepts it and the format's encoding of
what it answers is the string itself -/
def validB (s : List Char) : Bool :=
  match G6.decodeGuarded s with
  | none => false
  | some (order, es) => orderOkB order && canonChars order es == s

/-- what the harness observes of a decoded graph (`dec_obs`), read off the C06 table of a storage-model state -/
def obsOfTable (t : Visit.Table) (half : Bool) : String :=
  let ids := t.ids.getD []
  let toIx (a : Nat) : Nat := (t.toIx.lookup a).getD 0
  let es := (t.erefs.getD []).filterMap fun e =>
    let (a, b) := (toIx e.src, toIx e.tgt)
    if half && decide (b < a) then none else some (normPair a b)
  s!"order={ids.length} nodes={showNats (ids.map toIx)} m={(t.edgeCount.getD 0)} edges={showPairs (es.mergeSort pairLe)}"

/-- the replay of `from_graph6_string` on the type's storage model (`Model/C18Views.lean`), observed like the harness
observes the real graph; `none` = no storage model for this type name -/
def replay (name : String) (bits : Nat) (dbg : Bool) (s : List Char) : Option String :=
  let maxIx := 2 ^ bits - 1
  let obs {σ : Type} (r : Option σ) (tbl : σ → Visit.Table) (half : Bool) : String :=
    match r with
    | none => "panic"
    | some st => obsOfTable (tbl st) half
  match name with
  | "graph" => some (obs (G6V.fromGraph6Graph maxIx s) Visit.graphTable false)
  | "stable" => some (obs (G6V.fromGraph6Stable maxIx (bits == 64) dbg s) Visit.stableTable false)
  | "map" => some (obs (G6V.fromGraph6GraphMap s) Visit.graphMapTable false)
  | "matrix" => some (obs (G6V.fromGraph6Matrix maxIx s) Visit.matrixTable false)
  | "csr" => some (obs (G6V.fromGraph6Csr (if bits == 64 then 0 else 2 ^ bits) 32 dbg s) Visit.csrTable true)
  | _ => none

/-- orders up to which the storage models are replayed (list-based models: quadratic in the edge count) -/
def replayMax : Nat := 24

/-- `valid`: the line claims a valid string (`dec`); otherwise (`decx`) any string -/
def decStep (d : DState) (valid : Bool) (tyw : String) (cs : List Char) (impl : String) : String :=
  let raw := tyw == "raw"
  let (name, bits) := splitType tyw
  -- the decoder model of the harness's build profile (`C18_decode_profile`); the replays below run the checked decoder, so
  -- they are used only where the two agree: no byte below 63 (`C18_decode_release_agrees`)
  let decoded := G6.decodeProfile d.checked cs
  let agree := d.checked || !(cs.any fun c => decide (c.toNat < 63))
  let isValid := validB cs
  if valid && !isValid then
    "SPECFAIL generator left the proved range: the string of a dec line is not a valid graph6 string of order ≤ 258047"
  else if valid && !raw && !(match decoded with | some (order, es) => fitsB name bits order es.length | none => true) then
    s!"SPECFAIL generator left the proved range: the index type of {tyw} has no room for the decoded graph"
  else
  let model : String :=
    match decoded with
    | none => "panic"
    | some (order, es) =>
      if raw then s!"order={order} edges={showPairs es}"
      else
        let small : Option String := if order ≤ replayMax && agree then replay name bits d.dbg cs else none
        match small with
        | some o => o
        | none =>
          let sorted := (es.map fun e => normPair e.1 e.2).mergeSort pairLe
          s!"order={order} nodes={showNats (List.range order)} m={es.length} edges={showPairs sorted}"
  let s := String.ofList cs
  let spec : Option String :=
    if !isValid then none       -- a malformed string: outside the property, mirror comparison only
    else if impl == "panic" then some "decoding a valid graph6 string panicked"
    else
      let w := splitWords impl
      match (field w "order").toNat? with
      | none => some s!"unreadable answer [{impl}]"
      | some order =>
        let es := parsePairs (field w "edges")
        let set := pairSet es
        if es.any (fun e => e.1 == e.2 || e.1 ≥ order || e.2 ≥ order) then
          some s!"decoded edge list has a loop or an endpoint outside 0..{order}"
        else if set.size != es.length then some "decoded edge list repeats an edge"
        else if !raw && (parseNats (field w "nodes")).mergeSort (· ≤ ·) != List.range order then
          some s!"decoded nodes [{field w "nodes"}] are not 0..{order}"
        else if !raw && (field w "m").toNat? != some es.length then
          some s!"edge_count {field w "m"} but {es.length} edges listed"
        else
          -- the string is valid (checked above): it is the format's encoding of what the decoder MODEL answers, so an
          -- answer with the same order and the same set of pairs is the graph the string encodes; anything else is
          -- re-encoded by the specification and compared with the string
          let norm (l : List (Nat × Nat)) := (l.map fun e => normPair e.1 e.2).mergeSort pairLe
          let sameAsModel : Bool :=
            match decoded with
            | some (mo, mes) => order == mo && norm es == norm mes
            | none => false
          if sameAsModel then none
          else
            let want := canonString order es
            if want == s then none
            else some s!"decoded graph (order {order}, {es.length} edges) is not the graph the string encodes"
  verdict spec model impl

/-! ### Dot -/

/-- code points separated by `sep`; `-` = empty -/
def parseCps (sep : String) (s : String) : List Char :=
  if s == "-" || s == "" then [] else (s.splitOn sep).filterMap fun x => x.toNat?.map Char.ofNat

def showCps (l : List Char) : String :=
  if l.isEmpty then "-" else String.intercalate "," (l.map fun c => toString c.toNat)

def parseConfig (s : String) : Option Dot.Config :=
  match s with
  | "NodeIndexLabel" => some .NodeIndexLabel
  | "EdgeIndexLabel" => some .EdgeIndexLabel
  | "EdgeNoLabel" => some .EdgeNoLabel
  | "NodeNoLabel" => some .NodeNoLabel
  | "GraphContentOnly" => some .GraphContentOnly
  | "RankDirTB" => some (.RankDir .TB)
  | "RankDirBT" => some (.RankDir .BT)
  | "RankDirLR" => some (.RankDir .LR)
  | "RankDirRL" => some (.RankDir .RL)
  | _ => none

def kindOf (k : Nat) : Dot.FmtKind :=
  match k with
  | 0 => .display | 1 => .debug | 2 => .lowerHex | _ => .upperHex

def colon (s : String) : List String := s.splitOn ":"

def parseEntries (s : String) (sep : String) : List (List String) :=
  if s == "-" || s == "" then [] else (s.splitOn sep).map colon

def firstDiff : List Char → List Char → Nat → Nat
  | a :: as, b :: bs, k => if a == b then firstDiff as bs (k + 1) else k
  | _, _, k => k

open Spec.Dot in
/-- spec-level judgement of the implementation's text; `none` = accepted -/
def judgeDot (d : DState) (configs : List Dot.Config) (fmt : Dot.Fmt) (text : List Char) : Option String :=
  let has (c : Dot.Config) : Bool := configs.contains c
  let rankdirs : List (List Char) := configs.filterMap fun c =>
    match c with
    | .RankDir r => some r.value
    | _ => none
  match parse text with
  | none => some "the text is not a well-formed DOT graph (unterminated label, stray character or broken statement)"
  | some p =>
    let wantKind : Option Bool := if has .GraphContentOnly then none else some d.directed
    if p.kind != wantKind then
      some s!"header: expected {repr wantKind} (some true = digraph, some false = graph, none = body only), found {repr p.kind}"
    else
      let attrs := p.stmts.filterMap fun s => match s with | .attr k v => some (k, v) | _ => none
      let nodes := p.stmts.filterMap fun s => match s with | .node a at' => some (a, at') | _ => none
      let edges := p.stmts.filterMap fun s => match s with | .edge a dd b at' => some (a, dd, b, at') | _ => none
      -- graph attributes: only `rankdir`, exactly when configured, with a configured value
      let attrBad := attrs.any fun (k, v) => k != kwRankdir || !(rankdirs.contains ((Tok.text v).getD []))
      if attrBad || attrs.length != (if rankdirs.isEmpty then 0 else 1) then
        some "graph attribute statements are not exactly the configured rankdir"
      else
        -- node statements = node indices, each once, with an acceptable label
        let nodeIds := nodes.map fun (a, _) => numeral a
        if nodeIds.any (·.isNone) then some "a node statement's ID is not a node index"
        else
          let ids := nodeIds.filterMap id
          let truthIds := d.tn.map (·.1)
          if ids.mergeSort (· ≤ ·) != truthIds.mergeSort (· ≤ ·) then
            some s!"node statements {showNats ids} are not the graph's node indices {showNats truthIds}"
          else
            let nodeLabelOk : (List Char × Attrs) → Bool := fun (a, at') =>
              let idx := (numeral a).getD 0
              let wid := ((d.tn.find? (·.1 == idx)).map (·.2)).getD 0
              let wants : List LabelSpec :=
                (if has .NodeNoLabel then [.absent] else []) ++
                (if has .NodeIndexLabel then [.number (some idx)] else []) ++
                (if !has .NodeNoLabel && !has .NodeIndexLabel then
                  [.text ((weightOf d.weights wid).render fmt.kind fmt.alternate)] else [])
              wants.any (labelOk at')
            match nodes.find? (fun x => !nodeLabelOk x) with
            | some (a, _) => some s!"label of node {String.ofList a} is not what the configuration and the weight determine"
            | none =>
              if edges.any (fun (_, dd, _, _) => dd != d.directed) then
                some "an edge statement uses the wrong connector for the edge type"
              else if edges.any (fun (a, _, b, _) => (numeral a).isNone || (numeral b).isNone) then
                some "an edge statement's endpoint is not a node index"
              else
                let textMode := !has .EdgeNoLabel && !has .EdgeIndexLabel
                let norm (a b : Nat) : Nat × Nat := if d.directed then (a, b) else normPair a b
                let stmtKeys : List ((Nat × Nat) × List Char) := edges.map fun (a, _, b, at') =>
                  (norm ((numeral a).getD 0) ((numeral b).getD 0),
                   if textMode then
                     match at'.find kwLabel with
                     | [v] => dropLastNl ((Tok.text v).getD [])
                     | _ => ['\x00', 'n', 'o', ' ', 'l', 'a', 'b', 'e', 'l']
                   else [])
                let truthKeys : List ((Nat × Nat) × List Char) := d.te.map fun (a, b, wid) =>
                  (norm a b, if textMode then dropLastNl ((weightOf d.weights wid).render fmt.kind fmt.alternate) else [])
                let rest := truthKeys.foldl (fun (acc : Option (List ((Nat × Nat) × List Char))) k =>
                  match acc with
                  | none => none
                  | some l => if l.contains k then some (l.erase k) else none) (some stmtKeys)
                if rest != some [] then
                  some s!"edge statements {showPairs (stmtKeys.map (·.1))} (with their labels) are not the graph's edges {showPairs (truthKeys.map (·.1))}"
                else if textMode then none
                else
                  let wants : List LabelSpec :=
                    (if has .EdgeNoLabel then [.absent] else []) ++ (if has .EdgeIndexLabel then [.number none] else [])
                  if edges.all (fun (_, _, _, at') => wants.any (labelOk at')) then none
                  else some "an edge label is not what the configuration determines"

def dotStep (d : DState) (req : List String) (impl : String) : String :=
  let cfgField := field req "cfg"
  let configs := if cfgField == "-" then [] else (cfgField.splitOn ",").filterMap parseConfig
  let fmt : Dot.Fmt := ⟨kindOf ((field req "kind").toNat?.getD 0), field req "alt" == "1"⟩
  let withAttrs := field req "attrs" == "1"
  let view := viewOf d.weights d.directed d.itNodes d.itEdges withAttrs
  -- run-time checks of the hypotheses (`C18_view_check`, `C18_getter_check`)
  if !nodesMatchB d.itNodes d.tn then
    "SPECFAIL side condition node_references-list-the-graph does not hold: the (index, weight) pairs of the iter line are not those of the graph line"
  else if !edgesMatchB d.directed d.itEdges d.te then
    "SPECFAIL side condition edge_references-list-the-graph does not hold: the (source, target, weight) triples of the iter line are not those of the graph line"
  else if !getterOkB view then
    "SPECFAIL generator left the proved range: an attribute-getter string is not an a_list fragment"
  else if impl == "panic" then "SPECFAIL formatting panicked"
  else
    let text := parseCps "," impl
    -- accepted iff the text is the printer's image of the checked view (`C18_dot_accept_sound`)
    if dotAcceptB d.weights d.directed d.tn d.te d.itNodes d.itEdges withAttrs configs fmt text then "ok"
    else
      -- a text that differs: the statement comparison only CLASSIFIES it
      let model := Dot.dot configs fmt view
      match judgeDot d configs fmt text with
      | some why => s!"SPECFAIL {why}"
      | none =>
        let k := firstDiff model text 0
        s!"MODELDIFF first difference at char {k} model=[{showCps ((model.drop (k - 10)).take 40)}] impl=[{showCps ((text.drop (k - 10)).take 40)}]"

def step (d : DState) (req : List String) (impl : String) : DState × String :=
  match req with
  | "case" :: k :: _ => ({ checked := field req "ovf" != "0", dbg := field req "dbg" != "0" }, s!"case {k}")
  | "truth" :: _ =>
    let es := parsePairs (field req "edges")
    let n := (field req "n").toNat?.getD 0
    let simple := field req "simple" == "1"
    let d' := { d with n := n, simple := simple, truthEdges := es, truthSet := pairSet es }
    -- run-time check (`C18_truth_simple_check`): a graph announced as simple is one
    if simple && !truthSimpleB n es then
      (d', "SPECFAIL generator left the proved range: the truth line is not a simple graph (pairs a < b < n, strictly ascending in the format's order)")
    else (d', "ok")
  | "enc" :: ty :: _ => (d, encStep d ty req impl)
  | ["dec", ty, s] => (d, decStep d true ty s.toList impl)
  | ["decx", ty, cps] => (d, decStep d false ty (parseCps "," cps) impl)
  | ["w", id, table] =>
    let row : Array (Option (List Char)) :=
      ((table.splitOn "|").map fun r => if r == "x" then none else some (parseCps "," r)).toArray
    if id.toNat? == some d.weights.size then ({ d with weights := d.weights.push row }, "ok")
    else (d, s!"SPECFAIL bad request: weight id {id} out of sequence")
  | "graph" :: _ :: dir :: _ =>
    let tn := (parseEntries (field req "tn") ",").filterMap fun e =>
      match e with
      | [i, w] => some (i.toNat?.getD 0, w.toNat?.getD 0)
      | _ => none
    let te := (parseEntries (field req "te") ",").filterMap fun e =>
      match e with
      | [a, b, w] => some (a.toNat?.getD 0, b.toNat?.getD 0, w.toNat?.getD 0)
      | _ => none
    ({ d with directed := dir == "dir", tn := tn, te := te }, "ok")
  | "iter" :: _ =>
    let ns := (parseEntries (field req "nodes") ";").filterMap fun e =>
      match e with
      | [i, w, a] => some (i.toNat?.getD 0, w.toNat?.getD 0, parseCps "." a)
      | _ => none
    let es := (parseEntries (field req "edges") ";").filterMap fun e =>
      match e with
      | [s, t, w, a] => some (s.toNat?.getD 0, t.toNat?.getD 0, w.toNat?.getD 0, parseCps "." a)
      | _ => none
    ({ d with itNodes := ns, itEdges := es }, "ok")
  | "dot" :: _ => (d, dotStep d req impl)
  -- a LAW checked by the harness against the implementation itself (`law <name> … => ok | VIOLATED <why>`):
  -- `dot-format-spec-ignored` (width / precision / fill / sign / zero flags of the outer format spec do not change the
  -- text), `graph6-free-function` (`graph6_string()` = `get_graph6_representation(&g)`), `dot-over-adaptor` (Reversed /
  -- NodeFiltered print the adaptor's graph), `config-std-traits`
  | "law" :: name :: _ =>
    (d, if impl == "ok" then "ok" else s!"SPECFAIL law {name} does not hold: {impl}")
  | _ => (d, s!"SPECFAIL bad request {req}")

end PetgraphModel.C18
