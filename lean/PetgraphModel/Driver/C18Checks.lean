import PetgraphModel.Model.Graph6
import PetgraphModel.Model.Dot
import PetgraphModel.Model.C18Decode
import PetgraphModel.Spec.Graph6
import PetgraphModel.Spec.Dot
import PetgraphModel.Spec.C18DotAttrs
/-
C18 — the run-time checks of the hypotheses of the `C18_*` theorems and the acceptance test of a `dot` line.
Core Lean only (linked into the driver).  Every function here is an executable Boolean; `Theorems/C18.lean`, section
"run-time checks of the hypotheses", proves `…B … = true → <the hypothesis>` for each of them, so every case the
driver judges is provably inside the theorems' scope.

* `orderOkB n`                ⇒ `n ≤ 258047`                       (`C18_decode_encode`, `C18_graph6_of_bitmap`, …)
* `truthSimpleB n es`         ⇒ the `truth` line is a simple graph: pairs `a < b < n`, none twice
* `bitmapRangeB w es ix`      ⇒ every edge endpoint and every iterated index is `< w` (`C18_graph6_of_bitmap`)
* `fitsB name bits n m`       ⇒ the index type has room: `hfit` of `C18_from_graph6_*`, `C18_string_roundtrip`
* `getterOkB g`               ⇒ `DotP.GetterOK g`                   (`C18_dot_parse_getters`)
* `nodesMatchB` / `edgesMatchB` ⇒ `node_references()` / `edge_references()` list exactly the graph the harness built
* `dotAcceptB …`              ⇒ the text is the printer's image of that view (`C18_dot_accept_sound`)
-/
namespace PetgraphModel.C18
open PetgraphModel

def normPair (a b : Nat) : Nat × Nat := if a ≤ b then (a, b) else (b, a)

/-! ### graph6 -/

def orderOkB (n : Nat) : Bool := decide (n ≤ 258047)

/-- column-major order of the format: `(a, b)` before `(a', b')` iff `b < b'`, or `b = b'` and `a < a'` -/
def pairLt (p q : Nat × Nat) : Bool := decide (p.2 < q.2) || (p.2 == q.2 && decide (p.1 < q.1))

def strictlyAscB : List (Nat × Nat) → Bool
  | [] => true
  | [_] => true
  | p :: q :: r => pairLt p q && strictlyAscB (q :: r)

/-- the abstract graph of a `truth` line is simple: every pair is `a < b < n` and the list is strictly ascending in the
format's order (so no pair is listed twice) -/
def truthSimpleB (n : Nat) (es : List (Nat × Nat)) : Bool :=
  es.all (fun e => decide (e.1 < e.2) && decide (e.2 < n)) && strictlyAscB es

/-- every edge endpoint and every iterated node index is below the bitmap width -/
def bitmapRangeB (w : Nat) (es : List (Nat × Nat)) (ix : List Nat) : Bool :=
  es.all (fun e => decide (e.1 < w) && decide (e.2 < w)) && ix.all (fun i => decide (i < w))

/-- the index type of a `dec <type><bits>` line has room for the decoded graph (`n` nodes, `m` edges): the hypothesis
`hfit` of `C18_from_graph6_*` / `C18_string_roundtrip` (`maxIx = Ix::max() = 2^bits - 1`; `GraphMap` has no limit;
`MatrixGraph` and `Csr` limit the nodes only; `usize` is `bits = 64`) -/
def fitsB (name : String) (bits n m : Nat) : Bool :=
  let maxIx := 2 ^ bits - 1
  match name with
  | "graph" => decide (n ≤ maxIx) && decide (m ≤ maxIx)
  | "stable" => decide (n ≤ maxIx) && decide (m ≤ maxIx)
  | "matrix" => decide (n ≤ maxIx)
  | "csr" => bits == 64 || decide (n ≤ 2 ^ bits)
  | _ => true

/-! ### Dot -/

def kindIdx : Dot.FmtKind → Nat
  | .display => 0 | .debug => 1 | .lowerHex => 2 | .upperHex => 3

/-- the table of renderings sent by the harness: row = weight id, column = `2 * kind + alternate` -/
abbrev WTable := Array (Array (Option (List Char)))

def weightOf (W : WTable) (wid : Nat) : Dot.Weight :=
  let row := W.getD wid #[]
  ⟨fun k a => ((row.getD (2 * kindIdx k + (if a then 1 else 0)) none).getD [])⟩

/-- the view `graph_fmt` iterates: `node_references()` as (index, weight id, getter string), `edge_references()` as
(source, target, weight id, getter string); the getter strings only under `with_attr_getters` -/
def viewOf (W : WTable) (directed : Bool) (itNodes : List (Nat × Nat × List Char))
    (itEdges : List (Nat × Nat × Nat × List Char)) (withAttrs : Bool) : Dot.GraphView :=
  { directed := directed
    nodes := itNodes.map fun x => { index := x.1, weight := weightOf W x.2.1, attr := if withAttrs then x.2.2 else [] }
    edges := itEdges.map fun x =>
      { source := x.1, target := x.2.1, weight := weightOf W x.2.2.1, attr := if withAttrs then x.2.2.2 else [] } }

def getterOkB (g : Dot.GraphView) : Bool :=
  g.nodes.all (fun n => (Spec.Dot.attrFrag n.attr).isSome) && g.edges.all (fun e => (Spec.Dot.attrFrag e.attr).isSome)

/-- `node_references()` yields exactly the (index, weight) pairs the harness built, in some order -/
def nodesMatchB (itNodes : List (Nat × Nat × List Char)) (tn : List (Nat × Nat)) : Bool :=
  (itNodes.map fun x => (x.1, x.2.1)).isPerm tn

/-- an undirected edge is the same edge in either orientation -/
def orient (directed : Bool) (e : Nat × Nat × Nat) : Nat × Nat × Nat :=
  if directed || decide (e.1 ≤ e.2.1) then e else (e.2.1, e.1, e.2.2)

/-- `edge_references()` yields exactly the (source, target, weight) triples the harness built, in some order (either
orientation for an undirected graph) -/
def edgesMatchB (directed : Bool) (itEdges : List (Nat × Nat × Nat × List Char)) (te : List (Nat × Nat × Nat)) : Bool :=
  ((itEdges.map fun x => orient directed (x.1, x.2.1, x.2.2.1))).isPerm (te.map (orient directed))

/-- the acceptance test of a `dot` line: the trait iterators list the graph by construction, every getter string is an
`a_list` fragment, and the text is — character for character — what the printer model writes for that view -/
def dotAcceptB (W : WTable) (directed : Bool) (tn : List (Nat × Nat)) (te : List (Nat × Nat × Nat))
    (itNodes : List (Nat × Nat × List Char)) (itEdges : List (Nat × Nat × Nat × List Char)) (withAttrs : Bool)
    (configs : List Dot.Config) (fmt : Dot.Fmt) (text : List Char) : Bool :=
  nodesMatchB itNodes tn && edgesMatchB directed itEdges te &&
    getterOkB (viewOf W directed itNodes itEdges withAttrs) &&
    text == Dot.dot configs fmt (viewOf W directed itNodes itEdges withAttrs)

end PetgraphModel.C18
