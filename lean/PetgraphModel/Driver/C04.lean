import PetgraphModel.Common
import PetgraphModel.Model.Matrix
import PetgraphModel.Spec.MatrixSimpleGraph
import PetgraphModel.Spec.MatrixMachine
/-
C04 driver: runs the mirror model (`Matrix.State`) and the abstract machine of the property
(`MatrixProofs.specStep` on the simple graph `MatrixSpec.G`, `Spec/MatrixMachine.lean` — the very function
the theorems are about) side by side with the implementation's answers.

* exact part: the mirror model's answer must equal the implementation's, byte for byte
  (iteration orders, the id `add_node` hands out, `node_bound`, …) — otherwise `MODELDIFF`;
* spec part: the implementation's answer is judged against the simple graph — otherwise `SPECFAIL`.
  Since wave 5 the iteration ORDER is part of the judged specification (`G.idsAsc`, `G.nodesAsc`,
  `G.succAsc`, `G.predAsc`, `G.edgeRefsAsc`: ascending ids, row-major edges; proved equal to the mirror's
  iterators in `C04_iteration_order`); a wrong order is reported apart from a wrong set.
* run-time checks (G-A): every mutating call is checked to be inside the property's quantifier
  (`validB` ⇒ `Valid`, `C04_valid_check`) before it is judged; `extend_with_edges`/`from_edges` only on a
  graph without vacancy (`noVacancyB`); probes only on pairs that are not edges (`notEdgeB`); `zprobe` only
  on an existing edge of a `NotZero` graph (`zeroMutB`).  They restrict the generated input, so a failure
  is answered `SPECFAIL generator left the proved range: …`.

Calls whose endpoints are not live nodes are outside the property's quantifier.  The ones whose
answer follows from "a node that does not exist has no edges" (`has_edge`, `remove_edge`,
`neighbors`, `remove_node`, …) are judged; the edge-*writing* ones (`probe …` lines: the call
followed by `try_remove_edge` of the same pair, so nothing stays behind — `C04_probe_undone` — and
`capscan` lines, which read the matrix capacity off `try_update_edge` on ids beyond the bound) are compared
exactly only.  `zprobe` (the sentinel written through `edge_weight_mut` of a `NotZero` graph, outside the
documented use) is a recorded observation: exact comparison with the model (`C04_zero_through_mut`), it
ends the case.  `edges_directed(_, Incoming)` is judged up to the orientation of the yielded pair (that
orientation is finding D6 of property C06, not C04's business).
-/
namespace PetgraphModel.C04
open PetgraphModel PetgraphModel.Matrix PetgraphModel.MatrixSpec PetgraphModel.MatrixProofs

structure DState where
  m : Matrix.State := { dir := true, nz := false, ixMax := 65535 }
  g : G := G.empty true
  /-- a panicking `add_edge` on an existing edge: the property does not say which of the two
  weights the edge has afterwards; resolved by the next `erefs` line -/
  pend : Option ((Nat × Nat) × Int × Int) := none
  /-- `node_count()` and `node_bound()` of the implementation's last `counts` line -/
  implNB : Option (Nat × Nat) := none
  /-- a `zprobe` has been made: the state is outside the property's domain, the case is over -/
  over : Bool := false

/-! ### printing (must agree with `harness/src/c04.rs`) -/

def showOptInt : Option Int → String
  | none => "none"
  | some x => s!"some {x}"

def showFault : Fault → String
  | .oob => "FAULT-oob" | .debugAssert => "FAULT-debug-assert" | .underflow => "FAULT-underflow"

def showOut : Out → String
  | .unit => "ok"
  | .id n => toString n
  | .w x => toString x
  | .optW o => showOptInt o
  | .bool b => showBool b
  | .resOk o => "ok " ++ showOptInt o
  | .resIdOk n => s!"ok {n}"
  | .resErr .nodeIxLimit => "err NodeIxLimit"
  | .resErr (.nodeMissed i) => s!"err NodeMissed {i}"
  | .panic => "panic"
  | .fault f => showFault f

def showTriples (l : List (Nat × Nat × Int)) : String :=
  if l.isEmpty then "-" else String.intercalate "," (l.map fun (a, b, w) => s!"{a}:{b}:{w}")

def showPairs (l : List (Nat × Int)) : String :=
  if l.isEmpty then "-" else String.intercalate "," (l.map fun (a, w) => s!"{a}:{w}")

def showBits (l : List Bool) : String :=
  if l.isEmpty then "-" else String.ofList (l.map fun b => if b then '1' else '0')

def showOptCells (l : List (Option Int)) : String :=
  if l.isEmpty then "-" else String.intercalate "," (l.map fun | none => "_" | some x => toString x)

/-! ### parsing -/

def parseTriple (s : String) : Option (Nat × Nat × Int) :=
  match s.splitOn ":" with
  | [a, b, w] => match a.toNat?, b.toNat?, w.toInt? with
    | some a, some b, some w => some (a, b, w)
    | _, _, _ => none
  | _ => none

def parseTriples (s : String) : Option (List (Nat × Nat × Int)) :=
  if s == "-" then some [] else (s.splitOn ",").mapM parseTriple

def parsePair (s : String) : Option (Nat × Int) :=
  match s.splitOn ":" with
  | [a, w] => match a.toNat?, w.toInt? with
    | some a, some w => some (a, w)
    | _, _ => none
  | _ => none

def parsePairs (s : String) : Option (List (Nat × Int)) :=
  if s == "-" then some [] else (s.splitOn ",").mapM parsePair

def parseNatList (s : String) : Option (List Nat) :=
  if s == "-" then some [] else (s.splitOn ",").mapM (·.toNat?)

def parseBits (s : String) : Option (List Bool) :=
  if s == "-" then some [] else s.toList.mapM fun c => if c == '1' then some true else if c == '0' then some false else none

def parseOptCells (s : String) : Option (List (Option Int)) :=
  if s == "-" then some [] else (s.splitOn ",").mapM fun t => if t == "_" then some none else t.toInt?.map some

/-- `k=v` fields of a dump line -/
def field (fs : List String) (k : String) : Option String :=
  fs.findSome? fun f => if f.startsWith (k ++ "=") then some (f.drop (k.length + 1)).toString else none

/-! ### order-insensitive comparison -/

def sortNat (l : List Nat) : List Nat := l.mergeSort (fun a b => a ≤ b)
def leNI (a b : Nat × Int) : Bool := a.1 < b.1 || (a.1 == b.1 && a.2 ≤ b.2)
def sortNI (l : List (Nat × Int)) : List (Nat × Int) := l.mergeSort leNI
def sortKW (l : List ((Nat × Nat) × Int)) : List ((Nat × Nat) × Int) := l.mergeSort leKW

def expect (want impl : String) : Option String :=
  if want == impl then none else some s!"expected [{want}], implementation answered [{impl}]"

def verdict (spec : Option String) (model impl : String) : String :=
  match spec with
  | some why => s!"SPECFAIL {why}"
  | none => cmpExact model impl

def orElse (a b : Option String) : Option String := match a with | some x => some x | none => b

/-! ### spec-level judges of the observers -/

/-- `neighbors(a)`-like answer: must be `want` (ascending, no repetitions: a simple graph) -/
def judgeIds (what : String) (impl : String) (want : List Nat) : Option String :=
  match parseNatList impl with
  | none => some s!"{what}: unreadable answer [{impl}]"
  | some l => if l == want then none
    else if sortNat l == want then
      some s!"iteration order: {what} = [{impl}] has the right members but is not ascending"
    else some s!"{what} = [{impl}] but the graph says {showNats want}"

/-- `edges(a)`-like answer: every item has source `a`; the (target, weight) list must be `want`
(ascending in the target).  With `anyOrientation` an item may also be `(other, a, w)`. -/
def judgeEdgesOf (what : String) (a : Nat) (impl : String) (want : List (Nat × Int))
    (anyOrientation : Bool) : Option String :=
  match parseTriples impl with
  | none => some s!"{what}: unreadable answer [{impl}]"
  | some l =>
    let others : List (Option (Nat × Int)) := l.map fun (s, t, w) =>
      if s == a then some (t, w) else if anyOrientation && t == a then some (s, w) else none
    if others.any (·.isNone) then some s!"{what} = [{impl}] contains an edge whose source is not {a}"
    else
      let got := others.filterMap id
      if got == want then none
      else if sortNI got == sortNI want then
        some s!"iteration order: {what} = [{impl}] has the right members but is not ascending"
      else some s!"{what} = [{impl}] but the graph says {showPairs want}"

/-- parsed `edge_references()`: the items with normalised keys, in the order of the answer -/
def judgeEdgeRefs (d : DState) (impl : String) : Option String × Option (List ((Nat × Nat) × Int)) :=
  match parseTriples impl with
  | none => (some s!"edge_references: unreadable answer [{impl}]", none)
  | some l => (none, some (l.map fun (s, t, w) => (key d.g.directed s t, w)))

/-! ### the step function -/

def natArg (s : String) : Nat := s.toNat?.getD 0
def intArg (s : String) : Int := s.toInt?.getD 0

/-- `<Ix as IndexType>::max().index()` of the index width of the case -/
def ixMaxOf (w : String) : Option Nat :=
  if w == "w=8" then some 255
  else if w == "w=16" then some 65535
  else if w == "w=32" then some 4294967295
  else if w == "w=64" then some 18446744073709551615
  else none

def leftRange (why : String) : String := s!"SPECFAIL generator left the proved range: {why}"

/-- run one mirror-model operation -/
def runOp (d : DState) (op : Op) : DState × String :=
  let (m', o) := Matrix.step d.m op
  ({ d with m := m' }, showOut o)

/-- **a mutating call of the alphabet**: checked to be inside the property's quantifier (`validB`), then
the mirror model runs it and the spec advances by `specStep` (with the id the implementation handed out);
the implementation's answer must be the abstract machine's -/
def mutate (d : DState) (what : String) (op : Op) (id : Nat) (impl : String) : DState × String :=
  if !(validB d.m.nz d.g op) then
    (d, leftRange s!"{what} is outside the property's quantifier (edge-writing calls between live nodes; no zero through edge_weight_mut of a NotZero graph)")
  else
    let (d', ms) := runOp d op
    let (g', so) := specStep d.m.nz d.m.ixMax d.g op id
    ({ d' with g := g' }, verdict (expect (showOut so) impl) ms impl)

def bothLive (d : DState) (a b : Nat) : Bool := d.g.live a && d.g.live b

def edgeOpOf (f : String) (a b : Nat) (w : Int) : Option Op :=
  match f with
  | "add_edge" => some (.addEdge a b w)
  | "update_edge" => some (.updateEdge a b w)
  | "try_update_edge" => some (.tryUpdateEdge a b w)
  | "add_or_update_edge" => some (.addOrUpdateEdge a b w)
  | "build_add_edge" => some (.buildAddEdge a b w)
  | "build_update_edge" => some (.buildUpdateEdge a b w)
  | "edge_weight_mut" => some (.setEdgeWeight a b w)
  | _ => none

/-- one `row a` line of a dump: every per-node observer of `a` -/
def rowStep (d : DState) (x : String) (impl : String) : DState × String :=
    let a := natArg x
    let m := d.m
    let liveM := m.nodes.ids
    let base := s!"nb={showNats (neighborsOut m a)} ed={showTriples (edgesOut m a)}"
    let dirPart := if m.dir then
        s!" nbo={showNats (neighborsOut m a)} nbi={showNats (neighborsIn m a)} edo={showTriples (edgesOut m a)} edi={showTriples (edgesIn m a)}"
      else ""
    let ms := base ++ dirPart ++
      s!" he={showBits (liveM.map fun x => hasEdge m a x)} hr={showBits (liveM.map fun x => hasEdge m x a)} gw={showOptCells (liveM.map fun x => getEdgeWeight m a x)}"
    let fs := splitWords impl
    let liveS := d.g.idsAsc
    let sc := d.g.succAsc a
    let pr := d.g.predAsc a
    let get (k : String) : String := (field fs k).getD "?"
    let spec :=
      orElse (judgeIds s!"neighbors({a})" (get "nb") (sc.map (·.1))) <|
      orElse (judgeEdgesOf s!"edges({a})" a (get "ed") sc false) <|
      orElse (if m.dir then
        orElse (judgeIds s!"neighbors_directed({a},Outgoing)" (get "nbo") (sc.map (·.1))) <|
        orElse (judgeIds s!"neighbors_directed({a},Incoming)" (get "nbi") (pr.map (·.1))) <|
        orElse (judgeEdgesOf s!"edges_directed({a},Outgoing)" a (get "edo") sc false)
               (judgeEdgesOf s!"edges_directed({a},Incoming)" a (get "edi") pr true)
        else none) <|
      orElse (match parseBits (get "he") with
        | some bits => if bits == liveS.map (fun x => d.g.hasEdge a x) then none
            else some s!"has_edge({a}, ·) over the live nodes = {get "he"} but the graph says {showBits (liveS.map fun x => d.g.hasEdge a x)}"
        | none => some s!"row: unreadable he [{impl}]") <|
      orElse (match parseBits (get "hr") with
        | some bits => if bits == liveS.map (fun x => d.g.hasEdge x a) then none
            else some s!"has_edge(·, {a}) over the live nodes = {get "hr"} but the graph says {showBits (liveS.map fun x => d.g.hasEdge x a)}"
        | none => some s!"row: unreadable hr [{impl}]")
        (match parseOptCells (get "gw") with
        | some ws => if ws == liveS.map (fun x => d.g.weight a x) then none
            else some s!"get_edge_weight({a}, ·) over the live nodes = {get "gw"} but the graph says {showOptCells (liveS.map fun x => d.g.weight a x)}"
        | none => some s!"row: unreadable gw [{impl}]")
    (d, verdict spec ms impl)

/-- `capscan lo hi`: for every id `x` in `lo..hi` (none of them a live node) `try_update_edge(x, x, 1)`
followed by `try_remove_edge(x, x)`; the bit says whether the first call was `Ok` — it is iff `x` is below
the matrix capacity.  Outside the property's quantifier: compared exactly only. -/
def capScan (d : DState) : Nat → Nat → DState × List Bool
  | _, 0 => (d, [])
  | x, k + 1 =>
    let (d1, s1) := runOp d (.tryUpdateEdge x x 1)
    let (d2, _) := runOp d1 (.tryRemoveEdge x x)
    let (d3, bits) := capScan d2 (x + 1) k
    (d3, s1.startsWith "ok" :: bits)

def step (d : DState) (req : List String) (impl : String) : DState × String :=
  let bad : DState × String := (d, s!"SPECFAIL bad request {req}")
  match req with
  | ["case", k, dir, null, w] =>
    let isDir := dir == "dir"
    match ixMaxOf w with
    | some ixMax => ({ m := { dir := isDir, nz := null == "nz", ixMax := ixMax }, g := G.empty isDir }, s!"case {k}")
    | none => ({}, s!"SPECFAIL bad request {req}: unknown index width")
  | _ =>
  if d.over then (d, "SPECFAIL harness: a call after zprobe (the state is outside the property's domain)") else
  match req with
  | "law" :: _ =>
    -- a LAW the harness checked against the implementation itself (iterator contracts of every iterator of
    -- the matrix, `clone_from ≡ clone`, `Default ≡ new ≡ with_capacity(0)`, `Debug` never panics, trait /
    -- adaptor views describe the same graph, `Visitable`): the only acceptable answer is `ok`
    (d, verdict (if impl == "ok" then none else some s!"law violated [{String.intercalate " " req}]: {impl}") "ok" impl)
  | ["row", x] => rowStep d x impl
  | ["new", ctor] =>
    if ctor == "default" || ctor == "new" || ctor == "new_undirected" then
      match withCapacity d.m.dir d.m.nz d.m.ixMax 0 with
      | .ok m => ({ d with m := m, g := G.empty d.m.dir, pend := none, implNB := none }, verdict (expect "ok" impl) "ok" impl)
      | .error e => (d, verdict (expect "ok" impl) (showFault e) impl)
    else bad
  | ["new", "with_capacity", k] =>
    if !(capacityFitsB d.m.ixMax (natArg k)) then
      (d, leftRange s!"with_capacity({k}) beyond the index type (debug_assert of with_capacity_and_hasher)")
    else
    match withCapacity d.m.dir d.m.nz d.m.ixMax (natArg k) with
    | .ok m => ({ d with m := m, g := G.empty d.m.dir, pend := none, implNB := none }, verdict (expect "ok" impl) "ok" impl)
    | .error e => (d, verdict (expect "ok" impl) (showFault e) impl)
  | ["capscan", lo, hi] =>
    let lo := natArg lo
    let hi := natArg hi
    if (List.range (hi - lo)).any (fun i => d.g.live (lo + i) || !(notEdgeB d.g (lo + i) (lo + i))) then
      (d, leftRange "capscan over a live node / an existing edge")
    else
      let (d', bits) := capScan d lo (hi - lo)
      (d', cmpExact (showBits bits) impl)
  | ["zprobe", x, y] =>
    let a := natArg x
    let b := natArg y
    if !(zeroMutB d.m.nz d.g a b) then
      (d, leftRange s!"zprobe {a} {b}: not an existing edge of a NotZero graph")
    else
      let (m', o) := Matrix.step d.m (.setEdgeWeight a b 0)
      let ms := s!"{showOut o} he={showBool (hasEdge m' a b)} gw={showOptInt (getEdgeWeight m' a b)} ec={m'.nbEdges} er={(edgeRefs m').length}"
      ({ d with m := m', over := true }, cmpExact ms impl)
  | [f, l] =>
    if f == "from_edges" || f == "extend_with_edges" then
      match parseTriples l with
      | none => bad
      | some es =>
        let isFrom := f == "from_edges"
        let d0 : DState := if isFrom then
            match withCapacity d.m.dir d.m.nz d.m.ixMax 0 with
            | .ok m => { d with m := m, g := G.empty d.m.dir, pend := none, implNB := none }
            | .error _ => d
          else d
        let implNoVacancy := match d0.implNB with | some (n, b) => n == b | none => isFrom
        if !(noVacancyB d0.m) || !(contigB d0.g) || !implNoVacancy then
          (d0, leftRange s!"{f} on a graph with a vacancy (node_bound != node_count): the ids of the nodes it adds are not determined by the edges")
        else
          let (m', o) := if isFrom then fromEdges d0.m.dir d0.m.nz d0.m.ixMax es else extendWithEdges d0.m es
          let (g', so) := specExtend d0.m.nz d0.m.ixMax d0.g es
          let pend := if so == Out.panic then extendPanicEdge d0.m.nz d0.m.ixMax d0.g es else none
          -- the driver does not demand that the weight was overwritten before `add_edge`'s assertion failed
          let g'' : G := match pend with
            | some (k, old, _) => { g' with edges := g'.edges.map fun e => if e.1 == k then (k, old) else e }
            | none => g'
          ({ d0 with m := m', g := g'', pend := pend }, verdict (expect (showOut so) impl) (showOut o) impl)
    else
    let a := natArg l
    match f with
    | "add_node" | "try_add_node" =>
      let isTry := f == "try_add_node"
      let w := intArg l
      let op : Op := if isTry then .tryAddNode w else .addNode w
      if d.g.nodeCount = d.m.ixMax then mutate d f op 0 impl
      else
        let idStr := if isTry then (if impl.startsWith "ok " then (impl.drop 3).toString else "?") else impl
        match idStr.toNat? with
        | none => ((runOp d op).1, s!"SPECFAIL {f} below the index limit answered [{impl}]")
        | some id =>
          if d.g.live id then ((runOp d op).1, s!"SPECFAIL {f} returned id {id}, which is a live node")
          else mutate d f op id impl
    | "remove_node" => mutate d f (.removeNode a) 0 impl
    | "node_weight" =>
      let ms := match d.m.nodes.get a with | some w => toString w | none => "panic"
      let want := match d.g.nodeWeight a with | some w => toString w | none => "panic"
      (d, verdict (expect want impl) ms impl)
    | "get_node_weight" =>
      (d, verdict (expect (showOptInt (d.g.nodeWeight a)) impl) (showOptInt (d.m.nodes.get a)) impl)
    | "neighbors" =>
      (d, verdict (judgeIds s!"neighbors({a})" impl ((d.g.succAsc a).map (·.1))) (showNats (neighborsOut d.m a)) impl)
    | "edges" =>
      (d, verdict (judgeEdgesOf s!"edges({a})" a impl (d.g.succAsc a) false) (showTriples (edgesOut d.m a)) impl)
    | _ => bad
  | [f, x, y] =>
    let a := natArg x
    match f with
    | "node_weight_mut" => mutate d f (.setNodeWeight a (intArg y)) 0 impl
    | "neighbors_directed" =>
      if y == "out" then
        (d, verdict (judgeIds s!"neighbors_directed({a},Outgoing)" impl ((d.g.succAsc a).map (·.1))) (showNats (neighborsOut d.m a)) impl)
      else
        (d, verdict (judgeIds s!"neighbors_directed({a},Incoming)" impl ((d.g.predAsc a).map (·.1))) (showNats (neighborsIn d.m a)) impl)
    | "edges_directed" =>
      if y == "out" then
        (d, verdict (judgeEdgesOf s!"edges_directed({a},Outgoing)" a impl (d.g.succAsc a) false) (showTriples (edgesOut d.m a)) impl)
      else
        (d, verdict (judgeEdgesOf s!"edges_directed({a},Incoming)" a impl (d.g.predAsc a) true) (showTriples (edgesIn d.m a)) impl)
    | _ =>
    let b := natArg y
    match f with
    | "has_edge" | "is_adjacent" =>
      (d, verdict (expect (showBool (d.g.hasEdge a b)) impl) (showBool (hasEdge d.m a b)) impl)
    | "get_edge_weight" =>
      (d, verdict (expect (showOptInt (d.g.weight a b)) impl) (showOptInt (getEdgeWeight d.m a b)) impl)
    | "edge_weight" =>
      let ms := match edgeWeight d.m a b with
        | .ok (some w) => toString w | .ok none => "panic" | .error e => showFault e
      let want := match d.g.weight a b with | some w => toString w | none => "panic"
      (d, verdict (expect want impl) ms impl)
    | "remove_edge" => mutate d f (.removeEdge a b) 0 impl
    | "try_remove_edge" => mutate d f (.tryRemoveEdge a b) 0 impl
    | _ => bad
  | [f, x, y, z] =>
    let a := natArg x
    let b := natArg y
    let w := intArg z
    match edgeOpOf f a b w with
    | none => bad
    | some op =>
      let what := s!"{f}({a}, {b}, {w})"
      if f == "add_edge" && validB d.m.nz d.g op && !(zeroRejected d.m.nz w) && (d.g.weight a b).isSome then
        -- the documented panic on an existing edge: the property does not say which of the two weights the
        -- edge has afterwards (`specStep`: the new one, as the code does); resolved by the next `erefs` line
        let (d', ms) := runOp d op
        match d.g.weight a b with
        | some o => ({ d' with pend := some (key d.g.directed a b, o, w) }, verdict (expect "panic" impl) ms impl)
        | none => (d', "SPECFAIL driver")
      else mutate d what op 0 impl
  | ["probe", f, x, y, z] =>
    -- an edge-writing call with an endpoint that is not a live node, undone by `try_remove_edge`;
    -- outside the property's quantifier: exact comparison only (`C04_probe_undone`: the state stays
    -- inside the invariant and describes the same graph)
    let a := natArg x
    let b := natArg y
    match edgeOpOf f a b (intArg z) with
    | none => bad
    | some op =>
      if f == "edge_weight_mut" then bad
      else if bothLive d a b then (d, "SPECFAIL harness: probe between live nodes")
      else if !(notEdgeB d.g a b) then (d, leftRange s!"probe {f}({a}, {b}) on an existing edge")
      else
        let (d1, s1) := runOp d op
        let (d2, s2) := runOp d1 (.tryRemoveEdge a b)
        (d2, cmpExact (s1 ++ " / " ++ s2) impl)
  | ["abort"] => (d, "SPECFAIL an observer or a call that must not panic panicked; the case was abandoned")
  | ["clear"] =>
    let (d', v) := mutate d "clear" .clear 0 impl
    ({ d' with pend := none }, v)
  | ["node_count"] =>
    (d, verdict (expect (toString d.g.nodeCount) impl) (toString d.m.nodes.len) impl)
  | ["edge_count"] =>
    (d, verdict (expect (toString d.g.edgeCount) impl) (toString d.m.nbEdges) impl)
  | ["counts"] =>
    let ms := s!"n={d.m.nodes.len} e={d.m.nbEdges} b={d.m.nodes.upperBound}"
    let fs := splitWords impl
    match (field fs "n").bind (·.toNat?), (field fs "e").bind (·.toNat?), (field fs "b").bind (·.toNat?) with
    | some n, some e, some b =>
      let spec :=
        if n != d.g.nodeCount then some s!"node_count = {n} but the graph has {d.g.nodeCount} nodes"
        else if e != d.g.edgeCount then some s!"edge_count = {e} but the graph has {d.g.edgeCount} edges"
        else if d.g.ids.any (· ≥ b) then some s!"node_bound = {b} does not exceed every live id {showNats (sortNat d.g.ids)}"
        else none
      ({ d with implNB := some (n, b) }, verdict spec ms impl)
    | _, _, _ => (d, verdict (some s!"counts: unreadable answer [{impl}]") ms impl)
  | ["nodes"] =>
    let refs := nodeRefs d.m
    let ms := s!"ids={showNats d.m.nodes.ids} refs={showPairs refs}"
    let fs := splitWords impl
    let spec :=
      match (field fs "ids").bind parseNatList, (field fs "refs").bind parsePairs with
      | some ids, some rf =>
        if ids == d.g.idsAsc && rf == d.g.nodesAsc then none
        else if sortNat ids != d.g.idsAsc then
          some s!"node_identifiers = {showNats ids} but the live nodes are {showNats d.g.idsAsc}"
        else if sortNI rf != sortNI d.g.nodesAsc then
          some s!"node_references = {showPairs rf} but the nodes are {showPairs d.g.nodesAsc}"
        else some s!"iteration order: node_identifiers = {showNats ids} / node_references = {showPairs rf} have the right members but are not ascending"
      | _, _ => some s!"nodes: unreadable answer [{impl}]"
    (d, verdict spec ms impl)
  | ["erefs"] =>
    let ms := showTriples (edgeRefs d.m)
    match judgeEdgeRefs d impl with
    | (some why, _) => (d, s!"SPECFAIL {why}")
    | (none, none) => (d, "SPECFAIL erefs")
    | (none, some got) =>
      -- resolve a pending "old or new weight" of a panicked add_edge
      let g := match d.pend with
        | some (k, o, n) =>
          (match got.find? (fun e => e.1 == k) with
          | some (_, w) => if w == n && w != o then
              { d.g with edges := d.g.edges.map fun e => if e.1 == k then (k, n) else e } else d.g
          | none => d.g)
        | none => d.g
      -- row-major = sorted by the normalised key (an undirected pair is judged up to its orientation)
      let want := sortKW g.edges
      let spec := if got == want then none
        else if sortKW got == want then
          some s!"iteration order: edge_references = [{impl}] has the right edges but is not row-major"
        else some s!"edge_references = [{impl}] but the edges are {showTriples (want.map fun (k, w) => (k.1, k.2, w))}"
      ({ d with g := g, pend := none }, verdict spec ms impl)
  | _ => bad

end PetgraphModel.C04
