import PetgraphModel.Common
import PetgraphModel.Model.Matrix
import PetgraphModel.Spec.MatrixSimpleGraph
/-
C04 driver: runs the mirror model (`Matrix.State`) and the abstract simple graph
(`MatrixSpec.G`) side by side with the implementation's answers.

* exact part: the mirror model's answer must equal the implementation's, byte for byte
  (iteration orders, the id `add_node` hands out, `node_bound`, …) — otherwise `MODELDIFF`;
* spec part: the implementation's answer is judged against the simple graph, as *sets* wherever the
  property fixes no order, and only where the property determines the answer — otherwise `SPECFAIL`.

Calls whose endpoints are not live nodes are outside the property's quantifier.  The ones whose
answer follows from "a node that does not exist has no edges" (`has_edge`, `remove_edge`,
`neighbors`, `remove_node`, …) are judged; the edge-*writing* ones (`probe …` lines: the call
followed by `try_remove_edge` of the same pair, so nothing stays behind) are compared exactly only.
`edges_directed(_, Incoming)` is judged up to the orientation of the yielded pair (that orientation
is finding D6 of property C06, not C04's business).
-/
namespace PetgraphModel.C04
open PetgraphModel PetgraphModel.Matrix PetgraphModel.MatrixSpec

structure DState where
  m : Matrix.State := { dir := true, nz := false, ixMax := 65535 }
  g : G := G.empty true
  /-- a panicking `add_edge` on an existing edge: the property does not say which of the two
  weights the edge has afterwards; resolved by the next `erefs` line -/
  pend : Option ((Nat × Nat) × Int × Int) := none

/-! ### printing (must agree with `harness/src/c04.rs`) -/

def showOptInt : Option Int → String
  | none => "none"
  | some x => s!"some {x}"

def showFault : Fault → String
  | .oob => "FAULT-oob" | .debugAssert => "FAULT-debug-assert" | .underflow => "FAULT-underflow"

def showOut : Out → String
  | .unit => "ok"
  | .id n => toString n
  | .w x => toString x
  | .optW o => showOptInt o
  | .bool b => showBool b
  | .resOk o => "ok " ++ showOptInt o
  | .resIdOk n => s!"ok {n}"
  | .resErr .nodeIxLimit => "err NodeIxLimit"
  | .resErr (.nodeMissed i) => s!"err NodeMissed {i}"
  | .panic => "panic"
  | .fault f => showFault f

def showTriples (l : List (Nat × Nat × Int)) : String :=
  if l.isEmpty then "-" else String.intercalate "," (l.map fun (a, b, w) => s!"{a}:{b}:{w}")

def showPairs (l : List (Nat × Int)) : String :=
  if l.isEmpty then "-" else String.intercalate "," (l.map fun (a, w) => s!"{a}:{w}")

def showBits (l : List Bool) : String :=
  if l.isEmpty then "-" else String.ofList (l.map fun b => if b then '1' else '0')

def showOptCells (l : List (Option Int)) : String :=
  if l.isEmpty then "-" else String.intercalate "," (l.map fun | none => "_" | some x => toString x)

/-! ### parsing -/

def parseTriple (s : String) : Option (Nat × Nat × Int) :=
  match s.splitOn ":" with
  | [a, b, w] => match a.toNat?, b.toNat?, w.toInt? with
    | some a, some b, some w => some (a, b, w)
    | _, _, _ => none
  | _ => none

def parseTriples (s : String) : Option (List (Nat × Nat × Int)) :=
  if s == "-" then some [] else (s.splitOn ",").mapM parseTriple

def parsePair (s : String) : Option (Nat × Int) :=
  match s.splitOn ":" with
  | [a, w] => match a.toNat?, w.toInt? with
    | some a, some w => some (a, w)
    | _, _ => none
  | _ => none

def parsePairs (s : String) : Option (List (Nat × Int)) :=
  if s == "-" then some [] else (s.splitOn ",").mapM parsePair

def parseNatList (s : String) : Option (List Nat) :=
  if s == "-" then some [] else (s.splitOn ",").mapM (·.toNat?)

def parseBits (s : String) : Option (List Bool) :=
  if s == "-" then some [] else s.toList.mapM fun c => if c == '1' then some true else if c == '0' then some false else none

def parseOptCells (s : String) : Option (List (Option Int)) :=
  if s == "-" then some [] else (s.splitOn ",").mapM fun t => if t == "_" then some none else t.toInt?.map some

/-- `k=v` fields of a dump line -/
def field (fs : List String) (k : String) : Option String :=
  fs.findSome? fun f => if f.startsWith (k ++ "=") then some (f.drop (k.length + 1)).toString else none

/-! ### order-insensitive comparison -/

def sortNat (l : List Nat) : List Nat := l.mergeSort (fun a b => a ≤ b)
def leNI (a b : Nat × Int) : Bool := a.1 < b.1 || (a.1 == b.1 && a.2 ≤ b.2)
def sortNI (l : List (Nat × Int)) : List (Nat × Int) := l.mergeSort leNI
def leKW (a b : (Nat × Nat) × Int) : Bool :=
  a.1.1 < b.1.1 || (a.1.1 == b.1.1 && (a.1.2 < b.1.2 || (a.1.2 == b.1.2 && a.2 ≤ b.2)))
def sortKW (l : List ((Nat × Nat) × Int)) : List ((Nat × Nat) × Int) := l.mergeSort leKW

def expect (want impl : String) : Option String :=
  if want == impl then none else some s!"expected [{want}], implementation answered [{impl}]"

def verdict (spec : Option String) (model impl : String) : String :=
  match spec with
  | some why => s!"SPECFAIL {why}"
  | none => cmpExact model impl

def orElse (a b : Option String) : Option String := match a with | some x => some x | none => b

/-! ### spec-level judges of the observers -/

/-- `neighbors(a)`-like answer: the set of ids must be `want` (no repetitions: a simple graph) -/
def judgeIds (what : String) (impl : String) (want : List Nat) : Option String :=
  match parseNatList impl with
  | none => some s!"{what}: unreadable answer [{impl}]"
  | some l => if sortNat l == sortNat want then none
    else some s!"{what} = [{impl}] but the graph says {showNats (sortNat want)}"

/-- `edges(a)`-like answer: every item has source `a`; the set of (target, weight) must be `want`.
With `anyOrientation` an item may also be `(other, a, w)`. -/
def judgeEdgesOf (what : String) (a : Nat) (impl : String) (want : List (Nat × Int))
    (anyOrientation : Bool) : Option String :=
  match parseTriples impl with
  | none => some s!"{what}: unreadable answer [{impl}]"
  | some l =>
    let others : List (Option (Nat × Int)) := l.map fun (s, t, w) =>
      if s == a then some (t, w) else if anyOrientation && t == a then some (s, w) else none
    if others.any (·.isNone) then some s!"{what} = [{impl}] contains an edge whose source is not {a}"
    else
      let got := sortNI (others.filterMap id)
      if got == sortNI want then none
      else some s!"{what} = [{impl}] but the graph says {showPairs (sortNI want)}"

def judgeEdgeRefs (d : DState) (impl : String) : Option String × Option (List ((Nat × Nat) × Int)) :=
  match parseTriples impl with
  | none => (some s!"edge_references: unreadable answer [{impl}]", none)
  | some l =>
    let got := sortKW (l.map fun (s, t, w) => (key d.g.directed s t, w))
    (none, some got)

/-! ### the step function -/

def natArg (s : String) : Nat := s.toNat?.getD 0
def intArg (s : String) : Int := s.toInt?.getD 0

def ixMaxOf (w : String) : Nat := if w == "w=8" then 255 else 65535

/-- run one mirror-model operation -/
def runOp (d : DState) (op : Op) : DState × String :=
  let (m', o) := Matrix.step d.m op
  ({ d with m := m' }, showOut o)

def bothLive (d : DState) (a b : Nat) : Bool := d.g.live a && d.g.live b

def zeroRejected (d : DState) (w : Int) : Bool := d.m.nz && w == 0

/-- spec effect + expected answer of `extend_with_edges` on a graph without vacancies -/
def specExtend (nz : Bool) : G → List (Nat × Nat × Int) → G × String × Option ((Nat × Nat) × Int × Int)
  | g, [] => (g, "ok", none)
  | g, (a, b, w) :: rest =>
    let nx := max a b
    let n := g.nodeCount
    let g1 := (List.range (nx + 1 - n)).foldl (fun g i => g.addNode (n + i) 0) g
    if nz && w == 0 then (g1, "panic", none)
    else match g1.weight a b with
      | some old => (g1, "panic", some (key g1.directed a b, old, w))
      | none => specExtend nz (g1.setEdge a b w) rest

def contiguous (g : G) : Bool := sortNat g.ids == List.range g.nodeCount

def edgeOpOf (f : String) (a b : Nat) (w : Int) : Option Op :=
  match f with
  | "add_edge" => some (.addEdge a b w)
  | "update_edge" => some (.updateEdge a b w)
  | "try_update_edge" => some (.tryUpdateEdge a b w)
  | "add_or_update_edge" => some (.addOrUpdateEdge a b w)
  | "build_add_edge" => some (.buildAddEdge a b w)
  | "build_update_edge" => some (.buildUpdateEdge a b w)
  | "edge_weight_mut" => some (.setEdgeWeight a b w)
  | _ => none

/-- one `row a` line of a dump: every per-node observer of `a` -/
def rowStep (d : DState) (x : String) (impl : String) : DState × String :=
    let a := natArg x
    let m := d.m
    let liveM := m.nodes.ids
    let base := s!"nb={showNats (neighborsOut m a)} ed={showTriples (edgesOut m a)}"
    let dirPart := if m.dir then
        s!" nbo={showNats (neighborsOut m a)} nbi={showNats (neighborsIn m a)} edo={showTriples (edgesOut m a)} edi={showTriples (edgesIn m a)}"
      else ""
    let ms := base ++ dirPart ++
      s!" he={showBits (liveM.map fun x => hasEdge m a x)} hr={showBits (liveM.map fun x => hasEdge m x a)} gw={showOptCells (liveM.map fun x => getEdgeWeight m a x)}"
    let fs := splitWords impl
    let liveS := sortNat d.g.ids
    let sc := d.g.succ a
    let pr := d.g.pred a
    let get (k : String) : String := (field fs k).getD "?"
    let spec :=
      orElse (judgeIds s!"neighbors({a})" (get "nb") (sc.map (·.1))) <|
      orElse (judgeEdgesOf s!"edges({a})" a (get "ed") sc false) <|
      orElse (if m.dir then
        orElse (judgeIds s!"neighbors_directed({a},Outgoing)" (get "nbo") (sc.map (·.1))) <|
        orElse (judgeIds s!"neighbors_directed({a},Incoming)" (get "nbi") (pr.map (·.1))) <|
        orElse (judgeEdgesOf s!"edges_directed({a},Outgoing)" a (get "edo") sc false)
               (judgeEdgesOf s!"edges_directed({a},Incoming)" a (get "edi") pr true)
        else none) <|
      orElse (match parseBits (get "he") with
        | some bits => if bits == liveS.map (fun x => d.g.hasEdge a x) then none
            else some s!"has_edge({a}, ·) over the live nodes = {get "he"} but the graph says {showBits (liveS.map fun x => d.g.hasEdge a x)}"
        | none => some s!"row: unreadable he [{impl}]") <|
      orElse (match parseBits (get "hr") with
        | some bits => if bits == liveS.map (fun x => d.g.hasEdge x a) then none
            else some s!"has_edge(·, {a}) over the live nodes = {get "hr"} but the graph says {showBits (liveS.map fun x => d.g.hasEdge x a)}"
        | none => some s!"row: unreadable hr [{impl}]")
        (match parseOptCells (get "gw") with
        | some ws => if ws == liveS.map (fun x => d.g.weight a x) then none
            else some s!"get_edge_weight({a}, ·) over the live nodes = {get "gw"} but the graph says {showOptCells (liveS.map fun x => d.g.weight a x)}"
        | none => some s!"row: unreadable gw [{impl}]")
    (d, verdict spec ms impl)

def step (d : DState) (req : List String) (impl : String) : DState × String :=
  let bad : DState × String := (d, s!"SPECFAIL bad request {req}")
  match req with
  | ["case", k, dir, null, w] =>
    let isDir := dir == "dir"
    ({ m := { dir := isDir, nz := null == "nz", ixMax := ixMaxOf w }, g := G.empty isDir }, s!"case {k}")
  | ["row", x] => rowStep d x impl
  | ["new", ctor] =>
    if ctor == "default" || ctor == "new" || ctor == "new_undirected" then
      match withCapacity d.m.dir d.m.nz d.m.ixMax 0 with
      | .ok m => ({ d with m := m, g := G.empty d.m.dir, pend := none }, verdict (expect "ok" impl) "ok" impl)
      | .error e => (d, verdict (expect "ok" impl) (showFault e) impl)
    else bad
  | ["new", "with_capacity", k] =>
    match withCapacity d.m.dir d.m.nz d.m.ixMax (natArg k) with
    | .ok m => ({ d with m := m, g := G.empty d.m.dir, pend := none }, verdict (expect "ok" impl) "ok" impl)
    | .error e => (d, verdict (expect "ok" impl) (showFault e) impl)
  | [f, l] =>
    if f == "from_edges" || f == "extend_with_edges" then
      match parseTriples l with
      | none => bad
      | some es =>
        let d0 : DState := if f == "from_edges" then
            match withCapacity d.m.dir d.m.nz d.m.ixMax 0 with
            | .ok m => { d with m := m, g := G.empty d.m.dir, pend := none }
            | .error _ => d
          else d
        if !(contiguous d0.g) then (d0, "SPECFAIL harness: extend_with_edges on a graph with vacancies")
        else
          let (m', o) := extendWithEdges d0.m es
          let (g', want, pend) := specExtend d0.m.nz d0.g es
          ({ d0 with m := m', g := g', pend := pend }, verdict (expect want impl) (showOut o) impl)
    else
    let a := natArg l
    match f with
    | "add_node" | "try_add_node" =>
      let isTry := f == "try_add_node"
      let (d', ms) := runOp d (if isTry then .tryAddNode (intArg l) else .addNode (intArg l))
      if d.g.nodeCount ≥ d.m.ixMax then
        (d', verdict (expect (if isTry then "err NodeIxLimit" else "panic") impl) ms impl)
      else
        let idStr := if isTry then (if impl.startsWith "ok " then (impl.drop 3).toString else "?") else impl
        match idStr.toNat? with
        | none => (d', s!"SPECFAIL {f} below the index limit answered [{impl}]")
        | some id =>
          if d.g.live id then (d', s!"SPECFAIL {f} returned id {id}, which is a live node")
          else ({ d' with g := d.g.addNode id (intArg l) }, verdict none ms impl)
    | "remove_node" =>
      let (d', ms) := runOp d (.removeNode a)
      match d.g.nodeWeight a with
      | some w => ({ d' with g := d.g.removeNode a }, verdict (expect (toString w) impl) ms impl)
      | none => (d', verdict (expect "panic" impl) ms impl)
    | "node_weight" =>
      let ms := match d.m.nodes.get a with | some w => toString w | none => "panic"
      let want := match d.g.nodeWeight a with | some w => toString w | none => "panic"
      (d, verdict (expect want impl) ms impl)
    | "get_node_weight" =>
      (d, verdict (expect (showOptInt (d.g.nodeWeight a)) impl) (showOptInt (d.m.nodes.get a)) impl)
    | "neighbors" =>
      (d, verdict (judgeIds s!"neighbors({a})" impl ((d.g.succ a).map (·.1))) (showNats (neighborsOut d.m a)) impl)
    | "edges" =>
      (d, verdict (judgeEdgesOf s!"edges({a})" a impl (d.g.succ a) false) (showTriples (edgesOut d.m a)) impl)
    | _ => bad
  | [f, x, y] =>
    let a := natArg x
    match f with
    | "node_weight_mut" =>
      let w := intArg y
      let (d', ms) := runOp d (.setNodeWeight a w)
      if d.g.live a then ({ d' with g := d.g.setNodeWeight a w }, verdict (expect "ok" impl) ms impl)
      else (d', verdict (expect "panic" impl) ms impl)
    | "neighbors_directed" =>
      if y == "out" then
        (d, verdict (judgeIds s!"neighbors_directed({a},Outgoing)" impl ((d.g.succ a).map (·.1))) (showNats (neighborsOut d.m a)) impl)
      else
        (d, verdict (judgeIds s!"neighbors_directed({a},Incoming)" impl ((d.g.pred a).map (·.1))) (showNats (neighborsIn d.m a)) impl)
    | "edges_directed" =>
      if y == "out" then
        (d, verdict (judgeEdgesOf s!"edges_directed({a},Outgoing)" a impl (d.g.succ a) false) (showTriples (edgesOut d.m a)) impl)
      else
        (d, verdict (judgeEdgesOf s!"edges_directed({a},Incoming)" a impl (d.g.pred a) true) (showTriples (edgesIn d.m a)) impl)
    | _ =>
    let b := natArg y
    match f with
    | "has_edge" | "is_adjacent" =>
      (d, verdict (expect (showBool (d.g.hasEdge a b)) impl) (showBool (hasEdge d.m a b)) impl)
    | "get_edge_weight" =>
      (d, verdict (expect (showOptInt (d.g.weight a b)) impl) (showOptInt (getEdgeWeight d.m a b)) impl)
    | "edge_weight" =>
      let ms := match edgeWeight d.m a b with
        | .ok (some w) => toString w | .ok none => "panic" | .error e => showFault e
      let want := match d.g.weight a b with | some w => toString w | none => "panic"
      (d, verdict (expect want impl) ms impl)
    | "remove_edge" =>
      let (d', ms) := runOp d (.removeEdge a b)
      (match d.g.weight a b with
      | some w => ({ d' with g := d.g.removeEdge a b }, verdict (expect (toString w) impl) ms impl)
      | none => (d', verdict (expect "panic" impl) ms impl))
    | "try_remove_edge" =>
      let (d', ms) := runOp d (.tryRemoveEdge a b)
      (match d.g.weight a b with
      | some w => ({ d' with g := d.g.removeEdge a b }, verdict (expect s!"some {w}" impl) ms impl)
      | none => (d', verdict (expect "none" impl) ms impl))
    | _ => bad
  | [f, x, y, z] =>
    let a := natArg x
    let b := natArg y
    let w := intArg z
    match edgeOpOf f a b w with
    | none => bad
    | some op =>
      let (d', ms) := runOp d op
      if f == "edge_weight_mut" then
        match d.g.weight a b with
        | some _ =>
          if zeroRejected d w then (d', "SPECFAIL harness: zero written through edge_weight_mut of a NotZero graph")
          else ({ d' with g := d.g.setEdge a b w }, verdict (expect "ok" impl) ms impl)
        | none => (d', verdict (expect "panic" impl) ms impl)
      else if !(bothLive d a b) then (d', s!"SPECFAIL harness: {f} with an endpoint that is not a live node")
      else
        let old := d.g.weight a b
        let g' := d.g.setEdge a b w
        match f with
        | "add_edge" =>
          if zeroRejected d w then (d', verdict (expect "panic" impl) ms impl)
          else (match old with
            | some o => ({ d' with pend := some (key d.g.directed a b, o, w) }, verdict (expect "panic" impl) ms impl)
            | none => ({ d' with g := g' }, verdict (expect "ok" impl) ms impl))
        | "update_edge" =>
          if zeroRejected d w then (d', verdict (expect "panic" impl) ms impl)
          else ({ d' with g := g' }, verdict (expect (showOptInt old) impl) ms impl)
        | "try_update_edge" | "add_or_update_edge" =>
          if zeroRejected d w then (d', verdict (expect "panic" impl) ms impl)
          else ({ d' with g := g' }, verdict (expect ("ok " ++ showOptInt old) impl) ms impl)
        | "build_add_edge" =>
          if old.isSome then (d', verdict (expect "false" impl) ms impl)
          else if zeroRejected d w then (d', verdict (expect "panic" impl) ms impl)
          else ({ d' with g := g' }, verdict (expect "true" impl) ms impl)
        | "build_update_edge" =>
          if zeroRejected d w then (d', verdict (expect "panic" impl) ms impl)
          else ({ d' with g := g' }, verdict (expect "ok" impl) ms impl)
        | _ => bad
  | ["probe", f, x, y, z] =>
    -- an edge-writing call with an endpoint that is not a live node, undone by `try_remove_edge`;
    -- outside the property's quantifier: exact comparison only
    let a := natArg x
    let b := natArg y
    match edgeOpOf f a b (intArg z) with
    | none => bad
    | some op =>
      if bothLive d a b then (d, "SPECFAIL harness: probe between live nodes")
      else
        let (d1, s1) := runOp d op
        let (d2, s2) := runOp d1 (.tryRemoveEdge a b)
        (d2, cmpExact (s1 ++ " / " ++ s2) impl)
  | ["abort"] => (d, "SPECFAIL an observer or a call that must not panic panicked; the case was abandoned")
  | ["clear"] =>
    let (d', ms) := runOp d .clear
    ({ d' with g := d.g.clear, pend := none }, verdict (expect "ok" impl) ms impl)
  | ["node_count"] =>
    (d, verdict (expect (toString d.g.nodeCount) impl) (toString d.m.nodes.len) impl)
  | ["edge_count"] =>
    (d, verdict (expect (toString d.g.edgeCount) impl) (toString d.m.nbEdges) impl)
  | ["counts"] =>
    let ms := s!"n={d.m.nodes.len} e={d.m.nbEdges} b={d.m.nodes.upperBound}"
    let fs := splitWords impl
    let spec :=
      match (field fs "n").bind (·.toNat?), (field fs "e").bind (·.toNat?), (field fs "b").bind (·.toNat?) with
      | some n, some e, some b =>
        if n != d.g.nodeCount then some s!"node_count = {n} but the graph has {d.g.nodeCount} nodes"
        else if e != d.g.edgeCount then some s!"edge_count = {e} but the graph has {d.g.edgeCount} edges"
        else if d.g.ids.any (· ≥ b) then some s!"node_bound = {b} does not exceed every live id {showNats (sortNat d.g.ids)}"
        else none
      | _, _, _ => some s!"counts: unreadable answer [{impl}]"
    (d, verdict spec ms impl)
  | ["nodes"] =>
    let refs := nodeRefs d.m
    let ms := s!"ids={showNats d.m.nodes.ids} refs={showPairs refs}"
    let fs := splitWords impl
    let spec :=
      match (field fs "ids").bind parseNatList, (field fs "refs").bind parsePairs with
      | some ids, some rf =>
        if sortNat ids != sortNat d.g.ids then
          some s!"node_identifiers = {showNats ids} but the live nodes are {showNats (sortNat d.g.ids)}"
        else if sortNI rf != sortNI d.g.nodes then
          some s!"node_references = {showPairs rf} but the nodes are {showPairs (sortNI d.g.nodes)}"
        else none
      | _, _ => some s!"nodes: unreadable answer [{impl}]"
    (d, verdict spec ms impl)
  | ["erefs"] =>
    let ms := showTriples (edgeRefs d.m)
    match judgeEdgeRefs d impl with
    | (some why, _) => (d, s!"SPECFAIL {why}")
    | (none, none) => (d, "SPECFAIL erefs")
    | (none, some got) =>
      -- resolve a pending "old or new weight" of a panicked add_edge
      let g := match d.pend with
        | some (k, o, n) =>
          (match got.find? (fun e => e.1 == k) with
          | some (_, w) => if w == n && w != o then
              { d.g with edges := d.g.edges.map fun e => if e.1 == k then (k, n) else e } else d.g
          | none => d.g)
        | none => d.g
      let want := sortKW g.edges
      let spec := if got == want then none
        else some s!"edge_references = [{impl}] but the edges are {showTriples (want.map fun (k, w) => (k.1, k.2, w))}"
      ({ d with g := g, pend := none }, verdict spec ms impl)
  | _ => bad

end PetgraphModel.C04
