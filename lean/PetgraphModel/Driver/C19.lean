import PetgraphModel.Common
import PetgraphModel.Model.UnionFind
import PetgraphModel.Spec.Partition
import PetgraphModel.Spec.C19Scope
import PetgraphModel.Spec.C19Slots
/-
C19 driver: runs the mirror model (`UF`) and the abstract partition (`QF`) side by side with the
implementation's answers.  Spec-level rules are exactly the clauses of the property statement.

Scope: the property theorems quantify over histories within the capacity of the index type
(`Fits`; `u8`: 256 elements).  Before every call that grows the structure (`new`, `new_set`, `grow`)
the driver evaluates the Boolean form of that hypothesis (`C19Scope.newFitsB/stepFitsB/growFitsB`,
sound by `C19_*_check`) and the element-count bound of the `u8` rank theorem (`rankWidthB`); a case
that leaves the range is a generator error, answered `SPECFAIL generator left the proved range`.

Wave 6 (corners of the public surface): the harness keeps TWO structures, the current one `a` and a
second one `b` (`Spec/C19Slots.lean`: `newb n`, `clone`, `clone_from`, `swap`); every other request goes
to `a` (`stepSlot`).  `is_empty`, the `parent` vector read through `Debug` (`parents`, mirror only), the
`law …` lines (laws the harness checks against the implementation itself, using only what the property
determines — `clone_from` ≡ `clone`, `Default` ≡ `new_empty` ≡ `with_capacity` ≡ `new(0)`, `Debug` never
panics, a capacity call changes neither `len` nor `is_empty`, …; the driver expects `ok`, SPECFAIL
otherwise) are judged here too.  Documented contracts that are NOT part of the property statement — the
error / panic answers of the capacity calls for an impossible request (`cap 7..10`) and the bounds of
`capacity()` (`doc capacity …` lines) — are compared at mirror level only (MODELDIFF).
Nothing in this driver depends on the build profile: within the checked scope no arithmetic of
`unionfind.rs` overflows (`C19_rank_u8`) and no `debug_assert!` can fire (`C19_no_fault`), so the debug and
the release harness must give the same answers.
-/
namespace PetgraphModel.C19
open PetgraphModel PetgraphModel.UF PetgraphModel.PartitionSpec PetgraphModel.C19Scope
open PetgraphModel.C19Slots

structure DState where
  uf : UF.State := UF.new 0 0
  qf : QF := QF.new 0
  lastDump : Option (List Nat) := none
  /-- classes (labels after the op) whose representative may legitimately have changed since `lastDump` -/
  touched : List Nat := []

def showOut : UF.Out → String
  | .ix n => toString n
  | .optIx none => "none"
  | .optIx (some n) => s!"some {n}"
  | .bool b => showBool b
  | .res (.ok b) => s!"ok {showBool b}"
  | .res (.error x) => s!"err {x}"
  | .list l => showNats l
  | .unit => "ok"
  | .panic => "panic"
  | .fault .oob => "FAULT-oob"
  | .fault .fuel => "FAULT-fuel"

def inRange (d : DState) (x : Nat) : Bool := x < d.qf.len

/-- is `r` an acceptable representative answer for in-range `x`? (sound by `C19_repOk_sound`) -/
def repOk (d : DState) (x : Nat) (r : String) : Option String :=
  match r.toNat? with
  | none => some s!"representative expected, got [{r}]"
  | some rn =>
    if !(d.qf.same x rn) then some s!"find({x}) = {rn} is not in the class of {x}"
    else match d.lastDump with
      | some reps =>
        match d.qf.cls[x]? with
        | some c =>
          if d.touched.contains c then none
          else if reps[x]? == some rn then none
          else some s!"find({x}) = {rn} but the class's fixed representative was {showOptNat reps[x]?}"
        | none => none
      | none => none

/-- the per-element test of `dumpOk`: is the representative of `x` in `reps` unacceptable? -/
def dumpBad (d : DState) (reps : List Nat) (x : Nat) : Bool :=
  match reps[x]?, d.qf.cls[x]? with
  | some r, some c =>
    !(d.qf.same x r) || (reps[c]? != some r) ||
    (match d.lastDump with
      | some old => !(d.touched.contains c) && x < old.length && old[x]? != some r
      | none => false)
  | _, _ => true

/-- spec-level check of a dump (the representative of every element); sound by `C19_dumpOk_sound` -/
def dumpOk (d : DState) (reps : List Nat) : Option String :=
  if reps.length ≠ d.qf.len then some s!"dump has {reps.length} entries, len is {d.qf.len}"
  else
    match (List.range reps.length).find? (dumpBad d reps) with
    | some x => some s!"representatives inconsistent at element {x}: reps={showNats reps} classes={showNats d.qf.cls}"
    | none => none

def verdict (spec : Option String) (model impl : String) : String :=
  match spec with
  | some why => s!"SPECFAIL {why}"
  | none => cmpExact model impl

def expect (want impl : String) : Option String :=
  if want == impl then none else some s!"expected [{want}], implementation answered [{impl}]"

/-- the scope check of a growing call: `fits` is the capacity hypothesis evaluated on the state BEFORE
the call, `s'` the model state after it -/
def scopeCheck (fits : Bool) (s s' : UF.State) (what : String) : Option String :=
  if !fits then
    some s!"generator left the proved range: {what} beyond the capacity of the index type (len {s.len}, modulus {s.modulus})"
  else if !(rankWidthB s') then
    some s!"generator left the proved range: {s'.len} elements, the u8 rank bound is proved below 2^256"
  else none

def modulusOf (w : String) : Nat :=
  match w with
  | "w=8" => 256 | "w=16" => 65536 | "w=32" => 4294967296 | _ => 0

/-- the answer the documentation prescribes for the capacity call `cap k` of the harness:
`0..6` reserve / reserve_exact / try_reserve / try_reserve_exact (small requests), shrink_to_fit, shrink_to,
capacity; `7`/`8` try_reserve(_exact)(usize::MAX): "If the capacity overflows … an error is returned";
`9`/`10` reserve(_exact)(usize::MAX): "Panics if the new capacity exceeds isize::MAX bytes";
`11` shrink_to(usize::MAX): "If the current capacity is less than the lower limit, this is a no-op" -/
def capWant (k : Nat) : String :=
  if k == 7 || k == 8 then "err" else if k == 9 || k == 10 then "panic" else "ok"

/-- one request on the CURRENT structure -/
def stepSlot (d : DState) (req : List String) (impl : String) : DState × String :=
  let runOp (op : UF.Op) : DState × String :=
    let (uf', o) := UF.step d.uf op
    ({ d with uf := uf' }, showOut o)
  match req with
  | "law" :: name :: _ =>
    -- a law the harness checked against the implementation itself
    (d, if impl == "ok" then "ok" else s!"SPECFAIL law {name} does not hold: {impl}")
  | "doc" :: _ :: _ =>
    -- a documented contract outside the property statement (bounds of `capacity()`): mirror level
    (d, cmpExact "ok" impl)
  | ["new", n] =>
    let n := n.toNat?.getD 0
    let uf' := UF.new d.uf.modulus n
    let spec := (scopeCheck (newFitsB d.uf.modulus n) uf' uf' s!"new({n})").orElse fun _ => expect "ok" impl
    ({ d with uf := uf', qf := QF.new n, lastDump := none, touched := [] }, verdict spec "ok" impl)
  | ["new_set"] =>
    let (d', m) := runOp .newSet
    let spec := (scopeCheck (stepFitsB d.uf .newSet) d.uf d'.uf "new_set").orElse fun _ =>
      expect (toString d.qf.len) impl
    let q := d.qf.newSet
    ({ d' with qf := q, touched := (q.len - 1) :: d.touched }, verdict spec m impl)
  | ["grow", k] =>
    -- `k` times `new_set` (hub family), answered once
    let k := k.toNat?.getD 0
    let uf' := grow d.uf k
    let q := (List.range k).foldl (fun q _ => q.newSet) d.qf
    let spec := (scopeCheck (growFitsB d.uf k) d.uf uf' s!"grow {k}").orElse fun _ => expect "ok" impl
    ({ d with uf := uf', qf := q, lastDump := none, touched := [] }, verdict spec "ok" impl)
  | [f, x] =>
    let xn := x.toNat?.getD 0
    let mk : Option UF.Op := match f with
      | "find" => some (.find xn) | "try_find" => some (.tryFind xn)
      | "find_mut" => some (.findMut xn) | "try_find_mut" => some (.tryFindMut xn)
      | _ => none
    match mk with
    | none =>
      if f == "cap" then
        -- the model's capacity op is the identity; the answer is the documented one
        -- ("no observable effect": an ordinary request must answer `ok` — SPECFAIL otherwise; the error /
        -- panic of an impossible request is documented on the call but not part of the property
        -- statement — mirror only; the dump that follows every `cap` line judges the partition)
        let (d', _) := runOp .capacityOp
        let spec := if capWant xn == "ok" then expect "ok" impl else none
        (d', verdict spec (capWant xn) impl)
      else (d, s!"SPECFAIL bad request {req}")
    | some op =>
      let (d', m) := runOp op
      let isTry := f.startsWith "try_"
      let spec :=
        if inRange d xn then
          let r := if isTry then (if impl.startsWith "some " then (impl.drop 5).toString else "?" ++ impl) else impl
          repOk d xn r
        else expect (if isTry then "none" else "panic") impl
      (d', verdict spec m impl)
  | [f, x, y] =>
    let xn := x.toNat?.getD 0
    let yn := y.toNat?.getD 0
    let isTry := f.startsWith "try_"
    let firstBad : Option Nat := if !(inRange d xn) then some xn else if !(inRange d yn) then some yn else none
    match f with
    | "equiv" | "try_equiv" =>
      let (d', m) := runOp (if isTry then .tryEquiv xn yn else .equiv xn yn)
      let want := match firstBad with
        | some b => if isTry then s!"err {b}" else "panic"
        | none => (if isTry then "ok " else "") ++ showBool (d.qf.same xn yn)
      (d', verdict (expect want impl) m impl)
    | "union" | "try_union" =>
      let (d', m) := runOp (if isTry then .tryUnion xn yn else .union xn yn)
      if xn == yn then
        (d', verdict (expect ((if isTry then "ok " else "") ++ "false") impl) m impl)
      else match firstBad with
        | some b => (d', verdict (expect (if isTry then s!"err {b}" else "panic") impl) m impl)
        | none =>
          let merged := !(d.qf.same xn yn)
          let want := (if isTry then "ok " else "") ++ showBool merged
          let q := if merged then d.qf.union xn yn else d.qf
          let t := if merged then (q.cls[xn]?.getD 0) :: d.touched else d.touched
          ({ d' with qf := q, touched := t }, verdict (expect want impl) m impl)
    | _ => (d, s!"SPECFAIL bad request {req}")
  | ["len"] =>
    let (d', m) := runOp .len
    (d', verdict (expect (toString d.qf.len) impl) m impl)
  | ["is_empty"] =>
    (d, verdict (expect (showBool (d.qf.len == 0)) impl) (showBool (isEmptyM d.uf)) impl)
  | ["parents"] =>
    -- the `parent` vector as printed by the derived `Debug` (shows which links path halving rewrote):
    -- not determined by the property ("path compression never changes any answer"), mirror only
    (d, verdict none (showNats d.uf.parent) impl)
  | ["ranks"] =>
    -- the `rank` vector as printed by the derived `Debug`: not determined by the property, so it is
    -- compared exactly with the mirror model only (a difference is a MODELDIFF, never a SPECFAIL)
    (d, verdict none (showNats (ranks d.uf)) impl)
  | ["labeling"] =>
    let (d', m) := runOp .labeling
    -- a labeling is judged like a dump, except that it need not coincide with `find`'s choice
    let spec := if impl == "panic" then some "into_labeling panicked" else
      dumpOk { d with lastDump := none } (parseNats impl)
    (d', verdict spec m impl)
  | ["dump"] =>
    -- model: try_find of every element
    let m := showNats ((List.range d.uf.len).map fun x =>
      match UF.tryFind d.uf x with
      | .ok (some r) => r
      | _ => d.uf.len + 1000000)
    let reps := parseNats impl
    let spec := if impl == "panic" then some "find panicked on an in-range element" else dumpOk d reps
    ({ d with lastDump := some reps, touched := [] }, verdict spec m impl)
  | _ => (d, s!"SPECFAIL bad request {req}")

/-- driver state: the current structure `a` and the second one `b` -/
structure MState where
  a : DState := {}
  b : DState := {}

def step (m : MState) (req : List String) (impl : String) : MState × String :=
  let sl : Slots := { a := m.a.uf, b := m.b.uf }
  match req with
  | ["case", k, w] =>
    let z : DState := { uf := UF.new (modulusOf w) 0 }
    ({ a := z, b := z }, s!"case {k}")
  | ["newb", n] =>
    let n := n.toNat?.getD 0
    let r := sstep sl (.newB n)
    let spec := (scopeCheck (sFitsB sl (.newB n)) r.1.b r.1.b s!"new({n})").orElse fun _ => expect "ok" impl
    ({ m with b := { uf := r.1.b, qf := QF.new n } }, verdict spec (showOut r.2) impl)
  | ["clone"] =>
    -- `b = a.clone()`: an exact copy, representatives included
    let r := sstep sl .clone
    ({ m with b := { m.a with uf := r.1.b } }, verdict (expect "ok" impl) (showOut r.2) impl)
  | ["clone_from"] =>
    -- `b.clone_from(&a)`: whatever `b` was before, it is now an exact copy of `a`
    let r := sstep sl .cloneFrom
    ({ m with b := { m.a with uf := r.1.b } }, verdict (expect "ok" impl) (showOut r.2) impl)
  | ["swap"] =>
    let r := sstep sl .swap
    ({ a := { m.b with uf := r.1.a }, b := { m.a with uf := r.1.b } }, verdict (expect "ok" impl) (showOut r.2) impl)
  | _ =>
    let (a', v) := stepSlot m.a req impl
    ({ m with a := a' }, v)

end PetgraphModel.C19
