import PetgraphModel.Common
import PetgraphModel.GraphProto
import PetgraphModel.Oracle.Reach
import PetgraphModel.Oracle.C12Forest
import PetgraphModel.Oracle.C12W4
import PetgraphModel.Model.C12Mst
import PetgraphModel.Model.C12W4
import PetgraphModel.Model.C12W6
/-
C12 driver.  Requests (after a `graph …` line):

  kruskal <wt> fe=<k> er=<s:t:eid;…>     min_spanning_tree(g) collected
  prim <wt> fe=<k>                        min_spanning_tree_prim(g) collected

and, without a graph line, the direct differential test of the heap mirror:

  heap <kt> ops=<p<key>:<id>|o|c;…>       BinaryHeap<MinScored<kt, (usize, usize)>> script

Answer: `<stream>|<fe nodes>|<fe edges>` (or `panic`): the element stream as `N<weight>` /
`E<source>:<target>:<weight>` tokens, then the graph `from_elements` built from it (node weights in
index order; edges in index order as `<weight of source>:<weight of target>:<w>`).  Node weight =
abstract node id.

Exact part: the whole stream against the mirror models (`Model/C12Mst.lean`, heap order included),
and the collected graph against the `from_elements` models (`Model/C12W4.lean`: the C01 `Graph`
model / the C02 `StableGraph` model run on the implementation's stream).
Spec-level part (`Oracle/C12Forest.lean`): the clauses of the property statement against the
abstract graph.  Prim: on undirected graphs the property's clause (`judgePrimEdges`); on directed
storage — outside the property's domain — what the iterator provably does there: a greedy out-tree
of the nodes reachable from the first node (`Oracle/C12W4.lean`, `judgePrimDirected`).

`heap` answer: one token per call, `;`-separated: push `=<vec>`, pop `<key>:<id>=<vec>` or
`none=<vec>`, clear `c`; `<vec>` = the payload ids of the heap's internal vector (`.`-separated, `-`
if empty).  Keys are integers, `nan`, `inf`, `-inf`.  Exact part: the heap mirror, vector included;
spec-level part: the priority-queue specification `pqJudge`.

Wave 6: weights are integers or `nan` / `inf` / `-inf` (float encodings; `sw=` field of the graph
line), read as KEYS (`scoreKey`, NaN greatest: the order `MinScored` documents); `fe=` kinds `b`
(`Graph<_, _, Undirected, u8>`: the documented panic beyond 255 nodes is the expected answer) and `m`
(`GraphMap<_, _, Undirected>`); `law …` / `iterlaw …` lines (laws the harness checks against the
implementation itself: the driver expects `ok`); `mscmp <min|max> <kt> <a> <b>` lines (every
comparison operator of `MinScored` / `MaxScored` against the transcriptions of `cmp`); adaptor
encodings whose `edges(a)` reports entries with a source other than `a` (`inc=`) or repeats
self-loops are the open findings D23 (`UndirectedAdaptor`) / D6 (`Reversed(&MatrixGraph)`), classified
narrowly by `enc=`; anywhere else they are side-condition failures.

Side conditions (hypotheses of the model theorems) are evaluated on every case:
`SPECFAIL side condition <name> does not hold: …` = the encoding's trait impls do not describe one
well-formed graph; `SPECFAIL generator left the proved range: …` = the generated input is outside
the range the theorems cover (never fires on the unchanged tree).
-/
namespace PetgraphModel.C12
open PetgraphModel PetgraphModel.MST PetgraphModel.MstModel PetgraphModel.Oracle

structure DState where
  v : View := default
  ok : Bool := false
  /-- the view as `min_spanning_tree_prim` sees it (`primView`; = `v` unless `inc=` is present) -/
  pv : View := default
  enc : String := ""
  /-- some `edges(a)` entry has a source other than `a` -/
  incAny : Bool := false

/-- brute-force bound on the number of edges (minimality by enumeration of all edge subsets) -/
def bruteBound : Nat := 12

def nodupB : List Nat → Bool
  | [] => true
  | x :: xs => !xs.contains x && nodupB xs

def endsMatch (e : Edge) (a b : Nat) : Bool := (e.src == a && e.tgt == b) || (e.src == b && e.tgt == a)

/-- `MGraph.WellFormed`, executable -/
def wfB (g : MGraph) : Bool :=
  nodupB g.nodes && g.edges.all fun e => g.nodes.contains e.src && g.nodes.contains e.tgt

/-- `to_index` is below `node_bound` and injective on the nodes (`MstModel.KView`) -/
def kviewB (v : View) : Bool :=
  v.g.nodes.all (fun a => v.toIndex a < v.nb) && nodupB (v.g.nodes.map v.toIndex)

/-- `g.edges(a)` lists exactly the edges at `a`, with their weights (`MstModel.PView`; undirected) -/
def pviewB (v : View) : Bool :=
  (v.g.nodes.all fun a => (v.outOf a).all fun oe =>
    v.g.edges.any fun e => e.w == v.weight oe.2 && endsMatch e a oe.1) &&
  (v.g.edges.all fun e =>
    (v.outOf e.src).any (fun oe => oe.1 == e.tgt && v.weight oe.2 == e.w) &&
    (v.outOf e.tgt).any (fun oe => oe.1 == e.src && v.weight oe.2 == e.w))

/-- on directed storage `g.edges(a)` lists exactly the stored out-edges of `a`, with their weights
(`MstModel.DView`) -/
def dviewB (v : View) : Bool :=
  (v.g.nodes.all fun a => (v.outOf a).all fun oe =>
    v.g.edges.any fun e => e.w == v.weight oe.2 && e.src == a && e.tgt == oe.1) &&
  (v.g.edges.all fun e =>
    (v.outOf e.src).any fun oe => oe.1 == e.tgt && v.weight oe.2 == e.w)

/-- the tighter multiset checks by edge id -/
def viewIdsB (v : View) : Bool :=
  let g := v.g
  (g.edges.map (·.id)).eraseDups.length == g.edges.length &&
  g.nodes.all (fun a => sameSet (v.succ a) (g.succ a)) &&
  -- `g.edges(a)` lists every edge at `a` exactly once (by edge id)
  g.nodes.all (fun a => sameSet ((v.outOf a).map (·.2)) (g.edges.filterMap fun e =>
    if e.src == a || (!g.directed && e.tgt == a) then some e.id else none)) &&
  -- the edge ids of `out` rows name edges with those endpoints
  g.nodes.all (fun a => (v.outOf a).all fun oe =>
    match v.edge? oe.2 with
    | some e => (e.src == a && e.tgt == oe.1) || (!g.directed && e.tgt == a && e.src == oe.1)
    | none => false)

/-- the first side condition of the view that fails, by name -/
def viewFailure (v : View) : Option String :=
  if !wfB v.g then some "well_formed does not hold: the nodes are not distinct or an edge ends outside the nodes"
  else if !kviewB v then some "kview does not hold: to_index is not below node_bound or not injective on the nodes"
  else if !(v.g.directed || pviewB v) then some "pview does not hold: edges(a) of the undirected encoding is not the set of edges at a with their weights"
  else if !(!v.g.directed || dviewB v) then some "dview does not hold: edges(a) of the directed encoding is not the set of stored out-edges of a with their weights"
  else if !viewIdsB v then some "view_ids does not hold: edge ids are not distinct or the out rows do not list each incident edge once"
  else none

/-- the view is a well-formed description of the abstract graph (harness sanity, not petgraph).
The first four conjuncts are the hypotheses of the model theorems (`Proofs/C12Driver.lean` links
them); the rest are tighter multiset checks by edge id. -/
def viewOkB (v : View) : Bool :=
  let g := v.g
  wfB g && kviewB v && (g.directed || pviewB v) && (!g.directed || dviewB v) && viewIdsB v

/-- `er` describes the graph's edges with their weights (`MstModel.ErOk`) -/
def erOkPropB (v : View) (er : List (Nat × Nat × Nat)) : Bool :=
  (er.all fun x => v.g.edges.any fun e => e.w == v.weight x.2.2 && endsMatch e x.1 x.2.1) &&
  (v.g.edges.all fun e => er.any fun x => v.weight x.2.2 == e.w && endsMatch e x.1 x.2.1)

/-- `er` lists real edges with their stored endpoints, and every edge at least once -/
def erOkB (v : View) (er : List (Nat × Nat × Nat)) : Bool :=
  erOkPropB v er &&
  er.all (fun x => match v.edge? x.2.2 with
    | some e => (e.src == x.1 && e.tgt == x.2.1) || (!v.g.directed && e.tgt == x.1 && e.src == x.2.1)
    | none => false) &&
  v.g.edges.all fun e => er.any fun x => x.2.2 == e.id

def parseEr (s : String) : List (Nat × Nat × Nat) :=
  if s == "-" then [] else
  (s.splitOn ";").filterMap fun t =>
    match t.splitOn ":" with
    | [a, b, c] => match a.toNat?, b.toNat?, c.toNat? with
      | some a, some b, some c => some (a, b, c)
      | _, _, _ => none
    | _ => none

inductive Tok where
  | node (w : Nat)
  | edge (s t : Nat) (w : Int)
  | bad (s : String)

def parseTok (s : String) : Tok :=
  if s.startsWith "N" then
    match (s.drop 1).toString.toNat? with
    | some n => .node n
    | none => .bad s
  else if s.startsWith "E" then
    match (s.drop 1).toString.splitOn ":" with
    | [a, b, w] => match a.toNat?, b.toNat?, parseScore w with
      | some a, some b, some w => if scoreInRangeB w then .edge a b (scoreKey w) else .bad s
      | _, _, _ => .bad s
    | _ => .bad s
  else .bad s

/-- split a stream into its node part and its edge part; `none` if a node element follows an edge
element or a token is malformed -/
def splitStream : List Tok → Option (List Nat × List EdgeEl)
  | [] => some ([], [])
  | .node w :: rest => match splitStream rest with
    | some (ns, es) => some (w :: ns, es)
    | none => none
  | .edge s t w :: rest =>
    if rest.all (fun t => match t with | .edge .. => true | _ => false) then
      some ([], ⟨s, t, w⟩ :: rest.filterMap fun t => match t with | .edge a b w => some ⟨a, b, w⟩ | _ => none)
    else none
  | .bad _ :: _ => none

/-- keys back to the protocol's weights -/
def showKey (k : Int) : String :=
  if k == bigKey + 1 then "nan" else if k == bigKey then "inf" else if k == -bigKey then "-inf" else toString k

def showEl (e : EdgeEl) : String := s!"E{e.s}:{e.t}:{showKey e.w}"

def showRes : Res → String
  | .ok ns es =>
    let toks := ns.map (fun n => s!"N{n}") ++ es.map showEl
    if toks.isEmpty then "-" else String.intercalate "," toks
  | .panic => "panic"
  | .fault => "FAULT"

/-- edge elements in abstract ids (positions looked up in the node part) -/
def absEdges (ns : List Nat) : List EdgeEl → Option (List (Nat × Nat × Int))
  | [] => some []
  | e :: es =>
    match ns[e.s]?, ns[e.t]?, absEdges ns es with
    | some a, some b, some r => some ((a, b, e.w) :: r)
    | _, _, _ => none

def showTriples (l : List (Nat × Nat × Int)) : String :=
  if l.isEmpty then "-" else String.intercalate ";" (l.map fun e => s!"{e.1}:{e.2.1}:{showKey e.2.2}")

def parseTriples (s : String) : Option (List (Nat × Nat × Int)) :=
  if s == "-" then some [] else
  (s.splitOn ";").mapM fun t =>
    match t.splitOn ":" with
    | [a, b, w] => match a.toNat?, b.toNat?, parseScore w with
      | some a, some b, some w => some (a, b, scoreKey w)
      | _, _, _ => none
    | _ => none

def normTriple (e : Nat × Nat × Int) : Nat × Nat × Int := if e.1 ≤ e.2.1 then e else (e.2.1, e.1, e.2.2)

/-- the graph built by `from_elements` must be the stream: same node weights in order, the edges in
order with the weights of the nodes at the given positions.  Kind `b` (`u8` indices): beyond 255
nodes or edges the documented panic of `add_node` / `add_edge` is the expected answer.  Kind `m`
(`GraphMap`, undirected): the edges as a multiset of unordered pairs (`all_edges` is documented to
list them in arbitrary order). -/
def feOk (kind : String) (ns : List Nat) (S : List (Nat × Nat × Int)) (feN feE : String) : Option String :=
  if kind == "b" && (ns.length > 255 || S.length > 255) then
    (if feN == "panic" then none
     else some s!"from_elements into Graph<_, _, _, u8> accepted {ns.length} nodes and {S.length} edges (at most 255 fit)") else
  if feN == "panic" then some "from_elements panicked on the stream" else
  if parseNats feN != ns then some s!"from_elements node weights {feN}, stream has {showNats ns}" else
  let want := showTriples S
  if kind == "m" then
    match parseTriples feE with
    | none => some s!"from_elements edges {feE} are malformed"
    | some got =>
      if (got.map normTriple).isPerm (S.map normTriple) then none
      else some s!"from_elements edges {feE}, stream has {want} (as unordered pairs, any order)"
  else
  if feE != want then some s!"from_elements edges {feE}, stream has {want}" else none

/-- spec-level verdict on a stream; `prim` selects Prim's clause -/
def judgeStreamK (kind : String) (g : MGraph) (prim : Bool) (ns : List Nat) (es : List EdgeEl) (feN feE : String) : Option String :=
  if ns != g.nodes then
    some s!"node elements {showNats ns}, the graph's nodes in order are {showNats g.nodes}" else
  match absEdges ns es with
  | none => some "an edge element refers to a position beyond the node elements"
  | some S =>
    match feOk kind ns S feN feE with
    | some why => some why
    | none =>
      if prim then
        if g.directed then judgePrimDirected g.nodes g.edges S else judgePrimEdges g.nodes g.edges bruteBound S
      else judgeForest g.nodes g.edges bruteBound S

/-- the judge for the collecting kinds of waves 1-4 (`g`, `s`, `d`) -/
def judgeStream (g : MGraph) (prim : Bool) (ns : List Nat) (es : List EdgeEl) (feN feE : String) : Option String :=
  judgeStreamK "g" g prim ns es feN feE

def verdict (spec : Option String) (model impl : String) : String :=
  match spec with
  | some why => s!"SPECFAIL {why}"
  | none => cmpExact model impl

def showFE : FERes → String
  | .ok ns es =>
    s!"{showNats ns}|{showTriples es}"
  | .panic => "panic|panic"
  | .fault => "FAULT|FAULT"

/-- the encodings in which finding D23 shows (`UndirectedAdaptor` over a base whose `edges_directed(_, Incoming)`
reports the stored orientation) -/
def d23Enc (enc : String) : Bool := enc == "und-graph" || enc == "und-stable" || enc == "und-map"

/-- the model of the collected graph, by kind -/
def collectK (kind : String) (ns : List Nat) (es : List EdgeEl) : FERes :=
  if kind == "b" then collectGraph 255 false ns es
  else if kind == "m" then (match mapEdges ns es with | some l => .ok ns l | none => .panic)
  else collect kind ns es

/-- is the stream what directed storage would give (D23: `UndirectedAdaptor::edges` reports incoming
edges with their stored orientation, so Prim follows out-edges only)? -/
def primAsDirected (g : MGraph) (ns : List Nat) (es : List EdgeEl) : Bool :=
  match absEdges ns es with
  | some S => (judgePrimDirected g.nodes g.edges S).isNone
  | none => false

def answer (d : DState) (prim : Bool) (kind : String) (model : Res) (impl : String) : String :=
  if impl == "panic" then
    (match model with
      | .panic => "SPECFAIL the iterator panicked (the mirror model panics too)"
      | _ => "SPECFAIL the iterator panicked")
  else
  match impl.splitOn "|" with
  | [st, feN, feE] =>
    let toks := if st == "-" then [] else (st.splitOn ",").map parseTok
    match splitStream toks with
    | none => s!"SPECFAIL the stream is not node elements followed by edge elements (weights: integers below 10^30 in size, nan, inf, -inf): {st}"
    | some (ns, es) =>
      match judgeStreamK kind d.v.g prim ns es feN feE with
      | some why =>
        -- open findings, classified narrowly: Prim only, the adaptor encodings only, and only the
        -- recorded wrong behaviour (the stream is exactly what out-edges-only Prim gives)
        if prim && d.incAny && d23Enc d.enc
            && primAsDirected d.v.g ns es && showRes model == st then
          s!"KNOWN D23 min_spanning_tree_prim over UndirectedAdaptor follows out-edges only (edges(a) reports incoming edges with source != a): {why}"
        else if prim && d.incAny && d.enc == "rev-matrix" && showRes model == st then
          s!"KNOWN D6 min_spanning_tree_prim over Reversed(&MatrixGraph) sees edges(a) with target a: {why}"
        else s!"SPECFAIL {why}"
      | none =>
        -- hypothesis of the `from_elements` theorems (the positions were judged above)
        if !feFitsB u32max ns es then
          s!"SPECFAIL generator left the proved range: a stream of {ns.length} node and {es.length} edge elements does not fit the index type"
        else
          -- exact part: the stream against the MST mirror, the collected graph against the
          -- `from_elements` model run on the implementation's own stream
          cmpExact s!"{showRes model}|{showFE (collectK kind ns es)}" impl
  | _ => s!"SPECFAIL malformed answer {impl}"

/-! ### heap scripts -/

def parseKey (s : String) : Option SP.Score :=
  if s == "nan" then some .nan
  else if s == "inf" then some .pinf
  else if s == "-inf" then some .ninf
  else s.toInt?.map .fin

def parseLay (s : String) : List Nat :=
  if s == "-" then [] else (s.splitOn ".").filterMap (·.toNat?)

def showLay (l : List Nat) : String :=
  if l.isEmpty then "-" else String.intercalate "." (l.map toString)

/-- `p<key>:<id>` / `o` / `c`; `none` = malformed, `some (Sum.inl k)` = key outside the proved range -/
def parseHOp (s : String) : Option (SP.Score ⊕ HOp) :=
  if s == "o" then some (.inr .pop)
  else if s == "c" then some (.inr .clear)
  else if s.startsWith "p" then
    match (s.drop 1).toString.splitOn ":" with
    | [k, i] => match parseKey k, i.toNat? with
      | some k, some i => if scoreInRangeB k then some (.inr (.push ⟨scoreKey k, i, 0⟩)) else some (.inl k)
      | _, _ => none
    | _ => none
  else none

def parseHAns (s : String) : HAns :=
  if s == "c" then .cleared
  else match s.splitOn "=" with
    | ["", lay] => .pushed (parseLay lay)
    | ["none", lay] => .popped none (parseLay lay)
    | [it, lay] => match it.splitOn ":" with
      | [k, i] => match parseKey k, i.toNat? with
        | some k, some i => if scoreInRangeB k then .popped (some ⟨scoreKey k, i, 0⟩) (parseLay lay) else .bad s
        | _, _ => .bad s
      | _ => .bad s
    | _ => .bad s

def showHAns : HAns → String
  | .pushed lay => s!"={showLay lay}"
  | .popped none lay => s!"none={showLay lay}"
  | .popped (some x) lay => s!"{showKey x.w}:{x.a}={showLay lay}"
  | .cleared => "c"
  | .bad s => s!"BAD({s})"

def heapAnswer (opsField impl : String) : String :=
  let toks := if opsField == "-" then [] else opsField.splitOn ";"
  let parsed := toks.map parseHOp
  if parsed.any (·.isNone) then s!"SPECFAIL bad request: malformed heap script {opsField}" else
  match parsed.findSome? (fun p => match p with | some (.inl k) => some k | _ => none) with
  | some _ => "SPECFAIL generator left the proved range: a heap key is not between -10^30 and 10^30"
  | none =>
    let ops := parsed.filterMap fun p => match p with | some (.inr op) => some op | _ => none
    if impl == "panic" then "SPECFAIL the heap script panicked" else
    let ans := if impl == "-" then [] else (impl.splitOn ";").map parseHAns
    match pqJudgeAll [] ops ans with
    | some why => s!"SPECFAIL BinaryHeap<MinScored> is not a priority queue: {why}"
    | none =>
      let m := heapRun [] ops
      cmpExact (if m.isEmpty then "-" else String.intercalate ";" (m.map showHAns)) impl

/-! ### `mscmp` lines -/

def mscmpAnswer (which a b impl : String) : String :=
  match parseScore a, parseScore b with
  | some x, some y =>
    if !(scoreInRangeB x && scoreInRangeB y) then
      "SPECFAIL generator left the proved range: a score is not between -10^30 and 10^30"
    else
      let c := if which == "min" then SP.scoreCmp x y else maxCmp x y
      let want := cmpAnswer c
      if impl == want then "ok"
      else s!"SPECFAIL {if which == "min" then "MinScored" else "MaxScored"}({a}) vs ({b}): the documented total order gives [{want}], the implementation [{impl}]"
  | _, _ => s!"SPECFAIL bad request: malformed scores {a} {b}"

/-- structured verdict on a `graph` line -/
inductive GVerdict where
  | ok
  | known (id why : String)
  | fail (why : String)
  deriving Repr, DecidableEq

/-- the verdict on a view (special weights applied) reported by encoding `enc` with the flagged
entries `inc`, and the state for the requests that follow -/
def graphVerdictOf (enc : String) (inc : List (Nat × List Nat)) (raw : View) : DState × GVerdict :=
  let incAny := inc.any fun x => !x.2.isEmpty
  let und := enc.startsWith "und-"
  -- the view the side conditions are checked on: an `UndirectedAdaptor` lists self-loops twice (D23)
  let v := if und then dedupLoops raw else raw
  let pv := primView inc raw
  match viewFailure v with
  | some why => ({ v := v, ok := false, pv := pv, enc := enc, incAny := incAny }, .fail s!"side condition {why}")
  | none =>
    if incAny then
      if d23Enc enc then
        ({ v := v, ok := true, pv := pv, enc := enc, incAny := incAny },
          .known "D23" "UndirectedAdaptor::edges(a) yields incoming edges with their stored orientation (source != a)")
      else if enc == "rev-matrix" then
        ({ v := v, ok := true, pv := pv, enc := enc, incAny := incAny },
          .known "D6" "Reversed(&MatrixGraph)::edges(a) yields edges whose source is not a (MatrixGraph::edges_directed(_, Incoming) reports (a, predecessor))")
      else ({ v := v, ok := false, pv := pv, enc := enc, incAny := incAny },
          .fail "side condition source_is_a does not hold: edges(a) yields an edge reference whose source is not a")
    else if und && loopsRepeated raw then
      ({ v := v, ok := true, pv := pv, enc := enc, incAny := incAny },
        .known "D23" "UndirectedAdaptor::edges(a) lists a self-loop twice")
    else ({ v := v, ok := true, pv := pv, enc := enc, incAny := incAny }, .ok)

/-- the verdict on a `graph` line -/
def graphVerdict (req : List String) : DState × GVerdict :=
  match parseView req with
  | none => ({}, .fail "unparsable graph line")
  | some v0 =>
    let sw := parseSW ((field? req "sw").getD "-")
    if !(sw.all fun x => scoreInRangeB x.2) then
      ({}, .fail "generator left the proved range: a weight is not between -10^30 and 10^30")
    else graphVerdictOf ((field? req "enc").getD "") (parseInc ((field? req "inc").getD "-")) (applySW sw v0)

def showGVerdict : GVerdict → String
  | .ok => "ok"
  | .known id why => s!"KNOWN {id} {why}"
  | .fail why => s!"SPECFAIL {why}"

def graphStep (req : List String) : DState × String :=
  let r := graphVerdict req
  (r.1, showGVerdict r.2)

def step (d : DState) (req : List String) (impl : String) : DState × String :=
  match req with
  | "case" :: k :: _ => ({}, s!"case {k}")
  | "graph" :: _ => graphStep req
  | "kruskal" :: _ =>
    if !d.ok then (d, "SPECFAIL no valid graph line") else
    let er := parseEr ((field? req "er").getD "-")
    if !erOkB d.v er then
      (d, "SPECFAIL side condition edge_references does not hold: edge_references of this encoding do not describe the abstract graph") else
    (d, answer d false ((field? req "fe").getD "g") (kruskal d.v er) impl)
  | "prim" :: _ =>
    if !d.ok then (d, "SPECFAIL no valid graph line") else
    (d, answer d true ((field? req "fe").getD "g") (prim d.pv) impl)
  | "heap" :: _ => (d, heapAnswer ((field? req "ops").getD "-") impl)
  | ["mscmp", which, _, a, b] => (d, mscmpAnswer which a b impl)
  | kw :: rest =>
    if kw == "law" || kw == "iterlaw" then
      (d, if impl == "ok" then "ok" else s!"SPECFAIL {kw} {String.intercalate " " rest} does not hold: {impl}")
    else (d, s!"SPECFAIL bad request {req}")
  | _ => (d, s!"SPECFAIL bad request {req}")

end PetgraphModel.C12
