import PetgraphModel.Common
import PetgraphModel.GraphProto
import PetgraphModel.Oracle.Reach
import PetgraphModel.Oracle.C12Forest
import PetgraphModel.Oracle.C12W4
import PetgraphModel.Model.C12Mst
import PetgraphModel.Model.C12W4
/-
C12 driver.  Requests (after a `graph …` line):

  kruskal <wt> fe=<k> er=<s:t:eid;…>     min_spanning_tree(g) collected
  prim <wt> fe=<k>                        min_spanning_tree_prim(g) collected

and, without a graph line, the direct differential test of the heap mirror:

  heap <kt> ops=<p<key>:<id>|o|c;…>       BinaryHeap<MinScored<kt, (usize, usize)>> script

Answer: `<stream>|<fe nodes>|<fe edges>` (or `panic`): the element stream as `N<weight>` /
`E<source>:<target>:<weight>` tokens, then the graph `from_elements` built from it (node weights in
index order; edges in index order as `<weight of source>:<weight of target>:<w>`).  Node weight =
abstract node id.

Exact part: the whole stream against the mirror models (`Model/C12Mst.lean`, heap order included),
and the collected graph against the `from_elements` models (`Model/C12W4.lean`: the C01 `Graph`
model / the C02 `StableGraph` model run on the implementation's stream).
Spec-level part (`Oracle/C12Forest.lean`): the clauses of the property statement against the
abstract graph.  Prim: on undirected graphs the property's clause (`judgePrimEdges`); on directed
storage — outside the property's domain — what the iterator provably does there: a greedy out-tree
of the nodes reachable from the first node (`Oracle/C12W4.lean`, `judgePrimDirected`).

`heap` answer: one token per call, `;`-separated: push `=<vec>`, pop `<key>:<id>=<vec>` or
`none=<vec>`, clear `c`; `<vec>` = the payload ids of the heap's internal vector (`.`-separated, `-`
if empty).  Keys are integers, `nan`, `inf`, `-inf`.  Exact part: the heap mirror, vector included;
spec-level part: the priority-queue specification `pqJudge`.

Side conditions (hypotheses of the model theorems) are evaluated on every case:
`SPECFAIL side condition <name> does not hold: …` = the encoding's trait impls do not describe one
well-formed graph; `SPECFAIL generator left the proved range: …` = the generated input is outside
the range the theorems cover (never fires on the unchanged tree).
-/
namespace PetgraphModel.C12
open PetgraphModel PetgraphModel.MST PetgraphModel.MstModel PetgraphModel.Oracle

structure DState where
  v : View := default
  ok : Bool := false

/-- brute-force bound on the number of edges (minimality by enumeration of all edge subsets) -/
def bruteBound : Nat := 12

def nodupB : List Nat → Bool
  | [] => true
  | x :: xs => !xs.contains x && nodupB xs

def endsMatch (e : Edge) (a b : Nat) : Bool := (e.src == a && e.tgt == b) || (e.src == b && e.tgt == a)

/-- `MGraph.WellFormed`, executable -/
def wfB (g : MGraph) : Bool :=
  nodupB g.nodes && g.edges.all fun e => g.nodes.contains e.src && g.nodes.contains e.tgt

/-- `to_index` is below `node_bound` and injective on the nodes (`MstModel.KView`) -/
def kviewB (v : View) : Bool :=
  v.g.nodes.all (fun a => v.toIndex a < v.nb) && nodupB (v.g.nodes.map v.toIndex)

/-- `g.edges(a)` lists exactly the edges at `a`, with their weights (`MstModel.PView`; undirected) -/
def pviewB (v : View) : Bool :=
  (v.g.nodes.all fun a => (v.outOf a).all fun oe =>
    v.g.edges.any fun e => e.w == v.weight oe.2 && endsMatch e a oe.1) &&
  (v.g.edges.all fun e =>
    (v.outOf e.src).any (fun oe => oe.1 == e.tgt && v.weight oe.2 == e.w) &&
    (v.outOf e.tgt).any (fun oe => oe.1 == e.src && v.weight oe.2 == e.w))

/-- on directed storage `g.edges(a)` lists exactly the stored out-edges of `a`, with their weights
(`MstModel.DView`) -/
def dviewB (v : View) : Bool :=
  (v.g.nodes.all fun a => (v.outOf a).all fun oe =>
    v.g.edges.any fun e => e.w == v.weight oe.2 && e.src == a && e.tgt == oe.1) &&
  (v.g.edges.all fun e =>
    (v.outOf e.src).any fun oe => oe.1 == e.tgt && v.weight oe.2 == e.w)

/-- the tighter multiset checks by edge id -/
def viewIdsB (v : View) : Bool :=
  let g := v.g
  (g.edges.map (·.id)).eraseDups.length == g.edges.length &&
  g.nodes.all (fun a => sameSet (v.succ a) (g.succ a)) &&
  -- `g.edges(a)` lists every edge at `a` exactly once (by edge id)
  g.nodes.all (fun a => sameSet ((v.outOf a).map (·.2)) (g.edges.filterMap fun e =>
    if e.src == a || (!g.directed && e.tgt == a) then some e.id else none)) &&
  -- the edge ids of `out` rows name edges with those endpoints
  g.nodes.all (fun a => (v.outOf a).all fun oe =>
    match v.edge? oe.2 with
    | some e => (e.src == a && e.tgt == oe.1) || (!g.directed && e.tgt == a && e.src == oe.1)
    | none => false)

/-- the first side condition of the view that fails, by name -/
def viewFailure (v : View) : Option String :=
  if !wfB v.g then some "well_formed does not hold: the nodes are not distinct or an edge ends outside the nodes"
  else if !kviewB v then some "kview does not hold: to_index is not below node_bound or not injective on the nodes"
  else if !(v.g.directed || pviewB v) then some "pview does not hold: edges(a) of the undirected encoding is not the set of edges at a with their weights"
  else if !(!v.g.directed || dviewB v) then some "dview does not hold: edges(a) of the directed encoding is not the set of stored out-edges of a with their weights"
  else if !viewIdsB v then some "view_ids does not hold: edge ids are not distinct or the out rows do not list each incident edge once"
  else none

/-- the view is a well-formed description of the abstract graph (harness sanity, not petgraph).
The first four conjuncts are the hypotheses of the model theorems (`Proofs/C12Driver.lean` links
them); the rest are tighter multiset checks by edge id. -/
def viewOkB (v : View) : Bool :=
  let g := v.g
  wfB g && kviewB v && (g.directed || pviewB v) && (!g.directed || dviewB v) && viewIdsB v

/-- `er` describes the graph's edges with their weights (`MstModel.ErOk`) -/
def erOkPropB (v : View) (er : List (Nat × Nat × Nat)) : Bool :=
  (er.all fun x => v.g.edges.any fun e => e.w == v.weight x.2.2 && endsMatch e x.1 x.2.1) &&
  (v.g.edges.all fun e => er.any fun x => v.weight x.2.2 == e.w && endsMatch e x.1 x.2.1)

/-- `er` lists real edges with their stored endpoints, and every edge at least once -/
def erOkB (v : View) (er : List (Nat × Nat × Nat)) : Bool :=
  erOkPropB v er &&
  er.all (fun x => match v.edge? x.2.2 with
    | some e => (e.src == x.1 && e.tgt == x.2.1) || (!v.g.directed && e.tgt == x.1 && e.src == x.2.1)
    | none => false) &&
  v.g.edges.all fun e => er.any fun x => x.2.2 == e.id

def parseEr (s : String) : List (Nat × Nat × Nat) :=
  if s == "-" then [] else
  (s.splitOn ";").filterMap fun t =>
    match t.splitOn ":" with
    | [a, b, c] => match a.toNat?, b.toNat?, c.toNat? with
      | some a, some b, some c => some (a, b, c)
      | _, _, _ => none
    | _ => none

inductive Tok where
  | node (w : Nat)
  | edge (s t : Nat) (w : Int)
  | bad (s : String)

def parseTok (s : String) : Tok :=
  if s.startsWith "N" then
    match (s.drop 1).toString.toNat? with
    | some n => .node n
    | none => .bad s
  else if s.startsWith "E" then
    match (s.drop 1).toString.splitOn ":" with
    | [a, b, w] => match a.toNat?, b.toNat?, w.toInt? with
      | some a, some b, some w => .edge a b w
      | _, _, _ => .bad s
    | _ => .bad s
  else .bad s

/-- split a stream into its node part and its edge part; `none` if a node element follows an edge
element or a token is malformed -/
def splitStream : List Tok → Option (List Nat × List EdgeEl)
  | [] => some ([], [])
  | .node w :: rest => match splitStream rest with
    | some (ns, es) => some (w :: ns, es)
    | none => none
  | .edge s t w :: rest =>
    if rest.all (fun t => match t with | .edge .. => true | _ => false) then
      some ([], ⟨s, t, w⟩ :: rest.filterMap fun t => match t with | .edge a b w => some ⟨a, b, w⟩ | _ => none)
    else none
  | .bad _ :: _ => none

def showEl (e : EdgeEl) : String := s!"E{e.s}:{e.t}:{e.w}"

def showRes : Res → String
  | .ok ns es =>
    let toks := ns.map (fun n => s!"N{n}") ++ es.map showEl
    if toks.isEmpty then "-" else String.intercalate "," toks
  | .panic => "panic"
  | .fault => "FAULT"

/-- edge elements in abstract ids (positions looked up in the node part) -/
def absEdges (ns : List Nat) : List EdgeEl → Option (List (Nat × Nat × Int))
  | [] => some []
  | e :: es =>
    match ns[e.s]?, ns[e.t]?, absEdges ns es with
    | some a, some b, some r => some ((a, b, e.w) :: r)
    | _, _, _ => none

/-- the graph built by `from_elements` must be the stream: same node weights in order, the edges in
order with the weights of the nodes at the given positions -/
def feOk (ns : List Nat) (S : List (Nat × Nat × Int)) (feN feE : String) : Option String :=
  if feN == "panic" then some "from_elements panicked on the stream" else
  if parseNats feN != ns then some s!"from_elements node weights {feN}, stream has {showNats ns}" else
  let want := if S.isEmpty then "-" else String.intercalate ";" (S.map fun e => s!"{e.1}:{e.2.1}:{e.2.2}")
  if feE != want then some s!"from_elements edges {feE}, stream has {want}" else none

/-- spec-level verdict on a stream; `prim` selects Prim's clause -/
def judgeStream (g : MGraph) (prim : Bool) (ns : List Nat) (es : List EdgeEl) (feN feE : String) : Option String :=
  if ns != g.nodes then
    some s!"node elements {showNats ns}, the graph's nodes in order are {showNats g.nodes}" else
  match absEdges ns es with
  | none => some "an edge element refers to a position beyond the node elements"
  | some S =>
    match feOk ns S feN feE with
    | some why => some why
    | none =>
      if prim then
        if g.directed then judgePrimDirected g.nodes g.edges S else judgePrimEdges g.nodes g.edges bruteBound S
      else judgeForest g.nodes g.edges bruteBound S

def verdict (spec : Option String) (model impl : String) : String :=
  match spec with
  | some why => s!"SPECFAIL {why}"
  | none => cmpExact model impl

def showFE : FERes → String
  | .ok ns es =>
    let e := if es.isEmpty then "-" else String.intercalate ";" (es.map fun e => s!"{e.1}:{e.2.1}:{e.2.2}")
    s!"{showNats ns}|{e}"
  | .panic => "panic|panic"
  | .fault => "FAULT|FAULT"

def answer (d : DState) (prim : Bool) (kind : String) (model : Res) (impl : String) : String :=
  if impl == "panic" then
    (match model with
      | .panic => "SPECFAIL the iterator panicked (the mirror model panics too)"
      | _ => "SPECFAIL the iterator panicked")
  else
  match impl.splitOn "|" with
  | [st, feN, feE] =>
    let toks := if st == "-" then [] else (st.splitOn ",").map parseTok
    match splitStream toks with
    | none => s!"SPECFAIL the stream is not node elements followed by edge elements: {st}"
    | some (ns, es) =>
      match judgeStream d.v.g prim ns es feN feE with
      | some why => s!"SPECFAIL {why}"
      | none =>
        -- hypothesis of the `from_elements` theorems (the positions were judged above)
        if !feFitsB u32max ns es then
          s!"SPECFAIL generator left the proved range: a stream of {ns.length} node and {es.length} edge elements does not fit the index type"
        else
          -- exact part: the stream against the MST mirror, the collected graph against the
          -- `from_elements` model run on the implementation's own stream
          cmpExact s!"{showRes model}|{showFE (collect kind ns es)}" impl
  | _ => s!"SPECFAIL malformed answer {impl}"

/-! ### heap scripts -/

def parseKey (s : String) : Option SP.Score :=
  if s == "nan" then some .nan
  else if s == "inf" then some .pinf
  else if s == "-inf" then some .ninf
  else s.toInt?.map .fin

def showKey (k : Int) : String :=
  if k == bigKey + 1 then "nan" else if k == bigKey then "inf" else if k == -bigKey then "-inf" else toString k

def parseLay (s : String) : List Nat :=
  if s == "-" then [] else (s.splitOn ".").filterMap (·.toNat?)

def showLay (l : List Nat) : String :=
  if l.isEmpty then "-" else String.intercalate "." (l.map toString)

/-- `p<key>:<id>` / `o` / `c`; `none` = malformed, `some (Sum.inl k)` = key outside the proved range -/
def parseHOp (s : String) : Option (SP.Score ⊕ HOp) :=
  if s == "o" then some (.inr .pop)
  else if s == "c" then some (.inr .clear)
  else if s.startsWith "p" then
    match (s.drop 1).toString.splitOn ":" with
    | [k, i] => match parseKey k, i.toNat? with
      | some k, some i => if scoreInRangeB k then some (.inr (.push ⟨scoreKey k, i, 0⟩)) else some (.inl k)
      | _, _ => none
    | _ => none
  else none

def parseHAns (s : String) : HAns :=
  if s == "c" then .cleared
  else match s.splitOn "=" with
    | ["", lay] => .pushed (parseLay lay)
    | ["none", lay] => .popped none (parseLay lay)
    | [it, lay] => match it.splitOn ":" with
      | [k, i] => match parseKey k, i.toNat? with
        | some k, some i => if scoreInRangeB k then .popped (some ⟨scoreKey k, i, 0⟩) (parseLay lay) else .bad s
        | _, _ => .bad s
      | _ => .bad s
    | _ => .bad s

def showHAns : HAns → String
  | .pushed lay => s!"={showLay lay}"
  | .popped none lay => s!"none={showLay lay}"
  | .popped (some x) lay => s!"{showKey x.w}:{x.a}={showLay lay}"
  | .cleared => "c"
  | .bad s => s!"BAD({s})"

def heapAnswer (opsField impl : String) : String :=
  let toks := if opsField == "-" then [] else opsField.splitOn ";"
  let parsed := toks.map parseHOp
  if parsed.any (·.isNone) then s!"SPECFAIL bad request: malformed heap script {opsField}" else
  match parsed.findSome? (fun p => match p with | some (.inl k) => some k | _ => none) with
  | some _ => "SPECFAIL generator left the proved range: a heap key is not between -10^30 and 10^30"
  | none =>
    let ops := parsed.filterMap fun p => match p with | some (.inr op) => some op | _ => none
    if impl == "panic" then "SPECFAIL the heap script panicked" else
    let ans := if impl == "-" then [] else (impl.splitOn ";").map parseHAns
    match pqJudgeAll [] ops ans with
    | some why => s!"SPECFAIL BinaryHeap<MinScored> is not a priority queue: {why}"
    | none =>
      let m := heapRun [] ops
      cmpExact (if m.isEmpty then "-" else String.intercalate ";" (m.map showHAns)) impl

def step (d : DState) (req : List String) (impl : String) : DState × String :=
  match req with
  | "case" :: k :: _ => ({}, s!"case {k}")
  | "graph" :: _ =>
    match parseView req with
    | none => (d, "SPECFAIL unparsable graph line")
    | some v =>
      match viewFailure v with
      | none => ({ v := v, ok := true }, "ok")
      | some why => ({ v := v, ok := false }, s!"SPECFAIL side condition {why}")
  | "kruskal" :: _ =>
    if !d.ok then (d, "SPECFAIL no valid graph line") else
    let er := parseEr ((field? req "er").getD "-")
    if !erOkB d.v er then
      (d, "SPECFAIL side condition edge_references does not hold: edge_references of this encoding do not describe the abstract graph") else
    (d, answer d false ((field? req "fe").getD "g") (kruskal d.v er) impl)
  | "prim" :: _ =>
    if !d.ok then (d, "SPECFAIL no valid graph line") else
    (d, answer d true ((field? req "fe").getD "g") (prim d.v) impl)
  | "heap" :: _ => (d, heapAnswer ((field? req "ops").getD "-") impl)
  | _ => (d, s!"SPECFAIL bad request {req}")

end PetgraphModel.C12
