import PetgraphModel.Common
import PetgraphModel.GraphProto
import PetgraphModel.Oracle.Reach
import PetgraphModel.Oracle.Dist
import PetgraphModel.Oracle.C10Judge
import PetgraphModel.Model.C10ShortestPaths
import PetgraphModel.Model.C10Bounded
/-
C10 driver.  Requests (after a `graph …` line; all node ids abstract, costs integers):

  dij <ty> <s> <goal|none>                 => v:c,…
  astar <ty> <s> <goals|-> <v:h,…>         => none | <cost>|<path>
  ksp <ty> <s> <goal|none> <k>             => v:c,…
  msc <ty> <a> <b>                         => <cmp>,<eq>,<partial_cmp>
  msheap <ty> <scores>                     => <scores in pop order>
  law <name> <detail…>                     => ok | VIOLATED <why>      (a law the harness checks on the implementation
                                                                         itself; anything but `ok` is a SPECFAIL)

The `graph` line is the view AS THE ALGORITHMS READ IT: `out=` rows come from `edges(a)` with the literal `target()`
of every edge reference, of the storage type or of an adaptor over it (`enc=<adaptor>(<base>)` on the case line);
`rows=` repeats them as `target/weight`.  A view that does not describe the abstract graph is a SPECFAIL of the side
condition, except for the two recorded open findings, classified by their exact shape: D23 (`UndirectedAdaptor::edges`
lists the edges INTO `a` with `target = a` and a loop twice) and D6 (`MatrixGraph::edges_directed(_, Incoming)` has
its endpoints swapped, so every edge of `Reversed(&MatrixGraph)` has `target = a`).  The harness sends requests only
on a view whose rows it found consistent, so nothing is judged on a view that failed.

Verdict = spec-level judge (`Oracle/C10Judge.lean`, against the abstract graph) first, then the exact
comparison with the mirror model (`Model/C10ShortestPaths.lean`, on the view) restricted to what does
not depend on the heap's tie order.

Run-time checks of the hypotheses of the theorems (each proved to imply its hypothesis in
`Theorems/C10.lean`, section "run-time checks of the hypotheses"): `viewOkB`, `viewOkMB`, `ixOkB` on
the `graph` line; per request `srcOkB` (the source is a node), `1 ≤ k`, `admissibleB` (the heuristic is
admissible and non-negative); the mirror model is run with the overflow-checked addition `addB M` of
the request's cost type (`<ty>` = u32 | u64 | f32 | f64 | f32q | f64q; `q` = costs are multiples of
1/8, printed in that unit), so a run that would leave the range in which the type's `+` is exact is
reported instead of compared; the k-walk oracle is given the fuel `kspFuel v k + 1` that
`C10_oracle_total` proves sufficient.
-/
namespace PetgraphModel.C10
open PetgraphModel PetgraphModel.MGraph PetgraphModel.Oracle PetgraphModel.SP

structure DState where
  v : View := default
  ok : Bool := false
  /-- `enc=` of the case line: `<adaptor>(<base>)` -/
  enc : String := ""

/-! ### the two open findings that show in a view (classified by their exact shape) -/

def sameBag (a b : List (Nat × Nat)) : Bool :=
  a.length == b.length && a.all fun x => a.count x == b.count x

/-- `rows=` lists exactly the nodes, and the row of every node `a` is (as a multiset of `(target, weight)`) `want a` -/
def rowsAre (g : MGraph) (rows : List (Nat × List (Nat × Nat))) (want : Nat → List (Nat × Nat)) : Bool :=
  rows.length == g.nodes.length && g.nodes.all fun a =>
    match rows.lookup a with
    | some r => sameBag r (want a)
    | none => false

/-- D23: the declared graph is the undirected one, the rows are "out-edges as they are, then every edge into `a` once
more with `target = a`" (a loop therefore twice) -/
def d23Shape (g : MGraph) (rows : List (Nat × List (Nat × Nat))) : Bool :=
  !g.directed && rowsAre g rows fun a =>
    (g.edges.filter (·.src == a)).map (fun e => (e.tgt, e.w.toNat)) ++
    (g.edges.filter (·.tgt == a)).map (fun e => (a, e.w.toNat))

/-- D6 under `Reversed`: every edge out of `a` (of the declared, reversed graph) is listed with `target = a` -/
def d6Shape (g : MGraph) (rows : List (Nat × List (Nat × Nat))) : Bool :=
  g.directed && rowsAre g rows fun a => (g.edges.filter (·.src == a)).map fun e => (a, e.w.toNat)

def isUaEnc (enc : String) : Bool := enc.startsWith "ua(" && !(enc == "ua(matrix)")
def isRevMatrixEnc (enc : String) : Bool := enc == "rev(matrix)" || enc == "rev-ef(matrix)" || enc == "ef-rev(matrix)"

/-- the verdict for a view that failed `viewOkB`/`viewOkMB` -/
def viewFailure (enc : String) (req : List String) (v : View) : String :=
  let rows := parseAdj ((field? req "rows").getD "-")
  if isUaEnc enc && d23Shape v.g rows then
    "KNOWN D23 UndirectedAdaptor::edges(a) lists the edges into a with target = a (a loop twice): the algorithms do not see the undirected graph"
  else if isRevMatrixEnc enc && d6Shape v.g rows then
    "KNOWN D6 MatrixGraph::edges_directed(a, Incoming) has source = a, so every edge of Reversed(&MatrixGraph) has target = a"
  else "SPECFAIL side condition viewOkB/viewOkMB does not hold: edges(a) of this encoding does not describe the abstract graph"

def parseIntPairs (s : String) : Option (List (Nat × Int)) :=
  if s == "-" then some [] else
  (s.splitOn ",").mapM fun p =>
    match p.splitOn ":" with
    | [a, b] => match a.toNat?, b.toInt? with
      | some a, some b => some (a, b)
      | _, _ => none
    | _ => none

def showIntPairs (m : List (Nat × Int)) : String :=
  if m.isEmpty then "-" else String.intercalate "," (m.map fun vc => s!"{vc.1}:{vc.2}")

/-- sort a map by key (insertion sort; keys are distinct) -/
def sortMap (m : List (Nat × Int)) : List (Nat × Int) :=
  m.foldl (fun acc x => let (a, b) := acc.span (fun y => y.1 ≤ x.1); a ++ x :: b) []

def parseGoal (s : String) : Option Nat := if s == "none" then none else s.toNat?

/-- the part of a goal-directed score map that does not depend on the heap's tie order: entries
below the goal's score, and the goal's entry (everything when the goal has no entry) -/
def tieFree (m : List (Nat × Int)) (t : Nat) (dgoal : Option Int) : List (Nat × Int) :=
  match dgoal with
  | none => m
  | some D => m.filter fun vc => vc.1 == t || decide (vc.2 < D)

def verdict (spec : Option String) (model impl : String) : String :=
  match spec with
  | some why => s!"SPECFAIL {why}"
  | none => cmpExact model impl

/-! ### diagnostics (wording only; acceptance is decided by the `ok…` checkers) -/

def explainDijAll (g : MGraph) (s : Nat) (m : List (Nat × Int)) : String :=
  match certDist g s with
  | none => s!"map {showIntPairs m} is not a valid distance certificate"
  | some d => s!"dijkstra from {s} returned {showIntPairs (sortMap m)}, true distances of the reachable nodes are {showIntPairs (sortMap d)}"

def explainDijGoal (g : MGraph) (s t : Nat) (m : List (Nat × Int)) : String :=
  match certDist g s with
  | none => "reference distances could not be certified"
  | some d => s!"dijkstra from {s} to goal {t} returned {showIntPairs (sortMap m)}, true distances are {showIntPairs (sortMap d)} (goal entry must be exact, every entry an upper bound, entries closer than the goal exact)"

def explainAstar (g : MGraph) (s : Nat) (goals : List Nat) (impl : String) : String :=
  match certDist g s with
  | none => "reference distances could not be certified"
  | some d => s!"astar from {s} to goals {showNats goals} returned {impl}; true distances are {showIntPairs (sortMap d)}"

def showTable (T : KTable) : String :=
  String.intercalate ";" (T.map fun vr => s!"{vr.1}:{showInts vr.2}")

/-- the fuel the driver gives the k-walk oracle: at least the default and at least `kspFuel v k + 1`,
which `C10_oracle_total` proves sufficient on every checked view -/
def oracleFuel (v : View) (k : Nat) : Nat := max (kWalksFuel v.g k) (kspFuel v k + 1)

/-- the source of a request is a node of the abstract graph -/
def srcOkB (v : View) (s : Nat) : Bool := v.g.nodes.contains s

/-- all weights of the abstract graph are non-negative (the property's precondition; part of `viewOkB`) -/
def nonNegB (g : MGraph) : Bool := g.arcs.all fun a => decide (0 ≤ a.2.2)

/-- the heuristic of an astar request, as a function -/
def hFun (h : List (Nat × Int)) : Nat → Int := fun x => (h.lookup x).getD 0

/-- the heuristic table is non-negative and admissible (against certified distances of the reversed graph) -/
def admissibleB (g : MGraph) (goals : List Nat) (h : List (Nat × Int)) : Bool :=
  h.all (fun vx => decide (0 ≤ vx.2)) && admissible g goals h

/-! ### +infinity: the sentinel of the `f64inf` requests -/

/-- the weight that stands for `+∞` in an `f64inf` request (harness: `INF_SENTINEL`) -/
def infS : Int := 1099511627776

def isInfTy (ty : String) : Bool := ty == "f64inf"

/-- the implementation's answer with `inf` read as the sentinel -/
def readInf (impl : String) : String := impl.replace "inf" "1099511627776"

def canonMap (m : List (Nat × Int)) : List (Nat × Int) := m.map fun vc => (vc.1, canonInf infS vc.2)

def overflowMsg (ty : String) : String :=
  s!"SPECFAIL generator left the proved range: a cost sum leaves the range in which + of {ty} is exact"

def explainKsp (fuel : Nat) (g : MGraph) (s : Nat) (goal : Option Nat) (k : Nat) (m : List (Nat × Int)) : String :=
  match kWalksF fuel g s k with
  | none => "k-walk oracle did not reach a fixed point"
  | some T => s!"k_shortest_path from {s} goal {showOptNat goal} k={k} returned {showIntPairs (sortMap m)}; the {k} cheapest walk costs per node are {showTable T}"

/-! ### MinScored lines -/
def parseScore (s : String) : Option Score :=
  if s == "nan" then some .nan else if s == "inf" then some .pinf else if s == "-inf" then some .ninf
  else s.toInt?.map .fin

def showScore : Score → String
  | .nan => "nan" | .pinf => "inf" | .ninf => "-inf" | .fin x => toString x

def showOrd : Ord3 → String
  | .less => "L" | .equal => "E" | .greater => "G"

def cmpAnswer (c : Ord3) : String := s!"{showOrd c},{if c == .equal then "t" else "f"},{showOrd c}"

/-- insertion of `x` into a list kept in pop order, by the mirrored `cmp` (stable) -/
def heapSortModel (l : List Score) : List Score :=
  l.foldl (fun acc x => let (a, b) := acc.span (fun y => scoreCmp y x != .less); a ++ x :: b) []

def parseScores (s : String) : Option (List Score) :=
  if s == "-" then some [] else (s.splitOn ",").mapM parseScore

def showScores (l : List Score) : String := if l.isEmpty then "-" else String.intercalate "," (l.map showScore)


def step (d : DState) (req : List String) (impl : String) : DState × String :=
  match req with
  | "case" :: k :: rest => ({ enc := (field? rest "enc").getD "" }, s!"case {k}")
  | "graph" :: _ =>
    match parseView req with
    | none => (d, "SPECFAIL unparsable graph line")
    | some v =>
      if !nonNegB v.g then ({ d with v := v, ok := false }, "SPECFAIL generator left the proved range: negative edge cost")
      else if !(viewOkB v && viewOkMB v) then ({ d with v := v, ok := false }, viewFailure d.enc req v)
      else if !ixOkB v then ({ d with v := v, ok := false }, "SPECFAIL side condition ixOkB does not hold: to_index of a node is not below node_bound, or not injective")
      else ({ d with v := v, ok := true }, "ok")
  | ["dij", ty, s, goal] =>
    if !d.ok then (d, "SPECFAIL no checked graph for this request") else
    match costMax ty, s.toNat? with
    | some M, some s =>
      if !srcOkB d.v s then (d, "SPECFAIL generator left the proved range: the source is not a node") else
      let goal := parseGoal goal
      match SP.dijkstraG (addB M) popMin d.v s goal with
      | none => (d, overflowMsg ty)
      | some model =>
        if impl == "panic" then (d, "SPECFAIL dijkstra panicked") else
        if isInfTy ty then
          -- costs with +∞ (sentinel `infS`): only the fully determined call without goal
          match goal, parseIntPairs (readInf impl) with
          | none, some m =>
            let spec := if okDijInf infS d.v.g s m then none else some (explainDijAll d.v.g s m ++ s!" (entries >= {infS} stand for +inf)")
            match model with
            | some mm => (d, verdict spec (showIntPairs (sortMap (canonMap mm))) (showIntPairs (sortMap m)))
            | none => (d, verdict spec "FUEL" impl)
          | _, _ => (d, s!"SPECFAIL bad request or malformed answer {impl}")
        else
        match parseIntPairs impl with
        | none => (d, s!"SPECFAIL malformed answer {impl}")
        | some m =>
          match goal with
          | none =>
            let spec := if okDijAll d.v.g s m then none else some (explainDijAll d.v.g s m)
            match model with
            | some mm => (d, verdict spec (showIntPairs (sortMap mm)) (showIntPairs (sortMap m)))
            | none => (d, verdict spec "FUEL" (showIntPairs (sortMap m)))
          | some t =>
            let spec := if okDijGoal d.v.g s t m then none else some (explainDijGoal d.v.g s t m)
            match model with
            | some mm =>
              let D := amGet mm t
              (d, verdict spec (showIntPairs (sortMap (tieFree mm t D))) (showIntPairs (sortMap (tieFree m t D))))
            | none => (d, verdict spec "FUEL" impl)
    | _, _ => (d, "SPECFAIL bad request")
  | ["astar", ty, s, goals, h] =>
    if !d.ok then (d, "SPECFAIL no checked graph for this request") else
    match costMax ty, s.toNat?, parseIntPairs h with
    | some M, some s, some h =>
      let goals := parseNats goals
      if !srcOkB d.v s then (d, "SPECFAIL generator left the proved range: the source is not a node") else
      if !admissibleB d.v.g goals h then (d, "SPECFAIL generator left the proved range: the heuristic is not admissible and non-negative") else
      match SP.astarG (addB M) popMin d.v s (fun x => goals.contains x) (hFun h) (astarBound d.v.g s) with
      | none => (d, overflowMsg ty)
      | some res =>
        if impl == "panic" then (d, "SPECFAIL astar panicked") else
        let impl := if isInfTy ty then readInf impl else impl
        let ans : Option (Option (Int × List Nat)) :=
          if impl == "none" then some none else
          match impl.splitOn "|" with
          | [c, p] => c.toInt?.map fun c => some (c, parseNats p)
          | _ => none
        match ans with
        | none => (d, s!"SPECFAIL malformed answer {impl}")
        | some ans =>
          let spec := if (if isInfTy ty then okAstarInf infS d.v.g s goals ans else okAstar d.v.g s goals ans) then none
            else some (explainAstar d.v.g s goals impl)
          let model := match res with
            | .notFound => "none"
            | .found c _ => toString (if isInfTy ty then canonInf infS c else c)
            | .panic => "panic"
            | .fuel => "FUEL"
          let implCost := match ans with | none => "none" | some (c, _) => toString c
          (d, verdict spec model implCost)
    | _, _, _ => (d, "SPECFAIL bad request")
  | ["ksp", ty, s, goal, k] =>
    if !d.ok then (d, "SPECFAIL no checked graph for this request") else
    match costMax ty, s.toNat?, k.toNat? with
    | some M, some s, some k =>
      if !srcOkB d.v s then (d, "SPECFAIL generator left the proved range: the source is not a node") else
      if k == 0 then (d, "SPECFAIL generator left the proved range: k = 0") else
      let goal := parseGoal goal
      match SP.kShortestPathG (addB M) popMin d.v s goal k with
      | none => (d, overflowMsg ty)
      | some res =>
        if impl == "panic" then (d, "SPECFAIL k_shortest_path panicked") else
        if isInfTy ty then
          match goal, parseIntPairs (readInf impl) with
          | none, some m =>
            let fuel := oracleFuel d.v k
            let spec := if okKspInfF infS fuel d.v.g s k m then none else some (explainKsp fuel d.v.g s goal k m ++ s!" (entries >= {infS} stand for +inf)")
            match res with
            | .done mm => (d, verdict spec (showIntPairs (sortMap (canonMap mm))) (showIntPairs (sortMap m)))
            | .panic => (d, verdict spec "panic" impl)
            | .fuel => (d, verdict spec "FUEL" impl)
          | _, _ => (d, s!"SPECFAIL bad request or malformed answer {impl}")
        else
        match parseIntPairs impl with
        | none => (d, s!"SPECFAIL malformed answer {impl}")
        | some m =>
          let fuel := oracleFuel d.v k
          let spec := if okKspF fuel d.v.g s goal k m then none else some (explainKsp fuel d.v.g s goal k m)
          match res with
          | .done mm =>
            match goal with
            | none => (d, verdict spec (showIntPairs (sortMap mm)) (showIntPairs (sortMap m)))
            | some t =>
              let D := amGet mm t
              (d, verdict spec (showIntPairs (sortMap (tieFree mm t D))) (showIntPairs (sortMap (tieFree m t D))))
          | .panic => (d, verdict spec "panic" impl)
          | .fuel => (d, verdict spec "FUEL" impl)
    | _, _, _ => (d, "SPECFAIL bad request")
  | ["msc", _, a, b] =>
    match parseScore a, parseScore b with
    | some a, some b =>
      let want := cmpAnswer (specCmp a b)
      let spec := if impl == want then none
        else some s!"MinScored({showScore a}).cmp(MinScored({showScore b})) gave {impl}, the reversed order with NaN last demands {want}"
      (d, verdict spec (cmpAnswer (scoreCmp a b)) impl)
    | _, _ => (d, "SPECFAIL bad request")
  | ["msheap", _, xs] =>
    if impl == "panic" then (d, "SPECFAIL heap of MinScored panicked") else
    match parseScores xs, parseScores impl with
    | some xs, some out =>
      let spec := if okHeapOrder xs out then none
        else some s!"BinaryHeap<MinScored> popped {impl} from {showScores xs}: not the ascending order with NaN last"
      (d, verdict spec (showScores (heapSortModel xs)) impl)
    | _, _ => (d, s!"SPECFAIL malformed answer {impl}")
  | "law" :: _ =>
    if impl == "ok" then (d, "ok") else (d, s!"SPECFAIL law violated: {String.intercalate " " req} => {impl}")
  | _ => (d, s!"SPECFAIL bad request {req}")

end PetgraphModel.C10
