import PetgraphModel.Common
import PetgraphModel.Model.Csr
import PetgraphModel.Model.AdjList
import PetgraphModel.Spec.AppendOnly
import PetgraphModel.Spec.C05Scope
import PetgraphModel.Extracted.Csr
/-
C05 driver: runs the mirror models (`CsrM`, `AdjM`) and the abstract specifications (`SG`, `ML`) side by
side with the implementation's answers.

* exact part: the mirror model's answer (incl. edge ids, iteration order, error payloads) must equal
  the implementation's, byte for byte  → `MODELDIFF` otherwise;
* spec part: only what the property statement determines — membership, strictly ascending rows,
  weights, counts, `false`/unchanged for an existing edge, `Err`/documented panic + unchanged for
  out-of-range endpoints and for `add_node*` on a structure that is full for its index type (the next `dump`
  observes "unchanged"; a wrapped index — the repaired finding D31 — is a SPECFAIL like any other),
  `from_sorted_edges` Ok ⇔ strictly sorted and then equal to the graph built edge by edge; for `List`: parallel edges kept, indices stay valid, insertion order → `SPECFAIL`.
  Not judged (the statement is silent): `Csr` edge ids, the order/multiplicity of
  `Csr<Undirected>::edge_references` (D7 belongs to C06).
  Readers called with a node that does not exist (`a ≥ node_count`) must answer the documented panic
  ("Panics if the node `a` does not exist"; finding D32 — the empty answer for `a = node_count` — is repaired
  by /repo commit aadb875 and suppresses nothing: an empty answer there is a SPECFAIL).

* run-time checks of the theorems' hypotheses (`Spec/C05Scope.lean`; `Theorems/C05.lean`, "run-time checks of the
  hypotheses", proves `check = true → hypothesis`): after every constructor / mutating line `csrScopeB` (`Inv`, `Good`,
  `Abs`) resp. `listScopeB` (`LAbs`) on the (mirror state, specification state) pair and `capB` (within the capacity
  of the index type); `representableB` on every `from_sorted` line; `sortedB` / `ascB` on every `bsearch` line.
  A failing check → `SPECFAIL side condition … does not hold` / `SPECFAIL generator left the proved range`.
* `obs …` lines (a `Csr` built by `with_nodes(n)` BEYOND the capacity of the index type — outside the property's
  quantifier, `C05_csr_with_nodes_beyond_capacity`): a recorded observation, compared exactly with the mirror
  (`MODELDIFF` otherwise), never judged against the specification, no scope checks.
* `law <name>` lines (wave 6): laws the harness checks against the implementation itself — the `Iterator` /
  `DoubleEndedIterator` / `ExactSizeIterator` contract (crate::iterlaws) on EVERY iterator of csr.rs / adj.rs (fresh,
  mid-iteration, on empty / cleared / full structures), the visit-trait views (`NodeCount`, `EdgeCount`, `NodeIndexable`,
  `GraphProp`, `IntoNeighbors`, `IntoEdges`, `IntoEdgeReferences`, `IntoNodeIdentifiers`, `IntoNodeReferences`,
  `GetAdjacencyMatrix`, `DataMap`) against the inherent readers the mirror judges, `Visitable::visit_map` / `reset_map`
  (maps made for a smaller / larger graph) with the `VisitMap` contract (`visit` / `is_visited` / `unvisit`),
  `clone` / `clone_from` onto an arbitrary prior value, `Default` ≡ `new` ≡ `with_nodes(0)` / `with_capacity(k)`,
  `Debug` / `Display` never panic.  Only `ok` passes (`lawVerdict`, `C05_law_verdict_ok_iff`); anything else → `SPECFAIL`.
* `bsearch <sorted slice> <x>` lines: `<[usize]>::binary_search` itself against the mirror's `binaryPos`: judged by the
  documented contract (`bsContractB`, `C05_bsearch_judge_iff`), and compared exactly when the slice is strictly
  ascending (where the contract determines the answer, `C05_binary_search_contract_unique`).
-/
namespace PetgraphModel.C05
open PetgraphModel PetgraphModel.AppendSpec PetgraphModel.C05Scope

structure DState where
  isCsr : Bool := true
  csr : CsrM.State := CsrM.new true 0 Extracted.Csr.cutoff true
  sg : SG := {}
  adj : AdjM.State := AdjM.new 0
  ml : ML := {}

/-! ### formatting / parsing -/

def verdict (spec : Option String) (model impl : String) : String :=
  match spec with
  | some why => s!"SPECFAIL {why}"
  | none => cmpExact model impl

def expect (want impl : String) : Option String :=
  if want == impl then none else some s!"expected [{want}], implementation answered [{impl}]"

def joinOr (sep : String) (l : List String) (empty : String := "-") : String :=
  if l.isEmpty then empty else String.intercalate sep l

def showRows (rows : List String) : String := joinOr "|" rows "~"

def showERefs (l : List (Nat × Nat × Nat × Int)) : String :=
  joinOr ";" (l.map fun (i, s, t, w) => s!"{i}:{s}:{t}:{w}")

def showPairs (l : List (Nat × Nat)) : String := joinOr ";" (l.map fun (a, b) => s!"{a}:{b}")

def showNI (l : List (Nat × Int)) : String := joinOr ";" (l.map fun (a, b) => s!"{a}:{b}")

def showOpt (o : Option String) : String :=
  match o with
  | some s => s
  | none => "panic"

/-- `x:y:z;…` → list of field lists -/
def parseRecs (s : String) : List (List String) :=
  if s == "-" || s == "" then [] else (s.splitOn ";").map (·.splitOn ":")

def parseERefs (s : String) : Option (List (Nat × Nat × Nat × Int)) :=
  (parseRecs s).mapM fun r =>
    match r with
    | [i, a, b, w] =>
      match i.toNat?, a.toNat?, b.toNat?, w.toInt? with
      | some i, some a, some b, some w => some (i, a, b, w)
      | _, _, _, _ => none
    | _ => none

def parseEdges (s : String) : Option (List (Nat × Nat × Int)) :=
  (parseRecs s).mapM fun r =>
    match r with
    | [a, b, w] =>
      match a.toNat?, b.toNat?, w.toInt? with
      | some a, some b, some w => some (a, b, w)
      | _, _, _ => none
    | _ => none

def parseNI (s : String) : Option (List (Nat × Int)) :=
  (parseRecs s).mapM fun r =>
    match r with
    | [a, w] =>
      match a.toNat?, w.toInt? with
      | some a, some w => some (a, w)
      | _, _ => none
    | _ => none

def parsePair (s : String) : Nat × Nat :=
  match s.splitOn ":" with
  | [a, b] => (a.toNat?.getD 0, b.toNat?.getD 0)
  | _ => (0, 0)

def parseRows (s : String) : List String := if s == "~" then [] else s.splitOn "|"

/-- `k1=v1 k2=v2 …` -/
def parseKV (s : String) : List (String × String) :=
  (splitWords s).map fun w =>
    match w.splitOn "=" with
    | k :: rest => (k, String.intercalate "=" rest)
    | [] => ("", "")

def getKV (kv : List (String × String)) (k : String) : String :=
  match kv.find? (·.1 == k) with
  | some (_, v) => v
  | none => "<missing>"

def sameMultiset {α : Type} [BEq α] (a b : List α) : Bool :=
  a.length == b.length && a.all (fun x => a.count x == b.count x)

def firstSome {α : Type} (l : List α) (f : α → Option String) : Option String :=
  l.findSome? f

def modulusOf (w : String) : Nat :=
  match w with
  | "w=8" => 256 | "w=16" => 65536 | "w=32" => 4294967296 | _ => 0

/-! ### Csr: model and spec answers -/

def csrRowsM (s : CsrM.State) (f : Nat → Option String) : Option String :=
  ((List.range s.nodeCount).mapM f).map showRows

/-- the dump line as the mirror model predicts it (same layout as `harness/src/c05.rs::dump_csr`) -/
def csrDumpM (s : CsrM.State) : String :=
  let n := s.nodeCount
  -- the harness forms the argument of every per-node reader as `Ix::new(i)`, `i` in `0..n`: the identity within the
  -- capacity of the index type, `i mod 2^w` beyond it (only in `obs` cases)
  let ix (i : Nat) : Nat := CsrM.mkIx s.modulus i
  let r : Option String := do
    let nw ← (List.range n).mapM fun i => CsrM.index s (ix i)
    let nb ← csrRowsM s fun a => (CsrM.neighborsSlice s (ix a)).map showNats
    let ew ← csrRowsM s fun a => (CsrM.edgesSlice s (ix a)).map showInts
    let deg ← (List.range n).mapM fun i => CsrM.outDegree s (ix i)
    let ed ← csrRowsM s fun a => (CsrM.edgesOf s (ix a)).map showERefs
    let er ← CsrM.edgeReferences s
    pure s!"n={n} ec={s.edgeCountQ} nw={showInts nw} nids={showNats (CsrM.nodeIdentifiers s)} nrefs={showNI (CsrM.nodeReferences s)} nb={nb} ew={ew} deg={showNats deg} ed={ed} er={showERefs er}"
  showOpt r

/-- spec-level judgement of an implementation dump -/
def csrDumpSpec (g : SG) (impl : String) : Option String :=
  if impl == "panic" then some "a reader panicked on an existing node" else
  let kv := parseKV impl
  let n := g.n
  let rows := (List.range n).map g.succ
  let chk (k want : String) : Option String :=
    if getKV kv k == want then none else some s!"dump {k}: expected [{want}], implementation answered [{getKV kv k}]"
  firstSome [
    chk "n" (toString n),
    chk "ec" (toString g.edgeCount),
    chk "nw" (showInts g.nodes),
    chk "nids" (showNats (List.range n)),
    chk "nrefs" (showNI ((List.range n).zip g.nodes)),
    chk "nb" (showRows (rows.map fun r => showNats (r.map (·.1)))),
    chk "ew" (showRows (rows.map fun r => showInts (r.map (·.2)))),
    chk "deg" (showNats (rows.map List.length)),
    (let irows := parseRows (getKV kv "ed")
     if irows.length != n then some s!"dump ed: {irows.length} rows for {n} nodes" else
     (List.range n).findSome? fun a =>
       match parseERefs (irows.getD a "?") with
       | none => some s!"dump ed: unreadable row {a}"
       | some refs =>
         let want := rows.getD a []
         if refs.all (fun (_, s, _, _) => s == a) && sameMultiset (refs.map fun (_, _, t, w) => (t, w)) want
         then none else some s!"edges({a}) = [{irows.getD a "?"}] but the inserted edges of {a} are [{showNI want}]"),
    (match parseERefs (getKV kv "er") with
     | none => some "dump er: unreadable"
     | some refs =>
       let triples := refs.map fun (_, s, t, w) => (s, t, w)
       if g.directed then
         if sameMultiset triples (g.edges.map fun ((a, b), w) => (a, b, w)) then none
         else some s!"edge_references = [{getKV kv "er"}] is not the inserted edge set"
       else
         -- Undirected: multiplicity/orientation is D7's (C06) business; here: only real edges, all of them
         if triples.all (fun (s, t, w) => g.lookup s t == some w) &&
            g.edges.all (fun ((a, b), w) => triples.contains (a, b, w) || triples.contains (b, a, w)) then none
         else some s!"edge_references = [{getKV kv "er"}] does not describe the inserted edge set")
  ] id

/-- a reader on node `a`: spec answer `want` for an existing node; for a node that does not exist (`a ≥ n`) the
documented panic, and nothing else (the former empty answer at `a = n` was finding D32) -/
def readerSpec (g : SG) (a : Nat) (want impl : String) : Option String :=
  if a < g.n then expect want impl
  else if impl == "panic" then none
  else some s!"node {a} does not exist (node_count = {g.n}): expected the documented panic, implementation answered [{impl}]"

def showRes (r : Except (Nat × Nat) Bool) : String :=
  match r with
  | .ok b => s!"ok {showBool b}"
  | .error (a, b) => s!"err {a} {b}"

/-- one `Csr` line.  `obs = true`: a recorded observation outside the property's quantifier — the verdict is the exact
comparison with the mirror only. -/
def stepCsr (obs : Bool) (d : DState) (req : List String) (impl : String) : DState × String :=
  let s := d.csr
  let g := d.sg
  let verdict (spec : Option String) (model impl : String) : String :=
    if obs then cmpExact model impl else verdict spec model impl
  let nat (x : String) : Nat := x.toNat?.getD 0
  let int (x : String) : Int := x.toInt?.getD 0
  match req with
  | ["new"] =>
    ({ d with csr := CsrM.new s.directed s.modulus s.cutoff s.debug, sg := { directed := s.directed } },
      verdict (expect "ok" impl) "ok" impl)
  | ["with_nodes", n] =>
    ({ d with csr := CsrM.withNodes s.directed s.modulus s.cutoff s.debug (nat n),
              sg := { directed := s.directed, nodes := List.replicate (nat n) 0 } },
      verdict (expect "ok" impl) "ok" impl)
  | ["from_sorted", es] =>
    match parseEdges es with
    | none => (d, "SPECFAIL bad request (edge list)")
    | some es =>
      let m := CsrM.fromSortedEdges s.modulus s.cutoff s.debug es
      let sorted := strictlySorted es
      let n := match CsrM.maxNodeId es with | none => 0 | some mx => mx + 1
      let spec :=
        if !representableB s.modulus es then
          some "generator left the proved range: from_sorted_edges with an endpoint that is not a value of the index type"
        else if sorted then expect "ok" impl
        else if impl.startsWith "err " then none
        else some s!"from_sorted_edges accepted an input that is not strictly sorted: [{impl}]"
      match m with
      | .ok s' => ({ d with csr := s', sg := SG.ofEdges true n es }, verdict spec "ok" impl)
      | .error (a, b) => (d, verdict spec s!"err {a} {b}" impl)
  | ["clone"] => (d, verdict (expect "ok" impl) "ok" impl)
  | ["add_node", w] =>
    -- the specification: the fresh index `n`, or — on a graph that is `full` for the index type — the
    -- documented panic and an unchanged graph (finding D31 was: a wrapped, already-live index instead)
    let (g', want) := match g.addNodeCap s.modulus (int w) with
      | some (g', i) => (g', toString i) | none => (g, "panic")
    match CsrM.addNode s (int w) with
    | some (s', mi) => ({ d with csr := s', sg := g' }, verdict (expect want impl) (toString mi) impl)
    | none => ({ d with sg := g' }, verdict (expect want impl) "panic" impl)
  | ["add_edge", a, b, w] =>
    let (g', r) := g.addEdge (nat a) (nat b) (int w)
    let want := match r with | .ok x => showBool x | .error _ => "panic"
    match CsrM.addEdge s (nat a) (nat b) (int w) with
    | some (s', mr) => ({ d with csr := s', sg := g' }, verdict (expect want impl) (showBool mr) impl)
    | none => ({ d with sg := g' }, verdict (expect want impl) "panic" impl)
  | ["try_add_edge", a, b, w] =>
    let (g', r) := g.addEdge (nat a) (nat b) (int w)
    match CsrM.tryAddEdge s (nat a) (nat b) (int w) with
    | some (s', mr) => ({ d with csr := s', sg := g' }, verdict (expect (showRes r) impl) (showRes mr) impl)
    | none => ({ d with sg := g' }, verdict (expect (showRes r) impl) "panic" impl)
  | ["clear_edges"] =>
    ({ d with csr := CsrM.clearEdges s, sg := g.clearEdges }, verdict (expect "ok" impl) "ok" impl)
  | ["set_weight", a, w] =>
    let (g', want) := match g.setWeight (nat a) (int w) with
      | some g' => (g', "ok") | none => (g, "panic")
    match CsrM.setWeight s (nat a) (int w) with
    | some s' => ({ d with csr := s', sg := g' }, verdict (expect want impl) "ok" impl)
    | none => ({ d with sg := g' }, verdict (expect want impl) "panic" impl)
  | ["contains", a, b] =>
    let m := showOpt ((CsrM.containsEdge s (nat a) (nat b)).map showBool)
    (d, verdict (readerSpec g (nat a) (showBool (g.has (nat a) (nat b))) impl) m impl)
  | ["out_degree", a] =>
    let m := showOpt ((CsrM.outDegree s (nat a)).map toString)
    (d, verdict (readerSpec g (nat a) (toString (g.succ (nat a)).length) impl) m impl)
  | ["nslice", a] | ["neighbors", a] =>
    let m := showOpt ((CsrM.neighborsSlice s (nat a)).map showNats)
    (d, verdict (readerSpec g (nat a) (showNats ((g.succ (nat a)).map (·.1))) impl) m impl)
  | ["eslice", a] =>
    let m := showOpt ((CsrM.edgesSlice s (nat a)).map showInts)
    (d, verdict (readerSpec g (nat a) (showInts ((g.succ (nat a)).map (·.2))) impl) m impl)
  | ["edges", a] =>
    let a := nat a
    let m := showOpt ((CsrM.edgesOf s a).map showERefs)
    let spec :=
      if a < g.n then
        if impl == "panic" then some s!"edges({a}) panicked on an existing node" else
        match parseERefs impl with
        | none => some s!"edges({a}): unreadable answer [{impl}]"
        | some refs =>
          if refs.all (fun (_, s, _, _) => s == a) && sameMultiset (refs.map fun (_, _, t, w) => (t, w)) (g.succ a)
          then none else some s!"edges({a}) = [{impl}] but the inserted edges of {a} are [{showNI (g.succ a)}]"
      else readerSpec g a "" impl
    (d, verdict spec m impl)
  | ["index", a] =>
    let m := showOpt ((CsrM.index s (nat a)).map toString)
    let want := match g.nodes[nat a]? with | some w => toString w | none => "panic"
    (d, verdict (expect want impl) m impl)
  | ["crow", a] =>
    -- contains_edge(a, b) for every b in 0..=n
    let a := nat a
    let m := showOpt (((List.range (s.nodeCount + 1)).mapM fun b => (CsrM.containsEdge s a b).map fun r => (b, r)).map
      fun l => showNats ((l.filter (·.2)).map (·.1)))
    let want := showNats ((List.range (g.n + 1)).filter fun b => g.has a b)
    (d, verdict (readerSpec g a want impl) m impl)
  | ["dump"] => (d, verdict (csrDumpSpec g impl) (csrDumpM s) impl)
  | _ => (d, s!"SPECFAIL bad request {req}")

/-! ### adj::List: model and spec answers -/

def showEIx (e : Nat × Nat) : String := s!"{e.1}:{e.2}"

def showLRefs (l : List (Nat × Nat × Nat × Int)) : String :=
  joinOr ";" (l.map fun (f, i, t, w) => s!"{f}:{i}:{t}:{w}")

def adjHandle (s : AdjM.State) (e : Nat × Nat) : String :=
  match AdjM.edgeEndpoints s e, AdjM.edgeWeight s e with
  | some (a, b), some w => s!"{a}:{b}:{w}"
  | _, _ => "none"

def mlHandle (g : ML) (e : Nat × Nat) : String :=
  match g.get e with
  | some x => s!"{x.src}:{x.tgt}:{x.w}"
  | none => "none"

def adjRows (s : AdjM.State) (f : Nat → Option String) : String :=
  showOpt (((List.range s.nodeCount).mapM f).map showRows)

def adjDumpM (s : AdjM.State) (hs : List (Nat × Nat)) : String :=
  let nb := adjRows s fun a => (AdjM.neighbors s a).map showNats
  let fr := adjRows s fun a => (AdjM.edgeIndicesFrom s a).map showPairs
  let ed := adjRows s fun a => (AdjM.edgesOf s a).map showLRefs
  s!"n={s.nodeCount} ec={s.edgeCount} nids={showNats (AdjM.nodeIndices s)} eix={showPairs (AdjM.edgeIndices s)} er={showLRefs (AdjM.edgeReferences s)} nb={nb} fr={fr} ed={ed} h={joinOr ";" (hs.map (adjHandle s))}"

def adjDumpSpec (g : ML) (hs : List (Nat × Nat)) (impl : String) : Option String :=
  if impl == "panic" then some "a reader panicked on an existing node" else
  let kv := parseKV impl
  let n := g.n
  let outs := (List.range n).map g.outOf
  let chk (k want : String) : Option String :=
    if getKV kv k == want then none else some s!"dump {k}: expected [{want}], implementation answered [{getKV kv k}]"
  firstSome [
    chk "n" (toString n),
    chk "ec" (toString g.edges.length),
    chk "nids" (showNats (List.range n)),
    chk "nb" (showRows (outs.map fun r => showNats (r.map (·.tgt)))),
    chk "fr" (showRows (outs.map fun r => showPairs (r.map (·.id)))),
    chk "ed" (showRows (outs.map fun r => showLRefs (r.map fun e => (e.id.1, e.id.2, e.tgt, e.w)))),
    chk "h" (joinOr ";" (hs.map (mlHandle g))),
    -- iteration over the whole graph: per source in insertion order; how sources are grouped is not stated
    (let ids := (parseRecs (getKV kv "eix")).map fun r => (r.map fun x => x.toNat?.getD 0)
     if ids.length != g.edges.length then some s!"edge_indices yields {ids.length} indices for {g.edges.length} edges" else
     (List.range n).findSome? fun a =>
       if (ids.filter fun r => r.head? == some a) == (g.outOf a).map (fun e => [e.id.1, e.id.2]) then none
       else some s!"edge_indices of source {a} are not the inserted edges in insertion order: [{getKV kv "eix"}]"),
    (match parseERefs (getKV kv "er") with
     | none => some "dump er: unreadable"
     | some refs =>
       if refs.length != g.edges.length then some s!"edge_references yields {refs.length} references for {g.edges.length} edges" else
       (List.range n).findSome? fun a =>
         if (refs.filter fun (f, _, _, _) => f == a) == (g.outOf a).map (fun e => (e.id.1, e.id.2, e.tgt, e.w)) then none
         else some s!"edge_references of source {a} are not the inserted edges in insertion order: [{getKV kv "er"}]")
  ] id

def stepList (d : DState) (req : List String) (impl : String) : DState × String :=
  let s := d.adj
  let g := d.ml
  let nat (x : String) : Nat := x.toNat?.getD 0
  let int (x : String) : Int := x.toInt?.getD 0
  match req with
  | ["new"] | ["with_capacity", _] =>
    ({ d with adj := AdjM.new s.modulus, ml := {} }, verdict (expect "ok" impl) "ok" impl)
  | ["clone"] => (d, verdict (expect "ok" impl) "ok" impl)
  | ["add_node"] | ["add_node_cap", _] | ["build_add_node"] =>
    -- the specification: the fresh index `n`, or — on a list that is `full` for the index type — the
    -- documented panic and an unchanged list (finding D31 was: a wrapped, already-live index instead)
    let (g', want) := match g.addNodeCap s.modulus with
      | some (g', i) => (g', toString i) | none => (g, "panic")
    match AdjM.addNode s with
    | some (s', mi) => ({ d with adj := s', ml := g' }, verdict (expect want impl) (toString mi) impl)
    | none => ({ d with ml := g' }, verdict (expect want impl) "panic" impl)
  | ["add_node_from", es] =>
    match parseNI es with
    | none => (d, "SPECFAIL bad request (successor list)")
    | some es =>
      let (g', want) := match g.addNodeFromCap s.modulus es with
        | some (g', i) => (g', toString i) | none => (g, "panic")
      match AdjM.addNodeFromEdges s es with
      | some (s', mi) => ({ d with adj := s', ml := g' }, verdict (expect want impl) (toString mi) impl)
      | none => ({ d with ml := g' }, verdict (expect want impl) "panic" impl)
  | [f, a, b, w] =>
    let (a, b, w) := (nat a, nat b, int w)
    match f with
    | "add_edge" | "build_add_edge" =>
      let pre := if f == "add_edge" then "" else "some "
      let (g', want) := match g.addEdge a b w with
        | some (g', e) => (g', pre ++ showEIx e) | none => (g, "panic")
      match AdjM.addEdge s a b w with
      | some (s', e) => ({ d with adj := s', ml := g' }, verdict (expect want impl) (pre ++ showEIx e) impl)
      | none => ({ d with ml := g' }, verdict (expect want impl) "panic" impl)
    | "update_edge" =>
      let (g', want) := match g.updateEdge a b w with
        | some (g', e) => (g', showEIx e) | none => (g, "panic")
      match AdjM.updateEdge s a b w with
      | some (s', e) => ({ d with adj := s', ml := g' }, verdict (expect want impl) (showEIx e) impl)
      | none => ({ d with ml := g' }, verdict (expect want impl) "panic" impl)
    | _ => (d, s!"SPECFAIL bad request {req}")
  | ["set_eweight", e, w] =>
    let e := parsePair e
    let (g', want) := match g.get e with
      | some _ => (g.setW e (int w), "ok") | none => (g, "none")
    match AdjM.setEdgeWeight s e (int w) with
    | some s' => ({ d with adj := s', ml := g' }, verdict (expect want impl) "ok" impl)
    | none => ({ d with ml := g' }, verdict (expect want impl) "none" impl)
  | ["clear"] => ({ d with adj := AdjM.clear s, ml := g.clear }, verdict (expect "ok" impl) "ok" impl)
  | ["find_edge", a, b] =>
    let m := match AdjM.findEdge s (nat a) (nat b) with | some e => s!"some {showEIx e}" | none => "none"
    let want := match g.find (nat a) (nat b) with | some e => s!"some {showEIx e.id}" | none => "none"
    (d, verdict (expect want impl) m impl)
  | ["contains", a, b] =>
    (d, verdict (expect (showBool (g.find (nat a) (nat b)).isSome) impl) (showBool (AdjM.containsEdge s (nat a) (nat b))) impl)
  | ["endpoints", e] =>
    let e := parsePair e
    let m := match AdjM.edgeEndpoints s e with | some (a, b) => s!"some {a} {b}" | none => "none"
    let want := match g.get e with | some x => s!"some {x.src} {x.tgt}" | none => "none"
    (d, verdict (expect want impl) m impl)
  | ["eweight", e] =>
    let e := parsePair e
    let m := match AdjM.edgeWeight s e with | some w => s!"some {w}" | none => "none"
    let want := match g.get e with | some x => s!"some {x.w}" | none => "none"
    (d, verdict (expect want impl) m impl)
  | ["from", a] =>
    let a := nat a
    let m := showOpt ((AdjM.edgeIndicesFrom s a).map showPairs)
    let want := if a < g.n then showPairs ((g.outOf a).map (·.id)) else "panic"
    (d, verdict (expect want impl) m impl)
  | ["neighbors", a] =>
    let a := nat a
    let m := showOpt ((AdjM.neighbors s a).map showNats)
    let want := if a < g.n then showNats ((g.outOf a).map (·.tgt)) else "panic"
    (d, verdict (expect want impl) m impl)
  | ["edges", a] =>
    let a := nat a
    let m := showOpt ((AdjM.edgesOf s a).map showLRefs)
    let want := if a < g.n then showLRefs ((g.outOf a).map fun e => (e.id.1, e.id.2, e.tgt, e.w)) else "panic"
    (d, verdict (expect want impl) m impl)
  | ["node_weight", a] =>
    let m := if AdjM.nodeWeight s (nat a) then "some" else "none"
    (d, verdict (expect (if nat a < g.n then "some" else "none") impl) m impl)
  | ["dump", hs] =>
    let hs := (parseRecs hs).map fun r => match r with
      | [a, b] => (nat a, nat b) | _ => (0, 0)
    (d, verdict (adjDumpSpec g hs impl) (adjDumpM s hs) impl)
  | _ => (d, s!"SPECFAIL bad request {req}")

/-! ### `<[usize]>::binary_search` against the mirror's search -/

def showPos : CsrM.Pos → String
  | .found i => s!"ok {i}"
  | .absent i => s!"err {i}"

def parsePos (s : String) : Option CsrM.Pos :=
  match splitWords s with
  | ["ok", i] => i.toNat?.map .found
  | ["err", i] => i.toNat?.map .absent
  | _ => none

/-- `bsearch <xs> <x> => ok i | err i` -/
def stepBsearch (xs : List Nat) (x : Nat) (impl : String) : String :=
  if !sortedB xs then "SPECFAIL generator left the proved range: bsearch on a slice that is not sorted" else
  let m := CsrM.binaryPos xs x (xs.length + 1) 0 xs.length
  match parsePos impl with
  | none => s!"SPECFAIL binary_search: unreadable answer [{impl}]"
  | some p =>
    if !bsContractB xs x p then
      s!"SPECFAIL binary_search answered [{impl}] for {x} in [{showNats xs}], which violates its documented contract"
    else if ascB xs then
      -- strictly ascending: the contract determines the answer, and both branches of the mirror's find_edge_pos search
      -- must give it
      if CsrM.searchPos 0 xs x == m && CsrM.searchPos (xs.length + 1) xs x == m then cmpExact (showPos m) impl
      else s!"SPECFAIL side condition search_branches_agree does not hold on [{showNats xs}] {x}"
    else "ok"

/-! ### dispatch and the run-time checks of the hypotheses -/

def isMutating (req : List String) : Bool :=
  match req with
  | ["new"] | ["with_nodes", _] | ["from_sorted", _] | ["clone"] | ["add_node", _] | ["add_edge", _, _, _]
  | ["try_add_edge", _, _, _] | ["clear_edges"] | ["set_weight", _, _] => true
  | ["with_capacity", _] | ["add_node"] | ["add_node_cap", _] | ["build_add_node"] | ["add_node_from", _]
  | ["build_add_edge", _, _, _] | ["update_edge", _, _, _] | ["set_eweight", _, _] | ["clear"] => true
  | _ => false

/-- after a constructor / mutating line: the (mirror state, specification state) pair must be inside the scope of the
theorems.  A genuine `SPECFAIL` of the line itself is reported first. -/
def scopeVerdict (d : DState) (req : List String) (v : String) : String :=
  if v.startsWith "SPECFAIL" || !isMutating req then v
  else if d.isCsr then
    if !csrScopeB d.csr d.sg then
      "SPECFAIL side condition csr_scope does not hold: the mirror state is not the layout of the specification graph"
    else if !capB d.csr.modulus d.sg.n then
      s!"SPECFAIL generator left the proved range: {d.sg.n} nodes exceed the capacity {d.csr.modulus} of the index type"
    else v
  else
    if !listScopeB d.adj d.ml then
      "SPECFAIL side condition list_scope does not hold: the mirror rows are not the per-source subsequences of the specification log"
    else if !capB d.adj.modulus d.ml.n then
      s!"SPECFAIL side condition list_capacity does not hold: {d.ml.n} nodes exceed the capacity {d.adj.modulus} of the index type"
    else v

def step (d : DState) (req : List String) (impl : String) : DState × String :=
  match req with
  | ["case", k, "csr", ty, w, dbg] =>
    let directed := ty == "dir"
    ({ isCsr := true, csr := CsrM.new directed (modulusOf w) Extracted.Csr.cutoff (dbg == "dbg=1"),
       sg := { directed := directed } }, s!"case {k}")
  | ["case", k, "list", w] =>
    ({ isCsr := false, adj := AdjM.new (modulusOf w), ml := {} }, s!"case {k}")
  | ["case", k, "bsearch"] => ({}, s!"case {k}")
  | ["bsearch", xs, x] =>
    match x.toNat? with
    | some x => (d, stepBsearch (parseNats xs) x impl)
    | none => (d, s!"SPECFAIL bad request {req}")
  | "law" :: name =>
    -- a law the harness checked against the implementation itself (iterator contract on every iterator of csr.rs /
    -- adj.rs, trait views vs inherent readers, VisitMap / reset_map, clone_from, Default, Debug): only `ok` passes
    (d, lawVerdict name impl)
  | "obs" :: rest =>
    if d.isCsr then stepCsr true d rest impl else (d, s!"SPECFAIL bad request {req}")
  | _ =>
    let (d', v) := if d.isCsr then stepCsr false d req impl else stepList d req impl
    (d', scopeVerdict d' req v)

end PetgraphModel.C05
