import PetgraphModel.Common
import PetgraphModel.GraphProto
import PetgraphModel.Oracle.Reach
import PetgraphModel.Model.Traversal
import PetgraphModel.Model.C08VisitMap
/-
C08 driver.  Requests (after a `graph …` line):

  walk dfs|post <script>        script = n<s> (new / move_to s), t<k> (take ≤ k), a (take all), r (reset)
  bfs <start>                   run to exhaustion
  topo all | topo init <list>   run to exhaustion
  dfsv <starts> <script>        depth_first_search; script = string over c/p/b (control per event)

Answers: emitted node ids, `x` marks a `None`; events as D<n>@<t> T<u>-<v> B<u>-<v> C<u>-<v> F<n>@<t>,
followed by `|cont`, `|break` or `|panic`.

Wave 6 (corners; `harness/src/c08/corners.rs`): `walk`, `bfs` and `topo` requests may carry a trailing
`api=<variant>` word — it names the public API route by which the harness obtained the answer (`X::new`,
`Default` + `reset`, a walker around a visit map made for another graph + `reset`, `clone` / `clone_from`,
`from_parts`, `Walker::walk_next`, `WalkerIter`, …); the words before it are the CANONICAL request whose
documented meaning is the same, and only they are interpreted.  New requests:

  dfsvx <kind> <starts> <script>   depth_first_search with the visitor return type `kind`: unit `()`, ctl
                                   `Control<u32>`, resctl `Result<Control<u32>, u32>`, resunit
                                   `Result<(), u32>`; script over c/p/b/e (`e` = `Err(k)`, breaks); answer
                                   `<events>|cont`, `|break@<k>`, `|err@<k>`, `|panic` where the payload `k`
                                   is the index of the event at which the visitor produced the value
  vmap <ops>                       `VisitMap` / `Visitable::reset_map`: v<a> visit, i<a> is_visited, u<a>
                                   unvisit, r reset_map; answer 1/0 per op (`r` for reset)
  law <name> …                     a law checked by the harness against the implementation itself; the
                                   answer must be `ok`

Open finding D6 (`MatrixGraph::edges_directed(_, Incoming)` reports `(node, predecessor)`) reaches C08 through one
adaptor stack only, `&EdgeFiltered<&NodeFiltered<&MatrixGraph>>` (`NodeFiltered::edges_directed` tests
`edge.source()`): its `graph` line and its `topo` answers are classified `KNOWN D6` narrowly (`repairD6`; the case
line's `enc=` word must name that stack, the outgoing lists must be right, the incoming lists must become right once
entries outside the view are dropped, and a Topo answer must equal the mirror model run on the view as presented).

Per case the `graph` line is checked for the side conditions of the theorems (`viewOkB`, `wfB`,
`closedB`); per request the start nodes must be nodes of the view (`nodesB`).
-/
namespace PetgraphModel.C08
open PetgraphModel PetgraphModel.Trav PetgraphModel.Oracle

structure DState where
  v : View := default
  ok : Bool := false
  /-- the `enc=` word of the case line (which storage type / adaptor the view is) -/
  enc : String := ""
  /-- open finding D6 applies to this case: `vLeak` is the view as the implementation presents it (incoming
  lists with filtered-out predecessors), `v` the view repaired to the abstract graph -/
  d6 : Bool := false
  vLeak : View := default

def bigFuel (v : View) : Nat := 4 * v.g.edges.length + 2 * v.g.nodes.length + 16

def removeNodes (g : MGraph) (d : List Nat) : MGraph :=
  { g with nodes := g.nodes.filter (fun x => !d.contains x),
           edges := g.edges.filter fun e => !d.contains e.src && !d.contains e.tgt }

/-- the view's neighbour lists describe the abstract graph (as multisets) -/
def viewOkB (v : View) : Bool :=
  v.g.nodes.all fun a => sameSet (v.succ a) (v.g.succ a) && sameSet (v.pred a) (v.g.pred a)

inductive Cmd where | new (s : Nat) | take (k : Nat) | all | reset
  deriving Repr

def parseScript (s : String) : List Cmd :=
  (s.splitOn ",").filterMap fun t =>
    if t == "a" then some .all else if t == "r" then some .reset
    else if t.startsWith "n" then (t.drop 1).toString.toNat?.map .new
    else if t.startsWith "t" then (t.drop 1).toString.toNat?.map .take
    else none

def showTok : Option Nat → String
  | some n => toString n
  | none => "x"

/-- run `k` (or all, `k = none`) steps of a walker -/
def takeN {σ} (next : σ → Option (Option Nat × σ)) : Nat → Option Nat → σ → List String → σ × List String
  | 0, _, s, acc => (s, acc ++ ["FUEL"])
  | f+1, k, s, acc =>
    if k == some 0 then (s, acc) else
    match next s with
    | none => (s, acc ++ ["FUEL"])
    | some (none, s') => (s', acc ++ ["x"])
    | some (some n, s') => takeN next f (k.map (· - 1)) s' (acc ++ [toString n])

def runDfs (v : View) (cmds : List Cmd) : List String :=
  let f := bigFuel v
  (cmds.foldl (fun (st : Dfs × List String) c =>
    match c with
    | .new s => (st.1.moveTo s, st.2)
    | .reset => (st.1.reset, st.2)
    | .take k => takeN (dfsNext v f) (f + 4) (some k) st.1 st.2
    | .all => takeN (dfsNext v f) (f + 4) none st.1 st.2) ({}, [])).2

def runPost (v : View) (cmds : List Cmd) : List String :=
  let f := 2 * bigFuel v
  (cmds.foldl (fun (st : Post × List String) c =>
    match c with
    | .new s => (st.1.moveTo s, st.2)
    | .reset => (({} : Post), st.2)
    | .take k => takeN (postNext v f) (f + 4) (some k) st.1 st.2
    | .all => takeN (postNext v f) (f + 4) none st.1 st.2) ({}, [])).2

def joinToks (l : List String) : String := if l.isEmpty then "-" else String.intercalate "," l

/-- nodes emitted (tokens that are numbers) -/
def toksNodes (s : String) : List Nat := if s == "-" then [] else (s.splitOn ",").filterMap (·.toNat?)

/-! ### spec-level judges (built on the proved `reachFrom`) -/

/-! #### `walk` scripts: decoding the answer into segments

A *segment* is what one `move_to` (or the creation of the walker) is followed by until the next
`move_to` / `reset`: the nodes the walker emitted, in order, and whether it was seen to return `None`.
`decodeCmds` only splits the answer tokens along the script (protocol decoding); what a segment has to
satisfy is `judgeSegDfs` / `judgeSegPost`, proved sound in `Proofs/C08W4Script.lean`. -/

structure Seg where
  /-- nodes emitted earlier since creation / the last reset, newest first -/
  base : List Nat := []
  /-- `none`: the walker has not been moved to a node since creation / the last reset -/
  start : Option Nat := none
  /-- nodes emitted in this segment, in order -/
  out : List Nat := []
  /-- the walker returned `None` in this segment -/
  exhausted : Bool := false
  /-- (`DfsPostOrder`) a segment since the last reset was left before the walker returned `None` -/
  dirty : Bool := false
  deriving Repr, Inhabited

/-- answer tokens: `some n` = the walker returned node `n`, `none` = it returned `None` (`x`) -/
def parseToks (s : String) : Option (List (Option Nat)) :=
  if s == "-" then some [] else
  (s.splitOn ",").mapM fun t => if t == "x" then some none else t.toNat?.map some

/-- serve a "take ≤ k" command: up to `k` tokens, stopping after a `None` -/
def decodeTake : Nat → Seg → List (Option Nat) → Except String (Seg × List (Option Nat))
  | 0, sg, toks => .ok (sg, toks)
  | _+1, _, [] => .error "answer ends before the script is served"
  | _+1, sg, none :: r => .ok ({ sg with exhausted := true }, r)
  | k+1, sg, some n :: r =>
    if sg.exhausted then .error s!"node {n} emitted after the walker had returned None"
    else decodeTake k { sg with out := sg.out ++ [n] } r

def decodeCmds : List Cmd → List Seg → Seg → List (Option Nat) → Except String (List Seg)
  | [], done, cur, toks =>
    if toks.isEmpty then .ok (cur :: done).reverse else .error "answer has more tokens than the script asks for"
  | .reset :: cs, done, cur, toks => decodeCmds cs (cur :: done) {} toks
  | .new s :: cs, done, cur, toks =>
    decodeCmds cs (cur :: done)
      { base := cur.out.reverse ++ cur.base, start := some s,
        dirty := cur.dirty || (cur.start.isSome && !cur.exhausted) } toks
  | .take k :: cs, done, cur, toks =>
    match decodeTake k cur toks with
    | .error e => .error e
    | .ok (cur', r) => decodeCmds cs done cur' r
  | .all :: cs, done, cur, toks =>
    match decodeTake (toks.length + 1) cur toks with
    | .error e => .error e
    | .ok (cur', r) => decodeCmds cs done cur' r

def decodeScript (cmds : List Cmd) (toks : List (Option Nat)) : Except String (List Seg) :=
  decodeCmds cmds [] {} toks

/-- first element of `l` that is in `seen` or occurs again later in `l` -/
def firstDup (seen : List Nat) : List Nat → Option Nat
  | [] => none
  | x :: l => if seen.contains x || l.contains x then some x else firstDup seen l

/-- the set a segment may emit: reachable from the start through nodes not emitted before -/
def segAllowed (g : MGraph) (sg : Seg) (s : Nat) : Option (List Nat) :=
  if sg.base.contains s then some [] else reachFrom (removeNodes g sg.base) s

/-- set clauses of one segment (`Dfs`, and `DfsPostOrder` while no segment was abandoned): nothing
emitted twice (also w.r.t. earlier segments), only nodes reachable from the start through nodes not
emitted before, and all of them once the walker returned `None`. -/
def judgeSegSet (g : MGraph) (sg : Seg) : Option String :=
  match sg.start with
  | none => if sg.out.isEmpty then none else some s!"a walker without start node emitted {showNats sg.out}"
  | some s =>
    match firstDup sg.base sg.out with
    | some n => some s!"node {n} emitted twice"
    | none =>
      match segAllowed g sg s with
      | none => none
      | some al =>
        match sg.out.find? fun n => !al.contains n with
        | some n => some s!"node {n} is not reachable from the start through nodes not emitted before"
        | none =>
          if sg.exhausted && !(sameSet sg.out al) then
            some s!"walker stopped after {showNats sg.out}, reachable-and-new set is {showNats al}"
          else none

def judgeSegDfs (g : MGraph) (sg : Seg) : Option String := judgeSegSet g sg

/-- the order clause of `DfsPostOrder` on a complete segment: every emitted node comes after each of
its successors that cannot reach it back (such a successor was emitted in an earlier segment or
earlier in this one) -/
def postOrderBad (g : MGraph) (sg : Seg) : Option Nat :=
  sg.out.find? fun x => (g.succ x).any fun y =>
    (reachB g y x == some false) && !(sg.base.contains y || (sg.out.contains y && sg.out.idxOf y < sg.out.idxOf x))

/-- `DfsPostOrder` (`C08_postorder_moveTo`, `C08_postorder_moveTo_order`): while every earlier segment
since the last reset was run to exhaustion, discovered = finished = emitted, so the set clauses of
`judgeSegSet` apply and, once the segment is complete, the order clause.  After an abandoned segment
(`dirty`) only "no node is emitted twice since the last reset" is judged. -/
def judgeSegPost (g : MGraph) (sg : Seg) : Option String :=
  if sg.dirty then
    (firstDup sg.base sg.out).map fun n => s!"node {n} emitted twice"
  else
    match judgeSegSet g sg with
    | some e => some e
    | none =>
      if sg.exhausted then
        (postOrderBad g sg).map fun x =>
          s!"node {x} is emitted before a successor that cannot reach it back: {showNats sg.out} (earlier: {showNats sg.base.reverse})"
      else none

def judgeDfs (g : MGraph) (cmds : List Cmd) (toks : List (Option Nat)) : Option String :=
  match decodeScript cmds toks with
  | .error e => some e
  | .ok segs => segs.findSome? (judgeSegDfs g)

def judgePostScript (g : MGraph) (cmds : List Cmd) (toks : List (Option Nat)) : Option String :=
  match decodeScript cmds toks with
  | .error e => some e
  | .ok segs => segs.findSome? (judgeSegPost g)

/-- hop distance from `s` by layered expansion (`none` = unreachable) -/
def hopDist (g : MGraph) (s : Nat) : Nat → List Nat → List Nat → Nat → Nat → Option Nat
  | 0, _, _, _, _ => none
  | f+1, frontier, seen, d, x =>
    if frontier.contains x then some d
    else if frontier.isEmpty then none
    else
      let next := (frontier.flatMap g.succ).eraseDups.filter fun y => !seen.contains y && !frontier.contains y
      hopDist g s f next (frontier ++ seen) (d + 1) x

def judgeSetFrom (g : MGraph) (s : Nat) (out : List Nat) : Option String :=
  if !(out.eraseDups.length == out.length) then some s!"a node is emitted twice: {showNats out}" else
  match reachFrom g s with
  | none => none
  | some r => if sameSet r out then none else some s!"emitted {showNats out}, reachable set is {showNats r}"

/-- non-decreasing -/
def nondecB : List Nat → Bool
  | a :: b :: t => decide (a ≤ b) && nondecB (b :: t)
  | _ => true

/-- the distance claimed for `x`: the entry of `ds` at the position of `x` in `out` -/
def distOf (out ds : List Nat) (x : Nat) : Nat := ds.getD (out.idxOf x) 0

/-- hop-distance certificate: `ds` (one entry per emitted node) are the true hop distances from `s`
provided `out` is the reachable set (`judgeSetFrom`), the start has distance 0, no edge out of an emitted
node increases the distance by more than one, and every other emitted node has a predecessor one step
closer (`C08_judgeBfs_sound`).  The distances themselves come from the unverified `hopDist`; a wrong
value can only make the certificate fail. -/
def distCertBad (g : MGraph) (s : Nat) (out ds : List Nat) : Option String :=
  if distOf out ds s != 0 then some "hop-distance certificate: the start is not at distance 0" else
  match out.find? fun u => (g.succ u).any fun w => !(out.contains w && decide (distOf out ds w ≤ distOf out ds u + 1)) with
  | some u => some s!"hop-distance certificate: an edge out of {u} skips a level"
  | none =>
    match out.find? fun x => x != s && !((g.pred x).any fun p => out.contains p && distOf out ds p + 1 == distOf out ds x) with
    | some x => some s!"hop-distance certificate: {x} has no predecessor one level closer"
    | none => none

def judgeBfs (g : MGraph) (s : Nat) (out : List Nat) : Option String :=
  match judgeSetFrom g s out with
  | some e => some e
  | none =>
    let ds := out.map fun x => (hopDist g s (g.nodes.length + 2) [s] [] 0 x).getD 0
    match distCertBad g s out ds with
    | some e => some s!"{e} (nodes {showNats out} distances {showNats ds})"
    | none =>
      if nondecB ds then none
      else some s!"hop distances not non-decreasing: nodes {showNats out} distances {showNats ds}"

/-- nodes on or downstream of a cycle -/
def cyclicOrDownstream (g : MGraph) : List Nat :=
  let onCycle := g.nodes.filter fun c => (g.succ c).any fun y => reachB g y c == some true
  g.nodes.filter fun x => onCycle.any fun c => reachB g c x == some true

def judgeTopoAll (g : MGraph) (out : List Nat) : Option String :=
  if !(out.eraseDups.length == out.length) then some s!"a node is emitted twice: {showNats out}" else
  let bad := cyclicOrDownstream g
  let want := g.nodes.filter fun x => !bad.contains x
  if !(sameSet want out) then some s!"Topo emitted {showNats out}, nodes neither on nor downstream of a cycle: {showNats want}" else
  let pos := fun x => out.idxOf x
  match out.find? fun x => (g.pred x).any fun p => !(pos p < pos x) with
  | some x => some s!"node {x} is emitted before one of its predecessors: {showNats out}"
  | none => none

def judgeTopoInit (g : MGraph) (out : List Nat) : Option String :=
  if !(out.eraseDups.length == out.length) then some s!"a node is emitted twice: {showNats out}" else
  let pos := fun x => out.idxOf x
  match out.find? fun x => (g.pred x).any fun p => !(out.contains p && pos p < pos x) with
  | some x => some s!"node {x} is emitted before one of its predecessors: {showNats out}"
  | none => none

/-! ### depth_first_search events -/
def showEv : Ev → String
  | .discover n t => s!"D{n}@{t}" | .tree u w => s!"T{u}-{w}" | .back u w => s!"B{u}-{w}"
  | .cross u w => s!"C{u}-{w}" | .finish n t => s!"F{n}@{t}"

def parsePair (s : String) (sep : String) : Option (Nat × Nat) :=
  match s.splitOn sep with
  | [a, b] => match a.toNat?, b.toNat? with
    | some a, some b => some (a, b)
    | _, _ => none
  | _ => none

def parseEv (s : String) : Option Ev :=
  let body := (s.drop 1).toString
  if s.startsWith "D" then (parsePair body "@").map fun (n, t) => .discover n t
  else if s.startsWith "F" then (parsePair body "@").map fun (n, t) => .finish n t
  else if s.startsWith "T" then (parsePair body "-").map fun (u, w) => .tree u w
  else if s.startsWith "B" then (parsePair body "-").map fun (u, w) => .back u w
  else if s.startsWith "C" then (parsePair body "-").map fun (u, w) => .cross u w
  else none

def parseCtl (s : String) : List Ctl :=
  s.toList.filterMap fun c => if c == 'c' then some .cont else if c == 'p' then some .prune else if c == 'b' then some .brk else none

/-! #### spec-level replay of a `depth_first_search` event stream

`judgeEvents` checks stack discipline, times, edge classes and the control script against the
ABSTRACT graph only (independent of neighbour order): the edges reported from a node must form a
sub-multiset of its successors, the whole multiset when the node is finished without having been
pruned.  It is a fold of the pure step function `jstep` over the judge state `JS`;
`Proofs/C08W4Judge.lean` proves it sound (`C08_judgeEvents_sound`: an accepted stream is a run of the
reference machine on some neighbour order of the abstract graph, hence satisfies every clause
`C08_dfsv_*` states of the model). -/

structure JS where
  disc : List Nat := []
  fin : List Nat := []
  /-- open calls, innermost first: (node, targets reported so far — newest first, pruned at Discover) -/
  stack : List (Nat × List Nat × Bool) := []
  time : Nat := 0
  /-- index of the next event -/
  k : Nat := 0
  /-- a `TreeEdge(_, w)` answered `Continue` must be followed by `Discover(w)` -/
  pending : Option Nat := none
  /-- start nodes not yet used as a root -/
  startsLeft : List Nat := []
  deriving Repr, Inhabited

def jDiscover (ctl : Ctl) (s : JS) (u t : Nat) : Except String JS :=
  if t != s.time then .error s!"event {s.k}: time {t}, expected {s.time}" else
  if s.disc.contains u then .error s!"event {s.k}: {u} discovered twice" else
  match s.pending with
  | some w =>
    if u != w then .error s!"event {s.k}: TreeEdge to {w} not followed by its Discover"
    else .ok { s with time := s.time + 1, disc := u :: s.disc, stack := (u, [], ctl == .prune) :: s.stack,
                      pending := none }
  | none =>
    if !s.stack.isEmpty then .error s!"event {s.k}: Discover {u} inside an open call without a TreeEdge to it" else
    -- must be the next start that is not yet discovered
    match s.startsLeft.dropWhile fun x => s.disc.contains x with
    | x :: r =>
      if x != u then .error s!"event {s.k}: root {u}, expected start {x}"
      else .ok { s with time := s.time + 1, disc := u :: s.disc, stack := (u, [], ctl == .prune) :: s.stack,
                        startsLeft := r }
    | [] => .error s!"event {s.k}: Discover {u} without a start"

/-- the class the target's state demands: 0 = tree (undiscovered), 1 = back (discovered, unfinished),
2 = cross/forward (finished) -/
def edgeWant (s : JS) (w : Nat) : Nat :=
  if !s.disc.contains w then 0 else if !s.fin.contains w then 1 else 2

/-- `cls`: 0 = tree, 1 = back, 2 = cross/forward -/
def jEdge (g : MGraph) (ctl : Ctl) (s : JS) (cls u w : Nat) : Except String JS :=
  match s.pending with
  | some x => .error s!"event {s.k}: TreeEdge to {x} not followed by its Discover"
  | none =>
    match s.stack with
    | (top, seen, pruned) :: rest =>
      if top != u then .error s!"event {s.k}: edge from {u} while {top} is being explored" else
      if pruned then .error s!"event {s.k}: edge reported from pruned node {u}" else
      if ((g.succ u).count w) ≤ seen.count w then .error s!"event {s.k}: edge {u}->{w} reported more often than it exists" else
      if cls != edgeWant s w then .error s!"event {s.k}: edge {u}->{w} misclassified (got class {cls}, expected {edgeWant s w}; 0=tree 1=back 2=cross/forward)" else
      .ok { s with stack := (top, w :: seen, pruned) :: rest,
                   pending := if cls == 0 && ctl == .cont then some w else none }
    | [] => .error s!"event {s.k}: edge event outside any Discover/Finish pair"

def jFinish (g : MGraph) (s : JS) (u t : Nat) : Except String JS :=
  match s.pending with
  | some x => .error s!"event {s.k}: TreeEdge to {x} not followed by its Discover"
  | none =>
    if t != s.time then .error s!"event {s.k}: time {t}, expected {s.time}" else
    match s.stack with
    | (top, seen, pruned) :: rest =>
      if top != u then .error s!"event {s.k}: Finish {u} while {top} is open (not well nested)" else
      if !pruned && !(sameSet seen (g.succ u)) then
        .error s!"event {s.k}: Finish {u} after edges to {showNats seen}, its successors are {showNats (g.succ u)}"
      else .ok { s with time := s.time + 1, fin := u :: s.fin, stack := rest }
    | [] => .error s!"event {s.k}: Finish {u} without Discover"

/-- one event, answered by the visitor with `ctl` -/
def jstep (g : MGraph) (ctl : Ctl) (s : JS) : Ev → Except String JS
  | .discover u t => jDiscover ctl s u t
  | .tree u w => jEdge g ctl s 0 u w
  | .back u w => jEdge g ctl s 1 u w
  | .cross u w => jEdge g ctl s 2 u w
  | .finish u t => jFinish g s u t

def isFinishEv : Ev → Bool
  | .finish .. => true
  | _ => false

def jrun (g : MGraph) (script : List Ctl) (res : String) : JS → List Ev → Option String
  | s, [] =>
    match s.pending with
    | some _ => some "stream ends after a TreeEdge"
    | none =>
      if !s.stack.isEmpty then some "stream ends with unfinished nodes" else
      match s.startsLeft.dropWhile fun x => s.disc.contains x with
      | x :: _ => some s!"start {x} was never discovered"
      | [] => if res == "cont" then none else some s!"complete traversal but result is {res}"
  | s, e :: rest =>
    let ctl := ctlAt script s.k
    match jstep g ctl s e with
    | .error m => some m
    | .ok s' =>
      if ctl == .brk then
        if !rest.isEmpty then some s!"event {s.k}: visitor returned Break but {rest.length} more events followed"
        else if res == "break" then none else some s!"Break at event {s.k} but result is {res}"
      else if ctl == .prune && isFinishEv e then
        if rest.isEmpty && res == "panic" then none else some "Prune on Finish must panic (documented)"
      else jrun g script res { s' with k := s.k + 1 } rest

def judgeEvents (g : MGraph) (starts : List Nat) (script : List Ctl) (evs : List Ev) (res : String) : Option String :=
  jrun g script res { startsLeft := starts } evs

def bfsAll (v : View) : Nat → Bfs → List Nat → List Nat
  | 0, _, acc => acc
  | f+1, b, acc => match bfsNext v b with
    | (none, _) => acc
    | (some x, b') => bfsAll v f b' (acc ++ [x])

def topoAll (v : View) (fuel : Nat) : Nat → Topo → List Nat → List Nat
  | 0, _, acc => acc
  | k+1, t, acc => match topoNext v fuel t with
    | some (some x, t') => topoAll v fuel k t' (acc ++ [x])
    | _ => acc

def verdict (spec : Option String) (model impl : String) : String :=
  match spec with
  | some why => s!"SPECFAIL {why}"
  | none => cmpExact model impl

/-! ### run-time checks of the hypotheses of the theorems

Every hypothesis of a `C08_*` theorem that concerns the concrete case is evaluated here on every case
the driver judges; `Theorems/C08.lean` (section "run-time checks of the hypotheses") proves that each
Boolean implies the hypothesis it stands for. -/

def nodupB : List Nat → Bool
  | [] => true
  | x :: l => !l.contains x && nodupB l

/-- `MGraph.WellFormed`: node ids are distinct and every edge joins two nodes -/
def wfB (g : MGraph) : Bool :=
  nodupB g.nodes && g.edges.all fun e => g.nodes.contains e.src && g.nodes.contains e.tgt

/-- the view lists no neighbour for an id that is not a node -/
def closedB (v : View) : Bool :=
  (v.out.all fun p => v.g.nodes.contains p.1 || p.2.isEmpty) &&
  (v.inn.all fun p => v.g.nodes.contains p.1 || p.2.isEmpty)

/-- all of `l` are nodes of the view -/
def nodesB (v : View) (l : List Nat) : Bool := l.all fun x => v.g.nodes.contains x

def cmdStarts (cmds : List Cmd) : List Nat :=
  cmds.filterMap fun c => match c with | .new s => some s | _ => none

/-- `Topo::with_initials`: the driver's inner fuel covers a duplicate-free list, or any list of at
most 14 entries (`C08_driver_topo_init_total`) -/
def initsOkB (l : List Nat) : Bool := nodupB l || decide (l.length ≤ 14)

def outOfRange (what : String) (l : List Nat) : String :=
  s!"SPECFAIL generator left the proved range: {what} {showNats l} not all among the nodes of the view"

/-! ### wave 6: open finding D6 seen through an adaptor stack -/

/-- the one encoding whose incoming lists D6 corrupts -/
def d6Enc : String := "matrix-directed+edgefiltered-of-nodefiltered"

/-- drop from the incoming lists every entry that is not a node of the view -/
def repairD6 (v : View) : View :=
  { v with inn := v.inn.map fun (a, row) => (a, row.filter fun p => v.g.nodes.contains p.1) }

/-! ### wave 6: visitor return types, `VisitMap` -/

/-- `e` (`Err(_)`) breaks like `b` (`ControlFlow for Result`: "upon encountering an `E` it will break") -/
def parseCtlX (s : String) : List Ctl :=
  s.toList.filterMap fun c =>
    if c == 'c' then some .cont else if c == 'p' then some .prune
    else if c == 'b' || c == 'e' then some .brk else none

/-- the script is expressible in the visitor's return type -/
def kindOkB (kind script : String) : Bool :=
  match kind with
  | "unit" => script.toList.all (· == 'c')
  | "resunit" => script.toList.all fun c => c == 'c' || c == 'e'
  | "ctl" => script.toList.all fun c => c == 'c' || c == 'p' || c == 'b'
  | "resctl" => script.toList.all fun c => c == 'c' || c == 'p' || c == 'b' || c == 'e'
  | _ => false

/-- what `depth_first_search` must return when the visitor broke at event `k`: the visitor's own value
(`Break(k)` or `Err(k)`) -/
def breakTok (script : String) (k : Nat) : String :=
  if script.toList.getD k 'c' == 'e' then s!"err@{k}" else s!"break@{k}"

/-- normalise the result part of a `dfsvx` answer to what `judgeEvents` speaks about; `none` = the value
returned is not the one the visitor produced at the last event -/
def normResult (script : String) (ctl : List Ctl) (nevs : Nat) (ri : String) : Option String :=
  if ri == "cont" || ri == "panic" then some ri
  else if nevs > 0 && ri == breakTok script (nevs - 1) && ctlAt ctl (nevs - 1) == .brk then some "break"
  else none

def vmapAnswer (ops : List VMap.Op) : String :=
  joinToks ((VMap.run [] ops).map VMap.showAns)

def parseEvs (s : String) : Option (List Ev) :=
  if s == "-" then some [] else (s.splitOn ",").mapM parseEv

def step (d : DState) (req : List String) (impl : String) : DState × String :=
  match req with
  | ["case", k] => ({}, s!"case {k}")
  | "case" :: k :: rest => ({ enc := (field? rest "enc").getD "" }, s!"case {k}")
  | "law" :: _ =>
    if impl == "ok" then (d, "ok") else (d, s!"SPECFAIL law does not hold: {String.intercalate " " req}: {impl}")
  | "graph" :: _ =>
    match parseView req with
    | none => (d, "SPECFAIL unparsable graph line")
    | some v =>
      if !viewOkB v then
        -- open finding D6, classified narrowly: only the one adaptor stack that reads `edges_directed(_, Incoming)`
        -- of a directed MatrixGraph through `NodeFiltered` (which tests `edge.source()` — D6 makes that the node
        -- itself), only the incoming lists may be wrong, and only by listing nodes outside the view
        let vR := repairD6 v
        if d.enc == d6Enc && viewOkB vR && wfB vR.g && closedB vR && v.out == vR.out then
          ({ d with v := vR, vLeak := v, ok := true, d6 := true },
           "KNOWN D6 &EdgeFiltered<&NodeFiltered<&MatrixGraph>>::neighbors_directed(_, Incoming) lists filtered-out predecessors: NodeFiltered::edges_directed(_, Incoming) tests edge.source(), which a directed MatrixGraph reports as the node itself")
        else
        ({ d with v := v, ok := false }, "SPECFAIL neighbour iteration of this encoding does not describe the abstract graph")
      else if !wfB v.g then
        ({ d with v := v, ok := false }, "SPECFAIL side condition wellFormed does not hold: node ids repeat or an edge joins a non-node")
      else if !closedB v then
        ({ d with v := v, ok := false }, "SPECFAIL side condition viewClosed does not hold: the view lists neighbours of an id that is not a node")
      else ({ d with v := v, ok := true }, "ok")
  | _ =>
  if !d.ok then (d, "SPECFAIL side condition view does not hold: the graph line of this case is missing or was rejected") else
  match req with
  | "walk" :: kind :: script :: _ =>
    let cmds := parseScript script
    if !nodesB d.v (cmdStarts cmds) then (d, outOfRange "move_to targets" (cmdStarts cmds)) else
    if impl == "panic" then (d, "SPECFAIL walker panicked") else
    match parseToks impl with
    | none => (d, s!"SPECFAIL malformed answer {impl}")
    | some toks =>
    match kind with
    | "dfs" => (d, verdict (judgeDfs d.v.g cmds toks) (joinToks (runDfs d.v cmds)) impl)
    | "post" => (d, verdict (judgePostScript d.v.g cmds toks) (joinToks (runPost d.v cmds)) impl)
    | _ => (d, "SPECFAIL bad request")
  | "bfs" :: s :: _ =>
    match s.toNat? with
    | none => (d, "SPECFAIL bad request")
    | some s =>
    if !nodesB d.v [s] then (d, outOfRange "start" [s]) else
    if impl == "panic" then (d, "SPECFAIL walker panicked") else
    let m := bfsAll d.v (d.v.g.nodes.length + 2) (Bfs.new s) []
    (d, verdict (judgeBfs d.v.g s (toksNodes impl)) (showNats m) impl)
  | "topo" :: mode :: rest =>
    let inits := parseNats (rest.headD "-")
    if mode != "all" && !nodesB d.v inits then (d, outOfRange "initial nodes" inits) else
    if mode != "all" && !initsOkB inits then
      (d, s!"SPECFAIL generator left the proved range: {inits.length} initial nodes with repetitions (fuel bound proved for at most 14)") else
    if impl == "panic" then (d, "SPECFAIL walker panicked") else
    let t0 := if mode == "all" then Topo.new d.v else Topo.withInitials d.v inits
    let f := bigFuel d.v
    let m := topoAll d.v f (d.v.g.nodes.length + 2) t0 []
    let spec := if mode == "all" then judgeTopoAll d.v.g (toksNodes impl) else judgeTopoInit d.v.g (toksNodes impl)
    if d.d6 then
      -- D6: Topo reads the corrupted incoming lists; the answer is attributed to D6 only if it is exactly what
      -- the mirror model computes on the view as presented
      let tL := if mode == "all" then Topo.new d.vLeak else Topo.withInitials d.vLeak inits
      let mL := topoAll d.vLeak (bigFuel d.vLeak) (d.vLeak.g.nodes.length + 2) tL []
      if impl == showNats mL then
        match spec with
        | some why => (d, s!"KNOWN D6 Topo over the view with filtered-out predecessors in its incoming lists: {why}")
        | none => (d, "ok")
      else (d, verdict spec (showNats m) impl)
    else
    (d, verdict spec (showNats m) impl)
  | ["dfsv", starts, script] =>
    let starts := parseNats starts
    let script := parseCtl script
    if !nodesB d.v starts then (d, outOfRange "start nodes" starts) else
    let f := 4 * bigFuel d.v
    let (s, r) := dfsSearch d.v script f starts {}
    let rs := match r with | .cont => "cont" | .brk => "break" | .panicPruneFinish => "panic" | .fuel => "FUEL"
    let evm := s.evs.reverse.map showEv
    let m := (if evm.isEmpty then "-" else String.intercalate "," evm) ++ "|" ++ rs
    match impl.splitOn "|" with
    | [evi, ri] =>
      match parseEvs evi with
      | none => (d, s!"SPECFAIL malformed event stream {evi}")
      | some evs => (d, verdict (judgeEvents d.v.g starts script evs ri) m impl)
    | _ => (d, s!"SPECFAIL malformed answer {impl}")
  | ["dfsvx", kind, starts, scriptS] =>
    let starts := parseNats starts
    if !kindOkB kind scriptS then (d, s!"SPECFAIL bad request: script {scriptS} is not expressible with visitor return type {kind}") else
    let script := parseCtlX scriptS
    if !nodesB d.v starts then (d, outOfRange "start nodes" starts) else
    let f := 4 * bigFuel d.v
    let (s, r) := dfsSearch d.v script f starts {}
    let rs := match r with
      | .cont => "cont" | .brk => breakTok scriptS (s.evs.length - 1) | .panicPruneFinish => "panic" | .fuel => "FUEL"
    let evm := s.evs.reverse.map showEv
    let m := (if evm.isEmpty then "-" else String.intercalate "," evm) ++ "|" ++ rs
    match impl.splitOn "|" with
    | [evi, ri] =>
      match parseEvs evi with
      | none => (d, s!"SPECFAIL malformed event stream {evi}")
      | some evs =>
        match normResult scriptS script evs.length ri with
        | none => (d, s!"SPECFAIL depth_first_search returned {ri} after {evs.length} events; the visitor's value at the last event would be {breakTok scriptS (evs.length - 1)} (script {scriptS})")
        | some res => (d, verdict (judgeEvents d.v.g starts script evs res) m impl)
    | _ => (d, s!"SPECFAIL malformed answer {impl}")
  | "vmap" :: opsS :: _ =>
    match VMap.parseOps opsS with
    | none => (d, "SPECFAIL bad request")
    | some ops =>
      if !nodesB d.v (VMap.opIds ops) then (d, outOfRange "visit map keys" (VMap.opIds ops)) else
      let m := vmapAnswer ops
      if impl == m then (d, "ok")
      else (d, s!"SPECFAIL VisitMap / reset_map: answers {impl}, a set of nodes answers {m}")
  | _ => (d, s!"SPECFAIL bad request {req}")

end PetgraphModel.C08
