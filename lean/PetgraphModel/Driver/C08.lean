import PetgraphModel.Common
import PetgraphModel.GraphProto
import PetgraphModel.Oracle.Reach
import PetgraphModel.Model.Traversal
/-
C08 driver.  Requests (after a `graph …` line):

  walk dfs|post <script>        script = n<s> (new / move_to s), t<k> (take ≤ k), a (take all), r (reset)
  bfs <start>                   run to exhaustion
  topo all | topo init <list>   run to exhaustion
  dfsv <starts> <script>        depth_first_search; script = string over c/p/b (control per event)

Answers: emitted node ids, `x` marks a `None`; events as D<n>@<t> T<u>-<v> B<u>-<v> C<u>-<v> F<n>@<t>,
followed by `|cont`, `|break` or `|panic`.
-/
namespace PetgraphModel.C08
open PetgraphModel PetgraphModel.Trav PetgraphModel.Oracle

structure DState where
  v : View := default
  ok : Bool := false

def bigFuel (v : View) : Nat := 4 * v.g.edges.length + 2 * v.g.nodes.length + 16

def removeNodes (g : MGraph) (d : List Nat) : MGraph :=
  { g with nodes := g.nodes.filter (fun x => !d.contains x),
           edges := g.edges.filter fun e => !d.contains e.src && !d.contains e.tgt }

/-- the view's neighbour lists describe the abstract graph (as multisets) -/
def viewOkB (v : View) : Bool :=
  v.g.nodes.all fun a => sameSet (v.succ a) (v.g.succ a) && sameSet (v.pred a) (v.g.pred a)

inductive Cmd where | new (s : Nat) | take (k : Nat) | all | reset
  deriving Repr

def parseScript (s : String) : List Cmd :=
  (s.splitOn ",").filterMap fun t =>
    if t == "a" then some .all else if t == "r" then some .reset
    else if t.startsWith "n" then (t.drop 1).toString.toNat?.map .new
    else if t.startsWith "t" then (t.drop 1).toString.toNat?.map .take
    else none

def showTok : Option Nat → String
  | some n => toString n
  | none => "x"

/-- run `k` (or all, `k = none`) steps of a walker -/
def takeN {σ} (next : σ → Option (Option Nat × σ)) : Nat → Option Nat → σ → List String → σ × List String
  | 0, _, s, acc => (s, acc ++ ["FUEL"])
  | f+1, k, s, acc =>
    if k == some 0 then (s, acc) else
    match next s with
    | none => (s, acc ++ ["FUEL"])
    | some (none, s') => (s', acc ++ ["x"])
    | some (some n, s') => takeN next f (k.map (· - 1)) s' (acc ++ [toString n])

def runDfs (v : View) (cmds : List Cmd) : List String :=
  let f := bigFuel v
  (cmds.foldl (fun (st : Dfs × List String) c =>
    match c with
    | .new s => (st.1.moveTo s, st.2)
    | .reset => (st.1.reset, st.2)
    | .take k => takeN (dfsNext v f) (f + 4) (some k) st.1 st.2
    | .all => takeN (dfsNext v f) (f + 4) none st.1 st.2) ({}, [])).2

def runPost (v : View) (cmds : List Cmd) : List String :=
  let f := 2 * bigFuel v
  (cmds.foldl (fun (st : Post × List String) c =>
    match c with
    | .new s => (st.1.moveTo s, st.2)
    | .reset => (({} : Post), st.2)
    | .take k => takeN (postNext v f) (f + 4) (some k) st.1 st.2
    | .all => takeN (postNext v f) (f + 4) none st.1 st.2) ({}, [])).2

def joinToks (l : List String) : String := if l.isEmpty then "-" else String.intercalate "," l

/-- nodes emitted (tokens that are numbers) -/
def toksNodes (s : String) : List Nat := if s == "-" then [] else (s.splitOn ",").filterMap (·.toNat?)

/-! ### spec-level judges (built on the proved `reachFrom`) -/

/-- Dfs with move_to/reset: replay the script against the implementation's tokens.  Per segment
(since the last `new`) the emitted nodes must be new, reachable from the segment's start through
nodes undiscovered at `move_to`, and on `a` the segment must be complete. -/
def judgeDfs (g : MGraph) (cmds : List Cmd) (toks : List String) : Option String := Id.run do
  let mut disc : List Nat := []        -- discovered since creation / reset
  let mut seg : List Nat := []         -- emitted since the last move_to
  let mut allowed : Option (List Nat) := some []   -- reachable set of the current segment
  let mut rest := toks
  let mut exhausted := true
  for c in cmds do
    match c with
    | .reset => disc := []; seg := []; allowed := some []; exhausted := true
    | .new s =>
      seg := []
      exhausted := false
      allowed := if disc.contains s then some [] else reachFrom (removeNodes g disc) s
    | .take _ | .all =>
      let isAll := match c with | .all => true | _ => false
      let mut k := match c with | .take k => k | _ => 1000000000
      while k > 0 do
        match rest with
        | [] => if isAll then return some "answer ends before the walker is exhausted" else k := 0
        | t :: r =>
          rest := r
          if t == "x" then
            -- exhausted: the segment must be complete
            match allowed with
            | some al => if !(sameSet seg al) && !exhausted then
                return some s!"walker stopped after {showNats seg}, reachable-and-new set is {showNats al}"
            | none => pure ()
            exhausted := true
            k := 0
          else match t.toNat? with
            | none => return some s!"unexpected token {t}"
            | some n =>
              if disc.contains n then return some s!"node {n} emitted twice"
              match allowed with
              | some al => if !al.contains n then return some s!"node {n} is not reachable from the start through undiscovered nodes"
              | none => pure ()
              disc := n :: disc
              seg := seg ++ [n]
              k := k - 1
  return none

/-- DfsPostOrder with move_to/reset (`C08_postorder_moveTo`): while every earlier segment since the last
reset was run to exhaustion, discovered = finished = emitted, so a segment started at `s` must emit
exactly the nodes reachable from `s` through nodes not emitted before (nothing if `s` was emitted), each
once.  After an interrupted segment (a `move_to` before exhaustion leaves discovered-but-unfinished
nodes behind) only "no node is emitted twice since the last reset" is judged. -/
def judgePostScript (g : MGraph) (cmds : List Cmd) (toks : List String) : Option String := Id.run do
  let mut fin : List Nat := []         -- emitted since creation / reset
  let mut seg : List Nat := []
  let mut allowed : Option (List Nat) := some []
  let mut rest := toks
  let mut exhausted := true
  let mut dirty := false
  for c in cmds do
    match c with
    | .reset => fin := []; seg := []; allowed := some []; exhausted := true; dirty := false
    | .new s =>
      if !exhausted then dirty := true
      seg := []
      exhausted := false
      allowed := if dirty then none else if fin.contains s then some [] else reachFrom (removeNodes g fin) s
    | .take _ | .all =>
      let isAll := match c with | .all => true | _ => false
      let mut k := match c with | .take k => k | _ => 1000000000
      while k > 0 do
        match rest with
        | [] => if isAll then return some "answer ends before the walker is exhausted" else k := 0
        | t :: r =>
          rest := r
          if t == "x" then
            match allowed with
            | some al => if !(sameSet seg al) && !exhausted then
                return some s!"post-order walker stopped after {showNats seg}, reachable-and-new set is {showNats al}"
            | none => pure ()
            exhausted := true
            k := 0
          else match t.toNat? with
            | none => return some s!"unexpected token {t}"
            | some n =>
              if fin.contains n then return some s!"node {n} emitted twice"
              match allowed with
              | some al => if !al.contains n then return some s!"node {n} is not reachable from the start through unfinished nodes"
              | none => pure ()
              fin := n :: fin
              seg := seg ++ [n]
              k := k - 1
  return none

/-- hop distance from `s` by layered expansion (`none` = unreachable) -/
def hopDist (g : MGraph) (s : Nat) : Nat → List Nat → List Nat → Nat → Nat → Option Nat
  | 0, _, _, _, _ => none
  | f+1, frontier, seen, d, x =>
    if frontier.contains x then some d
    else if frontier.isEmpty then none
    else
      let next := (frontier.flatMap g.succ).eraseDups.filter fun y => !seen.contains y && !frontier.contains y
      hopDist g s f next (frontier ++ seen) (d + 1) x

def judgeSetFrom (g : MGraph) (s : Nat) (out : List Nat) : Option String :=
  if !(out.eraseDups.length == out.length) then some s!"a node is emitted twice: {showNats out}" else
  match reachFrom g s with
  | none => none
  | some r => if sameSet r out then none else some s!"emitted {showNats out}, reachable set is {showNats r}"

def judgeBfs (g : MGraph) (s : Nat) (out : List Nat) : Option String :=
  match judgeSetFrom g s out with
  | some e => some e
  | none =>
    let ds := out.map fun x => (hopDist g s (g.nodes.length + 2) [s] [] 0 x).getD 0
    if (ds.zip (ds.drop 1)).all fun (a, b) => a ≤ b then none
    else some s!"hop distances not non-decreasing: nodes {showNats out} distances {showNats ds}"

/-- post-order: set = reachable, no duplicates, and each node after every successor that cannot reach it back -/
def judgePost (g : MGraph) (s : Nat) (out : List Nat) : Option String :=
  match judgeSetFrom g s out with
  | some e => some e
  | none =>
    let pos := fun x => out.idxOf x
    let bad := out.find? fun x => (g.succ x).any fun y =>
      y != x && (reachB g y x == some false) && !(pos y < pos x)
    bad.map fun x => s!"node {x} is emitted before a successor that cannot reach it back: {showNats out}"

/-- nodes on or downstream of a cycle -/
def cyclicOrDownstream (g : MGraph) : List Nat :=
  let onCycle := g.nodes.filter fun c => (g.succ c).any fun y => reachB g y c == some true
  g.nodes.filter fun x => onCycle.any fun c => reachB g c x == some true

def judgeTopoAll (g : MGraph) (out : List Nat) : Option String :=
  if !(out.eraseDups.length == out.length) then some s!"a node is emitted twice: {showNats out}" else
  let bad := cyclicOrDownstream g
  let want := g.nodes.filter fun x => !bad.contains x
  if !(sameSet want out) then some s!"Topo emitted {showNats out}, nodes neither on nor downstream of a cycle: {showNats want}" else
  let pos := fun x => out.idxOf x
  match out.find? fun x => (g.pred x).any fun p => !(pos p < pos x) with
  | some x => some s!"node {x} is emitted before one of its predecessors: {showNats out}"
  | none => none

def judgeTopoInit (g : MGraph) (out : List Nat) : Option String :=
  if !(out.eraseDups.length == out.length) then some s!"a node is emitted twice: {showNats out}" else
  let pos := fun x => out.idxOf x
  match out.find? fun x => (g.pred x).any fun p => !(out.contains p && pos p < pos x) with
  | some x => some s!"node {x} is emitted before one of its predecessors: {showNats out}"
  | none => none

/-! ### depth_first_search events -/
def showEv : Ev → String
  | .discover n t => s!"D{n}@{t}" | .tree u w => s!"T{u}-{w}" | .back u w => s!"B{u}-{w}"
  | .cross u w => s!"C{u}-{w}" | .finish n t => s!"F{n}@{t}"

def parsePair (s : String) (sep : String) : Option (Nat × Nat) :=
  match s.splitOn sep with
  | [a, b] => match a.toNat?, b.toNat? with
    | some a, some b => some (a, b)
    | _, _ => none
  | _ => none

def parseEv (s : String) : Option Ev :=
  let body := (s.drop 1).toString
  if s.startsWith "D" then (parsePair body "@").map fun (n, t) => .discover n t
  else if s.startsWith "F" then (parsePair body "@").map fun (n, t) => .finish n t
  else if s.startsWith "T" then (parsePair body "-").map fun (u, w) => .tree u w
  else if s.startsWith "B" then (parsePair body "-").map fun (u, w) => .back u w
  else if s.startsWith "C" then (parsePair body "-").map fun (u, w) => .cross u w
  else none

def parseCtl (s : String) : List Ctl :=
  s.toList.filterMap fun c => if c == 'c' then some .cont else if c == 'p' then some .prune else if c == 'b' then some .brk else none

/-- spec-level replay of an event stream: stack discipline, times, edge classes, control.
Independent of neighbour order. -/
def judgeEvents (g : MGraph) (starts : List Nat) (script : List Ctl) (evs : List Ev) (res : String) : Option String := Id.run do
  let mut disc : List Nat := []
  let mut fin : List Nat := []
  let mut stack : List (Nat × List Nat × Bool) := []   -- (node, targets reported so far, pruned at discover)
  let mut time := 0
  let mut k := 0
  let mut pendingTree : Option Nat := none             -- a TreeEdge(_, w) with Continue must be followed by Discover w
  let mut startsLeft := starts
  let n := evs.length
  for e in evs do
    let ctl := ctlAt script k
    match pendingTree, e with
    | some w, .discover n' _ => if n' != w then return some s!"event {k}: TreeEdge to {w} not followed by its Discover"
    | some w, _ => return some s!"event {k}: TreeEdge to {w} not followed by its Discover"
    | none, _ => pure ()
    pendingTree := none
    match e with
    | .discover u t =>
      if t != time then return some s!"event {k}: time {t}, expected {time}"
      time := time + 1
      if disc.contains u then return some s!"event {k}: {u} discovered twice"
      if stack.isEmpty then
        -- must be the next start that is not yet discovered
        startsLeft := startsLeft.dropWhile fun s => disc.contains s
        match startsLeft with
        | s :: r => if s != u then return some s!"event {k}: root {u}, expected start {s}" else startsLeft := r
        | [] => return some s!"event {k}: Discover {u} without a start"
      disc := u :: disc
      stack := (u, [], ctl == .prune) :: stack
    | .tree u w | .back u w | .cross u w =>
      match stack with
      | (top, seen, pruned) :: rest =>
        if top != u then return some s!"event {k}: edge from {u} while {top} is being explored"
        if pruned then return some s!"event {k}: edge reported from pruned node {u}"
        if ((g.succ u).count w) ≤ seen.count w then return some s!"event {k}: edge {u}->{w} reported more often than it exists"
        let cls := match e with | .tree .. => 0 | .back .. => 1 | _ => 2
        let want := if !disc.contains w then 0 else if !fin.contains w then 1 else 2
        if cls != want then return some s!"event {k}: edge {u}->{w} misclassified (got class {cls}, expected {want}; 0=tree 1=back 2=cross/forward)"
        stack := (top, w :: seen, pruned) :: rest
        if cls == 0 && ctl == .cont then pendingTree := some w
      | [] => return some s!"event {k}: edge event outside any Discover/Finish pair"
    | .finish u t =>
      if t != time then return some s!"event {k}: time {t}, expected {time}"
      time := time + 1
      match stack with
      | (top, seen, pruned) :: rest =>
        if top != u then return some s!"event {k}: Finish {u} while {top} is open (not well nested)"
        if !pruned && !(sameSet seen (g.succ u)) then
          return some s!"event {k}: Finish {u} after edges to {showNats seen}, its successors are {showNats (g.succ u)}"
        fin := u :: fin
        stack := rest
      | [] => return some s!"event {k}: Finish {u} without Discover"
    k := k + 1
    if ctl == .brk then
      if k != n then return some s!"event {k - 1}: visitor returned Break but {n - k} more events followed"
      return if res == "break" then none else some s!"Break at event {k - 1} but result is {res}"
    if ctl == .prune then
      match e with
      | .finish .. => return if k == n && res == "panic" then none else some "Prune on Finish must panic (documented)"
      | _ => pure ()
  if pendingTree.isSome then return some "stream ends after a TreeEdge"
  if !stack.isEmpty then return some "stream ends with unfinished nodes"
  startsLeft := startsLeft.dropWhile fun s => disc.contains s
  if !startsLeft.isEmpty then return some s!"start {startsLeft.head!} was never discovered"
  return if res == "cont" then none else some s!"complete traversal but result is {res}"

def bfsAll (v : View) : Nat → Bfs → List Nat → List Nat
  | 0, _, acc => acc
  | f+1, b, acc => match bfsNext v b with
    | (none, _) => acc
    | (some x, b') => bfsAll v f b' (acc ++ [x])

def topoAll (v : View) (fuel : Nat) : Nat → Topo → List Nat → List Nat
  | 0, _, acc => acc
  | k+1, t, acc => match topoNext v fuel t with
    | some (some x, t') => topoAll v fuel k t' (acc ++ [x])
    | _ => acc

def verdict (spec : Option String) (model impl : String) : String :=
  match spec with
  | some why => s!"SPECFAIL {why}"
  | none => cmpExact model impl

def step (d : DState) (req : List String) (impl : String) : DState × String :=
  match req with
  | ["case", k] => ({}, s!"case {k}")
  | "case" :: k :: _ => ({}, s!"case {k}")
  | "graph" :: _ =>
    match parseView req with
    | none => (d, "SPECFAIL unparsable graph line")
    | some v =>
      if viewOkB v then ({ v := v, ok := true }, "ok")
      else ({ v := v, ok := false }, "SPECFAIL neighbour iteration of this encoding does not describe the abstract graph")
  | ["walk", kind, script] =>
    let cmds := parseScript script
    let toks := if impl == "-" then [] else impl.splitOn ","
    if impl == "panic" then (d, "SPECFAIL walker panicked") else
    match kind with
    | "dfs" => (d, verdict (judgeDfs d.v.g cmds toks) (joinToks (runDfs d.v cmds)) impl)
    | "post" =>
      -- plain `n<s>,a` script: set + order; other scripts: `judgePostScript` (sets per segment); all compared exactly with the mirror too
      let spec := match cmds with
        | [.new s, .all] => judgePost d.v.g s (toksNodes impl)
        | _ => judgePostScript d.v.g cmds toks
      (d, verdict spec (joinToks (runPost d.v cmds)) impl)
    | _ => (d, "SPECFAIL bad request")
  | ["bfs", s] =>
    let s := s.toNat?.getD 0
    if impl == "panic" then (d, "SPECFAIL walker panicked") else
    let m := bfsAll d.v (d.v.g.nodes.length + 2) (Bfs.new s) []
    (d, verdict (judgeBfs d.v.g s (toksNodes impl)) (showNats m) impl)
  | "topo" :: mode :: rest =>
    if impl == "panic" then (d, "SPECFAIL walker panicked") else
    let t0 := if mode == "all" then Topo.new d.v else Topo.withInitials d.v (parseNats (rest.headD "-"))
    let f := bigFuel d.v
    let m := topoAll d.v f (d.v.g.nodes.length + 2) t0 []
    let spec := if mode == "all" then judgeTopoAll d.v.g (toksNodes impl) else judgeTopoInit d.v.g (toksNodes impl)
    (d, verdict spec (showNats m) impl)
  | ["dfsv", starts, script] =>
    let starts := parseNats starts
    let script := parseCtl script
    let f := 4 * bigFuel d.v
    let (s, r) := dfsSearch d.v script f starts {}
    let rs := match r with | .cont => "cont" | .brk => "break" | .panicPruneFinish => "panic" | .fuel => "FUEL"
    let evm := s.evs.reverse.map showEv
    let m := (if evm.isEmpty then "-" else String.intercalate "," evm) ++ "|" ++ rs
    match impl.splitOn "|" with
    | [evi, ri] =>
      let evs := if evi == "-" then [] else (evi.splitOn ",").filterMap parseEv
      (d, verdict (judgeEvents d.v.g starts script evs ri) m impl)
    | _ => (d, s!"SPECFAIL malformed answer {impl}")
  | _ => (d, s!"SPECFAIL bad request {req}")

end PetgraphModel.C08
