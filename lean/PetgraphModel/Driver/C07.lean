import PetgraphModel.Common
import PetgraphModel.GraphProto
import PetgraphModel.Oracle.Reach
import PetgraphModel.Oracle.Dist
import PetgraphModel.Driver.C08
/-
C07 driver.  After a `graph … abstract=1` line, requests are

  run <algo> <args…> enc=<encoding> => <canonical answer in abstract ids>

For every (algo, args) the answers of all encodings must coincide (the first one seen is the
reference) and none may panic when another succeeds.  Answers that the proved oracles determine
(reachable sets, reachability, SCC partitions, component counts, cyclicity, shortest distances) are
in addition judged absolutely against the abstract graph.
-/
namespace PetgraphModel.C07
open PetgraphModel PetgraphModel.Oracle

structure DState where
  g : MGraph := default
  refs : List (String × String × String) := []     -- key ↦ (encoding, answer)

def keyOf (req : List String) : String × String :=
  let ws := req.drop 1
  let enc := ((ws.find? (·.startsWith "enc=")).map fun s => (s.drop 4).toString).getD "?"
  (String.intercalate " " (ws.filter fun w => !(w.startsWith "enc=")), enc)

def parsePairsI (s : String) : List (Nat × Int) :=
  if s == "-" then [] else (s.splitOn ",").filterMap fun p =>
    match p.splitOn ":" with
    | [a, b] => match a.toNat?, b.toInt? with
      | some a, some b => some (a, b)
      | _, _ => none
    | _ => none

/-- classes of mutual reachability, canonical (each sorted, list sorted by least element) -/
def sccClasses (g : MGraph) : List (List Nat) :=
  let cls := g.nodes.map fun a => sortNats (g.nodes.filter fun b => reachB g a b == some true && reachB g b a == some true)
  (cls.eraseDups)

def showClasses (l : List (List Nat)) : String :=
  if l.isEmpty then "-" else String.intercalate ";" (l.map showNats)

def sortClasses (l : List (List Nat)) : List (List Nat) :=
  l.foldl (fun acc c => let (a, b) := acc.span (fun d => (d.headD 0) ≤ (c.headD 0)); a ++ c :: b) []

/-- absolute judgement where a proved oracle determines the answer -/
def judgeAbs (g : MGraph) (algo : String) (args : List String) (impl : String) : Option String :=
  let arg0 := (args.headD "0").toNat?.getD 0
  let arg1 := (args.getD 1 "0").toNat?.getD 0
  match algo with
  | "dfs_set" | "bfs_set" | "post_set" =>
    match reachFrom g arg0 with
    | some r => if sameSet r (parseNats impl) then none else some s!"{algo}: emitted {impl}, reachable set is {showNats (sortNats r)}"
    | none => none
  | "has_path" =>
    match reachB g arg0 arg1 with
    | some b => if showBool b == impl then none else some s!"has_path {arg0} {arg1} = {impl}, reachability says {showBool b}"
    | none => none
  | "topo_set" =>
    let bad := C08.cyclicOrDownstream g
    let want := g.nodes.filter fun x => !bad.contains x
    if sameSet want (parseNats impl) then none else some s!"Topo emitted {impl}, expected {showNats (sortNats want)}"
  | "cyclic_directed" =>
    let cyc := g.nodes.any fun c => (g.succ c).any fun y => reachB g y c == some true
    if showBool cyc == impl then none else some s!"is_cyclic_directed = {impl}, a cycle exists: {showBool cyc}"
  | "toposort" =>
    let cyc := g.nodes.any fun c => (g.succ c).any fun y => reachB g y c == some true
    let want := if cyc then "cycle" else s!"ok {g.nodes.length}"
    if want == impl then none else some s!"toposort = {impl}, expected {want}"
  | "kosaraju" | "tarjan" =>
    let want := showClasses (sortClasses (sccClasses g))
    let got := showClasses (sortClasses (parseNatLists impl))
    if want == got then none else some s!"{algo}: components {got}, classes of mutual reachability are {want}"
  | "connected_components" =>
    let u := g.undirect
    let cls := (u.nodes.map fun a => sortNats (u.nodes.filter fun b => reachB u a b == some true)).eraseDups
    if toString cls.length == impl then none else some s!"connected_components = {impl}, weak components: {cls.length}"
  | "dijkstra" =>
    if checkDist g arg0 (parsePairsI impl) then none else some s!"dijkstra from {arg0}: {impl} is not the shortest-distance labelling (certificate check failed)"
  | "spfa" =>
    if impl == "negcycle" then none   -- judged by C11; here only cross-encoding agreement
    else
      let d := (if impl == "-" then [] else impl.splitOn ",").filterMap fun p =>
        match p.splitOn ":" with
        | [a, b] => if b == "inf" then none else match a.toNat?, b.toInt? with
          | some a, some b => some (a, b)
          | _, _ => none
        | _ => none
      if checkDist g arg0 d then none else some s!"spfa from {arg0}: {impl} is not the shortest-distance labelling (certificate check failed)"
  | _ => none

def step (d : DState) (req : List String) (impl : String) : DState × String :=
  match req with
  | "case" :: k :: _ => ({}, s!"case {k}")
  | "graph" :: _ =>
    match parseView req with
    | none => (d, "SPECFAIL unparsable graph line")
    | some v => ({ g := v.g, refs := [] }, "ok")
  | "run" :: algo :: _ =>
    let (key, enc) := keyOf req
    let args := (req.drop 2).filter fun w => !(w.startsWith "enc=")
    let holes := (enc.splitOn "+holes").length > 1
    -- open finding D12: page_rank on an encoding with vacant indices
    let known12 := algo == "page_rank" && holes
    match d.refs.find? (·.1 == key) with
    | none =>
      if impl == "panic" then
        -- remember it; a later non-panicking encoding makes this a violation
        ({ d with refs := (key, enc, impl) :: d.refs }, "ok")
      else match judgeAbs d.g algo args impl with
        | some why => (d, s!"SPECFAIL {why} (encoding {enc})")
        | none =>
          if known12 then (d, "ok")   -- never take a D12-affected answer as the reference
          else ({ d with refs := (key, enc, impl) :: d.refs }, "ok")
    | some (_, renc, rans) =>
      if rans == impl then (d, "ok")
      else if known12 then (d, s!"KNOWN D12 page_rank on {enc} differs from {renc}: [{impl}] vs [{rans}]")
      else if algo == "maximum_matching" && d.g.directed && impl != "panic" && rans != "panic" then
        (d, s!"KNOWN D25 maximum_matching on directed storage depends on the encoding: {renc}: [{rans}]  {enc}: [{impl}]")
      else if impl == "panic" then (d, s!"SPECFAIL {key}: panics on encoding {enc} but answers [{rans}] on {renc}")
      else if rans == "panic" then (d, s!"SPECFAIL {key}: panics on encoding {renc} but answers [{impl}] on {enc}")
      else match judgeAbs d.g algo args impl with
        | some why => (d, s!"SPECFAIL {why} (encoding {enc}; {renc} answered [{rans}])")
        | none => (d, s!"SPECFAIL {key}: encodings disagree — {renc}: [{rans}]  {enc}: [{impl}]")
  | _ => (d, s!"SPECFAIL bad request {req}")

end PetgraphModel.C07
