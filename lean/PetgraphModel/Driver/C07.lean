import PetgraphModel.Common
import PetgraphModel.GraphProto
import PetgraphModel.Oracle.Reach
import PetgraphModel.Oracle.Dist
import PetgraphModel.Driver.C08
import PetgraphModel.Driver.C07Checks
/-
C07 driver.  After a `graph … abstract=1` line, requests are

  view enc=<encoding> d=… nb=… nodes=… ix=… edges=… out=… in=… [hasin=0] er=<s:t:eid;…> => ok
  run <algo> <args…> enc=<encoding> => <canonical answer in abstract ids>

`view`: the iteration orders, `to_index` assignment and `edge_references()` order of one encoding in abstract
ids.  For every comparison of an answer with the reference answer of another encoding the driver evaluates the
hypotheses of the theorem `C07_<algo>_checked` (`Theorems/C07.lean`) on the two views (`Driver/C07Checks.lean`,
`pairB`): a failure is `SPECFAIL side condition … does not hold` (the encoding's trait impls do not describe the
abstract graph) or `SPECFAIL generator left the proved range` (the request is outside the theorem's input scope).
So for every compared pair "the two MODEL runs answer and agree" is a proved consequence, and `ok` adds "the two
implementations agree".

For every (algo, args) the answers of all encodings must coincide (the first one seen is the
reference) and none may panic when another succeeds.  Answers that the proved oracles determine
(reachable sets, reachability, SCC partitions, component counts, cyclicity, shortest distances) are
in addition judged absolutely against the abstract graph.
-/
namespace PetgraphModel.C07
open PetgraphModel PetgraphModel.Oracle

structure DState where
  g : MGraph := default
  refs : List (String × String × String) := []     -- key ↦ (encoding, answer)
  views : List (String × EV) := []                 -- encoding ↦ its view

/-- `graph0/default-space` ↦ `graph0`: walker / workspace variants run on the same encoding -/
def baseEnc (enc : String) : String := (enc.splitOn "/").headD enc

/-- `a:t,t;b:-` -/
def parseNbrs (s : String) : List (Nat × List Nat) :=
  if s == "-" then [] else
  (s.splitOn ";").filterMap fun r =>
    match r.splitOn ":" with
    | [a, row] => a.toNat?.map fun a => (a, parseNats row)
    | _ => none

def parseErField (s : String) : List (Nat × Nat × Nat) :=
  if s == "-" then [] else
  (s.splitOn ";").filterMap fun t =>
    match t.splitOn ":" with
    | [a, b, c] => match a.toNat?, b.toNat?, c.toNat? with
      | some a, some b, some c => some (a, b, c)
      | _, _, _ => none
    | _ => none

def keyOf (req : List String) : String × String :=
  let ws := req.drop 1
  let enc := ((ws.find? (·.startsWith "enc=")).map fun s => (s.drop 4).toString).getD "?"
  (String.intercalate " " (ws.filter fun w => !(w.startsWith "enc=")), enc)

def parsePairsI (s : String) : List (Nat × Int) :=
  if s == "-" then [] else (s.splitOn ",").filterMap fun p =>
    match p.splitOn ":" with
    | [a, b] => match a.toNat?, b.toInt? with
      | some a, some b => some (a, b)
      | _, _ => none
    | _ => none

/-- classes of mutual reachability, canonical (each sorted, list sorted by least element) -/
def sccClasses (g : MGraph) : List (List Nat) :=
  let cls := g.nodes.map fun a => sortNats (g.nodes.filter fun b => reachB g a b == some true && reachB g b a == some true)
  (cls.eraseDups)

def showClasses (l : List (List Nat)) : String :=
  if l.isEmpty then "-" else String.intercalate ";" (l.map showNats)

def sortClasses (l : List (List Nat)) : List (List Nat) :=
  l.foldl (fun acc c => let (a, b) := acc.span (fun d => (d.headD 0) ≤ (c.headD 0)); a ++ c :: b) []

/-! ### wave 6: adaptor stacks on the abstract graph -/

/-- one adaptor of a stack descriptor applied to the abstract graph: `rev` (Reversed), `ef:<w>` (EdgeFiltered that
drops the edges of weight `w`), `nf:<x>` (NodeFiltered that drops node `x` and the edges at it) -/
def applyAdaptor (g : MGraph) (op : String) : Option MGraph :=
  match op.splitOn ":" with
  | ["rev"] => some { g with edges := g.edges.map fun e => { e with src := e.tgt, tgt := e.src } }
  | ["ef", w] => w.toInt?.map fun w => { g with edges := g.edges.filter fun e => e.w != w }
  | ["nf", x] => x.toNat?.map fun x =>
      { g with nodes := g.nodes.filter (· != x), edges := g.edges.filter fun e => e.src != x && e.tgt != x }
  | _ => none

/-- `rev.ef:2` = `Reversed(&EdgeFiltered(g))`: outermost first, so the operations are applied from the right -/
def applyStack (g : MGraph) (stack : String) : Option MGraph :=
  (stack.splitOn ".").foldr (fun op acc => acc.bind fun g => applyAdaptor g op) (some g)

/-- `a:r,r;b:-` rows of sorted neighbour lists, nodes ascending -/
def showAdj (g : MGraph) (inc : Bool) : String :=
  let ns := sortNats g.nodes
  if ns.isEmpty then "-" else
  String.intercalate ";" (ns.map fun a => s!"{a}:{showNats (sortNats (if inc then g.pred a else g.succ a))}")

/-- the graph without the nodes `bl` -/
def dropNodes (g : MGraph) (bl : List Nat) : MGraph :=
  { g with nodes := g.nodes.filter (!bl.contains ·), edges := g.edges.filter fun e => !bl.contains e.src && !bl.contains e.tgt }

/-- absolute judgement where a proved oracle determines the answer -/
def judgeAbs (g : MGraph) (algo : String) (args : List String) (impl : String) : Option String :=
  let arg0 := (args.headD "0").toNat?.getD 0
  let arg1 := (args.getD 1 "0").toNat?.getD 0
  match algo with
  | "dfs_set" | "bfs_set" | "post_set" =>
    match reachFrom g arg0 with
    | some r => if sameSet r (parseNats impl) then none else some s!"{algo}: emitted {impl}, reachable set is {showNats (sortNats r)}"
    | none => none
  | "has_path" =>
    match reachB g arg0 arg1 with
    | some b => if showBool b == impl then none else some s!"has_path {arg0} {arg1} = {impl}, reachability says {showBool b}"
    | none => none
  | "adj" =>
    let want := showAdj g (args.getD 0 "out" == "in")
    if want == impl then none else some s!"neighbour lists ({args.getD 0 "out"}) are {impl}, the abstract graph has {want}"
  | "dfs_resume" =>
    -- Dfs from arg0 to exhaustion, the nodes U re-opened with `unvisit`, `move_to arg1`, run again: `unvisit`
    -- answers "was marked" (= reachable from arg0) and clears the mark; the second pass emits what arg1 reaches
    -- without entering a node that is still marked
    match reachFrom g arg0 with
    | none => none
    | some r =>
      let us := parseNats (args.getD 2 "-")
      let blocked := r.filter (!us.contains ·)
      let pass2 := if blocked.contains arg1 then some [] else reachFrom (dropNodes g blocked) arg1
      match pass2 with
      | none => none
      | some p2 =>
        let bits (l : List Bool) : String := if l.isEmpty then "-" else String.intercalate "," (l.map fun b => if b then "1" else "0")
        let want := s!"unvisit={bits (us.map r.contains)} marked={bits (us.map fun _ => false)} pass2={showNats (sortNats p2)}"
        if want == impl then none else some s!"dfs_resume {arg0} {arg1} reopening {showNats us}: [{impl}], the set specification gives [{want}]"
  | "topo_set" =>
    let bad := C08.cyclicOrDownstream g
    let want := g.nodes.filter fun x => !bad.contains x
    if sameSet want (parseNats impl) then none else some s!"Topo emitted {impl}, expected {showNats (sortNats want)}"
  | "cyclic_directed" =>
    let cyc := g.nodes.any fun c => (g.succ c).any fun y => reachB g y c == some true
    if showBool cyc == impl then none else some s!"is_cyclic_directed = {impl}, a cycle exists: {showBool cyc}"
  | "toposort" =>
    let cyc := g.nodes.any fun c => (g.succ c).any fun y => reachB g y c == some true
    let want := if cyc then "cycle" else s!"ok {g.nodes.length}"
    if want == impl then none else some s!"toposort = {impl}, expected {want}"
  | "kosaraju" | "tarjan" =>
    let want := showClasses (sortClasses (sccClasses g))
    let got := showClasses (sortClasses (parseNatLists impl))
    if want == got then none else some s!"{algo}: components {got}, classes of mutual reachability are {want}"
  | "connected_components" =>
    let u := g.undirect
    let cls := (u.nodes.map fun a => sortNats (u.nodes.filter fun b => reachB u a b == some true)).eraseDups
    if toString cls.length == impl then none else some s!"connected_components = {impl}, weak components: {cls.length}"
  | "dijkstra" =>
    if checkDist g arg0 (parsePairsI impl) then none else some s!"dijkstra from {arg0}: {impl} is not the shortest-distance labelling (certificate check failed)"
  | "spfa" | "bellman_ford" =>
    if impl == "negcycle" then none   -- judged by C11; here only cross-encoding agreement
    else
      let body := (impl.splitOn " ").headD impl      -- `bellman_ford`: `<distances> predok=<bool>`
      let d := (if body == "-" then [] else body.splitOn ",").filterMap fun p =>
        match p.splitOn ":" with
        | [a, b] => if b == "inf" then none else match a.toNat?, b.toInt? with
          | some a, some b => some (a, b)
          | _, _ => none
        | _ => none
      if checkDist g arg0 d then none else some s!"{algo} from {arg0}: {impl} is not the shortest-distance labelling (certificate check failed)"
  | _ => none

def step (d : DState) (req : List String) (impl : String) : DState × String :=
  match req with
  | "case" :: k :: _ => ({}, s!"case {k}")
  | "graph" :: _ =>
    match parseView req with
    | none => (d, "SPECFAIL unparsable graph line")
    | some v => ({ g := v.g, refs := [] }, "ok")
  | "view" :: _ =>
    let enc := ((req.find? (·.startsWith "enc=")).map fun s => (s.drop 4).toString).getD "?"
    match parseView req, field? req "er" with
    | some v, some er =>
      -- `neighbors(a)` (the iteration the walkers use) must list the targets of `edges(a)`, as multisets
      let nbrs := parseNbrs ((field? req "nbrs").getD "-")
      if v.g.nodes.all fun a => sameSet (v.succ a) ((nbrs.lookup a).getD []) then
        ({ d with views := (enc, { v := v, er := parseErField er }) :: d.views }, "ok")
      else (d, s!"SPECFAIL side condition neighbors = targets of edges does not hold: encoding {enc}")
    | _, _ => (d, s!"SPECFAIL unparsable view line of encoding {enc}")
  | "law" :: _ =>
    -- a law checked by the harness against the implementation itself (VisitMap as a set, iterator laws)
    if impl == "ok" then (d, "ok") else (d, s!"SPECFAIL law violated: {String.intercalate " " req}: {impl}")
  | "run" :: algo0 :: _ =>
    let (key, enc) := keyOf req
    let args0 := (req.drop 2).filter fun w => !(w.startsWith "enc=")
    -- wave 6: `a_<algo> <stack> …` is `<algo> …` on the adaptor stack; judged on the abstract graph under the same stack
    let adapted := algo0.startsWith "a_"
    let algo := if adapted then (algo0.drop 2).toString else algo0
    let args := if adapted then args0.drop 1 else args0
    match (if adapted then applyStack d.g (args0.headD "") else some d.g) with
    | none => (d, s!"SPECFAIL bad adaptor stack in request {req}")
    | some gJ =>
      let holes := (enc.splitOn "+holes").length > 1
      -- open finding D12: page_rank on an encoding with vacant indices
      let known12 := algo == "page_rank" && holes
      -- open finding D25: maximum_matching on directed storage (outside `C07_maximum_matching_checked`: undirected only)
      let known25 := algo == "maximum_matching" && d.g.directed
      let argN (i : Nat) : Nat := (args.getD i "0").toNat?.getD 0
      -- G-A: the hypotheses of `C07_<algo>_checked` on the views of the two compared encodings
      let scope (renc : String) : Option String :=
        if known12 || known25 || adapted then none
        else match d.views.lookup (baseEnc renc), d.views.lookup (baseEnc enc) with
          | some e1, some e2 =>
            -- `dfs_resume`: the view conditions of the Dfs theorems (`C07_dfs_checked`) on both encodings; the answer
            -- itself is judged absolutely (`judgeAbs`), no C07 theorem speaks about the resumed walk
            pairWhy (if algo == "dfs_resume" then "dfs_set" else algo) renc enc e1 e2 (argN 0) (argN 1) (argN 2)
          | none, _ => some s!"SPECFAIL no view line for encoding {renc}"
          | _, none => some s!"SPECFAIL no view line for encoding {enc}"
      match d.refs.find? (·.1 == key) with
      | none =>
        if impl == "panic" then
          -- remember it; a later non-panicking encoding makes this a violation
          ({ d with refs := (key, enc, impl) :: d.refs }, "ok")
        else match judgeAbs gJ algo args impl with
          | some why => (d, s!"SPECFAIL {why} (encoding {enc})")
          | none =>
            if known12 then (d, "ok")   -- never take a D12-affected answer as the reference
            else ({ d with refs := (key, enc, impl) :: d.refs }, "ok")
      | some (_, renc, rans) =>
        if let some why := scope renc then (d, why)
        else if rans == impl then (d, "ok")
        else if known12 then (d, s!"KNOWN D12 page_rank on {enc} differs from {renc}: [{impl}] vs [{rans}]")
        else if known25 && impl != "panic" && rans != "panic" then
          (d, s!"KNOWN D25 maximum_matching on directed storage depends on the encoding: {renc}: [{rans}]  {enc}: [{impl}]")
        else if impl == "panic" then (d, s!"SPECFAIL {key}: panics on encoding {enc} but answers [{rans}] on {renc}")
        else if rans == "panic" then (d, s!"SPECFAIL {key}: panics on encoding {renc} but answers [{impl}] on {enc}")
        else match judgeAbs gJ algo args impl with
          | some why => (d, s!"SPECFAIL {why} (encoding {enc}; {renc} answered [{rans}])")
          | none => (d, s!"SPECFAIL {key}: encodings disagree — {renc}: [{rans}]  {enc}: [{impl}]")
  | _ => (d, s!"SPECFAIL bad request {req}")

end PetgraphModel.C07
