import PetgraphModel.GraphProto
import PetgraphModel.Model.Acyclic
import PetgraphModel.Spec.Dag
/-
C14 — the run-time checks of the hypotheses of the `C14_*` theorems.  Core Lean only (linked into the
driver).  Every function here is an executable Boolean; `Theorems/C14.lean`, section "run-time checks
of the hypotheses", proves `…B … = true → <the hypothesis>` for each of them
(`Proofs/C14W4Checks.lean`), so every case the driver judges is provably inside the theorems' scope.

* `viewOkB v`            ⇒ directed, `Nodup`, edge endpoints live, `ViewOk`, `Closed`, sources live,
                            live index < `node_bound`, both DFS fuel bounds of `Safe`, `TopoFuelOk`
* `safeB v s`            ⇒ (with `viewOkB v`) `Safe v s`, hence `Inv2 v s`, `Inv v s`, `OMInv`, `Clear`
* `innerAddNodeB` …      ⇒ `Call.InnerOk v c`   (which indices are live after the inner call)
* `edgesAddNodeB` …      ⇒ `EdgesOk v c`        (which adjacency exists after the inner call)
-/
namespace PetgraphModel.C14
open PetgraphModel PetgraphModel.Acy PetgraphModel.Dag

/-! ### the graph line -/

def vDirected (v : View) : Bool := v.g.directed
def vNodup (v : View) : Bool := nodupB v.g.nodes
def vEdgesLive (v : View) : Bool := v.g.edges.all fun e => v.g.nodes.contains e.src && v.g.nodes.contains e.tgt
def vRowsLive (v : View) : Bool :=
  (v.out.all fun r => v.g.nodes.contains r.1) && (v.inn.all fun r => v.g.nodes.contains r.1)
def vIndexBound (v : View) : Bool := v.g.nodes.all fun a => a < v.nb
def vDfsFuel (v : View) : Bool :=
  decide ((v.g.nodes.map fun a => 1 + (v.succ a).length).sum + 1 ≤ dfsFuel v) &&
  decide ((v.g.nodes.map fun a => 1 + (v.pred a).length).sum + 1 ≤ dfsFuel v)
/-- `TopoFuelOk`: the successor lists fit the fuel of the `toposort` model -/
def vTopoFuel (v : View) : Bool :=
  decide ((v.g.nodes.map fun a => 1 + (v.succ a).length).sum + 2 ≤ tsFuel v)
def vAdjacency (v : View) : Bool :=
  v.g.nodes.all fun a => sameSet (v.succ a) (v.g.succ a) && sameSet (v.pred a) (v.g.pred a)

/-- the named side conditions of a graph line, in the order they are reported -/
def viewChecks (v : View) : List (String × Bool) :=
  [("directed", vDirected v), ("nodes-listed-once", vNodup v), ("edge-endpoints-live", vEdgesLive v),
   ("adjacency-rows-of-live-nodes", vRowsLive v), ("index-below-node_bound", vIndexBound v),
   ("neighbour-lists-fit-dfs-fuel", vDfsFuel v), ("successor-lists-fit-toposort-fuel (TopoFuelOk)", vTopoFuel v),
   ("neighbour-iteration-is-the-edge-list", vAdjacency v)]

/-- the graph line is self-consistent: directed, nodes listed once, edges between live nodes, the
neighbour iterations describe exactly the edge list, indices are below `node_bound`, and the
neighbour lists fit the fuel of the model's searches -/
def viewOkB (v : View) : Bool :=
  vDirected v && vNodup v && vEdgesLive v && vRowsLive v && vIndexBound v && vDfsFuel v && vTopoFuel v &&
  vAdjacency v

/-- the first side condition that fails -/
def viewWhy (v : View) : String :=
  match (viewChecks v).find? fun c => !c.2 with
  | some c => c.1
  | none => "-"

/-! ### the state of the mirror model: `Safe v s` -/

def sortedB : PMap → Bool
  | [] => true
  | [_] => true
  | a :: b :: r => decide (a.1 < b.1) && sortedB (b :: r)

/-- `OMInv L om` -/
def omInvB (L : List Nat) (om : OrderMap) : Bool :=
  sortedB om.p2n &&
  (om.p2n.all fun e => L.contains e.2 && om.n2p[e.2]? == some e.1) &&
  L.all fun n => match om.n2p[n]? with
    | some p => om.p2n.contains (p, n)
    | none => false

def clearB (s : AState) : Bool := s.disc.isEmpty && s.fin.isEmpty

/-- `OrderValid v om` (the sources of a well-formed view are its live nodes) -/
def orderValidB (v : View) (om : OrderMap) : Bool :=
  v.g.nodes.all fun a => (v.succ a).all fun b =>
    match om.n2p[a]?, om.n2p[b]? with
    | some pa, some pb => decide (pa < pb)
    | _, _ => true

/-- with `viewOkB v`: `Safe v s` -/
def safeB (v : View) (s : AState) : Bool := omInvB v.g.nodes s.om && clearB s && orderValidB v s.om

def safeWhy (v : View) (s : AState) : String :=
  if !(omInvB v.g.nodes s.om) then "order-map-invariant (OMInv)"
  else if !(clearB s) then "scratch-sets-clear (Clear)"
  else "order-valid (OrderValid)"

/-! ### the inner-graph contracts, per call -/

def sameMembers (a b : List Nat) : Bool := (a.all fun x => b.contains x) && (b.all fun x => a.contains x)

/-- `Call.InnerOk v (.addNode i v')` (given `viewOkB v'`) -/
def innerAddNodeB (v : View) (i : Nat) (v' : View) : Bool :=
  !(v.g.nodes.contains i) && sameMembers v'.g.nodes (i :: v.g.nodes)

/-- `Call.InnerOk v (.edge a b v')` (given `viewOkB v'`) -/
def innerEdgeB (v : View) (a b : Nat) (v' : View) : Bool :=
  v.g.nodes.contains a && v.g.nodes.contains b && v'.g.nodes == v.g.nodes

/-- `RemoveContract v v' n` -/
def removeContractB (v v' : View) (n : Nat) : Bool :=
  (!(v'.g.nodes.contains n) &&
    (v'.g.nodes.all fun x => v.g.nodes.contains x && x != n) &&
    (v.g.nodes.all fun x => x == n || v'.g.nodes.contains x)) ||
  (v'.g.nodes.contains n && v.g.nodes.contains (v.nb - 1) && (v.nb - 1 != n) &&
    (v'.g.nodes.all fun x => v.g.nodes.contains x && x != v.nb - 1) &&
    (v.g.nodes.all fun x => x == v.nb - 1 || v'.g.nodes.contains x))

/-- `Call.InnerOk v (.removeNode n v')` (given `viewOkB v'`) -/
def innerRemoveNodeB (v : View) (n : Nat) (v' : View) : Bool :=
  !(v.g.nodes.contains n) || removeContractB v v' n

/-- `Call.InnerOk v (.removeEdge v')` (given `viewOkB v'`) -/
def innerRemoveEdgeB (v v' : View) : Bool := v'.g.nodes == v.g.nodes

/-- every successor pair of `v'` satisfies `p` (the rows of `v'` belong to its live nodes) -/
def allSucc (v' : View) (p : Nat → Nat → Bool) : Bool :=
  v'.g.nodes.all fun x => (v'.succ x).all fun y => p x y

/-- `EdgesOk v (.addNode i v')` and `EdgesOk v (.removeEdge v')` (given `viewOkB v'`): no new adjacency -/
def edgesSubB (v v' : View) : Bool := allSucc v' fun x y => (v.succ x).contains y

/-- `EdgesOk v (.edge a b v')` (given `viewOkB v'`): no new adjacency except `a → b` -/
def edgesEdgeB (v : View) (a b : Nat) (v' : View) : Bool :=
  allSucc v' fun x y => (v.succ x).contains y || (x == a && y == b)

/-- the renaming `Graph::remove_node(n)` applies when it moves its last node into `n` -/
def rhoB (v v' : View) (n z : Nat) : Nat := if z == n && v'.g.nodes.contains n then v.nb - 1 else z

/-- `EdgesOk v (.removeNode n v')` (given `viewOkB v'`): every adjacency of `v'` is one of `v`, with
the moved node renamed -/
def edgesRemoveNodeB (v : View) (n : Nat) (v' : View) : Bool :=
  allSucc v' fun x y => (v.succ (rhoB v v' n x)).contains (rhoB v v' n y)

end PetgraphModel.C14
