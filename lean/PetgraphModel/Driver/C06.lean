import PetgraphModel.Common
import PetgraphModel.Model.VisitTable
import PetgraphModel.Spec.VisitSpec
import PetgraphModel.Model.C06Replay
import PetgraphModel.Spec.C06Checks
/-
C06 driver.

  case <k> <type> <d|u> dbg=<0|1>
  base <request> => TABLE     <request> = a constructor / mutating call in the request syntax of the vertical that owns
                              the storage type.  REPLAYED on that vertical's mirror model (`C06R.Store.exec`);
                              exact: TABLE = `Store.table` of the mirror state (`<type>Table`, Model/C06Views.lean) —
                                     the tables the `C06_consistent_<Type>` theorems are about;
                              judged: `checkTableWhy` (the clauses of the property) on the dumped table itself
  view <stack>  => TABLE      exact: TABLE = `applyStack Cfg.asIs stack base` (base = the dumped base table);
                              judged: `checkTableWhy` on the adaptor's table, and
                                      `abs table` is the same graph as `specStack stack (abs base)`
  mutview       => TABLE      the table through `&mut g`: every visit trait absent; a trait that is present must answer
                              what the base table answers
  dmap <via>    => nw=.. ew=..   `DataMap` through a delegation: the weights of `node_references` / `edge_references`
                              of the base table, `None` for every id that is not listed there
  law <kind> <name> <cov> => ok | VIOLATED <why>   a law checked by the harness against the implementation itself (the
                              iterator laws on every trait-level iterator of the view, fresh and mid-iteration; std-trait
                              laws of the base types): anything but `ok` is a SPECFAIL

Run-time checks of the theorems' hypotheses (G-A; `C06_*_check` in Theorems/C06.lean): a request outside the scope of
the storage theorems (`Store.exec` refuses it) and an adaptor stack that is not `StackOk` (`stackOkB`) are answered
`SPECFAIL generator left the proved range`; the consistency of the base table — the hypothesis of every adaptor
theorem — is `checkTableWhy` on the base dump.

Known findings (classified narrowly, DESIGN 2.5): a judged failure is attributed to D6/D7/D23 only if
(1) the implementation's table is EXACTLY the as-is model's (the model with the recorded defects switched on,
applied to the base table as observed; for a base table: the storage mirror's table), (2) at least one switch changes
the model's answer for this very line, and (3) the ideal model (all switches off, base table repaired) passes the same
judge.  A base table is attributed to D6 / D7 only for its type and only if the repaired table passes the judge.
(D24 is repaired in /repo: no classifier.)
-/
namespace PetgraphModel.C06
open PetgraphModel PetgraphModel.Visit

/-! ### parsing -/

def parseKV (s : String) : List (String × String) :=
  (splitWords s).filterMap fun w =>
    match w.splitOn "=" with
    | [k, v] => some (k, v)
    | _ => none

def commaList (s : String) : List String := if s == "-" then [] else s.splitOn ","
def semiList (s : String) : List String := if s == "-" then [] else s.splitOn ";"

def allSome {α : Type} (l : List (Option α)) : Option (List α) :=
  l.foldr (fun o acc => match o, acc with
    | some x, some xs => some (x :: xs)
    | _, _ => none) (some [])

def pNats (s : String) : Option (List Nat) := allSome ((commaList s).map (·.toNat?))

def pPair (s : String) : Option (Nat × Nat) :=
  match s.splitOn ":" with
  | [a, b] => match a.toNat?, b.toNat? with
    | some a, some b => some (a, b)
    | _, _ => none
  | _ => none

def pPairI (s : String) : Option (Nat × Int) :=
  match s.splitOn ":" with
  | [a, b] => match a.toNat?, b.toInt? with
    | some a, some b => some (a, b)
    | _, _ => none
  | _ => none

def pTriple (s : String) : Option (Nat × Nat × Nat) :=
  match s.splitOn ":" with
  | [a, b, c] => match a.toNat?, b.toNat?, c.toNat? with
    | some a, some b, some c => some (a, b, c)
    | _, _, _ => none
  | _ => none

def pERef (s : String) : Option ERef :=
  match s.splitOn "/" with
  | [i, a, b, w] => match i.toNat?, a.toNat?, b.toNat?, w.toInt? with
    | some i, some a, some b, some w => some ⟨i, a, b, w⟩
    | _, _, _, _ => none
  | _ => none

def pRows {α : Type} (item : String → Option α) (s : String) : Option (Rows α) :=
  allSome ((semiList s).map fun r =>
    match r.splitOn ":" with
    | [a, l] => match a.toNat?, allSome ((commaList l).map item) with
      | some a, some l => some (a, l)
      | _, _ => none
    | _ => none)

/-- edge rows use `:` only after the node, items use `/` -/
def pERows (s : String) : Option (Rows ERef) := pRows pERef s

/-- `na` → absent; otherwise the parser must succeed -/
def optField {α : Type} (p : String → Option α) (s : String) : Option (Option α) :=
  if s == "na" then some none else (p s).map some

def parseTable (s : String) : Option Table := do
  let kv := parseKV s
  let f (k : String) : Option String := kv.lookup k
  let dir ← f "dir"
  let directed ← if dir == "1" then some true else if dir == "0" then some false else none
  let ids ← optField pNats (← f "ids")
  let refs ← optField (fun s => allSome ((commaList s).map pPairI)) (← f "refs")
  let nc ← optField (·.toNat?) (← f "nc")
  let nb ← (← f "nb").toNat?
  let ix ← allSome ((commaList (← f "ix")).map pPair)
  let fx ← allSome ((commaList (← f "fx")).map pPair)
  let cpt ← f "cpt"
  let er ← optField (fun s => allSome ((commaList s).map pERef)) (← f "er")
  let ec ← optField (·.toNat?) (← f "ec")
  let eb ← optField (·.toNat?) (← f "eb")
  let eix ← optField (fun s => allSome ((commaList s).map pTriple)) (← f "eix")
  let nbr ← optField (pRows (·.toNat?)) (← f "nbr")
  let nbo ← optField (pRows (·.toNat?)) (← f "nbo")
  let nbi ← optField (pRows (·.toNat?)) (← f "nbi")
  let ed ← optField pERows (← f "ed")
  let edo ← optField pERows (← f "edo")
  let edi ← optField pERows (← f "edi")
  let adj ← optField (pRows (·.toNat?)) (← f "adj")
  some { directed := directed, ids := ids, refs := refs, nodeCount := nc, nodeBound := nb, toIx := ix, fromIx := fx,
         compact := cpt == "1", erefs := er, edgeCount := ec, edgeBound := eb, eix := eix,
         nbrs := nbr, nbrsOut := nbo, nbrsIn := nbi, edges := ed, edgesOut := edo, edgesIn := edi, adj := adj }

/-! ### rendering (the harness's format) -/

def showList (l : List String) : String := if l.isEmpty then "-" else String.intercalate "," l
def showOpt {α : Type} (f : α → String) : Option α → String
  | none => "na"
  | some x => f x
def showERef (e : ERef) : String := s!"{e.id}/{e.src}/{e.tgt}/{e.w}"
def showRows {α : Type} (f : α → String) (r : Rows α) : String :=
  if r.isEmpty then "-" else String.intercalate ";" (r.map fun x => s!"{x.1}:{showList (x.2.map f)}")

def render (t : Table) : List (String × String) :=
  [ ("dir", if t.directed then "1" else "0"),
    ("ids", showOpt (fun l => showList (l.map toString)) t.ids),
    ("refs", showOpt (fun l => showList (l.map fun x => s!"{x.1}:{x.2}")) t.refs),
    ("nc", showOpt toString t.nodeCount),
    ("nb", toString t.nodeBound),
    ("ix", showList (t.toIx.map fun x => s!"{x.1}:{x.2}")),
    ("fx", showList (t.fromIx.map fun x => s!"{x.1}:{x.2}")),
    ("cpt", if t.compact then "1" else "0"),
    ("er", showOpt (fun l => showList (l.map showERef)) t.erefs),
    ("ec", showOpt toString t.edgeCount),
    ("eb", showOpt toString t.edgeBound),
    ("eix", showOpt (fun l => showList (l.map fun x => s!"{x.1}:{x.2.1}:{x.2.2}")) t.eix),
    ("nbr", showOpt (showRows toString) t.nbrs),
    ("nbo", showOpt (showRows toString) t.nbrsOut),
    ("nbi", showOpt (showRows toString) t.nbrsIn),
    ("ed", showOpt (showRows showERef) t.edges),
    ("edo", showOpt (showRows showERef) t.edgesOut),
    ("edi", showOpt (showRows showERef) t.edgesIn),
    ("adj", showOpt (showRows toString) t.adj) ]

/-- first field in which the model's rendering and the implementation's line differ -/
def firstDiff (model : Table) (impl : String) : Option String :=
  let kv := parseKV impl
  (render model).findSome? fun (k, v) =>
    let iv := (kv.lookup k).getD "?"
    if iv == v then none else some s!"{k} model=[{v}] impl=[{iv}]"

def parseOp (s : String) : Option Op :=
  match s.splitOn ":" with
  | ["ref"] => some .ref
  | ["frozen"] => some .frozen
  | ["frz0"] => some .frozenOwned
  | ["rev"] => some .rev
  | ["und"] => some .und
  | ["nf", m] => m.toNat?.map .nf
  | ["nfm", m] => m.toNat?.map .nf
  | ["ef", p] => p.toNat?.map .ef
  | _ => none

def parseStack (s : String) : Option (List Op) := allSome ((s.splitOn ",").map parseOp)

/-! ### judging -/

/-- node_references the stack must present: the base's, restricted by every node filter -/
def specRefs (ops : List Op) (r : List (Nat × Int)) : List (Nat × Int) :=
  ops.foldl (fun r op => match op with
    | .nf m => r.filter fun x => inMask m x.1
    | _ => r) r

/-- spec-level judge of an adaptor's table against the base table -/
def judgeView (ops : List Op) (base impl : Table) : List String :=
  let qs := base.ids.getD []
  checkTableWhy qs impl ++
  (match impl.ids, impl.erefs with
    | some _, some _ =>
      if (abs impl).Same (specStack ops (abs base)) then []
      else ["node_identifiers/edge_references/is_directed do not present the reversed / symmetrised / induced / restricted graph of the base"]
    | _, _ => []) ++
  (match impl.refs, base.refs with
    | some r, some br => if r.Perm (specRefs ops br) then [] else ["node_references (ids or weights) differ from the base's"]
    | _, _ => [])

structure DState where
  ty : String := ""
  dir : Bool := true
  base : Option Table := none
  /-- the fields of the last base dump, as text -/
  baseKV : List (String × String) := []
  /-- the storage mirror of the base graph (`none`: lost, after a request it could not replay) -/
  store : Option C06R.Store := none

/-- repairs of the base-type findings that apply to this case's type -/
def baseRepairs (d : DState) : List (String × (Table → Table)) :=
  (if d.ty == "matrix" && d.dir then [("D6", repairD6)] else []) ++
  (if d.ty == "csr" && !d.dir then [("D7", repairD7)] else [])

def repairAll (d : DState) (t : Table) : Table := (baseRepairs d).foldl (fun t r => r.2 t) t

/-- replay of one `base` request on the storage mirror: the new mirror state, or why there is none.
`none` = there is no mirror any more (lost earlier in this case: the reason was reported on the line where it was
lost — a dumped table that differs from the mirror's, or a request outside the theorems' scope); the rest of the case
is then judged against the specification only. -/
def replay (d : DState) (req : List String) : Option (Except String C06R.Store) :=
  match d.store with
  | none => none
  | some st =>
    match C06R.parseReq d.ty d.dir req with
    | none => some (.error s!"bad request {req}")
    | some r => some (st.exec r)

def stepBase (d : DState) (req : List String) (impl : String) : DState × String :=
  let rp := replay d req
  match parseTable impl with
  | none => ({ d with base := none, baseKV := [], store := none },
      s!"SPECFAIL a visit-trait call panicked or the table is malformed: {impl}")
  | some t =>
    -- exact part: the table computed from the storage mirror
    let exact : Option String := match rp with
      | some (.ok st) => firstDiff st.table impl
      | _ => none
    -- the mirror is kept only while it is in step with the implementation: after a difference the ids the harness uses
    -- in later requests are the implementation's, not the mirror's (e.g. another admissible reuse order of removed ids)
    let store' : Option C06R.Store := match rp, exact with
      | some (.ok st), none => some st
      | _, _ => none
    let d' := { d with base := some t, baseKV := parseKV impl, store := store' }
    let qs := t.ids.getD []
    let why := checkTableWhy qs t
    if why.isEmpty then
      match rp with
      | some (.error m) =>
        if m.startsWith "out of scope" then (d', s!"SPECFAIL generator left the proved range: {m}")
        else if m.startsWith "model fault" then (d', s!"SPECFAIL side condition no-fault of the storage mirror does not hold: {m}")
        else (d', s!"SPECFAIL {m}")
      | _ =>
        match exact with
        | some m => (d', s!"MODELDIFF base table of {d.ty} differs from the table of the storage mirror at {m}")
        | none => (d', "ok")
    else
      let fired := (baseRepairs d).filter fun r => r.2 t != t
      let t' := repairAll d t
      if !fired.isEmpty && (checkTableWhy (t'.ids.getD []) t').isEmpty then
        match exact with
        | some m =>
          (d', s!"MODELDIFF base table of {d.ty} differs from the table of the storage mirror at {m} (its violation of [{why.head!}] is the open finding {(fired.map (·.1)).head!})")
        | none => (d', s!"KNOWN {(fired.map (·.1)).head!} base table of {d.ty}: {why.head!}")
      else
        (d', s!"SPECFAIL base table of {d.ty} violates: {String.intercalate "; " why}")

def stepView (d : DState) (stack : String) (impl : String) : DState × String :=
  match d.base, parseStack stack with
  | none, _ => (d, "SPECFAIL view without a usable base table")
  | _, none => (d, s!"SPECFAIL bad stack {stack}")
  | some base, some ops =>
    if !C06Checks.stackOkB base.directed ops then
      (d, s!"SPECFAIL generator left the proved range: stack {stack} applies an orientation-dependent edge predicate to an undirected view")
    else
    match parseTable impl with
    | none => (d, s!"SPECFAIL a visit-trait call panicked through the adaptor or the table is malformed: {impl}")
    | some t =>
      let model := applyStack Cfg.asIs ops base
      let why := judgeView ops base t
      if why.isEmpty then
        match firstDiff model impl with
        | none => (d, "ok")
        | some m => (d, s!"MODELDIFF {m}")
      else
        -- which recorded OPEN findings change the model's answer on this very line?
        let cands : List (String × Table) :=
          (baseRepairs d).map (fun r => (r.1, applyStack Cfg.asIs ops (r.2 base))) ++
          [("D23", applyStack { Cfg.asIs with d23 := false } ops base)]
        let fired := (cands.filter fun c => c.2 != model).map (·.1)
        let base' := repairAll d base
        let ideal := applyStack Cfg.ideal ops base'
        if t == model && !fired.isEmpty && (judgeView ops base' ideal).isEmpty then
          (d, s!"KNOWN {fired.head!} {stack} over {d.ty}: {why.head!} [findings involved: {String.intercalate "+" fired}]")
        else
          let exact := match firstDiff model impl with
            | none => "table = as-is model"
            | some m => s!"differs from the as-is model at {m}"
          (d, s!"SPECFAIL {stack} over {d.ty} violates: {String.intercalate "; " why} ({exact})")

/-- the table through `&mut g`: `&mut G` forwards `GraphBase`, `Data`, `DataMap`, `DataMapMut` only, so every field is
`na`; a field that is present (a delegation added to /repo) must be the base table's -/
def tableKeys : List String :=
  ["dir", "ids", "refs", "nc", "nb", "ix", "fx", "er", "ec", "eb", "eix", "nbr", "nbo", "nbi", "ed", "edo", "edi", "adj"]

def stepMutView (d : DState) (impl : String) : DState × String :=
  let kv := parseKV impl
  let present := tableKeys.filter fun k => (kv.lookup k).getD "?" != "na"
  match present.find? (fun k => kv.lookup k != d.baseKV.lookup k) with
  | some k =>
    (d, s!"SPECFAIL the &mut G delegation answers {k}=[{(kv.lookup k).getD "?"}] but &G answers [{(d.baseKV.lookup k).getD "?"}]")
  | none =>
    if present.isEmpty && (kv.lookup "cpt").getD "?" == "0" then (d, "ok")
    else (d, s!"MODELDIFF trait availability of &mut G changed: {present} (cpt={(kv.lookup "cpt").getD "?"})")

/-- `id:w` / `id:x` items -/
def pOptW (s : String) : Option (Nat × Option Int) :=
  match s.splitOn ":" with
  | [a, "x"] => a.toNat?.map fun a => (a, none)
  | [a, w] => match a.toNat?, w.toInt? with
    | some a, some w => some (a, some w)
    | _, _ => none
  | _ => none

def stepDmap (d : DState) (via : String) (impl : String) : DState × String :=
  match d.base with
  | none => (d, "SPECFAIL dmap without a usable base table")
  | some base =>
    let kv := parseKV impl
    match (kv.lookup "nw").bind (fun s => allSome ((commaList s).map pOptW)),
          (kv.lookup "ew").bind (fun s => allSome ((commaList s).map pOptW)) with
    | some nw, some ew =>
      let refs := base.refs.getD []
      let er := base.erefs.getD []
      let badN := nw.find? fun x => refs.lookup x.1 != x.2
      let badE := ew.find? fun x => ((er.find? fun e => e.id == x.1).map (·.w)) != x.2
      match badN, badE with
      | some x, _ => (d, s!"SPECFAIL DataMap::node_weight({x.1}) through [{via}] disagrees with node_references of the graph")
      | _, some x => (d, s!"SPECFAIL DataMap::edge_weight({x.1}) through [{via}] disagrees with edge_references of the graph")
      | none, none => (d, "ok")
    | _, _ => (d, s!"SPECFAIL a DataMap call through [{via}] panicked or the line is malformed: {impl}")

/-- a LAW checked by the harness against the implementation itself (iterator laws of every trait-level iterator of a
view: `harness/src/iterlaws.rs`; `clone_from`/`Default`/`Debug` laws of the base types): the only admissible answer
is `ok`.  No classifier: none of the open findings (D6, D7, D23) concerns the way an iterator is consumed. -/
def stepLaw (d : DState) (what : List String) (impl : String) : String :=
  if impl == "ok" then "ok"
  else "SPECFAIL " ++ s!"law [{String.intercalate " " what}] over {d.ty}: {impl}"

def step (d : DState) (req : List String) (impl : String) : DState × String :=
  match req with
  | "case" :: k :: ty :: dir :: rest =>
    let dirB := dir == "d"
    let dbg := rest.head? != some "dbg=0"
    ({ ty := ty, dir := dirB, base := none, store := C06R.Store.init ty dirB dbg }, s!"case {k}")
  | "base" :: r => stepBase d r impl
  | ["view", stack] => stepView d stack impl
  | ["mutview"] => stepMutView d impl
  | ["dmap", via] => stepDmap d via impl
  | "law" :: what => (d, stepLaw d what impl)
  | _ => (d, s!"SPECFAIL bad request {req}")

end PetgraphModel.C06
