import PetgraphModel.Common
import PetgraphModel.GraphProto
import PetgraphModel.Oracle.Reach
import PetgraphModel.Oracle.C15Matching
import PetgraphModel.Oracle.C15Flow
import PetgraphModel.Model.C15Matching
import PetgraphModel.Model.C15Flow
import PetgraphModel.Oracle.C15BarrierSearch
/-
C15 driver.  Requests (after a `graph … enc=<encoding>` line):

  greedy | maximum                          => mate=<a:b,..> len=<n> edges=<a-b,..> nodes=<..> perfect=<0|1>
                                               cn=<..> ce=<a-b,..> empty=<0|1> bad=<n>        (or `panic`)
  flow <s> <t> w=<type> eb=<edge_bound>     => value=<v> len=<n> flows=<eid:f,..> vacnz=<n>   (or `panic`)

Spec level (against the abstract `MGraph` only): `checkMate` (valid matching), accessor agreement
with `mate` (`judgeAccessors`), and for `maximum` the maximality judge `judgeMaximum`: on EVERY case the
untrusted `findBarrierFast` proposes a Tutte–Berge barrier for the implementation's matching and the
proved-sound `checkBarrier` checks it; the size of a maximum matching is `maxMatchingSize` (exhaustive,
definitional) on graphs of at most `exhaustiveLimit` nodes and the answer of the proved Gabow model on the
canonical undirected view beyond (`canonicalMax`; `C15_maxSizeJudge_sound`: both are the definitional
maximum).  `judgeFlow` (capacity, conservation, value, and the residual cut certificate through the
proved `reachFrom`).  Exact level: the mirror models on the view.

Side conditions (the hypotheses of the model theorems, every one evaluated on every case it concerns):
`viewOkB`, `viewEdgesOkB`, `ixOkB`, `viewSoundB`, `wfB` per `graph` line; `viewExactB`, `vacOkB` per
matching request (`C15_maximum_maximum_checked`); `flowViewB`, `capsNonnegB`, `s ≠ t` per flow request.
A failure is `SPECFAIL side condition <name> does not hold`.  Per flow request also `capsFitB` for the
exact range of the request's capacity type (`C15_driver_flow`: no overflow, debug = release = the integer
model); a failure is `SPECFAIL generator left the proved range` (the generator respects the range).

  law <name>                                => ok | VIOLATED <why>      (harness-side law; anything but `ok` is SPECFAIL)

`KNOWN D25` (open): `maximum` on directed storage, everything valid, exactly the answer of the
mirror model (which follows out-edges only, like the code), but smaller than the maximum.
-/
namespace PetgraphModel.C15
open PetgraphModel PetgraphModel.Oracle

structure DState where
  v : View := default
  ok : Bool := false
  enc : String := ""

/-- the view's neighbour lists describe the abstract graph (as multisets) -/
def viewOkB (v : View) : Bool :=
  v.g.nodes.all fun a => sameSet (v.succ a) (v.g.succ a) && sameSet (v.pred a) (v.g.pred a)

/-- every listed edge id of the view's rows names an edge with these endpoints -/
def viewEdgesOkB (v : View) : Bool :=
  v.g.nodes.all fun a =>
    (v.outOf a).all (fun (b, eid) => match v.edge? eid with
      | some e => (e.src == a && e.tgt == b) || (v.g.directed == false && e.src == b && e.tgt == a)
      | none => false) &&
    (v.innOf a).all (fun (b, eid) => match v.edge? eid with
      | some e => (e.src == b && e.tgt == a) || (v.g.directed == false && e.src == a && e.tgt == b)
      | none => false)

/-- `a-b,c-d` -/
def parseDashPairs (s : String) : List (Nat × Nat) :=
  if s == "-" then [] else
  (s.splitOn ",").filterMap fun p =>
    match p.splitOn "-" with
    | [a, b] => match a.toNat?, b.toNat? with
      | some a, some b => some (a, b)
      | _, _ => none
    | _ => none

def showDashPairs (l : List (Nat × Nat)) : String :=
  if l.isEmpty then "-" else String.intercalate "," (l.map fun (a, b) => s!"{a}-{b}")

def showColonPairs (l : List (Nat × Nat)) : String :=
  if l.isEmpty then "-" else String.intercalate "," (l.map fun (a, b) => s!"{a}:{b}")

/-- `eid:f,eid:f` with integer `f` -/
def parseFlows (s : String) : Option (List (Nat × Int)) :=
  if s == "-" then some [] else
  (s.splitOn ",").mapM fun p =>
    match p.splitOn ":" with
    | [a, b] => match a.toNat?, b.toInt? with
      | some a, some b => some (a, b)
      | _, _ => none
    | _ => none

def normPair (p : Nat × Nat) : Nat × Nat := if p.1 ≤ p.2 then p else (p.2, p.1)

/-- insertion sort of pairs (lexicographic) -/
def sortPairs (l : List (Nat × Nat)) : List (Nat × Nat) := l.foldl (fun acc x =>
  let (a, b) := acc.span (fun y => y.1 < x.1 || (y.1 == x.1 && y.2 ≤ x.2)); a ++ x :: b) []

def samePairSet (a b : List (Nat × Nat)) : Bool := sortPairs a == sortPairs b

structure MObs where
  mate : List (Nat × Nat)
  len : Nat
  edges : List (Nat × Nat)
  nodes : List Nat
  perfect : Bool
  cn : List Nat
  ce : List (Nat × Nat)
  empty : Bool
  bad : Nat

def parseMObs (impl : String) : Option MObs := do
  let w := splitWords impl
  let mate := parsePairs (← field? w "mate")
  let len ← (← field? w "len").toNat?
  let edges := parseDashPairs (← field? w "edges")
  let nodes := parseNats (← field? w "nodes")
  let perfect := (← field? w "perfect") == "1"
  let cn := parseNats (← field? w "cn")
  let ce := parseDashPairs (← field? w "ce")
  let empty := (← field? w "empty") == "1"
  let bad ← (← field? w "bad").toNat?
  some { mate, len, edges, nodes, perfect, cn, ce, empty, bad }

/-- why `checkMate` rejects (for the message only; the verdict is `checkMate`) -/
def explainMate (g : MGraph) (mate : List (Nat × Nat)) : String :=
  match mate.find? (fun p => !mate.contains (p.2, p.1)) with
  | some p => s!"mate is not symmetric: mate({p.1}) = {p.2} but mate({p.2}) is not {p.1}"
  | none =>
  match mate.find? (fun p => !joinedInB g.edges p.1 p.2) with
  | some p => s!"matched pair {p.1}-{p.2} is not joined by a non-loop edge of the graph"
  | none => "a node has two mate entries"

/-- the accessor clauses: everything is the function of `mate` the documentation says -/
def judgeAccessors (g : MGraph) (o : MObs) : Option String :=
  let keys := o.mate.map (·.1)
  let pairs := pairsOf o.mate
  if !(keys.all g.nodes.contains) then some "mate has an entry for a node that is not in the graph" else
  if o.len != pairs.length then some s!"len() = {o.len} but mate describes {pairs.length} matched pairs" else
  if !(samePairSet (o.edges.map normPair) (pairs.map normPair)) then
    some s!"edges() = {showDashPairs o.edges} differs from the pairs of mate {showDashPairs pairs}" else
  if !(sameSet o.nodes keys) then some s!"nodes() = {showNats o.nodes} differs from the matched nodes {showNats keys}" else
  if !(sameSet o.cn keys) then some s!"contains_node is true for {showNats o.cn}, matched nodes are {showNats keys}" else
  if !(samePairSet o.ce o.mate) then some s!"contains_edge is true for {showDashPairs o.ce}, mate is {showColonPairs o.mate}" else
  if o.perfect != sameSet keys g.nodes then
    some s!"is_perfect() = {o.perfect} but matched nodes are {showNats keys} of {showNats g.nodes}" else
  if o.empty != (o.len == 0) then some s!"is_empty() = {o.empty} but len() = {o.len}" else
  if o.bad != 0 then some s!"{o.bad} probes with a non-existent node were answered as matched" else
  none

/-- how the maximality clause was decided -/
inductive MaxVerdict where
  /-- maximum; `cert` = a barrier certificate was found and accepted by `checkBarrier` -/
  | maximum (cert : Bool)
  /-- a valid matching, but a maximum matching has `k` pairs -/
  | smaller (k : Nat)
  /-- the size judge could not be evaluated (side condition of the canonical view) -/
  | undecided
  deriving DecidableEq, Repr

/-- the maximality judge for an accepted `mate` table: barrier certificate on every case, and the
definitional maximum (`maxSizeJudge`: exhaustive up to `exhaustiveLimit` nodes, the proved Gabow model
on the canonical view beyond) wherever the certificate alone does not decide.
Soundness: `C15_judgeMaximum_sound` (`Theorems/C15.lean`). -/
def judgeMaximum (g : MGraph) (mate : List (Nat × Nat)) : MaxVerdict :=
  let M := pairsOf mate
  let cert := C15M.barrierCertB g M
  if cert && decide (C15M.exhaustiveLimit < g.nodes.length) then .maximum true else
  match C15M.maxSizeJudge g with
  | some k => if M.length == k then .maximum cert else .smaller k
  | none => .undecided

/-- spec-level verdict for a matching answer; `maxReq` = the answer must be a maximum matching.
`Sum.inl why` = violated, `Sum.inr (some k)` = valid but only `len < k = maximum`, `Sum.inr none` = fine -/
def judgeMatching (g : MGraph) (o : MObs) (maxReq : Bool) : Sum String (Option Nat) :=
  if !checkMate g o.mate then .inl (explainMate g o.mate) else
  match judgeAccessors g o with
  | some why => .inl why
  | none =>
    if maxReq then
      match judgeMaximum g o.mate with
      | .maximum _ => .inr none
      | .smaller k => .inr (some k)
      | .undecided => .inl "side condition canonicalView does not hold: the abstract graph is not well formed or its edge ids repeat"
    else .inr none

/-- the first side condition of the `graph` line that fails -/
def viewSideCondition (v : View) : Option String :=
  if !C15M.wfB v.g then some "wf does not hold: node ids repeat or an edge endpoint is not a node" else
  if !viewOkB v then some "viewOk does not hold: the neighbour iteration of this encoding does not describe the abstract graph" else
  if !viewEdgesOkB v then some "viewEdgesOk does not hold: a row names an edge id with other endpoints" else
  if !C15M.ixOkB v then some "ixOk does not hold: to_index is not an injection below node_bound inverted by from_index" else
  if !C15M.viewSoundB v then some "viewSound does not hold: a listed neighbour is not adjacent" else
  none

/-- the side conditions of the matching theorems that are not already part of the `graph` line -/
def matchingSideCondition (v : View) : Option String :=
  if !C15M.viewExactB v then some "viewExact does not hold: the rows are not exactly the incident edges with their ids" else
  if !C15M.vacOkB v then some "vacOk does not hold: from_index of a vacant index names a live node" else
  none

def renderMatching (v : View) (m : C15M.Matching) : String :=
  if m.fault then "panic" else
  let mate := v.g.nodes.filterMap fun a => (m.mateOf v a).map fun b => (a, b)
  let cn := v.g.nodes.filter fun a => m.containsNode v a
  let ce := v.g.nodes.flatMap fun a => (v.g.nodes.filter fun b => m.containsEdge v a b).map fun b => (a, b)
  s!"mate={showColonPairs mate} len={m.len} edges={showDashPairs (m.edges v)} nodes={showNats (m.nodes v)} perfect={if m.isPerfect v then 1 else 0} cn={showNats cn} ce={showDashPairs ce} empty={if m.isEmpty then 1 else 0} bad=0"

def keyMode (enc : String) : Nat :=
  if enc == "map" || enc == "matrix" then 1 else if enc == "csr" || enc == "list" then 2 else 0

def renderFlow (_v : View) (eb : Nat) (r : C15F.FF) : String :=
  if r.fault then "panic" else
  let sorted := (r.flows.foldl (fun acc x =>
    let (a, b) := acc.span (fun y => y.1 ≤ x.1); a ++ x :: b) ([] : List (Nat × Int)))
  let body := if sorted.isEmpty then "-" else String.intercalate "," (sorted.map fun (k, x) => s!"{k}:{x}")
  s!"value={r.maxFlow} len={eb} flows={body} vacnz=0"

def step (d : DState) (req : List String) (impl : String) : DState × String :=
  match req with
  | "case" :: k :: _ => ({}, s!"case {k}")
  | "graph" :: _ =>
    match parseView req with
    | none => (d, "SPECFAIL unparsable graph line")
    | some v =>
      let enc := (field? req "enc").getD ""
      match viewSideCondition v with
      | none => ({ v := v, ok := true, enc := enc }, "ok")
      | some why => ({ v := v, ok := false, enc := enc }, s!"SPECFAIL side condition {why}")
  | "law" :: name =>
    -- a law checked in the harness against the implementation itself (iterator laws of
    -- `Matching::nodes()` / `Matching::edges()`, agreement of the iterators with `mate`/`len`)
    if impl == "ok" then (d, "ok")
    else (d, s!"SPECFAIL law {String.intercalate " " name}: {impl}")
  | [kind] =>
    if kind != "greedy" && kind != "maximum" then (d, s!"SPECFAIL bad request {req}") else
    let isMax := kind == "maximum"
    if !d.ok then (d, "SPECFAIL side condition view does not hold: the graph line of this case was rejected") else
    match matchingSideCondition d.v with
    | some why => (d, s!"SPECFAIL side condition {why}")
    | none =>
    if impl == "panic" then (d, s!"SPECFAIL {kind}_matching panicked") else
    match parseMObs impl with
    | none => (d, s!"SPECFAIL malformed answer {impl}")
    | some o =>
      let model := if isMax then C15M.maximumMatching d.v (keyMode d.enc) else C15M.greedyInner d.v
      let ms := renderMatching d.v model
      match judgeMatching d.v.g o isMax with
      | .inl why => (d, s!"SPECFAIL {kind}: {why}")
      | .inr none => (d, cmpExact ms impl)
      | .inr (some k) =>
        if d.v.g.directed && ms == impl then
          (d, s!"KNOWN D25 maximum_matching on directed storage follows out-edges only: valid matching of size {o.len}, the maximum (direction ignored) is {k}")
        else (d, s!"SPECFAIL maximum: matching has {o.len} edges, the largest possible number is {k}")
  | ["flow", s, t, wf, ebf] =>
    let s := s.toNat?.getD 0
    let t := t.toNat?.getD 0
    let eb := ((ebf.drop 3).toString.toNat?).getD 0
    if !d.ok then (d, "SPECFAIL side condition view does not hold: the graph line of this case was rejected") else
    match typeMax (wf.drop 2).toString with
    | none => (d, s!"SPECFAIL bad request: unknown capacity type {wf}")
    | some tmax =>
    if !capsFitB tmax d.v.g s then
      (d, s!"SPECFAIL generator left the proved range: a capacity, or the sum of the capacities out of the source, exceeds the exact range {tmax} of {wf}") else
    if !(C15F.flowViewB d.v && C15F.capsNonnegB d.v.g) then
      (d, "SPECFAIL side condition flowView/capsNonneg does not hold: the view's edge rows do not describe the abstract network, or a capacity is negative") else
    if impl == "panic" then (d, "SPECFAIL ford_fulkerson panicked") else
    let w := splitWords impl
    match field? w "value", field? w "flows" with
    | some vs, some fs =>
      match vs.toInt?, parseFlows fs with
      | some val, some fl =>
        match judgeFlow d.v.g s t fl val with
        | some why => (d, s!"SPECFAIL flow: {why}")
        | none =>
          let r := C15F.fordFulkerson d.v s t
          (d, cmpExact (renderFlow d.v eb r) impl)
      | _, _ => (d, s!"SPECFAIL flow: value or flows are not integers: {impl}")
    | _, _ => (d, s!"SPECFAIL malformed answer {impl}")
  | _ => (d, s!"SPECFAIL bad request {req}")

end PetgraphModel.C15
