import PetgraphModel.Common
import PetgraphModel.GraphProto
import PetgraphModel.Oracle.Reach
import PetgraphModel.Oracle.C15Matching
import PetgraphModel.Oracle.C15Flow
import PetgraphModel.Model.C15Matching
import PetgraphModel.Model.C15Flow
/-
C15 driver.  Requests (after a `graph … enc=<encoding>` line):

  greedy | maximum                          => mate=<a:b,..> len=<n> edges=<a-b,..> nodes=<..> perfect=<0|1>
                                               cn=<..> ce=<a-b,..> empty=<0|1> bad=<n>        (or `panic`)
  flow <s> <t> w=<type> eb=<edge_bound>     => value=<v> len=<n> flows=<eid:f,..> vacnz=<n>   (or `panic`)

Spec level (against the abstract `MGraph` only): `checkMate` (valid matching), accessor agreement
with `mate`, `len = maxMatchingSize` for `maximum`; `judgeFlow` (capacity, conservation, value, and
the residual cut certificate through the proved `reachFrom`).  Exact level: the mirror models on the
view.  `KNOWN D25`: `maximum` on directed storage, everything valid, exactly the answer of the
mirror model (which follows out-edges only, like the code), but smaller than the maximum.
-/
namespace PetgraphModel.C15
open PetgraphModel PetgraphModel.Oracle

structure DState where
  v : View := default
  ok : Bool := false
  enc : String := ""

/-- the view's neighbour lists describe the abstract graph (as multisets) -/
def viewOkB (v : View) : Bool :=
  v.g.nodes.all fun a => sameSet (v.succ a) (v.g.succ a) && sameSet (v.pred a) (v.g.pred a)

/-- every listed edge id of the view's rows names an edge with these endpoints -/
def viewEdgesOkB (v : View) : Bool :=
  v.g.nodes.all fun a =>
    (v.outOf a).all (fun (b, eid) => match v.edge? eid with
      | some e => (e.src == a && e.tgt == b) || (v.g.directed == false && e.src == b && e.tgt == a)
      | none => false) &&
    (v.innOf a).all (fun (b, eid) => match v.edge? eid with
      | some e => (e.src == b && e.tgt == a) || (v.g.directed == false && e.src == a && e.tgt == b)
      | none => false)

/-- `a-b,c-d` -/
def parseDashPairs (s : String) : List (Nat × Nat) :=
  if s == "-" then [] else
  (s.splitOn ",").filterMap fun p =>
    match p.splitOn "-" with
    | [a, b] => match a.toNat?, b.toNat? with
      | some a, some b => some (a, b)
      | _, _ => none
    | _ => none

def showDashPairs (l : List (Nat × Nat)) : String :=
  if l.isEmpty then "-" else String.intercalate "," (l.map fun (a, b) => s!"{a}-{b}")

def showColonPairs (l : List (Nat × Nat)) : String :=
  if l.isEmpty then "-" else String.intercalate "," (l.map fun (a, b) => s!"{a}:{b}")

/-- `eid:f,eid:f` with integer `f` -/
def parseFlows (s : String) : Option (List (Nat × Int)) :=
  if s == "-" then some [] else
  (s.splitOn ",").mapM fun p =>
    match p.splitOn ":" with
    | [a, b] => match a.toNat?, b.toInt? with
      | some a, some b => some (a, b)
      | _, _ => none
    | _ => none

def normPair (p : Nat × Nat) : Nat × Nat := if p.1 ≤ p.2 then p else (p.2, p.1)

/-- insertion sort of pairs (lexicographic) -/
def sortPairs (l : List (Nat × Nat)) : List (Nat × Nat) := l.foldl (fun acc x =>
  let (a, b) := acc.span (fun y => y.1 < x.1 || (y.1 == x.1 && y.2 ≤ x.2)); a ++ x :: b) []

def samePairSet (a b : List (Nat × Nat)) : Bool := sortPairs a == sortPairs b

structure MObs where
  mate : List (Nat × Nat)
  len : Nat
  edges : List (Nat × Nat)
  nodes : List Nat
  perfect : Bool
  cn : List Nat
  ce : List (Nat × Nat)
  empty : Bool
  bad : Nat

def parseMObs (impl : String) : Option MObs := do
  let w := splitWords impl
  let mate := parsePairs (← field? w "mate")
  let len ← (← field? w "len").toNat?
  let edges := parseDashPairs (← field? w "edges")
  let nodes := parseNats (← field? w "nodes")
  let perfect := (← field? w "perfect") == "1"
  let cn := parseNats (← field? w "cn")
  let ce := parseDashPairs (← field? w "ce")
  let empty := (← field? w "empty") == "1"
  let bad ← (← field? w "bad").toNat?
  some { mate, len, edges, nodes, perfect, cn, ce, empty, bad }

/-- why `checkMate` rejects (for the message only; the verdict is `checkMate`) -/
def explainMate (g : MGraph) (mate : List (Nat × Nat)) : String :=
  match mate.find? (fun p => !mate.contains (p.2, p.1)) with
  | some p => s!"mate is not symmetric: mate({p.1}) = {p.2} but mate({p.2}) is not {p.1}"
  | none =>
  match mate.find? (fun p => !joinedInB g.edges p.1 p.2) with
  | some p => s!"matched pair {p.1}-{p.2} is not joined by a non-loop edge of the graph"
  | none => "a node has two mate entries"

/-- the accessor clauses: everything is the function of `mate` the documentation says -/
def judgeAccessors (g : MGraph) (o : MObs) : Option String :=
  let keys := o.mate.map (·.1)
  let pairs := pairsOf o.mate
  if !(keys.all g.nodes.contains) then some "mate has an entry for a node that is not in the graph" else
  if o.len != pairs.length then some s!"len() = {o.len} but mate describes {pairs.length} matched pairs" else
  if !(samePairSet (o.edges.map normPair) (pairs.map normPair)) then
    some s!"edges() = {showDashPairs o.edges} differs from the pairs of mate {showDashPairs pairs}" else
  if !(sameSet o.nodes keys) then some s!"nodes() = {showNats o.nodes} differs from the matched nodes {showNats keys}" else
  if !(sameSet o.cn keys) then some s!"contains_node is true for {showNats o.cn}, matched nodes are {showNats keys}" else
  if !(samePairSet o.ce o.mate) then some s!"contains_edge is true for {showDashPairs o.ce}, mate is {showColonPairs o.mate}" else
  if o.perfect != sameSet keys g.nodes then
    some s!"is_perfect() = {o.perfect} but matched nodes are {showNats keys} of {showNats g.nodes}" else
  if o.empty != (o.len == 0) then some s!"is_empty() = {o.empty} but len() = {o.len}" else
  if o.bad != 0 then some s!"{o.bad} probes with a non-existent node were answered as matched" else
  none

/-- spec-level verdict for a matching answer; `maxReq` = the answer must be a maximum matching.
`Sum.inl why` = violated, `Sum.inr (some k)` = valid but only `len < k = maximum`, `Sum.inr none` = fine -/
def judgeMatching (g : MGraph) (o : MObs) (maxReq : Bool) : Sum String (Option Nat) :=
  if !checkMate g o.mate then .inl (explainMate g o.mate) else
  match judgeAccessors g o with
  | some why => .inl why
  | none =>
    if maxReq then
      let k := maxMatchingSize g
      if o.len == k then .inr none else .inr (some k)
    else .inr none

def renderMatching (v : View) (m : C15M.Matching) : String :=
  if m.fault then "panic" else
  let mate := v.g.nodes.filterMap fun a => (m.mateOf v a).map fun b => (a, b)
  let cn := v.g.nodes.filter fun a => m.containsNode v a
  let ce := v.g.nodes.flatMap fun a => (v.g.nodes.filter fun b => m.containsEdge v a b).map fun b => (a, b)
  s!"mate={showColonPairs mate} len={m.len} edges={showDashPairs (m.edges v)} nodes={showNats (m.nodes v)} perfect={if m.isPerfect v then 1 else 0} cn={showNats cn} ce={showDashPairs ce} empty={if m.isEmpty then 1 else 0} bad=0"

def keyMode (enc : String) : Nat :=
  if enc == "map" || enc == "matrix" then 1 else if enc == "csr" || enc == "list" then 2 else 0

def renderFlow (_v : View) (eb : Nat) (r : C15F.FF) : String :=
  if r.fault then "panic" else
  let sorted := (r.flows.foldl (fun acc x =>
    let (a, b) := acc.span (fun y => y.1 ≤ x.1); a ++ x :: b) ([] : List (Nat × Int)))
  let body := if sorted.isEmpty then "-" else String.intercalate "," (sorted.map fun (k, x) => s!"{k}:{x}")
  s!"value={r.maxFlow} len={eb} flows={body} vacnz=0"

def step (d : DState) (req : List String) (impl : String) : DState × String :=
  match req with
  | "case" :: k :: _ => ({}, s!"case {k}")
  | "graph" :: _ =>
    match parseView req with
    | none => (d, "SPECFAIL unparsable graph line")
    | some v =>
      let enc := (field? req "enc").getD ""
      if viewOkB v && viewEdgesOkB v && C15M.ixOkB v && C15M.viewSoundB v && C15M.wfB v.g then
        ({ v := v, ok := true, enc := enc }, "ok")
      else ({ v := v, ok := false, enc := enc }, "SPECFAIL neighbour iteration of this encoding does not describe the abstract graph")
  | [kind] =>
    if kind != "greedy" && kind != "maximum" then (d, s!"SPECFAIL bad request {req}") else
    let isMax := kind == "maximum"
    if impl == "panic" then (d, s!"SPECFAIL {kind}_matching panicked") else
    match parseMObs impl with
    | none => (d, s!"SPECFAIL malformed answer {impl}")
    | some o =>
      let model := if isMax then C15M.maximumMatching d.v (keyMode d.enc) else C15M.greedyInner d.v
      let ms := renderMatching d.v model
      match judgeMatching d.v.g o isMax with
      | .inl why => (d, s!"SPECFAIL {kind}: {why}")
      | .inr none => (d, cmpExact ms impl)
      | .inr (some k) =>
        if d.v.g.directed && ms == impl then
          (d, s!"KNOWN D25 maximum_matching on directed storage follows out-edges only: valid matching of size {o.len}, the maximum (direction ignored) is {k}")
        else (d, s!"SPECFAIL maximum: matching has {o.len} edges, the largest possible number is {k}")
  | ["flow", s, t, _w, ebf] =>
    let s := s.toNat?.getD 0
    let t := t.toNat?.getD 0
    let eb := ((ebf.drop 3).toString.toNat?).getD 0
    if impl == "panic" then (d, "SPECFAIL ford_fulkerson panicked") else
    let w := splitWords impl
    match field? w "value", field? w "flows" with
    | some vs, some fs =>
      match vs.toInt?, parseFlows fs with
      | some val, some fl =>
        match judgeFlow d.v.g s t fl val with
        | some why => (d, s!"SPECFAIL flow: {why}")
        | none =>
          if !(C15F.flowViewB d.v && C15F.capsNonnegB d.v.g) then
            (d, "SPECFAIL flow: the view's edge rows do not describe the abstract network (hypotheses of the model theorems)") else
          let r := C15F.fordFulkerson d.v s t
          (d, cmpExact (renderFlow d.v eb r) impl)
      | _, _ => (d, s!"SPECFAIL flow: value or flows are not integers: {impl}")
    | _, _ => (d, s!"SPECFAIL malformed answer {impl}")
  | _ => (d, s!"SPECFAIL bad request {req}")

end PetgraphModel.C15
