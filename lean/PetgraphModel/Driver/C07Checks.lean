import PetgraphModel.Common
import PetgraphModel.GraphProto
import PetgraphModel.Driver.C08
import PetgraphModel.Driver.C09
import PetgraphModel.Driver.C10
import PetgraphModel.Driver.C11
import PetgraphModel.Driver.C12
import PetgraphModel.Driver.C15
import PetgraphModel.Driver.C16
import PetgraphModel.Driver.C20
/-
C07, wave 5 — run-time checks of the hypotheses of the `C07_<A>_checked` theorems (core Lean only).

The harness prints, for every encoding of a case, a `view enc=<name> …` line: the iteration orders and the
`to_index` assignment of that encoding in ABSTRACT node ids (the node correspondence between two encodings is
therefore the identity on abstract ids) plus its `edge_references()` order.  For every cross-encoding comparison
`Driver/C07.lean` makes — the answer of encoding `E2` against the reference answer of encoding `E1` for one
(algorithm, arguments) — it evaluates the Boolean below that belongs to the algorithm on the two views.  Each
Boolean is the conjunction of the executable hypothesis checks of the algorithm's own vertical (C08 … C16, C20) on
BOTH views, `sameGraphB` (the two views present the same abstract graph: same direction flag, same edge records —
hence same weights —, node lists that are rearrangements of each other) and the argument conditions (start node is
a node, `s ≠ t`, `1 ≤ k`, cost-type width).  `Theorems/C07.lean`, section "run-time checks of the hypotheses",
proves for each: `…B = true →` both MODEL runs answer and their answers agree in what the property determines.
-/
namespace PetgraphModel.C07
open PetgraphModel

/-- one encoding as the harness printed it: the view and `edge_references()` as `(source, target, edge id)` -/
structure EV where
  v : View := default
  er : List (Nat × Nat × Nat) := []
  deriving Inhabited

/-- `edge_references()` as pairs of abstract node ids (what `connected_components` / `is_cyclic_undirected` read) -/
def EV.pairs (e : EV) : List (Nat × Nat) := e.er.map fun x => (x.1, x.2.1)

/-- `edge_references()` as edge ids (what `greedy_feedback_arc_set` reads) -/
def EV.eorder (e : EV) : List Nat := e.er.map fun x => x.2.2

/-- **the two views present the same abstract graph**: same direction flag, the same edge records (ids,
endpoints, weights), and node lists that are rearrangements of each other -/
def sameGraphB (v1 v2 : View) : Bool :=
  (v1.g.directed == v2.g.directed) && decide (v1.g.edges = v2.g.edges) && v1.g.nodes.isPerm v2.g.nodes

/-! ### C08 — walkers -/

/-- the three `graph`-line checks of `Driver/C08.lean` -/
def travViewB (v : View) : Bool := C08.viewOkB v && C08.wfB v.g && C08.closedB v

/-- `Dfs` / `Bfs` / `DfsPostOrder` from `s`, `Topo` (no start: `starts = []`) -/
def travB (v1 v2 : View) (starts : List Nat) : Bool :=
  travViewB v1 && travViewB v2 && sameGraphB v1 v2 && C08.nodesB v1 starts && C08.nodesB v2 starts

/-! ### C09 — has_path_connecting, is_bipartite_undirected, toposort, kosaraju_scc, tarjan_scc, is_cyclic_directed -/

def c09B (v1 v2 : View) (starts : List Nat) : Bool :=
  C09.caseOkB v1 && C09.caseOkB v2 && sameGraphB v1 v2 &&
  starts.all (fun a => C09J.nodeB v1.g a && C09J.nodeB v2.g a)

/-- connected_components: the reported pairs are the edges (as a set, orientation ignored), no vacant index -/
def ccB (e1 e2 : EV) : Bool :=
  c09B e1.v e2.v [] && C09J.erSetOkB e1.v.g e1.pairs && C09J.erSetOkB e2.v.g e2.pairs &&
  C09J.compactB e1.v && C09J.compactB e2.v

/-- is_cyclic_undirected: the reported pairs are the edges, each once -/
def cycuB (e1 e2 : EV) : Bool :=
  c09B e1.v e2.v [] && C09J.erOkB e1.v.g e1.pairs && C09J.erOkB e2.v.g e2.pairs

/-! ### C10 — dijkstra, astar, k_shortest_path -/

def dijB (v1 v2 : View) (s : Nat) : Bool :=
  C10.viewOkB v1 && C10.viewOkB v2 && sameGraphB v1 v2 && C10.srcOkB v1 s && C10.srcOkB v2 s

def kspB (v1 v2 : View) (s k : Nat) : Bool :=
  dijB v1 v2 s && C10.viewOkMB v1 && C10.viewOkMB v2 && C10.ixOkB v1 && C10.ixOkB v2 && decide (1 ≤ k)

/-! ### C11 — spfa, floyd_warshall (cost type `i64`) -/

def c11ViewB (v : View) : Bool := C11M.viewArcsB v && C11M.wfB v.g

def spfaB (v1 v2 : View) (s : Nat) : Bool :=
  c11ViewB v1 && c11ViewB v2 && sameGraphB v1 v2 && C11M.srcB v1 s && C11M.srcB v2 s &&
  C11M.nbB v1 && C11M.nbB v2 && C11M.fitSpfaB C11M.Meas.i64 v1 && C11M.fitSpfaB C11M.Meas.i64 v2

/-- bellman_ford (run on `f64` copies of the graph; `fitBfB`: every label stays an exactly represented integer) -/
def bfB (v1 v2 : View) (s : Nat) : Bool :=
  c11ViewB v1 && c11ViewB v2 && sameGraphB v1 v2 && C11M.srcB v1 s && C11M.srcB v2 s &&
  C11M.fitBfB v1 && C11M.fitBfB v2

def floydB (v1 v2 : View) : Bool :=
  C11M.wfB v1.g && C11M.wfB v2.g && sameGraphB v1 v2 &&
  C11M.fitFloydB C11M.Meas.i64 v1 && C11M.fitFloydB C11M.Meas.i64 v2

/-! ### C12 — min_spanning_tree -/

def mstB (e1 e2 : EV) : Bool :=
  (C12.viewFailure e1.v).isNone && (C12.viewFailure e2.v).isNone && sameGraphB e1.v e2.v &&
  C12.erOkB e1.v e1.er && C12.erOkB e2.v e2.er

/-! ### C15 — matchings, ford_fulkerson -/

def matchViewB (v : View) : Bool := C15M.ixOkB v && C15M.viewSoundB v && C15M.wfB v.g

def greedyB (v1 v2 : View) : Bool := matchViewB v1 && matchViewB v2 && sameGraphB v1 v2

/-- executable `C15W2.VacOk` (same definition as `C15W2.vacOkB`, which lives in a proof file) -/
def vacOkB (v : View) : Bool :=
  (List.range v.nb).all fun i =>
    v.g.nodes.any (fun a => v.toIndex a == i) || !v.g.nodes.contains (C15M.fromIndex v i)

/-- executable `C15T.ViewExact` (same definition as `C15W2.viewExactB`) -/
def viewExactB (v : View) : Bool :=
  C15.nodupB (v.g.edges.map (·.id)) &&
  v.out.all (fun r => r.2.all fun be => v.g.edges.any fun e =>
    e.id == be.2 && ((e.src == r.1 && e.tgt == be.1) || (!v.g.directed && e.src == be.1 && e.tgt == r.1))) &&
  v.g.edges.all (fun e => (v.outOf e.src).contains (e.tgt, e.id) &&
    (v.g.directed || (v.outOf e.tgt).contains (e.src, e.id))) &&
  v.inn.all (fun r => r.2.all fun be => v.g.edges.any fun e =>
    e.id == be.2 && ((e.src == be.1 && e.tgt == r.1) || (!v.g.directed && e.src == r.1 && e.tgt == be.1))) &&
  v.g.edges.all (fun e => (v.innOf e.tgt).contains (e.src, e.id))

def maxMatchViewB (v : View) : Bool :=
  C15M.ixOkB v && C15M.wfB v.g && viewExactB v && vacOkB v && !v.g.directed

def maxMatchB (v1 v2 : View) : Bool := maxMatchViewB v1 && maxMatchViewB v2 && sameGraphB v1 v2

def flowViewOkB (v : View) : Bool := C15F.flowViewB v && C15M.wfB v.g && C15F.capsNonnegB v.g

def flowB (v1 v2 : View) (s t : Nat) : Bool :=
  flowViewOkB v1 && flowViewOkB v2 && sameGraphB v1 v2 && s != t

/-! ### C16 — dominators::simple_fast, articulation_points -/

def domB (v1 v2 : View) (r : Nat) : Bool := C16.sfScopeB v1 r && C16.sfScopeB v2 r && sameGraphB v1 v2

def apB (v1 v2 : View) : Bool := C16.apScopeB v1 && C16.apScopeB v2 && sameGraphB v1 v2

/-! ### C20 — all_simple_paths, maximal_cliques, dsatur_coloring, page_rank, greedy_feedback_arc_set -/

/-- all_simple_paths (any `from`, `to` — also `from = to` —, directed or undirected storage): the model is a
function of the successor lists of the abstract graph and of `node_count` alone -/
def pathsB (v1 v2 : View) (a : Nat) : Bool :=
  C20.endpointsB v1.g && C20.endpointsB v2.g && v1.g.nodes.contains a && v2.g.nodes.contains a && sameGraphB v1 v2

def cliquesViewB (v : View) : Bool := !v.g.directed && C20.CliquesRun.nodupB v.g.nodes

def cliquesB (v1 v2 : View) : Bool := cliquesViewB v1 && cliquesViewB v2 && sameGraphB v1 v2

def dsaturViewB (v : View) : Bool := C20.DsaturBin.hypsB v.g && C20.DsaturBin.viewPermB v

def dsaturB (v1 v2 : View) : Bool := dsaturViewB v1 && dsaturViewB v2 && sameGraphB v1 v2

def pagerankViewB (v : View) : Bool := C20.nodesNodupB v.g && C20.endpointsB v.g && !v.g.nodes.isEmpty

def pagerankB (v1 v2 : View) : Bool := pagerankViewB v1 && pagerankViewB v2 && sameGraphB v1 v2

def fasB (e1 e2 : EV) : Bool :=
  C20.fasScopeB e1.v.g e1.eorder && C20.fasScopeB e2.v.g e2.eorder && sameGraphB e1.v e2.v

/-! ### dispatch: the check that belongs to one `run <algo> <args>` comparison -/

/-- the first failing named condition of one view, for the report (the verdict is decided by the Booleans above) -/
def viewWhy (algo : String) (e : EV) : Option String :=
  let v := e.v
  let fam (name : String) (b : Bool) : Option String := if b then none else some name
  match algo with
  | "dfs_set" | "bfs_set" | "post_set" | "topo_set" =>
    (fam "C08.viewOkB" (C08.viewOkB v)).orElse fun _ => (fam "C08.wfB" (C08.wfB v.g)).orElse fun _ => fam "C08.closedB" (C08.closedB v)
  | "has_path" | "bipartite" | "toposort" | "kosaraju" | "tarjan" | "cyclic_directed" =>
    (C09.caseWhy v).map fun s => "C09.caseOkB: " ++ s
  | "connected_components" =>
    ((C09.caseWhy v).map fun s => "C09.caseOkB: " ++ s).orElse fun _ =>
      (fam "C09.erSetOkB" (C09J.erSetOkB v.g e.pairs)).orElse fun _ => fam "C09.compactB" (C09J.compactB v)
  | "cyclic_undirected" =>
    ((C09.caseWhy v).map fun s => "C09.caseOkB: " ++ s).orElse fun _ => fam "C09.erOkB" (C09J.erOkB v.g e.pairs)
  | "dijkstra" | "astar" => fam "C10.viewOkB" (C10.viewOkB v)
  | "k_shortest" | "k_shortest_goal" =>
    (fam "C10.viewOkB" (C10.viewOkB v)).orElse fun _ => (fam "C10.viewOkMB" (C10.viewOkMB v)).orElse fun _ => fam "C10.ixOkB" (C10.ixOkB v)
  | "spfa" =>
    (fam "C11.viewArcsB" (C11M.viewArcsB v)).orElse fun _ => (fam "C11.wfB" (C11M.wfB v.g)).orElse fun _ => fam "C11.nbB" (C11M.nbB v)
  | "bellman_ford" => (fam "C11.viewArcsB" (C11M.viewArcsB v)).orElse fun _ => fam "C11.wfB" (C11M.wfB v.g)
  | "floyd" | "floyd_path" => fam "C11.wfB" (C11M.wfB v.g)
  | "mst" => ((C12.viewFailure v).map fun s => "C12.viewFailure: " ++ s).orElse fun _ => fam "C12.erOkB" (C12.erOkB v e.er)
  | "greedy_matching" =>
    (fam "C15.ixOkB" (C15M.ixOkB v)).orElse fun _ => (fam "C15.viewSoundB" (C15M.viewSoundB v)).orElse fun _ => fam "C15.wfB" (C15M.wfB v.g)
  | "maximum_matching" =>
    (fam "C15.ixOkB" (C15M.ixOkB v)).orElse fun _ => (fam "C15.wfB" (C15M.wfB v.g)).orElse fun _ =>
      (fam "C15.viewExactB" (viewExactB v)).orElse fun _ => fam "C15.vacOkB" (vacOkB v)
  | "max_flow" => (fam "C15.flowViewB" (C15F.flowViewB v)).orElse fun _ => fam "C15.wfB" (C15M.wfB v.g)
  | "dominators" | "articulation" =>
    (fam "C16.wfB" (C16.wfB v.g)).orElse fun _ => (fam "C16.viewOkB" (C16.viewOkB v)).orElse fun _ =>
      (fam "C16.rowsOkB" (C16.rowsOkB v)).orElse fun _ => if algo == "articulation" then fam "C16.indexOkB" (C16.indexOkB v) else none
  | "simple_paths" => fam "C20.endpointsB" (C20.endpointsB v.g)
  | "cliques" => fam "C20.nodupB" (C20.CliquesRun.nodupB v.g.nodes)
  | "dsatur" => (fam "C20.dsatur.hypsB" (C20.DsaturBin.hypsB v.g)).orElse fun _ => fam "C20.dsatur.viewPermB" (C20.DsaturBin.viewPermB v)
  | "page_rank" => (fam "C20.nodesNodupB" (C20.nodesNodupB v.g)).orElse fun _ => fam "C20.endpointsB" (C20.endpointsB v.g)
  | "fas" => fam "C20.fasScopeB" (C20.fasScopeB v.g e.eorder)
  | _ => none

/-- conditions on the generated INPUT of one request (not on the encoding) -/
def inputWhy (algo : String) (e : EV) (a0 a1 a2 : Nat) : Option String :=
  let v := e.v
  let isNode (x : Nat) : Option String := if v.g.nodes.contains x then none else some s!"{x} is not a node"
  match algo with
  | "dfs_set" | "bfs_set" | "post_set" | "bipartite" | "dominators" | "dijkstra" | "spfa" => isNode a0
  | "bellman_ford" =>
    (isNode a0).orElse fun _ => if C11M.fitBfB v then none else some "costs beyond the exactly represented range of f64"
  | "has_path" => isNode a0
  | "astar" => isNode a0
  | "k_shortest" => (isNode a0).orElse fun _ => if 1 ≤ a1 then none else some "k = 0"
  | "k_shortest_goal" => (isNode a0).orElse fun _ => if 1 ≤ a2 then none else some "k = 0"
  | "simple_paths" => isNode a0
  | "max_flow" =>
    if a0 == a1 then some "source = sink" else if !C15F.capsNonnegB v.g then some "a negative capacity" else none
  | "maximum_matching" | "greedy_matching" | "articulation" | "cliques" | "dsatur" =>
    if v.g.directed then some "directed graph" else none
  | "fas" => if v.g.directed then none else some "undirected graph"
  | "spfa_fit" => if C11M.fitSpfaB C11M.Meas.i64 v then none else some "costs beyond the proved no-overflow range of spfa"
  | "floyd" | "floyd_path" => if C11M.fitFloydB C11M.Meas.i64 v then none else some "costs beyond the proved no-overflow range of floyd_warshall"
  | "page_rank" => if v.g.nodes.isEmpty then some "no node" else none
  | _ => none

/-- **the hypothesis check of one comparison** (`e1` = the reference encoding, `e2` = the compared one) -/
def pairB (algo : String) (e1 e2 : EV) (a0 a1 a2 : Nat) : Bool :=
  match algo with
  | "dfs_set" | "bfs_set" | "post_set" => travB e1.v e2.v [a0]
  | "topo_set" => travB e1.v e2.v []
  | "has_path" | "bipartite" => c09B e1.v e2.v [a0]
  | "toposort" | "kosaraju" | "tarjan" | "cyclic_directed" => c09B e1.v e2.v []
  | "connected_components" => ccB e1 e2
  | "cyclic_undirected" => cycuB e1 e2
  | "dijkstra" | "astar" => dijB e1.v e2.v a0
  | "k_shortest" => kspB e1.v e2.v a0 a1
  | "k_shortest_goal" => kspB e1.v e2.v a0 a2
  | "spfa" => spfaB e1.v e2.v a0
  | "bellman_ford" => bfB e1.v e2.v a0
  | "floyd" | "floyd_path" => floydB e1.v e2.v
  | "mst" => mstB e1 e2
  | "greedy_matching" => greedyB e1.v e2.v
  | "maximum_matching" => maxMatchB e1.v e2.v
  | "max_flow" => flowB e1.v e2.v a0 a1
  | "dominators" => domB e1.v e2.v a0
  | "articulation" => apB e1.v e2.v
  | "simple_paths" => pathsB e1.v e2.v a0
  | "cliques" => cliquesB e1.v e2.v
  | "dsatur" => dsaturB e1.v e2.v
  | "page_rank" => pagerankB e1.v e2.v
  | "fas" => fasB e1 e2
  | _ => false

/-- the algorithms `pairB` knows (every `run` request of harness/src/c07.rs) -/
def knownAlgo (algo : String) : Bool :=
  ["dfs_set", "bfs_set", "post_set", "topo_set", "has_path", "bipartite", "toposort", "kosaraju", "tarjan",
   "cyclic_directed", "connected_components", "cyclic_undirected", "dijkstra", "astar", "k_shortest", "spfa",
   "floyd", "floyd_path", "bellman_ford", "k_shortest_goal", "mst", "greedy_matching", "maximum_matching", "max_flow", "dominators", "articulation",
   "simple_paths", "cliques", "dsatur", "page_rank", "fas"].contains algo

/-- verdict of the hypothesis check of one comparison: `none` = inside the scope of `C07_<algo>_checked` -/
def pairWhy (algo : String) (enc1 enc2 : String) (e1 e2 : EV) (a0 a1 a2 : Nat) : Option String :=
  if pairB algo e1 e2 a0 a1 a2 then none
  else if !knownAlgo algo then some s!"SPECFAIL no C07 theorem is attached to request {algo}"
  else
    let inp := (inputWhy algo e1 a0 a1 a2).orElse fun _ =>
      if algo == "spfa" then inputWhy "spfa_fit" e1 a0 a1 a2 else none
    match inp with
    | some w => some s!"SPECFAIL generator left the proved range: {algo}: {w}"
    | none =>
      match viewWhy algo e1, viewWhy algo e2 with
      | some w, _ => some s!"SPECFAIL side condition {w} does not hold: encoding {enc1} ({algo})"
      | none, some w => some s!"SPECFAIL side condition {w} does not hold: encoding {enc2} ({algo})"
      | none, none =>
        if !sameGraphB e1.v e2.v then
          some s!"SPECFAIL side condition sameGraphB does not hold: encodings {enc1} and {enc2} do not present the same abstract graph"
        else some s!"SPECFAIL side condition of {algo} does not hold on encodings {enc1}, {enc2}"

end PetgraphModel.C07
