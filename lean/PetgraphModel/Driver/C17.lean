import PetgraphModel.Common
import PetgraphModel.Model.Serde
import PetgraphModel.Model.SerdeW6
import PetgraphModel.Spec.Serde
import PetgraphModel.Spec.SerdeW6
import PetgraphModel.Spec.SerdeCheck
import PetgraphModel.Spec.SerdeText
/-
C17 driver.  A case works on numbered *slots*, each holding one graph value (`Graph`, `StableGraph` or `GraphMap`).
For every slot the driver keeps the mirror-model state (exact) and the abstract graph (specification) side by side.

  new  <slot> <G|S|M> <d|u> <w>                                  => ok
  op   <slot> <add_node|add_edge|remove_node|remove_edge|check> … => answer
  dump <slot>                                                     => observation
  ser  <slot> jv                                                  => ok <wire> | panic
  ser  <slot> js                                                  => ok <the JSON text itself> | panic
  ser  <slot> bin                                                 => ok <the bincode bytes in hex> | panic
  de   <slot> <G|S|M> <d|u> <w> <fmt> ord=<fields> rt=<slot|-> n=… h=… p=… e=… [txt=<json>|hex=<bytes>]
                                                                  => ok <observation> | err … | panic
  blind <G|S|M> <d|u> <w> <fmt>                                   => err … | ok <observation> | panic
  x    <slot> <reverse|clear|clear_edges>                         => observation afterwards
  clone <slot> <new slot>                                         => observation of the clone
  clonefrom <slot> <other slot>                                   => observation of <other slot> after other.clone_from(&slot)
  law  <name> …                                                   => ok | VIOLATED <why>   (a law checked in the harness against
                                                                     the implementation itself; anything but ok is a SPECFAIL)
  stat                                                            => the corner inputs the case reached (statistics only)

The case line carries the build profile (`profile=debug|release`): `check_free_lists` and the
`collect_seq_with_length` assertion exist in debug builds only, so the mirror model's answer for a broken free list /
a wrong cached count is `panic` in a debug build and `ok` / the stream as it is in a release build.

Spec-level rules are the clauses of the property: serialization shows exactly the abstract graph (vacancies up to the
bounds), a valid stream loads (capacity = the index type's maximum: D20 is the recorded exception), the loaded graph
is observably the stream's graph, anything else gives an error or a consistent graph, nothing panics, and the loaded
graph stays consistent under further operations.
-/
namespace PetgraphModel.C17
open PetgraphModel PetgraphModel.Serde PetgraphModel.SerdeSpec PetgraphModel.SerdeCheck PetgraphModel.SerdeText

inductive MState where
  | g (r : Raw)
  | s (s : Stable)
  | m (m : GMap)
  | lost          -- the model has no state for this slot (a fault, or the model refused what the implementation loaded)

structure Slot where
  model : MState
  spec : AGraph

structure DState where
  slots : List (Nat × Slot) := []
  /-- the build profile of the harness that produced the case (`profile=release` on the case line) -/
  debug : Bool := true

def DState.get (d : DState) (k : Nat) : Option Slot := d.slots.lookup k
def DState.put (d : DState) (k : Nat) (s : Slot) : DState := { d with slots := (k, s) :: d.slots.filter (·.1 != k) }
def DState.drop (d : DState) (k : Nat) : DState := { d with slots := d.slots.filter (·.1 != k) }

/-! ### printing -/

def showList (l : List String) (sep : String) : String := if l.isEmpty then "-" else sep.intercalate l

def showTriple (t : Nat × Nat × Nat) : String := s!"{t.1}.{t.2.1}.{t.2.2}"

def showObs (o : Obs) : String :=
  let ns := showList (o.nodes.map fun (i, w) => s!"{i}:{w}") ";"
  let es := showList (o.edges.map fun (i, s, t, w) => s!"{i}:{s}:{t}:{w}") ";"
  let adj := showList (o.adj.map fun (i, out, inn, nb) =>
    s!"{i}|{showList (out.map showTriple) ","}|{showList (inn.map showTriple) ","}|{showNats nb}") ";"
  s!"nc={o.nc} ec={o.ec} nb={o.nb} eb={o.eb} N={ns} E={es} A={adj}"

def showFault : Fault → String
  | .oob => "FAULT-oob" | .fuel => "FAULT-fuel" | .dbg => "FAULT-debug-assert" | .arith => "FAULT-underflow"

def mapObsOf (m : GMap) : MapObs :=
  { nc := m.nodes.length, ec := m.edges.length, nodes := m.nodes.map (·.1), edges := m.edges,
    adj := m.nodes.map fun (n, _) => (n, m.neighborsDirected n true, m.neighborsDirected n false) }

def showMapObs (o : MapObs) : String :=
  let ns := showList (o.nodes.map toString) ";"
  let es := showList (o.edges.map fun ((a, b), w) => s!"{a}:{b}:{w}") ";"
  let adj := showList (o.adj.map fun (n, out, inn) => s!"{n}|{showInts out}|{showInts inn}") ";"
  s!"nc={o.nc} ec={o.ec} N={ns} E={es} A={adj}"

def showModelDump : MState → String
  | .g r => match r.obs with | .ok o => showObs o | .error f => showFault f
  | .s s => match s.obs with | .ok o => showObs o | .error f => showFault f
  | .m m => showMapObs (mapObsOf m)
  | .lost => "(no model state)"

def showWire (w : Wire) : String :=
  let p := match w.prop with | some true => "d" | some false => "u" | none => "x"
  let es := showList (w.edges.map fun e => match e with | none => "_" | some (a, b, x) => s!"{a}:{b}:{x}") ";"
  s!"n={showInts w.nodes} h={showNats w.holes} p={p} e={es}"

def showDeErr : DeErr → String
  | .other => "err other" | .missing => "err missing" | .gholes => "err gholes" | .gnone => "err gnone"
  | .prop => "err prop" | .lenNode n m => s!"err len node {n} {m}" | .lenEdge n m => s!"err len edge {n} {m}"
  | .hole h => s!"err hole {h}" | .node i b => s!"err node {i} {b}" | .panic => "panic"

def showOpErr : OpErr → String
  | .nodeIxLimit => "err NodeIxLimit" | .edgeIxLimit => "err EdgeIxLimit"
  | .nodeOutBounds => "err NodeOutBounds" | .nodeMissed i => s!"err NodeMissed {i}"

def showOptInt : Option Int → String
  | none => "none" | some w => s!"some {w}"

/-! ### parsing -/

def afterEq (tok key : String) : Option String :=
  match tok.splitOn "=" with
  | [k, v] => if k == key then some v else none
  | _ => none

/-- `key=<rest>` where `<rest>` may itself contain `=` (a mutated JSON text) -/
def afterEqFirst (tok key : String) : Option String :=
  if tok.startsWith (key ++ "=") then some (tok.drop (key.length + 1)).toString else none

def splitList (s sep : String) : List String := if s == "-" then [] else s.splitOn sep

def parseTriple (s : String) : Option (Nat × Nat × Nat) :=
  match s.splitOn "." with
  | [a, b, c] => match a.toNat?, b.toNat?, c.toNat? with
    | some a, some b, some c => some (a, b, c)
    | _, _, _ => none
  | _ => none

def parseObs (ws : List String) : Option Obs :=
  match ws with
  | [nc, ec, nb, eb, n, e, a] =>
    match (afterEq nc "nc").bind (·.toNat?), (afterEq ec "ec").bind (·.toNat?), (afterEq nb "nb").bind (·.toNat?),
          (afterEq eb "eb").bind (·.toNat?), afterEq n "N", afterEq e "E", afterEq a "A" with
    | some nc, some ec, some nb, some eb, some n, some e, some a =>
      let ns := (splitList n ";").mapM fun x => match x.splitOn ":" with
        | [i, w] => (match i.toNat?, w.toInt? with | some i, some w => some (i, w) | _, _ => none)
        | _ => none
      let es := (splitList e ";").mapM fun x => match x.splitOn ":" with
        | [i, s, t, w] => (match i.toNat?, s.toNat?, t.toNat?, w.toInt? with
          | some i, some s, some t, some w => some (i, s, t, w) | _, _, _, _ => none)
        | _ => none
      let adj := (splitList a ";").mapM fun x => match x.splitOn "|" with
        | [i, o, n, u] =>
          (match i.toNat?, (splitList o ",").mapM parseTriple, (splitList n ",").mapM parseTriple with
            | some i, some o, some n => some (i, o, n, parseNats u)
            | _, _, _ => none)
        | _ => none
      match ns, es, adj with
      | some ns, some es, some adj => some { nc, ec, nb, eb, nodes := ns, edges := es, adj }
      | _, _, _ => none
    | _, _, _, _, _, _, _ => none
  | _ => none

def parseMapObs (ws : List String) : Option MapObs :=
  match ws with
  | [nc, ec, n, e, a] =>
    match (afterEq nc "nc").bind (·.toNat?), (afterEq ec "ec").bind (·.toNat?), afterEq n "N", afterEq e "E", afterEq a "A" with
    | some nc, some ec, some n, some e, some a =>
      let ns := (splitList n ";").mapM (·.toInt?)
      let es := (splitList e ";").mapM fun x => match x.splitOn ":" with
        | [p, q, w] => (match p.toInt?, q.toInt?, w.toInt? with | some p, some q, some w => some ((p, q), w) | _, _, _ => none)
        | _ => none
      let adj := (splitList a ";").mapM fun x => match x.splitOn "|" with
        | [i, o, n] => (match i.toInt? with | some i => some (i, parseInts o, parseInts n) | none => none)
        | _ => none
      match ns, es, adj with
      | some ns, some es, some adj => some { nc, ec, nodes := ns, edges := es, adj }
      | _, _, _ => none
    | _, _, _, _, _ => none
  | _ => none

def parseWire (ws : List String) : Option Wire :=
  match ws with
  | [n, h, p, e] =>
    match afterEq n "n", afterEq h "h", afterEq p "p", afterEq e "e" with
    | some n, some h, some p, some e =>
      let es := (splitList e ";").mapM fun x =>
        if x == "_" then some none
        else match x.splitOn ":" with
          | [a, b, w] => (match a.toNat?, b.toNat?, w.toInt? with | some a, some b, some w => some (some (a, b, w)) | _, _, _ => none)
          | _ => none
      match es with
      | some es => some { nodes := parseInts n, holes := parseNats h,
                          prop := if p == "d" then some true else if p == "u" then some false else none, edges := es }
      | none => none
    | _, _, _, _ => none
  | _ => none

def parseOrder (s : String) : List Field :=
  s.toList.filterMap fun c => if c == 'n' then some .n else if c == 'h' then some .h else if c == 'p' then some .p
    else if c == 'e' then some .e else none

def endOf (w : String) : Nat :=
  match w with
  | "8" => 255 | "16" => 65535 | "32" => 4294967295 | "64" => 18446744073709551615 | _ => 0

/-- bytes of an index of the type whose maximum is `END` -/
def indexBytes (END : Nat) : Nat := if END == 255 then 1 else if END == 65535 then 2 else if END == 4294967295 then 4 else 8

def kindOf (t : String) : Kind := if t == "G" then .graph else if t == "S" then .stable else .map

def parseAns (impl : String) : Ans :=
  match splitWords impl with
  | ["ok"] => .unit
  | ["ok", i] => (match i.toNat? with | some i => .okIx i | none => .other impl)
  | ["err", what] => .err what none
  | ["err", what, p] => .err what p.toNat?
  | ["some", w] => (match w.toInt? with | some w => .someW w | none => .other impl)
  | ["none"] => .none
  | ["true"] => .bool true
  | ["false"] => .bool false
  | _ => .other impl

/-! ### verdicts -/

def verdict (spec : Option String) (model impl : String) : String :=
  match spec with
  | some why => s!"SPECFAIL {why}"
  | none => cmpExact model impl

/-- spec-level judgement of a dump of the slot's kind; on success the abstract state the dump shows (edge ids are
    re-read where the documentation leaves them open) -/
def judgeDump (a : AGraph) (ws : List String) : Except String AGraph :=
  match a.kind with
  | .map =>
    match parseMapObs ws with
    | none => .error "unreadable GraphMap observation"
    | some o => judgeMapObs a o
  | _ =>
    match parseObs ws with
    | none => .error "unreadable observation"
    | some o => judgeObs a o

/-- abstract state read off a consistent observation (used when the stream was not a valid serialization and the
    property only demands *some* consistent graph) -/
def adoptDump (kind : Kind) (END : Nat) (directed : Bool) (ws : List String) : Except String AGraph :=
  match kind with
  | .map =>
    match parseMapObs ws with
    | none => .error "unreadable GraphMap observation"
    | some o => match mapObsConsistent directed o with
      | some why => .error why
      | none => .ok { kind, END, directed, mnodes := o.nodes, medges := o.edges }
  | k =>
    match parseObs ws with
    | none => .error "unreadable observation"
    | some o => match obsConsistent k END directed o with
      | some why => .error why
      | none => .ok { kind, END, directed, nodes := o.nodes, edges := o.edges }

def modelDe (kind : Kind) (END : Nat) (directed : Bool) (order : List Field) (w : Wire) : MState × String :=
  match kind with
  | .graph => (match deGraph END directed order w with
    | .ok r => (.g r, "ok " ++ showModelDump (.g r)) | .error e => (.lost, showDeErr e))
  | .stable => (match deStable END directed order w with
    | .ok s => (.s s, "ok " ++ showModelDump (.s s)) | .error e => (.lost, showDeErr e))
  | .map => (match deMap directed order w with
    | .ok m => (.m m, "ok " ++ showModelDump (.m m)) | .error e => (.lost, showDeErr e))

/-- D20: a valid stream refused only because a count equals the index type's maximum -/
def isD20 (w : Wire) (order : List Field) (END : Nat) (impl : List String) : Bool :=
  let holes := if order.contains .h then w.holes.length else 0
  match impl with
  | ["err", "len", "node", n, m] => n.toNat? == some END && m.toNat? == some END && w.nodes.length + holes == END
  | ["err", "len", "edge", n, m] => n.toNat? == some END && m.toNat? == some END && w.edges.length == END
  | _ => false

def stepOp (d : DState) (k : Nat) (sl : Slot) (name : String) (args : List String) (impl : String) : DState × String :=
  let ans := parseAns impl
  let fin (model' : MState) (mstr : String) (spec' : Except String AGraph) : DState × String :=
    match spec' with
    | .error why => (d.put k { sl with model := model' }, s!"SPECFAIL {why}")
    | .ok a => (d.put k { model := model', spec := a }, cmpExact mstr impl)
  if impl == "panic" && name != "check" then (d.put k { sl with model := .lost }, s!"SPECFAIL {name} panicked")
  else
  match name, args with
  | "add_node", [w] =>
    let w := w.toInt?.getD 0
    let (m', ms) : MState × String := match sl.model with
      | .g r => (match r.tryAddNode w with
        | (r1, .ok i) => (.g r1, s!"ok {i}") | (r1, .error e) => (.g r1, showOpErr e))
      | .s s => (match s.tryAddNode w with
        | .ok (s1, .ok i) => (.s s1, s!"ok {i}") | .ok (s1, .error e) => (.s s1, showOpErr e)
        | .error f => (.lost, showFault f))
      | .m m => (.m (m.addNode w), "ok")
      | .lost => (.lost, "(no model state)")
    fin m' ms (specAddNode sl.spec w ans)
  | "add_edge", [a, b, w] =>
    let w := w.toInt?.getD 0
    (match sl.spec.kind with
    | .map =>
      let a := a.toInt?.getD 0
      let b := b.toInt?.getD 0
      let (m', ms) : MState × String := match sl.model with
        | .m m => let (m1, o) := m.addEdge a b w; (.m m1, showOptInt o)
        | _ => (.lost, "(no model state)")
      fin m' ms (specMapAddEdge sl.spec a b w ans)
    | _ =>
      let a := a.toNat?.getD 0
      let b := b.toNat?.getD 0
      let (m', ms) : MState × String := match sl.model with
        | .g r => (match r.tryAddEdge a b w with
          | (r1, .ok i) => (.g r1, s!"ok {i}") | (r1, .error e) => (.g r1, showOpErr e))
        | .s s => (match s.tryAddEdge a b w with
          | .ok (s1, .ok i) => (.s s1, s!"ok {i}") | .ok (s1, .error e) => (.s s1, showOpErr e)
          | .error f => (.lost, showFault f))
        | _ => (.lost, "(no model state)")
      fin m' ms (specAddEdge sl.spec a b w ans))
  | "remove_node", [a] =>
    (match sl.spec.kind with
    | .map =>
      let a := a.toInt?.getD 0
      let (m', ms) : MState × String := match sl.model with
        | .m m => let (m1, o) := m.removeNode a; (.m m1, showBool o)
        | _ => (.lost, "(no model state)")
      fin m' ms (specMapRemoveNode sl.spec a ans)
    | _ =>
      let a := a.toNat?.getD 0
      let (m', ms) : MState × String := match sl.model with
        | .g r => (match r.removeNode a with
          | .ok (r1, o) => (.g r1, showOptInt o) | .error f => (.lost, showFault f))
        | .s s => (match s.removeNode a with
          | .ok (s1, o) => (.s s1, showOptInt o) | .error f => (.lost, showFault f))
        | _ => (.lost, "(no model state)")
      fin m' ms (specRemoveNode sl.spec a ans))
  | "remove_edge", [e] =>
    let e := e.toNat?.getD 0
    let (m', ms) : MState × String := match sl.model with
      | .g r => (match r.removeEdge e with
        | .ok (r1, o) => (.g r1, showOptInt o) | .error f => (.lost, showFault f))
      | .s s => (match s.removeEdge e with
        | .ok (s1, o) => (.s s1, showOptInt o) | .error f => (.lost, showFault f))
      | _ => (.lost, "(no model state)")
    fin m' ms (specRemoveEdge sl.spec e ans)
  | "remove_edge", [a, b] =>
    let a := a.toInt?.getD 0
    let b := b.toInt?.getD 0
    let (m', ms) : MState × String := match sl.model with
      | .m m => let (m1, o) := m.removeEdge a b; (.m m1, showOptInt o)
      | _ => (.lost, "(no model state)")
    fin m' ms (specMapRemoveEdge sl.spec a b ans)
  | "check", [] =>
    -- retain_nodes / retain_edges keeping everything: runs the debug-build free-list self check
    let ms := match sl.model with
      | .s s => (match s.checkFreeLists with | .ok _ => "ok" | .error _ => if d.debug then "panic" else "ok")
      | .lost => "(no model state)"
      | _ => "ok"
    fin sl.model ms (if impl == "ok" then .ok sl.spec else .error "free-list self check (check_free_lists) failed")
  | _, _ => (d, s!"SPECFAIL bad request op {name} {args}")

def step (d : DState) (req : List String) (impl : String) : DState × String :=
  match req with
  | "case" :: k :: rest => ({ debug := !(rest.contains "profile=release") }, s!"case {k}")
  | "law" :: _ =>
    -- a law checked in the harness against the implementation itself (iterator laws, clone_from, Default, Debug,
    -- IndexMut, the visit-trait views, the instantiations that are not mirrored)
    if impl == "ok" then (d, "ok") else (d, s!"SPECFAIL law {" ".intercalate (req.drop 1 |>.take 4)}: {impl}")
  | ["stat"] => (d, "ok")
  | ["x", k, name] =>
    let k := k.toNat?.getD 0
    (match d.get k with
    | none => (d, s!"SPECFAIL x on unknown slot {k}")
    | some sl =>
      if impl == "panic" then (d.put k { sl with model := .lost }, s!"SPECFAIL {name} panicked")
      else
      let mdl : Option MState := match name, sl.model with
        | "reverse", .g r => some (.g r.reverse) | "reverse", .s s => some (.s s.reverse)
        | "clear", .g r => some (.g r.clear) | "clear", .s s => some (.s s.clear) | "clear", .m m => some (.m m.clear)
        | "clear_edges", .g r => some (.g r.clearEdges) | "clear_edges", .s s => some (.s s.clearEdges)
        | _, .lost => some .lost
        | _, _ => none
      let spc : Option AGraph := match name with
        | "reverse" => if sl.spec.kind == .map then none else some (specReverse sl.spec)
        | "clear" => some (specClear sl.spec)
        | "clear_edges" => if sl.spec.kind == .map then none else some (specClearEdges sl.spec)
        | _ => none
      -- run-time check of the hypothesis of `C17_reverse_inv_*` / `C17_clear_edges_inv_*` / `C17_reverse_view_*`: the
      -- state the operation is applied to satisfies the structural invariant (`C17_stableInv_check`, `C17_graphInv_check`)
      let side : Option String := match sl.model with
        | .g r => if graphInvB r then none else some "GraphInv (the Graph the operation is applied to)"
        | .s s => if stableInvB s then none else some "StableInv (the StableGraph the operation is applied to)"
        | .m m => if mapWfB m then none else some "GraphMap well-formedness (the map the operation is applied to)"
        | .lost => none
      match side with
      | some what => (d, s!"SPECFAIL side condition {what} does not hold on the mirror state")
      | none =>
      match mdl, spc with
      | some m', some a =>
        -- an undirected graph reversed is the same graph: either orientation of its edges is accepted
        let j := match judgeDump a (splitWords impl) with
          | .ok a' => Except.ok a'
          | .error why => if name == "reverse" && !sl.spec.directed then judgeDump sl.spec (splitWords impl) else .error why
        (match j with
        | .error why => (d.put k { sl with model := m' }, s!"SPECFAIL after {name}: {why}")
        | .ok a' => (d.put k { model := m', spec := a' }, cmpExact (showModelDump m') impl))
      | _, _ => (d, s!"SPECFAIL bad request x {name}"))
  | ["clone", k, j] =>
    let k := k.toNat?.getD 0
    let j := j.toNat?.getD 0
    (match d.get k with
    | none => (d, s!"SPECFAIL clone of unknown slot {k}")
    | some sl =>
      if impl == "panic" then (d, "SPECFAIL clone panicked")
      else match judgeDump sl.spec (splitWords impl) with
        | .error why => (d, s!"SPECFAIL the clone is not the graph that was cloned: {why}")
        | .ok a => (d.put j { model := sl.model, spec := a }, cmpExact (showModelDump sl.model) impl))
  | ["clonefrom", k, j] =>
    let k := k.toNat?.getD 0
    let j := j.toNat?.getD 0
    (match d.get k with
    | none => (d, s!"SPECFAIL clone_from of unknown slot {k}")
    | some sl =>
      if impl == "panic" then ((d.drop j), "SPECFAIL clone_from panicked")
      else match judgeDump sl.spec (splitWords impl) with
        | .error why => ((d.drop j), s!"SPECFAIL after clone_from the target is not the graph that was cloned: {why}")
        | .ok a => (d.put j { model := sl.model, spec := a }, cmpExact (showModelDump sl.model) impl))
  | ["new", k, t, dir, w] =>
    let k := k.toNat?.getD 0
    let END := if t == "M" then 4294967295 else endOf w
    let directed := dir == "d"
    let kind := kindOf t
    let model : MState := match kind with
      | .graph => .g (Raw.empty END directed) | .stable => .s (Stable.empty END directed) | .map => .m (GMap.empty directed)
    (d.put k { model, spec := { kind, END, directed } }, verdict (if impl == "ok" then none else some "constructor failed") "ok" impl)
  | "op" :: k :: name :: args =>
    let k := k.toNat?.getD 0
    (match d.get k with
    | none => (d, s!"SPECFAIL op on unknown slot {k}")
    | some sl => stepOp d k sl name args impl)
  | ["dump", k] =>
    let k := k.toNat?.getD 0
    (match d.get k with
    | none => (d, s!"SPECFAIL dump of unknown slot {k}")
    | some sl =>
      if impl == "panic" then (d, "SPECFAIL observing the graph panicked")
      else match judgeDump sl.spec (splitWords impl) with
        | .error why => (d, s!"SPECFAIL {why}")
        | .ok a => (d.put k { sl with spec := a }, cmpExact (showModelDump sl.model) impl))
  | ["ser", k, fmt] =>
    let k := k.toNat?.getD 0
    (match d.get k with
    | none => (d, s!"SPECFAIL ser of unknown slot {k}")
    | some sl =>
      -- the mirror model's wire value (`some none` = the serializer would panic)
      let mw : Option (Option Wire) := match sl.model with
        | .g r => some (some (serGraph r))
        | .s s => some (serStable s)
        | .m m => some (serMap m)
        | .lost => none
      -- run-time check of the hypothesis of the round-trip theorems: the state being serialized satisfies the
      -- structural invariant (`C17_stableInv_check`, `C17_graphInv_check`, `C17_mapWf_check`)
      let side : Option String := match sl.model with
        | .g r => if graphInvB r then none else some "GraphInv (the Graph being serialized)"
        | .s s => if stableInvB s then none else some "StableInv (the StableGraph being serialized)"
        | .m m => if mapWfB m then none else some "GraphMap well-formedness (the map being serialized)"
        | .lost => none
      let iw := if sl.spec.kind == .map then 4 else indexBytes sl.spec.END
      -- the implementation's stream, read by the modelled reader of its transport; and the model's stream, printed
      let readImpl : Except String Wire :=
        match fmt, splitWords impl with
        | "js", "ok" :: text :: hw =>
          -- the modelled reader; a text outside the canonical grammar (a JSON object is unordered: a changed field
          -- order is harmless) is judged through the harness's reading of it and reported by the exact comparison
          (match parseWireS text with
          | some w => .ok w
          | none =>
            match parseWire hw with
            | some w => .ok w
            | none => .error "the serializer's JSON text is unreadable")
        | "bin", ["ok", hex] =>
          (match parseHex hex.toList with
          | none => .error "unreadable hex"
          | some bytes =>
            match parseBin iw bytes with
            | some (w, []) => .ok w
            | some (_, _ :: _) => .error "the serializer's bincode stream has trailing bytes"
            | none => .error "the serializer's bincode stream is outside the modelled layout")
        | _, "ok" :: ws =>
          (match parseWire ws with
          | some w => .ok w
          | none => .error "unreadable wire value")
        | _, _ => .error s!"serialization failed: {impl}"
      let ms := match mw with
        | none => "(no model state)"
        | some none => if d.debug then "panic" else "(a stream whose announced lengths are wrong)"
        | some (some w) =>
          if fmt == "js" then "ok " ++ printWireS w
          else if fmt == "bin" then "ok " ++ showHex (binWire iw w)
          else "ok " ++ showWire w
      -- the byte model is proved for numbers that fit their fields (`C17_bincode_roundtrip`): weights are the
      -- generator's business, indices the index type's
      let fits : Option String := match fmt, mw with
        | "bin", some (some w) =>
          if binFits iw w then none
          else if w.nodes.all (fun x => decide (-2147483648 ≤ x) && decide (x < 2147483648)) &&
                  w.edges.all (fun e => match e with
                    | some (_, _, x) => decide (-2147483648 ≤ x) && decide (x < 2147483648) | none => true)
          then some "SPECFAIL side condition binFits does not hold: an index or a length does not fit its bincode field"
          else some "SPECFAIL generator left the proved range: a weight outside i32"
        | _, _ => none
      match side, fits with
      | some what, _ => (d, s!"SPECFAIL side condition {what} does not hold on the mirror state")
      | none, some why => (d, why)
      | none, none =>
        let spec : Option String := match readImpl with
          | .error why => some why
          | .ok w => judgeSer sl.spec w
        -- exact part: the text / bytes themselves (for `js` without the harness's own reading that follows the text)
        let implExact := match fmt, splitWords impl with
          | "js", "ok" :: text :: _ => "ok " ++ text
          | _, _ => impl
        (d, verdict spec ms implExact))
  | "de" :: k :: t :: dir :: w :: fmt :: ord :: rt :: wn :: wh :: wp :: we :: src =>
    let k := k.toNat?.getD 0
    let kind := kindOf t
    let END := if t == "M" then 4294967295 else endOf w
    let directed := dir == "d"
    let order := parseOrder ((afterEq ord "ord").getD "")
    (match parseWire [wn, wh, wp, we] with
    | none => (d, "SPECFAIL bad request: unreadable wire")
    | some wire =>
      -- the bytes / text that were fed, when the harness shows them: they must denote the stated wire value under the
      -- modelled reader of the transport (a disagreement is an inconsistency of the harness, reported loudly)
      let iw := if kind == .map then 4 else indexBytes END
      let transport : Option String := match fmt, src with
        | "js", [tok] =>
          (match afterEqFirst tok "txt" with
          | some text =>
            (match parseWireS text with
            | some w' => if w' == wire then none else some "the JSON text fed does not denote the stated wire value"
            | none => none)   -- serde_json reads more than the canonical grammar modelled here: nothing to compare
          | none => some "bad request: unknown source token")
        | "bin", [tok] =>
          (match (afterEq tok "hex").bind (fun h => parseHex h.toList) with
          | some bytes =>
            (match parseBin iw bytes with
            | some (w', _) => if w' == wire then none else some "the bincode bytes fed do not denote the stated wire value"
            | none => some "the bincode bytes fed are outside the modelled layout")
          | none => some "bad request: unreadable hex")
        | _, [] => none
        | _, _ => some "bad request: unexpected source token"
      match transport with
      | some why => (d.drop k, s!"SPECFAIL transport check: {why}")
      | none =>
      let (m', ms) := modelDe kind END directed order wire
      let valid := wireValid kind END directed order wire
      -- the property's round-trip clause speaks about streams that ARE serializations: all four fields (a JSON object
      -- is unordered), nothing else, no vacancy beyond the bounds.  Only those must load, and load as their graph;
      -- any other input may be refused, and if accepted need only be a consistent graph.
      let ordS := (afterEq ord "ord").getD ""
      let valid := valid && canonicalStream ordS order wire
      let srcSlot : Option Slot := ((afterEq rt "rt").bind (·.toNat?)).bind d.get
      -- run-time check of the remaining hypotheses of the round-trip theorems (`C17_fullOrder_check`): a round trip is
      -- fed with all four fields.  (Capacity `bound < END` is the recorded exception D20, see `isD20`.)
      let rtOrderBad := srcSlot.isSome && !(fullOrderB order)
      -- `C17_wireValid_loads_*`: a valid stream with `wireCapB` IS loaded by the mirror model; only without it can
      -- the recorded finding D20 apply (`C17_wireCap_check`)
      let capOk := wireCapB END order wire
      -- hypotheses of the round-trip / cross-loading theorems on the state that was serialized (same index type):
      -- capacity (`C17_stableCap_check`, `C17_graphCap_check`, `C17_mapCap_check`) and, for StableGraph -> Graph,
      -- no vacancy below the bounds (`C17_noVacancy_check`)
      let srcCap : Option Bool := match srcSlot with
        | some ssl =>
          if ssl.spec.END == END then
            (match ssl.model with
            | .s s => some (stableCapB s) | .g r => some (graphCapB r) | .m m => some (mapCapB m) | .lost => none)
          else none
        | none => none
      let crossBad : Bool := match srcSlot with
        | some ssl =>
          (match ssl.model with
          | .s s => kind == .graph && ssl.spec.END == END && s.g.directed == directed && stableCapB s && noVacancyB s &&
                    graphOrderB order && !(wireValid kind END directed order wire)
          | _ => false)
        | none => false
      let iwords := splitWords impl
      if rtOrderBad then (d.drop k, "SPECFAIL generator left the proved range: a round trip was fed with an incomplete field order")
      else if crossBad then
        (d.drop k, "SPECFAIL cross-loading: a StableGraph without a vacancy below its bounds wrote a stream that is not a Graph stream")
      else
      match iwords with
      | ["panic"] => (d.drop k, "SPECFAIL deserialization panicked")
      | "err" :: _ =>
        if valid then
          if !capOk && srcCap != some true && isD20 wire order END iwords then (d.drop k, "KNOWN D20 valid stream refused at count == index type maximum: " ++ impl)
          else (d.drop k, s!"SPECFAIL a valid stream was refused: {impl}")
        else (d.drop k, cmpExact ms impl)
      | "ok" :: ws =>
        let expect : Except String AGraph :=
          if valid then
            let a := absWire kind END directed order wire
            match judgeDump a ws with
            | .error why => .error ("loaded graph is not the stream's graph: " ++ why)
            | .ok a' =>
              -- round trip: identical to the graph that was serialized (same indices, weights, endpoints)
              judgeRT (srcSlot.map (·.spec)) kind directed a'
          else
            match adoptDump kind END directed ws with
            | .error why => .error ("an invalid stream was accepted and the result is not a consistent graph: " ++ why)
            | .ok a => .ok a
        (match expect with
        | .error why => (d.drop k, s!"SPECFAIL {why}")
        | .ok a => (d.put k { model := m', spec := a }, cmpExact ms impl))
      | _ => (d.drop k, s!"SPECFAIL unreadable answer {impl}"))
  | ["blind", t, dir, w, _fmt] =>
    let kind := kindOf t
    let END := if t == "M" then 4294967295 else endOf w
    (match splitWords impl with
    | ["panic"] => (d, "SPECFAIL deserialization panicked")
    | "err" :: _ => (d, "ok")
    | "ok" :: ws =>
      (match adoptDump kind END (dir == "d") ws with
      | .error why => (d, s!"SPECFAIL a mutated stream was accepted and the result is not a consistent graph: {why}")
      | .ok _ => (d, "ok"))
    | _ => (d, s!"SPECFAIL unreadable answer {impl}"))
  | _ => (d, s!"SPECFAIL bad request {req}")

end PetgraphModel.C17
