import PetgraphModel.Common
import PetgraphModel.GraphProto
import PetgraphModel.Oracle.C13Iso
import PetgraphModel.Model.C13Vf2
/-
C13 driver.  Per case and per *round* (one choice of storage encodings / index labelings):

  g0 <view fields> nw=<w,..>      the pattern: abstract graph + this encoding's iteration orders, node weights
  g1 <view fields> nw=<w,..>      the target
  iso                => true|false          is_isomorphic
  sub                => true|false          is_isomorphic_subgraph
  isom <nm> <em>     => true|false          is_isomorphic_matching        predicates: t eq le ne f
  subm <nm> <em>     => true|false          is_isomorphic_subgraph_matching
  iter <nm> <em>     => none | some <m,m,..|-> end|more      subgraph_isomorphisms_iter, in yield order;
                                            a mapping is `i.j.k` (position = abstract g0 node, value = abstract
                                            g1 node), the empty mapping is `e`; `more` = cut off by the harness

Every answer is judged against the definitional oracle on the ABSTRACT graphs (`Oracle/C13Iso.lean`, proved
in `Theorems/C13.lean`); the mirror model of VF2 (`Model/C13Vf2.lean`) run on the concrete index labelings
gives the exact comparison (including the order of the yielded mappings).
-/
namespace PetgraphModel.C13
open PetgraphModel

structure DState where
  v0 : View := default
  v1 : View := default
  nw0 : List Int := []
  nw1 : List Int := []
  ok0 : Bool := false
  ok1 : Bool := false

/-- the view's neighbour lists describe the abstract graph (as multisets) -/
def viewOkB (v : View) : Bool :=
  v.g.nodes.all fun a => sameSet (v.succ a) (v.g.succ a) && sameSet (v.pred a) (v.g.pred a)

/-- abstract node ids are `0..n-1` -/
def canonNodesB (g : MGraph) : Bool := sortNats g.nodes == List.range g.nodes.length

def parsePred (s : String) : Option (Int → Int → Bool) :=
  match s with
  | "t" => some fun _ _ => true
  | "f" => some fun _ _ => false
  | "eq" => some fun a b => a == b
  | "ne" => some fun a b => a != b
  | "le" => some fun a b => decide (a ≤ b)
  | _ => none

def wOf (l : List Int) (a : Nat) : Int := (l[a]?).getD 0

/-- the abstract problem (nodes in canonical order `0..n-1`) -/
def problem (d : DState) (nm em : Int → Int → Bool) : Problem :=
  { g0 := { d.v0.g with nodes := List.range d.v0.g.nodes.length },
    g1 := { d.v1.g with nodes := List.range d.v1.g.nodes.length },
    nw0 := wOf d.nw0, nw1 := wOf d.nw1, nm := nm, em := em }

def parseMapping (s : String) : Option (List Nat) :=
  if s == "e" then some [] else
  let ps := s.splitOn "."
  let ns := ps.filterMap (·.toNat?)
  if ns.length == ps.length then some ns else none

def showMapping (l : List Nat) : String :=
  if l.isEmpty then "e" else String.intercalate "." (l.map toString)

def showMappings (ls : List (List Nat)) : String :=
  if ls.isEmpty then "-" else String.intercalate "," (ls.map showMapping)

/-- `none` / `some <maps> end|more`  ↦  (answer, cut-off flag); outer `none` = unparsable -/
def parseIterAnswer (impl : String) : Option (Option (List (List Nat)) × Bool) :=
  match splitWords impl with
  | ["none"] => some (none, false)
  | ["some", maps, fin] =>
    let toks := if maps == "-" then [] else maps.splitOn ","
    let ms := toks.filterMap parseMapping
    if ms.length != toks.length then none
    else if fin == "end" then some (some ms, false)
    else if fin == "more" then some (some ms, true)
    else none
  | _ => none

def readGraph (req : List String) : Option (View × List Int × Option String) := do
  let v ← parseView req
  let nw := parseInts ((field? req "nw").getD "-")
  let why : Option String :=
    if !wfB v.g then some "harness: graph line is not well formed"
    else if !canonNodesB v.g then some "harness: abstract node ids are not 0..n-1"
    else if !simpleB v.g then some "harness: graph is not simple (outside the property)"
    else if !viewOkB v then some "neighbour iteration of this encoding does not describe the abstract graph"
    else none
  some (v, nw, why)

def boolVerdict (expected model : Bool) (impl : String) (what : String) : String :=
  if impl != "true" && impl != "false" then s!"SPECFAIL {what}: answer {impl}"
  else if impl != showBool expected then
    s!"SPECFAIL {what} returned {impl}, by definition (enumeration of all injections) it is {showBool expected}"
  else cmpExact (showBool model) impl

def step (d : DState) (req : List String) (impl : String) : DState × String :=
  match req with
  | "case" :: k :: _ => ({}, s!"case {k}")
  | "g0" :: _ =>
    match readGraph req with
    | none => ({ d with ok0 := false }, "SPECFAIL unparsable g0 line")
    | some (v, nw, why) =>
      ({ d with v0 := v, nw0 := nw, ok0 := why.isNone }, match why with | none => "ok" | some w => s!"SPECFAIL g0: {w}")
  | "g1" :: _ =>
    match readGraph req with
    | none => ({ d with ok1 := false }, "SPECFAIL unparsable g1 line")
    | some (v, nw, why) =>
      ({ d with v1 := v, nw1 := nw, ok1 := why.isNone }, match why with | none => "ok" | some w => s!"SPECFAIL g1: {w}")
  | q :: rest =>
    if !(d.ok0 && d.ok1) then (d, "SPECFAIL query without a valid graph pair") else
    if d.v0.g.directed != d.v1.g.directed then (d, "SPECFAIL harness: edge types differ") else
    let preds : Option ((Int → Int → Bool) × (Int → Int → Bool)) :=
      match rest with
      | [] => some (fun _ _ => true, fun _ _ => true)
      | [a, b] => match parsePred a, parsePred b with
        | some x, some y => some (x, y)
        | _, _ => none
      | _ => none
    match preds with
    | none => (d, s!"SPECFAIL bad request {req}")
    | some (nm, em) =>
      let P := problem d nm em
      if !problemOkB P then (d, "SPECFAIL harness: the abstract pair is not a pair of well-formed simple graphs of one edge type") else
      let semantic := !rest.isEmpty
      let m := Vf2.setup d.v0 d.v1 (wOf d.nw0) (wOf d.nw1) nm em semantic
      if !(Vf2.cgOkB m.g0 && Vf2.cgOkB m.g1) then (d, "SPECFAIL harness: the index labeling / neighbour lists of this encoding are inconsistent") else
      match q with
      | "iso" | "isom" =>
        if impl == "panic" then (d, "SPECFAIL is_isomorphic panicked") else
        (d, boolVerdict (isoB P) (Vf2.isoModel m) impl "is_isomorphic")
      | "sub" | "subm" =>
        if impl == "panic" then (d, "SPECFAIL is_isomorphic_subgraph panicked") else
        (d, boolVerdict (subIsoB P) (Vf2.subModel m) impl "is_isomorphic_subgraph")
      | "iter" =>
        if impl == "panic" then (d, "SPECFAIL subgraph_isomorphisms_iter panicked") else
        match parseIterAnswer impl with
        | none => (d, s!"SPECFAIL malformed answer {impl}")
        | some (ans, more) =>
          let all := subIsoAll P
          -- the recorded finding: an empty pattern makes the iterator yield the empty mapping for ever
          if more && P.g0.nodes.isEmpty && (match ans with | some l => l.all (·.isEmpty) && l.length ≥ 2 | none => false) then
            (d, "KNOWN NEW-iter-empty-pattern-repeats subgraph_isomorphisms_iter with a node-less g0 yields the empty mapping again and again (never ends); exactly one empty mapping is the answer")
          else if more then
            (d, s!"SPECFAIL subgraph_isomorphisms_iter yields more vectors than there are injections ({all.length} mappings exist)")
          else if judgeIter P ans then
            let model := match Vf2.iterModel m with
              | none => "none"
              | some (ls, fin) => s!"some {showMappings ls} {if fin then "end" else "more"}"
            (d, cmpExact model impl)
          else
            let got := match ans with | none => "None" | some l => showMappings l
            (d, s!"SPECFAIL subgraph_isomorphisms_iter yielded [{got}], the set of induced-subgraph embeddings is [{showMappings all}]")
      | _ => (d, s!"SPECFAIL bad request {req}")
  | _ => (d, s!"SPECFAIL bad request {req}")

end PetgraphModel.C13
