import PetgraphModel.Common
import PetgraphModel.GraphProto
import PetgraphModel.Oracle.C13Iso
import PetgraphModel.Model.C13Vf2
import PetgraphModel.Model.C13Vf2Side
import PetgraphModel.Model.C13Vf2Link
/-
C13 driver.  Per case and per *round* (one choice of storage encodings / index labelings):

  g0 <view fields> nw=<w,..>      the pattern: abstract graph + this encoding's iteration orders, node weights
  g1 <view fields> nw=<w,..>      the target
  iso                => true|false          is_isomorphic
  sub                => true|false          is_isomorphic_subgraph
  isom <nm> <em>     => true|false          is_isomorphic_matching        predicates: t eq le ne f
  subm <nm> <em>     => true|false          is_isomorphic_subgraph_matching
  iter <nm> <em>     => none | some <m,m,..|-> end|more      subgraph_isomorphisms_iter, in yield order;
                                            a mapping is `i.j.k` (position = abstract g0 node, value = abstract
                                            g1 node), the empty mapping is `e`; `more` = cut off by the harness

Every answer is judged against the definitional oracle on the ABSTRACT graphs (`Oracle/C13Iso.lean`, proved
in `Theorems/C13.lean`); the mirror model of VF2 (`Model/C13Vf2.lean`) run on the concrete index labelings
gives the exact comparison (including the order of the yielded mappings).

RUN-TIME CHECKS OF THE THEOREMS' HYPOTHESES (`Theorems/C13.lean`, section "run-time checks of the hypotheses").
Per graph line: `wfB`, `canonNodesB`, `simpleB`, `viewOkB`.  Per query: same edge type, `problemOkB P`, and
`Vf2.sideFail` on the concrete instance handed to the model — `cgOkB` (both), same `directed`, `ECountOk` (both),
`inNodupB g0`, `absPermB` (both); a failure is `SPECFAIL side condition <name> does not hold: …` (these are
consequences of the trait implementations describing ONE simple graph), and `Vf2.linkFail`: the concrete
instance handed to the model poses the abstract problem the oracle is asked (adjacency, edge weights and node
weights read through the index labeling agree) — all bundled as `queryFail`
(`C13_driver_query_check`).  Per model call (each `next()` of the
drained iterator included) the FUEL: the driver runs the reporting wrappers `isoModelR` / `subModelR` /
`iterModelR`; a call that does not return within `bigFuel` loop iterations is never turned into an answer of
the model but into `SPECFAIL generator left the proved range: FUEL …` (impossible while
`explicitBound I ≤ bigFuel`, e.g. up to 9 nodes: `C13_vf2_fuel_never_reported`).  For every query that gets
past these checks the model's answer is proved to be the specification's (`C13_vf2_*_checked`), for graphs of
any size.
-/
namespace PetgraphModel.C13
open PetgraphModel

structure DState where
  v0 : View := default
  v1 : View := default
  nw0 : List Int := []
  nw1 : List Int := []
  ok0 : Bool := false
  ok1 : Bool := false

/-- the view's neighbour lists describe the abstract graph (as multisets) -/
def viewOkB (v : View) : Bool :=
  v.g.nodes.all fun a => sameSet (v.succ a) (v.g.succ a) && sameSet (v.pred a) (v.g.pred a)

/-- abstract node ids are `0..n-1` -/
def canonNodesB (g : MGraph) : Bool := sortNats g.nodes == List.range g.nodes.length

def parsePred (s : String) : Option (Int → Int → Bool) :=
  match s with
  | "t" => some fun _ _ => true
  | "f" => some fun _ _ => false
  | "eq" => some fun a b => a == b
  | "ne" => some fun a b => a != b
  | "le" => some fun a b => decide (a ≤ b)
  | _ => none

/-- the predicates of a request: none for the plain functions (the model then runs with the matchers disabled),
two names for the `_matching` variants and the iterator -/
def parsePreds (rest : List String) : Option ((Int → Int → Bool) × (Int → Int → Bool)) :=
  match rest with
  | [] => some (fun _ _ => true, fun _ _ => true)
  | [a, b] => match parsePred a, parsePred b with
    | some x, some y => some (x, y)
    | _, _ => none
  | _ => none

def wOf (l : List Int) (a : Nat) : Int := (l[a]?).getD 0

/-- the abstract problem (nodes in canonical order `0..n-1`) -/
def problem (d : DState) (nm em : Int → Int → Bool) : Problem :=
  { g0 := { d.v0.g with nodes := List.range d.v0.g.nodes.length },
    g1 := { d.v1.g with nodes := List.range d.v1.g.nodes.length },
    nw0 := wOf d.nw0, nw1 := wOf d.nw1, nm := nm, em := em }

/-- the concrete instance handed to the mirror model -/
def mkInst (d : DState) (nm em : Int → Int → Bool) (semantic : Bool) : Vf2.Inst :=
  Vf2.setup d.v0 d.v1 (wOf d.nw0) (wOf d.nw1) nm em semantic

/-- everything the driver checks before it judges a query (`none` = every hypothesis of the theorems about the
concrete case holds: `C13_driver_query_check`) -/
def queryFail (d : DState) (nm em : Int → Int → Bool) (semantic : Bool) : Option String :=
  if d.v0.g.directed != d.v1.g.directed then some "harness: edge types differ"
  else if !problemOkB (problem d nm em) then
    some "harness: the abstract pair is not a pair of well-formed simple graphs of one edge type"
  else match Vf2.sideFail (mkInst d nm em semantic) with
    | some w => some s!"side condition {w} does not hold: the concrete graphs handed to the model are not a consistent encoding of the abstract pair"
    | none =>
      match Vf2.linkFail (mkInst d nm em semantic) (problem d nm em) with
      | some w => some s!"side condition {w} does not hold: the concrete instance handed to the model does not pose the abstract problem the oracle is asked"
      | none => none

def parseMapping (s : String) : Option (List Nat) :=
  if s == "e" then some [] else
  let ps := s.splitOn "."
  let ns := ps.filterMap (·.toNat?)
  if ns.length == ps.length then some ns else none

def showMapping (l : List Nat) : String :=
  if l.isEmpty then "e" else String.intercalate "." (l.map toString)

def showMappings (ls : List (List Nat)) : String :=
  if ls.isEmpty then "-" else String.intercalate "," (ls.map showMapping)

/-- `none` / `some <maps> end|more`  ↦  (answer, cut-off flag); outer `none` = unparsable -/
def parseIterAnswer (impl : String) : Option (Option (List (List Nat)) × Bool) :=
  match splitWords impl with
  | ["none"] => some (none, false)
  | ["some", maps, fin] =>
    let toks := if maps == "-" then [] else maps.splitOn ","
    let ms := toks.filterMap parseMapping
    if ms.length != toks.length then none
    else if fin == "end" then some (some ms, false)
    else if fin == "more" then some (some ms, true)
    else none
  | _ => none

def readGraph (req : List String) : Option (View × List Int × Option String) := do
  let v ← parseView req
  let nw := parseInts ((field? req "nw").getD "-")
  let why : Option String :=
    if !wfB v.g then some "harness: graph line is not well formed"
    else if !canonNodesB v.g then some "harness: abstract node ids are not 0..n-1"
    else if !simpleB v.g then some "harness: graph is not simple (outside the property)"
    else if !viewOkB v then some "neighbour iteration of this encoding does not describe the abstract graph"
    else none
  some (v, nw, why)

/-- the verdict for a model call that ran out of fuel: never an answer -/
def fuelVerdict (I : Vf2.Inst) (what : String) : String :=
  s!"SPECFAIL generator left the proved range: FUEL the mirror model's {what} did not return within {Vf2.bigFuel} loop iterations (n0={I.g0.n} n1={I.g1.n}, explicitBound={Vf2.explicitBound I}); the implementation's answer agrees with the definition but cannot be compared with the model"

/-- `model = none`: the model's call ran out of fuel -/
def boolVerdict (expected : Bool) (model : Option Bool) (I : Vf2.Inst) (impl : String) (what : String) : String :=
  if impl != "true" && impl != "false" then s!"SPECFAIL {what}: answer {impl}"
  else if impl != showBool expected then
    s!"SPECFAIL {what} returned {impl}, by definition (enumeration of all injections) it is {showBool expected}"
  else match model with
    | none => fuelVerdict I what
    | some b => cmpExact (showBool b) impl

def step (d : DState) (req : List String) (impl : String) : DState × String :=
  match req with
  | "case" :: k :: _ => ({}, s!"case {k}")
  | "g0" :: _ =>
    match readGraph req with
    | none => ({ d with ok0 := false }, "SPECFAIL unparsable g0 line")
    | some (v, nw, why) =>
      ({ d with v0 := v, nw0 := nw, ok0 := why.isNone }, match why with | none => "ok" | some w => s!"SPECFAIL g0: {w}")
  | "g1" :: _ =>
    match readGraph req with
    | none => ({ d with ok1 := false }, "SPECFAIL unparsable g1 line")
    | some (v, nw, why) =>
      ({ d with v1 := v, nw1 := nw, ok1 := why.isNone }, match why with | none => "ok" | some w => s!"SPECFAIL g1: {w}")
  | q :: rest =>
    if !(d.ok0 && d.ok1) then (d, "SPECFAIL query without a valid graph pair") else
    match parsePreds rest with
    | none => (d, s!"SPECFAIL bad request {req}")
    | some (nm, em) =>
      let P := problem d nm em
      let semantic := !rest.isEmpty
      let m := mkInst d nm em semantic
      match queryFail d nm em semantic with
      | some w => (d, s!"SPECFAIL {w}")
      | none =>
      match q with
      | "iso" | "isom" =>
        if impl == "panic" then (d, "SPECFAIL is_isomorphic panicked") else
        (d, boolVerdict (isoB P) (Vf2.isoModelR m Vf2.bigFuel) m impl "is_isomorphic")
      | "sub" | "subm" =>
        if impl == "panic" then (d, "SPECFAIL is_isomorphic_subgraph panicked") else
        (d, boolVerdict (subIsoB P) (Vf2.subModelR m Vf2.bigFuel) m impl "is_isomorphic_subgraph")
      | "iter" =>
        if impl == "panic" then (d, "SPECFAIL subgraph_isomorphisms_iter panicked") else
        match parseIterAnswer impl with
        | none => (d, s!"SPECFAIL malformed answer {impl}")
        | some (ans, more) =>
          let all := subIsoAll P
          if more then
            (d, s!"SPECFAIL subgraph_isomorphisms_iter yields more vectors than there are injections ({all.length} mappings exist)")
          else if judgeIter P ans then
            match Vf2.iterModelR m Vf2.bigFuel with
            | none => (d, fuelVerdict m "subgraph_isomorphisms_iter (one of its next() calls)")
            | some none => (d, cmpExact "none" impl)
            | some (some (ls, fin)) =>
              (d, cmpExact s!"some {showMappings ls} {if fin then "end" else "more"}" impl)
          else
            let got := match ans with | none => "None" | some l => showMappings l
            (d, s!"SPECFAIL subgraph_isomorphisms_iter yielded [{got}], the set of induced-subgraph embeddings is [{showMappings all}]")
      | _ => (d, s!"SPECFAIL bad request {req}")
  | _ => (d, s!"SPECFAIL bad request {req}")

end PetgraphModel.C13
