import PetgraphModel.Common
import PetgraphModel.GraphProto
import PetgraphModel.Oracle.C13Iso
import PetgraphModel.Model.C13Vf2
import PetgraphModel.Model.C13Vf2Side
import PetgraphModel.Model.C13Vf2Link
import PetgraphModel.Model.C13Hint
/-
C13 driver.  Per case and per *round* (one choice of storage encodings / index labelings):

  g0 <view fields> nw=<w,..>      the pattern: abstract graph + this encoding's iteration orders, node weights
  g1 <view fields> nw=<w,..>      the target
  iso                => true|false          is_isomorphic
  sub                => true|false          is_isomorphic_subgraph
  isom <nm> <em>     => true|false          is_isomorphic_matching        predicates: t eq le ne f
  subm <nm> <em>     => true|false          is_isomorphic_subgraph_matching
  iter <nm> <em>     => none | some <m,m,..|-> end|more      subgraph_isomorphisms_iter, in yield order;
                                            a mapping is `i.j.k` (position = abstract g0 node, value = abstract
                                            g1 node), the empty mapping is `e`; `more` = cut off by the harness

WAVE 6 (corners of the public surface; `docs/C13_api.md`):

  case <k> … prof=debug|release             the build profile that produced the answers (no expected answer of
                                            this vertical depends on it: isomorphism.rs has one `debug_assert!`
                                            without side effect and no arithmetic that can overflow)
  iter … => some <m,..> revived             `next()` yielded again after it had returned `None` ("each once")
  hint <at> <nm> <em> => none | panic | <c> <lo> <hi|inf>
                                            `size_hint()` of a fresh iterator after `c = min(at, #items)` calls of
                                            `next()`; judged by `judgeHint` (lo ≤ remaining ≤ hi, remaining =
                                            |subIsoAll P| − c), mirrored by `sizeHintModel` (of the
                                            TARGET's node count: D34 repaired, a69e23d; `panic` is a violation)
  bhint <nm> <em>     => none | panic | 0 <lo> <hi|inf>     the same on a pair too big to enumerate (`judgeHintBig`)
  biso|bsub [<nm> <em>] => true|false       pairs too big to enumerate: judged by the PROVED mirror model
                                            (`C13_checked_model_eq_oracle`: whenever the run-time checks pass and the
                                            call returns, the model's answer is the definitional oracle's)
  biter <k> <nm> <em> => none | some <m,..> end|cut        the first k yielded vectors of a big pair: every vector is
                                            checked to be an embedding (`judgePrefix`), exact comparison with the
                                            model's first k
  iterlaw <name> …    => ok | VIOLATED <why>               laws of the `Iterator` contract checked by the harness against
                                            the implementation itself (other ways of consuming the iterator agree
                                            with `next`); the driver expects `ok`
  The encodings now include `Reversed<&G>` (the g0/g1 line is the view THROUGH the adaptor of the reversed
  storage), `&Frozen<G>`, `Graph<_,_,_,u16|usize>`, `GraphMap` with a non-default hasher, `()` and `f32`
  weights (predicates `feq`/`fne`/`fle`: IEEE comparisons, weight code 2 = NaN).

Every answer is judged against the definitional oracle on the ABSTRACT graphs (`Oracle/C13Iso.lean`, proved
in `Theorems/C13.lean`); the mirror model of VF2 (`Model/C13Vf2.lean`) run on the concrete index labelings
gives the exact comparison (including the order of the yielded mappings).

RUN-TIME CHECKS OF THE THEOREMS' HYPOTHESES (`Theorems/C13.lean`, section "run-time checks of the hypotheses").
Per graph line: `wfB`, `canonNodesB`, `simpleB`, `viewOkB`.  Per query: same edge type, `problemOkB P`, and
`Vf2.sideFail` on the concrete instance handed to the model — `cgOkB` (both), same `directed`, `ECountOk` (both),
`inNodupB g0`, `absPermB` (both); a failure is `SPECFAIL side condition <name> does not hold: …` (these are
consequences of the trait implementations describing ONE simple graph), and `Vf2.linkFail`: the concrete
instance handed to the model poses the abstract problem the oracle is asked (adjacency, edge weights and node
weights read through the index labeling agree) — all bundled as `queryFail`
(`C13_driver_query_check`).  Per model call (each `next()` of the
drained iterator included) the FUEL: the driver runs the reporting wrappers `isoModelR` / `subModelR` /
`iterModelR`; a call that does not return within `bigFuel` loop iterations is never turned into an answer of
the model but into `SPECFAIL generator left the proved range: FUEL …` (impossible while
`explicitBound I ≤ bigFuel`, e.g. up to 9 nodes: `C13_vf2_fuel_never_reported`).  For every query that gets
past these checks the model's answer is proved to be the specification's (`C13_vf2_*_checked`), for graphs of
any size.
-/
namespace PetgraphModel.C13
open PetgraphModel

structure DState where
  v0 : View := default
  v1 : View := default
  nw0 : List Int := []
  nw1 : List Int := []
  ok0 : Bool := false
  ok1 : Bool := false
  /-- cache: the predicates of the last `iter` request of this round and the number of embeddings the oracle
  found for it (`(subIsoAll (problem d nm em)).length`), reused by the `hint` lines that follow it -/
  lastPreds : List String := []
  lastAll : Nat := 0

/-- the view's neighbour lists describe the abstract graph (as multisets) -/
def viewOkB (v : View) : Bool :=
  v.g.nodes.all fun a => sameSet (v.succ a) (v.g.succ a) && sameSet (v.pred a) (v.g.pred a)

/-- abstract node ids are `0..n-1` -/
def canonNodesB (g : MGraph) : Bool := sortNats g.nodes == List.range g.nodes.length

def parsePred (s : String) : Option (Int → Int → Bool) :=
  match s with
  | "t" => some fun _ _ => true
  | "f" => some fun _ _ => false
  | "eq" => some fun a b => a == b
  | "ne" => some fun a b => a != b
  | "le" => some fun a b => decide (a ≤ b)
  -- IEEE comparisons of `f32` weights; the protocol codes a weight `≥ 2` as NaN
  | "feq" => some fun a b => a < 2 && b < 2 && a == b
  | "fne" => some fun a b => !(a < 2 && b < 2 && a == b)
  | "fle" => some fun a b => a < 2 && b < 2 && decide (a ≤ b)
  | _ => none

/-- the predicates of a request: none for the plain functions (the model then runs with the matchers disabled),
two names for the `_matching` variants and the iterator -/
def parsePreds (rest : List String) : Option ((Int → Int → Bool) × (Int → Int → Bool)) :=
  match rest with
  | [] => some (fun _ _ => true, fun _ _ => true)
  | [a, b] => match parsePred a, parsePred b with
    | some x, some y => some (x, y)
    | _, _ => none
  | _ => none

def wOf (l : List Int) (a : Nat) : Int := (l[a]?).getD 0

/-- the abstract problem (nodes in canonical order `0..n-1`) -/
def problem (d : DState) (nm em : Int → Int → Bool) : Problem :=
  { g0 := { d.v0.g with nodes := List.range d.v0.g.nodes.length },
    g1 := { d.v1.g with nodes := List.range d.v1.g.nodes.length },
    nw0 := wOf d.nw0, nw1 := wOf d.nw1, nm := nm, em := em }

/-- the concrete instance handed to the mirror model -/
def mkInst (d : DState) (nm em : Int → Int → Bool) (semantic : Bool) : Vf2.Inst :=
  Vf2.setup d.v0 d.v1 (wOf d.nw0) (wOf d.nw1) nm em semantic

/-- everything the driver checks before it judges a query (`none` = every hypothesis of the theorems about the
concrete case holds: `C13_driver_query_check`) -/
def queryFail (d : DState) (nm em : Int → Int → Bool) (semantic : Bool) : Option String :=
  if d.v0.g.directed != d.v1.g.directed then some "harness: edge types differ"
  else if !problemOkB (problem d nm em) then
    some "harness: the abstract pair is not a pair of well-formed simple graphs of one edge type"
  else match Vf2.sideFail (mkInst d nm em semantic) with
    | some w => some s!"side condition {w} does not hold: the concrete graphs handed to the model are not a consistent encoding of the abstract pair"
    | none =>
      match Vf2.linkFail (mkInst d nm em semantic) (problem d nm em) with
      | some w => some s!"side condition {w} does not hold: the concrete instance handed to the model does not pose the abstract problem the oracle is asked"
      | none => none

def parseMapping (s : String) : Option (List Nat) :=
  if s == "e" then some [] else
  let ps := s.splitOn "."
  let ns := ps.filterMap (·.toNat?)
  if ns.length == ps.length then some ns else none

def showMapping (l : List Nat) : String :=
  if l.isEmpty then "e" else String.intercalate "." (l.map toString)

def showMappings (ls : List (List Nat)) : String :=
  if ls.isEmpty then "-" else String.intercalate "," (ls.map showMapping)

/-- `none` / `some <maps> end|more`  ↦  (answer, cut-off flag); outer `none` = unparsable -/
def parseIterAnswer (impl : String) : Option (Option (List (List Nat)) × Bool) :=
  match splitWords impl with
  | ["none"] => some (none, false)
  | ["some", maps, fin] =>
    let toks := if maps == "-" then [] else maps.splitOn ","
    let ms := toks.filterMap parseMapping
    if ms.length != toks.length then none
    else if fin == "end" then some (some ms, false)
    else if fin == "more" then some (some ms, true)
    else none
  | _ => none

/-- every vector of a prefix of the iterator's output is an embedding of the abstract problem, and no vector
occurs twice (polynomial: no enumeration) -/
def judgePrefix (P : Problem) (l : List (List Nat)) : Bool :=
  l.all (fun v => v.length == P.g0.nodes.length && v.all (fun b => P.g1.nodes.contains b) && decide v.Nodup
    && embedsB P (mapOf P.g0.nodes v))
  && decide l.Nodup

/-- verdict on `hint <at> …` (small pair: the oracle enumerates); `n1` = node count of the TARGET (finding D34,
repaired by a69e23d: a too small upper bound or a panic is a violation) -/
def hintVerdict (all : Nat) (n1 : Nat) (early : Bool) (at_ : Nat) (impl : String) : String :=
  let model := sizeHintModel n1
  let c := min at_ all
  let modelText := if early then "none" else match model with | none => "panic" | some _ => s!"{c} {showHint model}"
  match splitWords impl with
  | ["none"] =>
    if all != 0 then s!"SPECFAIL subgraph_isomorphisms_iter returned None, {all} embeddings exist" else cmpExact modelText impl
  | ["panic"] => "SPECFAIL size_hint (or a next() before it) panicked"
  | ci :: rest =>
    match ci.toNat?, parseHint rest with
    | some ci, some (lo, hi) =>
      if ci != c then
        s!"SPECFAIL the iterator yielded {ci} items in {at_} calls of next(), {all} embeddings exist"
      else if judgeHintN all ci lo hi then cmpExact modelText impl
      else s!"SPECFAIL size_hint = ({showHint (some (lo, hi))}) after {ci} of {all} items: {all - ci} items remain"
    | _, _ => s!"SPECFAIL malformed answer {impl}"
  | _ => s!"SPECFAIL malformed answer {impl}"

/-- verdict on `bhint …` (pair too big to enumerate): `size_hint` is taken before any search, so the only upper
bounds it can justify are those that hold for every pair of these sizes (`judgeHintBig`: at least the number of
injections; the model's answer passes it: `C13_size_hint`) -/
def bhintVerdict (n0 n1 : Nat) (early : Bool) (impl : String) : String :=
  let model := sizeHintModel n1
  let modelText := if early then "none" else match model with | none => "panic" | some _ => s!"0 {showHint model}"
  match splitWords impl with
  | ["none"] => cmpExact modelText impl
  | ["panic"] => "SPECFAIL size_hint panicked"
  | ["0", los, his] =>
    match parseHint [los, his] with
    | some (lo, hi) =>
      if early then s!"SPECFAIL an iterator although the pattern has more nodes or edges than the target"
      else if judgeHintBig n0 n1 lo hi then cmpExact modelText impl
      else if lo == 0 then
        s!"SPECFAIL size_hint = ({showHint (some (lo, hi))}) before any search: the upper bound is below the number n1!/(n1-n0)! of injections of {n0} into {n1} nodes"
      else cmpExact modelText impl
    | none => s!"SPECFAIL malformed answer {impl}"
  | _ => s!"SPECFAIL malformed answer {impl}"

def readGraph (req : List String) : Option (View × List Int × Option String) := do
  let v ← parseView req
  let nw := parseInts ((field? req "nw").getD "-")
  let why : Option String :=
    if !wfB v.g then some "harness: graph line is not well formed"
    else if !canonNodesB v.g then some "harness: abstract node ids are not 0..n-1"
    else if !simpleB v.g then some "harness: graph is not simple (outside the property)"
    else if !viewOkB v then some "neighbour iteration of this encoding does not describe the abstract graph"
    else none
  some (v, nw, why)

/-- the verdict for a model call that ran out of fuel: never an answer -/
def fuelVerdict (I : Vf2.Inst) (what : String) : String :=
  s!"SPECFAIL generator left the proved range: FUEL the mirror model's {what} did not return within {Vf2.bigFuel} loop iterations (n0={I.g0.n} n1={I.g1.n}, explicitBound={Vf2.explicitBound I}); the implementation's answer agrees with the definition but cannot be compared with the model"

/-- `model = none`: the model's call ran out of fuel -/
def boolVerdict (expected : Bool) (model : Option Bool) (I : Vf2.Inst) (impl : String) (what : String) : String :=
  if impl != "true" && impl != "false" then s!"SPECFAIL {what}: answer {impl}"
  else if impl != showBool expected then
    s!"SPECFAIL {what} returned {impl}, by definition (enumeration of all injections) it is {showBool expected}"
  else match model with
    | none => fuelVerdict I what
    | some b => cmpExact (showBool b) impl

/-- verdict on a Boolean answer for a pair too big to enumerate: the judge is the PROVED mirror model -/
def boolVerdictBig (model : Option Bool) (I : Vf2.Inst) (impl : String) (what : String) : String :=
  if impl == "panic" then s!"SPECFAIL {what} panicked"
  else if impl != "true" && impl != "false" then s!"SPECFAIL {what}: answer {impl}"
  else match model with
    | none => fuelVerdict I what
    | some b =>
      if impl == showBool b then "ok"
      else s!"SPECFAIL {what} returned {impl}; the mirror model, whose answer is proved to be the definition's on every instance that passes the run-time checks (C13_checked_model_eq_oracle), returns {showBool b}"

/-- the model's first `k` yielded vectors and whether the iterator then ended (`iterLoopR` with cap `k`) -/
def iterPrefixR (I : Vf2.Inst) (fuel k : Nat) : Option (Option (List (List Nat) × Bool)) :=
  if I.g0.n > I.g1.n || I.g0.ecount > I.g1.ecount then some none
  else (Vf2.iterLoopR I fuel k (Vf2.M.init I) []).map some

/-- `none` / `some <maps> end|cut` -/
def parsePrefixAnswer (impl : String) : Option (Option (List (List Nat) × Bool)) :=
  match splitWords impl with
  | ["none"] => some none
  | ["some", maps, fin] =>
    let toks := if maps == "-" then [] else maps.splitOn ","
    let ms := toks.filterMap parseMapping
    if ms.length != toks.length then none
    else if fin == "end" then some (some (ms, true))
    else if fin == "cut" then some (some (ms, false))
    else none
  | _ => none

/-- verdict on `biter <k> …`: the first `k` vectors of a pair too big to enumerate -/
def prefixVerdict (P : Problem) (I : Vf2.Inst) (k : Nat) (impl : String) : String :=
  if impl == "panic" then "SPECFAIL subgraph_isomorphisms_iter panicked" else
  match parsePrefixAnswer impl with
  | none => s!"SPECFAIL malformed answer {impl}"
  | some ans =>
    let vs := match ans with | none => [] | some (l, _) => l
    if !judgePrefix P vs then
      s!"SPECFAIL subgraph_isomorphisms_iter yielded a vector that is not an induced-subgraph embedding, or one vector twice: [{showMappings vs}]"
    else if vs.length > k then s!"SPECFAIL malformed answer: more than {k} vectors"
    else match iterPrefixR I Vf2.bigFuel k with
      | none => fuelVerdict I "subgraph_isomorphisms_iter (one of its next() calls)"
      | some mans =>
        let mvs := match mans with | none => [] | some (l, _) => l
        let mend := match mans with | none => true | some (_, e) => e
        let iend := match ans with | none => true | some (_, e) => e
        -- the model's drained list is complete (`C13_vf2_iter_checked`): an iterator that ends must have
        -- yielded as many vectors as the model; one that is cut off yielded k of at least k
        if iend != mend || vs.length != mvs.length then
          s!"SPECFAIL subgraph_isomorphisms_iter yielded {vs.length} vectors and {if iend then "ended" else "had more"}; the proved mirror model yields {mvs.length} and {if mend then "ends" else "has more"} (first {k})"
        else
          let show_ := fun (a : Option (List (List Nat) × Bool)) => match a with
            | none => "none"
            | some (l, e) => s!"some {showMappings l} {if e then "end" else "cut"}"
          cmpExact (show_ mans) (show_ ans)

def step (d : DState) (req : List String) (impl : String) : DState × String :=
  match req with
  | "case" :: k :: _ => ({}, s!"case {k}")
  | "g0" :: _ =>
    match readGraph req with
    | none => ({ d with ok0 := false }, "SPECFAIL unparsable g0 line")
    | some (v, nw, why) =>
      ({ d with v0 := v, nw0 := nw, ok0 := why.isNone, lastPreds := [] }, match why with | none => "ok" | some w => s!"SPECFAIL g0: {w}")
  | "g1" :: _ =>
    match readGraph req with
    | none => ({ d with ok1 := false }, "SPECFAIL unparsable g1 line")
    | some (v, nw, why) =>
      ({ d with v1 := v, nw1 := nw, ok1 := why.isNone, lastPreds := [] }, match why with | none => "ok" | some w => s!"SPECFAIL g1: {w}")
  | "profile" :: _ => (d, "ok")
  | "iterlaw" :: _ =>
    (d, if impl == "ok" then "ok" else s!"SPECFAIL the iterator of subgraph_isomorphisms_iter breaks a law of the Iterator contract: {impl}")
  | "hint" :: at_ :: rest =>
    if !(d.ok0 && d.ok1) then (d, "SPECFAIL query without a valid graph pair") else
    match at_.toNat?, parsePreds rest with
    | some at_, some (nm, em) =>
      if rest.isEmpty then (d, s!"SPECFAIL bad request {req}") else
      match queryFail d nm em true with
      | some w => (d, s!"SPECFAIL {w}")
      | none =>
        let m := mkInst d nm em true
        -- the number of embeddings: `(subIsoAll (problem d nm em)).length`, from the `iter` line of the same
        -- round and predicates if there was one
        let all := if d.lastPreds == rest then d.lastAll else (subIsoAll (problem d nm em)).length
        (d, hintVerdict all m.g1.n (m.g0.n > m.g1.n || m.g0.ecount > m.g1.ecount) at_ impl)
    | _, _ => (d, s!"SPECFAIL bad request {req}")
  | "biter" :: k :: rest =>
    if !(d.ok0 && d.ok1) then (d, "SPECFAIL query without a valid graph pair") else
    match k.toNat?, parsePreds rest with
    | some k, some (nm, em) =>
      if rest.isEmpty then (d, s!"SPECFAIL bad request {req}") else
      match queryFail d nm em true with
      | some w => (d, s!"SPECFAIL {w}")
      | none => (d, prefixVerdict (problem d nm em) (mkInst d nm em true) k impl)
    | _, _ => (d, s!"SPECFAIL bad request {req}")
  | q :: rest =>
    if !(d.ok0 && d.ok1) then (d, "SPECFAIL query without a valid graph pair") else
    match parsePreds rest with
    | none => (d, s!"SPECFAIL bad request {req}")
    | some (nm, em) =>
      let P := problem d nm em
      let semantic := !rest.isEmpty
      let m := mkInst d nm em semantic
      match queryFail d nm em semantic with
      | some w => (d, s!"SPECFAIL {w}")
      | none =>
      match q with
      | "iso" | "isom" =>
        if impl == "panic" then (d, "SPECFAIL is_isomorphic panicked") else
        (d, boolVerdict (isoB P) (Vf2.isoModelR m Vf2.bigFuel) m impl "is_isomorphic")
      | "sub" | "subm" =>
        if impl == "panic" then (d, "SPECFAIL is_isomorphic_subgraph panicked") else
        (d, boolVerdict (subIsoB P) (Vf2.subModelR m Vf2.bigFuel) m impl "is_isomorphic_subgraph")
      | "biso" => (d, boolVerdictBig (Vf2.isoModelR m Vf2.bigFuel) m impl "is_isomorphic")
      | "bsub" => (d, boolVerdictBig (Vf2.subModelR m Vf2.bigFuel) m impl "is_isomorphic_subgraph")
      | "bhint" =>
        if !semantic then (d, s!"SPECFAIL bad request {req}") else
        (d, bhintVerdict m.g0.n m.g1.n (m.g0.n > m.g1.n || m.g0.ecount > m.g1.ecount) impl)
      | "iter" =>
        if impl == "panic" then (d, "SPECFAIL subgraph_isomorphisms_iter panicked") else
        if (splitWords impl).getLast? == some "revived" then
          (d, "SPECFAIL subgraph_isomorphisms_iter: next() yielded a vector again after it had returned None (every mapping is to be yielded once)") else
        match parseIterAnswer impl with
        | none => (d, s!"SPECFAIL malformed answer {impl}")
        | some (ans, more) =>
          let all := subIsoAll P
          let d := { d with lastPreds := rest, lastAll := all.length }
          if more then
            (d, s!"SPECFAIL subgraph_isomorphisms_iter yields more vectors than there are injections ({all.length} mappings exist)")
          else if judgeIter P ans then
            match Vf2.iterModelR m Vf2.bigFuel with
            | none => (d, fuelVerdict m "subgraph_isomorphisms_iter (one of its next() calls)")
            | some none => (d, cmpExact "none" impl)
            | some (some (ls, fin)) =>
              (d, cmpExact s!"some {showMappings ls} {if fin then "end" else "more"}" impl)
          else
            let got := match ans with | none => "None" | some l => showMappings l
            (d, s!"SPECFAIL subgraph_isomorphisms_iter yielded [{got}], the set of induced-subgraph embeddings is [{showMappings all}]")
      | _ => (d, s!"SPECFAIL bad request {req}")
  | _ => (d, s!"SPECFAIL bad request {req}")

end PetgraphModel.C13
