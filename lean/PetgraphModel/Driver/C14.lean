import PetgraphModel.Common
import PetgraphModel.GraphProto
import PetgraphModel.Oracle.Reach
import PetgraphModel.Model.Acyclic
import PetgraphModel.Spec.Dag
/-
C14 driver.  Lines of a case (see harness/src/c14.rs):

  case k kind=g|s ix=u8|u32
  new | withcap n e                          => ok
  graph …                                    => ok      inner graph, concrete ids, `lab=` idx:label
  from tfg|tf                                => ok | err cycle <n>     (uses the preceding graph line)
  add_node <label>                           => <idx>
  try_add_edge|try_update_edge a b w         => ok <e> | err selfloop | err cycle <n> | err invalid | panic
  add_edge a b w                             => some <e> | none | panic
  update_edge a b w                          => ok <e> | panic
  remove_edge e                              => some <w> | none
  remove_node n                              => some <label> | none
  clone                                      => ok
  order | pos | gpx <l> | at lo hi | range <b> <b> | valid      the dump

The mirror model (`Acy`) runs on the view of the last graph line; the spec-level judges (`Dag`) run on
the abstract graph of that view.  A mutating call sets `pend`: what the NEXT graph line has to be
(spec level) and which model update still needs the graph after the call.
-/
namespace PetgraphModel.C14
open PetgraphModel PetgraphModel.Acy PetgraphModel.Dag PetgraphModel.Oracle

inductive Pend where
  | idle                                   -- graph line is an input candidate for `from`
  | empty                                  -- after new / with_capacity
  | same                                   -- nothing may have changed
  | addNode (label idx : Nat)
  | addEdge (a b : Nat) (w : Int)
  | updEdge (a b : Nat) (w : Int)
  | remEdge (e : Nat)
  | remNode (n : Nat)
  deriving Repr, Inhabited

structure DState where
  stable : Bool := false
  have_ : Bool := false              -- an `Acyclic` object exists
  lost : Bool := false               -- the mirror model lost track (after a MODELDIFF on a state-changing answer)
  v : View := default
  lab : List (Nat × Nat) := []
  gline : String := ""
  m : AState := {}
  pend : Pend := .idle
  mustSame : Bool := false
  lastOrder : String := ""
  lastPos : String := ""
  lastValid : String := ""
  implOrder : List Nat := []
  implPos : List (Nat × Nat) := []

/-- the graph line is self-consistent: directed, nodes listed once, edges between live nodes, and
the neighbour iterations describe exactly the edge list (hypotheses `ViewOk` / `Closed` of the theorems) -/
def viewOkB (v : View) : Bool :=
  v.g.directed && nodupB v.g.nodes &&
  (v.g.edges.all fun e => v.g.nodes.contains e.src && v.g.nodes.contains e.tgt) &&
  (v.out.all fun r => v.g.nodes.contains r.1) && (v.inn.all fun r => v.g.nodes.contains r.1) &&
  (v.g.nodes.all fun a => a < v.nb) &&
  ((v.g.nodes.map fun a => 1 + (v.succ a).length).sum + 1 ≤ dfsFuel v) &&
  ((v.g.nodes.map fun a => 1 + (v.pred a).length).sum + 1 ≤ dfsFuel v) &&
  v.g.nodes.all fun a => sameSet (v.succ a) (v.g.succ a) && sameSet (v.pred a) (v.g.pred a)

def labelOf (lab : List (Nat × Nat)) (i : Nat) : Nat := (lab.lookup i).getD (1000000 + i)

/-- the labelled graph of a view -/
def toLG (v : View) (lab : List (Nat × Nat)) : LG :=
  { nodes := v.g.nodes.map (labelOf lab),
    edges := v.g.edges.map fun e => (labelOf lab e.src, labelOf lab e.tgt, e.w) }

def verdict (spec : Option String) (model impl : String) : String :=
  match spec with
  | some why => s!"SPECFAIL {why}"
  | none => cmpExact model impl

def expectS (want impl : String) : Option String :=
  if want == impl then none else some s!"expected [{want}], implementation answered [{impl}]"

def parseBnd (s : String) : Bnd :=
  if s.startsWith "i" then .inc ((s.drop 1).toString.toNat?.getD 0)
  else if s.startsWith "e" then .exc ((s.drop 1).toString.toNat?.getD 0)
  else .unb

/-- `a:b:r,…` -/
def parseValid (s : String) : Option (List (Nat × Nat × Bool)) :=
  if s == "-" then some [] else
  (s.splitOn ",").mapM fun t =>
    match t.splitOn ":" with
    | [a, b, r] =>
      match a.toNat?, b.toNat? with
      | some a, some b => if r == "1" then some (a, b, true) else if r == "0" then some (a, b, false) else none
      | _, _ => none
    | _ => none

def showValid (l : List (Nat × Nat × String)) : String :=
  if l.isEmpty then "-" else String.intercalate "," (l.map fun (a, b, r) => s!"{a}:{b}:{r}")

/-- the model's `valid` line: every ordered pair of live nodes, scratch state threaded through -/
def modelValid (v : View) (m : AState) : AState × List (Nat × Nat × String) :=
  (v.g.nodes.flatMap fun a => v.g.nodes.map fun b => (a, b)).foldl (fun (acc : AState × List (Nat × Nat × String)) (ab : Nat × Nat) =>
    match isValidEdge v acc.1 ab.1 ab.2 with
    | .ok (m', r) => (m', acc.2 ++ [(ab.1, ab.2, if r then "1" else "0")])
    | .error _ => (acc.1, acc.2 ++ [(ab.1, ab.2, "p")])) (m, [])

def showPosPairs (l : List (Nat × String)) : String :=
  if l.isEmpty then "-" else String.intercalate "," (l.map fun (a, p) => s!"{a}:{p}")

def showGetPos (m : AState) (i : Nat) : String :=
  match m.om.getPos i with
  | .ok p => toString p
  | .error _ => "p"

def showOptTok : Option Nat → String
  | some n => toString n
  | none => "x"

def joinS (l : List String) : String := if l.isEmpty then "-" else String.intercalate "," l

/-- spec-level check of the graph line that follows a call -/
def judgeGraph (d : DState) (v' : View) (lab' : List (Nat × Nat)) (line : String) : Option String :=
  let old := toLG d.v d.lab
  let new := toLG v' lab'
  match d.pend with
  | .idle => none
  | .empty => if v'.g.nodes.isEmpty && v'.g.edges.isEmpty then none else some "a new Acyclic is not empty"
  | .same => if line == d.gline then none else some "the inner graph changed although the call was rejected / a no-op"
  | .addNode l i =>
    if !(LG.same (old.addNode l) new) then some s!"after add_node the inner graph is not the old graph plus node {l}"
    else if labelOf lab' i != l then some s!"add_node returned index {i} which does not hold the new node" else none
  | .addEdge a b w =>
    if LG.same (old.addEdge (labelOf d.lab a) (labelOf d.lab b) w) new && toString lab' == toString d.lab then none
    else some s!"after the accepted insertion {a}->{b} the inner graph is not the old graph plus that edge"
  | .updEdge a b w =>
    if LG.updateOk old new (labelOf d.lab a) (labelOf d.lab b) w && toString lab' == toString d.lab then none
    else some s!"after the accepted update_edge {a}->{b} the inner graph is not the old graph with one {a}->{b} edge set/added"
  | .remEdge e =>
    match d.v.edge? e with
    | some ed =>
      if LG.same (old.removeEdge (labelOf d.lab ed.src, labelOf d.lab ed.tgt, ed.w)) new && toString lab' == toString d.lab then none
      else some s!"after remove_edge({e}) the inner graph is not the old graph minus that edge"
    | none => some "internal: pending remove_edge of an absent edge"
  | .remNode n =>
    if LG.same (old.removeNode (labelOf d.lab n)) new then none
    else some s!"after remove_node({n}) the inner graph is not the old graph minus that node and its edges"

def isAccept (impl : String) : Bool := impl.startsWith "ok" || impl.startsWith "some"

def step (d : DState) (req : List String) (impl : String) : DState × String :=
  match req with
  | "case" :: k :: rest => ({ stable := rest.contains "kind=s" }, s!"case {k}")
  | ["new"] => ({ d with have_ := true, lost := false, m := {}, pend := .empty, mustSame := false }, cmpExact "ok" impl)
  | ["withcap", n, _] =>
    ({ d with have_ := true, lost := false, m := withCapacity (n.toNat?.getD 0), pend := .empty, mustSame := false }, cmpExact "ok" impl)
  | "graph" :: _ =>
    let line := String.intercalate " " req
    match parseView req with
    | none => (d, "SPECFAIL unparsable graph line")
    | some v' =>
      let lab' := parsePairs ((field? req "lab").getD "-")
      if !(viewOkB v') then (d, "SPECFAIL neighbour iteration of the inner graph does not describe its edge list") else
      if (field? req "nc").bind (·.toNat?) != some v'.g.nodes.length || (field? req "ec").bind (·.toNat?) != some v'.g.edges.length then
        (d, "SPECFAIL node_count / edge_count disagree with the node and edge iterators") else
      match judgeGraph d v' lab' line with
      | some why => ({ d with v := v', lab := lab', gline := line, pend := .idle }, s!"SPECFAIL {why}")
      | none =>
        -- complete the model update that needs the graph after the call
        let (m', lost, note) := match d.pend with
          | .addNode _ i =>
            match Acy.addNode v' d.m i with
            | .ok m' => (m', d.lost, "")
            | .error e => (d.m, true, s!"MODELDIFF model=[panic {e}] impl=[add_node returned]")
          | .remNode n =>
            match Acy.removeNode d.v v' d.m n with
            | .ok (m', _) => (m', d.lost, "")
            | .error e => (d.m, true, s!"MODELDIFF model=[panic {e}] impl=[remove_node returned]")
          | _ => (d.m, d.lost, "")
        ({ d with v := v', lab := lab', gline := line, m := m', lost := lost, pend := .idle }, if note == "" then "ok" else note)
  | ["from", _via] =>
    let v := d.v
    let specCyc := cycleEdge v.g
    let implOk := impl == "ok"
    let spec : Option String :=
      match specCyc with
      | some (some e) => if implOk then some s!"a graph with the cycle through edge {e.src}->{e.tgt} was accepted" else
          if impl.startsWith "err cycle" then none else some s!"unexpected answer {impl}"
      | some none => if implOk then none else some s!"an acyclic graph was refused: {impl}"
      | none => none
    match tryFromGraph v with
    | .error e => ({ d with have_ := implOk, lost := true, pend := if implOk then .same else .idle }, verdict spec s!"panic {e}" impl)
    | .ok (.inl x) =>
      ({ d with have_ := implOk, lost := implOk, pend := if implOk then .same else .idle, mustSame := false }, verdict spec s!"err cycle {x}" impl)
    | .ok (.inr m) =>
      ({ d with have_ := implOk, lost := !implOk, m := m, pend := if implOk then .same else .idle, mustSame := false }, verdict spec "ok" impl)
  | _ =>
  if !d.have_ then (d, s!"SPECFAIL bad request {req} (no object)") else
  if d.lost then
    -- the mirror model is out of step since an earlier MODELDIFF; keep judging nothing further
    (d, "MODELDIFF model=[state lost after an earlier disagreement] impl=[-]")
  else
  match req with
  | ["clone"] => ({ d with pend := .same, mustSame := true }, cmpExact "ok" impl)
  | ["add_node", l] =>
    let l := l.toNat?.getD 0
    match impl.toNat? with
    | none => (d, s!"SPECFAIL add_node answered {impl}")
    | some i =>
      let spec := if live d.v i then some s!"add_node returned index {i} which is already live" else none
      let model := if d.stable then toString i else toString d.v.nb
      ({ d with pend := .addNode l i, mustSame := false }, verdict spec model impl)
  | [op, a, b, w] =>
    let a := a.toNat?.getD 0
    let b := b.toNat?.getD 0
    let w := w.toInt?.getD 0
    let isTry := op == "try_add_edge" || op == "try_update_edge"
    let isUpd := op == "try_update_edge" || op == "update_edge"
    if !(isTry || op == "add_edge" || op == "update_edge") then (d, s!"SPECFAIL bad request {req}") else
    let both := live d.v a && live d.v b
    let implEid := ((impl.splitOn " ").getD 1 "?")
    -- mirror model
    let (m', modelS, modelAcc) : AState × String × Bool :=
      match tryAddEdge d.v d.m a b with
      | .error _ => (d.m, "panic", false)
      | .ok (m', .accepted) => (m', (if op == "add_edge" then "some " else "ok ") ++ implEid, true)
      | .ok (m', .selfLoop) => (m', if isTry then "err selfloop" else if op == "add_edge" then "none" else "panic", false)
      | .ok (m', .cycle n) => (m', if isTry then s!"err cycle {n}" else if op == "add_edge" then "none" else "panic", false)
    -- specification
    let acc := isAccept impl
    let spec : Option String :=
      if !both then
        if acc then some s!"{op}({a},{b}) with an absent endpoint was accepted" else none
      else match mustRejectB d.v.g a b with
        | none => none
        | some rej =>
          if rej && acc then some s!"{op}({a},{b}) was accepted although it {if a == b then "is a self-loop" else "closes a cycle"}"
          else if !rej && !acc then some s!"{op}({a},{b}) was refused ({impl}) although it neither is a self-loop nor closes a cycle"
          else if rej then
            let want := if isTry then (if a == b then "err selfloop" else "err cycle") else if op == "add_edge" then "none" else "panic"
            if impl.startsWith want then none else some s!"{op}({a},{b}) must be rejected as [{want}], implementation answered [{impl}]"
          else if isUpd then
            -- an existing a->b edge must be the one reported
            match implEid.toNat? with
            | some e =>
              if d.v.g.edges.any (fun ed => ed.src == a && ed.tgt == b) && !(d.v.g.edges.any fun ed => ed.id == e && ed.src == a && ed.tgt == b)
              then some s!"{op}({a},{b}) returned edge {e} which is not an existing {a}->{b} edge" else none
            | none => some s!"{op}({a},{b}) accepted without an edge id"
          else none
    if both then
      let pend := if acc then (if isUpd then Pend.updEdge a b w else Pend.addEdge a b w) else Pend.same
      ({ d with m := m', lost := modelAcc != acc, pend := pend, mustSame := !acc }, verdict spec modelS impl)
    else
      ({ d with pend := .same, mustSame := true }, verdict spec modelS impl)
  | ["remove_edge", e] =>
    let e := e.toNat?.getD 0
    match d.v.edge? e with
    | some ed =>
      let want := s!"some {ed.w}"
      ({ d with pend := if impl == want then .remEdge e else .idle, mustSame := false }, verdict (expectS want impl) want impl)
    | none => ({ d with pend := .same, mustSame := true }, verdict (expectS "none" impl) "none" impl)
  | ["remove_node", n] =>
    let n := n.toNat?.getD 0
    if live d.v n then
      let want := s!"some {labelOf d.lab n}"
      ({ d with pend := if impl == want then .remNode n else .idle, mustSame := false }, verdict (expectS want impl) want impl)
    else ({ d with pend := .same, mustSame := true }, verdict (expectS "none" impl) "none" impl)
  -- ------------------------------------------------------------------ the dump
  | ["order"] =>
    let o := parseNats impl
    let spec := match judgeOrder d.v.g o with
      | some why => some why
      | none => if d.mustSame && impl != d.lastOrder then some s!"the order changed from {d.lastOrder} to {impl} although the call was rejected / a no-op" else none
    ({ d with implOrder := o, lastOrder := impl }, verdict spec (showNats d.m.om.nodesIter) impl)
  | ["pos"] =>
    let ps := parsePairs impl
    let spec :=
      if impl.contains 'p' then some "get_position of a live node panicked"
      else match judgePos d.implOrder ps with
        | some why => some why
        | none => if d.mustSame && impl != d.lastPos then some s!"positions changed although the call was rejected / a no-op" else none
    let model := showPosPairs (d.v.g.nodes.map fun n => (n, showGetPos d.m n))
    ({ d with implPos := ps, lastPos := impl }, verdict spec model impl)
  | ["gpx", l] =>
    (d, cmpExact (joinS ((parseNats l).map (showGetPos d.m))) impl)
  | ["at", lo, hi] =>
    let lo := lo.toNat?.getD 0
    let hi := hi.toNat?.getD 0
    let toks := if impl == "-" then [] else impl.splitOn ","
    let ans := toks.map fun t => t.toNat?
    let spec := if toks.length != hi + 1 - lo then some "malformed at answer" else judgeAt d.implPos lo ans
    let model := joinS ((List.range (hi + 1 - lo)).map fun i => showOptTok (d.m.om.atPos (lo + i)))
    (d, verdict spec model impl)
  | ["range", lo, hi] =>
    let lo := parseBnd lo
    let hi := parseBnd hi
    let model := match d.m.om.range lo hi with
      | some l => showNats l
      | none => "panic"
    let spec :=
      if rangePanics lo hi then none      -- std's BTreeMap decides (panic); exact comparison only
      else if impl == "panic" then some "range panicked on well-formed bounds"
      else expectS (showNats (rangeSpec d.implOrder d.implPos lo.loOk hi.hiOk)) impl
    (d, verdict spec model impl)
  | ["valid"] =>
    let (m', mv) := modelValid d.v d.m
    let spec := match parseValid impl with
      | none => some "is_valid_edge panicked on a pair of live nodes (or malformed answer)"
      | some l =>
        match judgeValid d.v.g l with
        | some why => some why
        | none => if d.mustSame && impl != d.lastValid then some "is_valid_edge answers changed although the call was rejected / a no-op" else none
    ({ d with m := m', lastValid := impl, mustSame := false }, verdict spec (showValid mv) impl)
  | _ => (d, s!"SPECFAIL bad request {req}")

end PetgraphModel.C14
